import Gsd.Model.Lexer
import Gsd.Model.Grammar
/-!
Helper lemmas about the lexer model (`Model/Lexer.lean`) used by C02, C03 and C05.
Core Lean only.
-/
set_option linter.unusedSimpArgs false
set_option linter.unusedVariables false
namespace Gsd.Lexer

/-! ### `Res` -/

@[simp] theorem Res.bind_ok {α β} (a : α) (f : α → Res β) : (Res.ok a).bind f = f a := rfl
@[simp] theorem Res.bind_err {α β} (e : Err) (f : α → Res β) : (Res.err e : Res α).bind f = .err e := rfl
@[simp] theorem Res.bind_panic {α β} (f : α → Res β) : (Res.panic : Res α).bind f = .panic := rfl

theorem guard_true {α} {c : Bool} (k : Res α) (h : c = true) : guard c k = k := by simp [guard, h]

theorem guard_ne_panic {α} {c : Bool} {k : Res α} (h : c = true) (hk : k ≠ .panic) : guard c k ≠ .panic := by
  simpa [guard, h] using hk

theorem Res.bind_ne_panic {α β} {x : Res α} {f : α → Res β} (hx : x ≠ .panic) (hf : ∀ a, x = .ok a → f a ≠ .panic) :
    x.bind f ≠ .panic := by
  cases x with
  | ok a => exact hf a rfl
  | err e => simp
  | panic => exact absurd rfl hx

/-! ### ghost arithmetic -/

/-- discharges the bounds conditions of the ghost cursor: unfolds the checked primitives to `Nat`
(in)equalities and calls `omega`; the argument is the `UInt32` length in play -/
syntax "ghost_omega " term : tactic
macro_rules
  | `(tactic| ghost_omega $len) => `(tactic| (
      have hlt__ := UInt32.toNat_lt $len
      simp only [sliceOk, indexOk, Ghost.at, UInt32.toNat_sub, UInt32.toNat_ofNat', UInt32.toNat_one, UInt32.toNat_add,
        UInt32.toNat_zero, Bool.and_eq_true, decide_eq_true_eq, List.length_cons, List.length_append, List.length_nil] at *
      omega))

theorem toNat_sub_one {a : UInt32} (h : 1 ≤ a.toNat) : (a - 1).toNat = a.toNat - 1 := by
  have := a.toNat_lt
  simp only [UInt32.toNat_sub, UInt32.toNat_one]; omega

/-! ### name normalisation -/

theorem normByte_58 : normByte 58 = none := by decide
theorem normByte_0 : normByte 0 = none := by decide

theorem norm_cons (b : UInt8) (t : Bytes) : norm (b :: t) = match normByte b with | some c => c :: norm t | none => norm t := by
  simp only [norm, List.filterMap_cons]
  cases normByte b <;> rfl

theorem norm_append (a b : Bytes) : norm (a ++ b) = norm a ++ norm b := by
  simp [norm, List.filterMap_append]

/-- what `lexKeySep` produces on `name ++ ':' ++ rest` when the name has neither NUL nor `:` -/
theorem keySep_append (cap : Nat) (name rest : Bytes) (h0 : (0 : UInt8) ∉ name) (hc : (58 : UInt8) ∉ name) :
    ∀ (len : UInt32) (acc : Bytes), name.length + 1 + rest.length ≤ len.toNat → len.toNat ≤ cap →
      ∃ len', keySep cap len acc (name ++ 58 :: rest) = .ok ((norm name).reverse ++ acc, len', rest)
        ∧ rest.length + 1 ≤ len'.toNat ∧ len'.toNat ≤ len.toNat := by
  induction name with
  | nil => intro len acc h1 h2; exact ⟨len, by simp [keySep, norm], by simp at h1; omega, Nat.le_refl _⟩
  | cons b t ih =>
    intro len acc h1 h2
    have hb0 : b ≠ 0 := fun h => h0 (by simp [h])
    have hb58 : b ≠ 58 := fun h => hc (by simp [h])
    have h0' : (0 : UInt8) ∉ t := fun h => h0 (List.mem_cons_of_mem _ h)
    have hc' : (58 : UInt8) ∉ t := fun h => hc (List.mem_cons_of_mem _ h)
    simp only [List.cons_append, keySep, hb0, hb58, if_false, norm_cons]
    simp only [List.length_cons, List.length_append] at h1
    cases hn : normByte b with
    | some c =>
      dsimp only
      have hrec := ih h0' hc' len (c :: acc) (by omega) h2
      obtain ⟨len', e, l1, l2⟩ := hrec
      refine ⟨len', ?_, l1, l2⟩
      have hg : indexOk (len - UInt32.ofNat (t ++ 58 :: rest).length - 1) len = true := by ghost_omega len
      rw [guard_true _ hg]
      simp only [ite_self, e, List.reverse_cons, List.append_assoc, List.singleton_append]
    | none =>
      dsimp only
      have hlen1 : (len - 1).toNat = len.toNat - 1 := toNat_sub_one (by omega)
      have hrec := ih h0' hc' (len - 1) acc (by omega) (by omega)
      obtain ⟨len', e, l1, l2⟩ := hrec
      refine ⟨len', ?_, l1, by omega⟩
      have hg : (sliceOk 0 (len - UInt32.ofNat (t ++ 58 :: rest).length - 1) cap &&
          sliceOk (len - UInt32.ofNat (t ++ 58 :: rest).length) len cap) = true := by ghost_omega len
      rw [guard_true _ hg, e]

/-- every run of `lexKeySep` (any bytes, NUL included): either `errMissingKeySep`, or the input splits
at its first `:` with a NUL-free name before it -/
theorem keySep_inv (cap : Nat) (l : Bytes) :
    ∀ (len : UInt32) (acc : Bytes), l.length ≤ len.toNat → len.toNat ≤ cap →
      keySep cap len acc l = .err .keysep ∨
      ∃ name rest len', l = name ++ 58 :: rest ∧ (0 : UInt8) ∉ name ∧ (58 : UInt8) ∉ name ∧
        keySep cap len acc l = .ok ((norm name).reverse ++ acc, len', rest) ∧
        rest.length + 1 ≤ len'.toNat ∧ len'.toNat ≤ len.toNat := by
  induction l with
  | nil => intro len acc _ _; left; rfl
  | cons b t ih =>
    intro len acc h1 h2
    simp only [List.length_cons] at h1
    by_cases hb58 : b = 58
    · subst hb58
      right
      exact ⟨[], t, len, rfl, by simp, by simp, by simp [keySep, norm], by omega, Nat.le_refl _⟩
    by_cases hb0 : b = 0
    · subst hb0; left; simp [keySep]
    simp only [keySep, hb0, hb58, if_false]
    cases hn : normByte b with
    | some c =>
      dsimp only
      have hg : indexOk (len - UInt32.ofNat t.length - 1) len = true := by ghost_omega len
      rw [guard_true _ hg, ite_self]
      rcases ih len (c :: acc) (by omega) h2 with e | ⟨name, rest, len', e1, e2, e3, e4, e5, e6⟩
      · left; exact e
      · right
        refine ⟨b :: name, rest, len', by simp [e1], ?_, ?_, ?_, e5, e6⟩
        · simp [e2, Ne.symm hb0]
        · simp [e3, Ne.symm hb58]
        · rw [e4, norm_cons, hn]; simp
    | none =>
      dsimp only
      have hlen1 : (len - 1).toNat = len.toNat - 1 := toNat_sub_one (by omega)
      have hg : (sliceOk 0 (len - UInt32.ofNat t.length - 1) cap && sliceOk (len - UInt32.ofNat t.length) len cap) = true := by
        ghost_omega len
      rw [guard_true _ hg]
      rcases ih (len - 1) acc (by omega) (by omega) with e | ⟨name, rest, len', e1, e2, e3, e4, e5, e6⟩
      · left; exact e
      · right
        refine ⟨b :: name, rest, len', by simp [e1], ?_, ?_, ?_, e5, by omega⟩
        · simp [e2, Ne.symm hb0]
        · simp [e3, Ne.symm hb58]
        · rw [e4, norm_cons, hn]

/-! ### value, type -/

theorem valueSep_append (v rest : Bytes) (h0 : (0 : UInt8) ∉ v) (hb : (124 : UInt8) ∉ v) :
    ∀ acc, valueSep acc (v ++ 124 :: rest) = .ok (acc.reverse ++ v, rest) := by
  induction v with
  | nil => intro acc; simp [valueSep]
  | cons b t ih =>
    intro acc
    have hb0 : b ≠ 0 := fun h => h0 (by simp [h])
    have hb1 : b ≠ 124 := fun h => hb (by simp [h])
    simp only [List.cons_append, valueSep, hb0, hb1, if_false]
    rw [ih (fun h => h0 (List.mem_cons_of_mem _ h)) (fun h => hb (List.mem_cons_of_mem _ h))]
    simp

theorem valueSep_inv (l : Bytes) : ∀ acc, valueSep acc l = .err .valuesep ∨
    ∃ v rest, l = v ++ 124 :: rest ∧ (0 : UInt8) ∉ v ∧ (124 : UInt8) ∉ v ∧ valueSep acc l = .ok (acc.reverse ++ v, rest) := by
  induction l with
  | nil => intro acc; left; rfl
  | cons b t ih =>
    intro acc
    by_cases h1 : b = 124
    · subst h1; right; exact ⟨[], t, rfl, by simp, by simp, by simp [valueSep]⟩
    by_cases h0 : b = 0
    · subst h0; left; simp [valueSep]
    simp only [valueSep, h1, h0, if_false]
    rcases ih (b :: acc) with e | ⟨v, rest, e1, e2, e3, e4⟩
    · left; exact e
    · right
      refine ⟨b :: v, rest, by simp [e1], by simp [e2, Ne.symm h0], by simp [e3, Ne.symm h1], ?_⟩
      rw [e4]; simp

theorem valueSep_ne_panic (l : Bytes) (acc : Bytes) : valueSep acc l ≠ .panic := by
  rcases valueSep_inv l acc with e | ⟨_, _, _, _, _, e⟩ <;> simp [e]

theorem lexType_bytes (sp : TypeSp) (rest : Bytes) : lexType (sp.bytes ++ rest) = .ok (sp.type, rest) := by
  cases sp <;> simp [TypeSp.bytes, TypeSp.type, lexType]

theorem lexType_inv {l : Bytes} {ty : MType} {r : Bytes} (h : lexType l = .ok (ty, r)) :
    ∃ sp : TypeSp, l = sp.bytes ++ r ∧ ty = sp.type := by
  cases l with
  | nil => simp [lexType] at h
  | cons b t =>
    simp only [lexType] at h
    split at h
    · next hb => simp only [Res.ok.injEq, Prod.mk.injEq] at h; exact ⟨.c, by simp [TypeSp.bytes, hb, h.2], by simp [TypeSp.type, h.1]⟩
    split at h
    · next hb => simp only [Res.ok.injEq, Prod.mk.injEq] at h; exact ⟨.g, by simp [TypeSp.bytes, hb, h.2], by simp [TypeSp.type, h.1]⟩
    split at h
    · next hb =>
      cases t with
      | nil => simp at h
      | cons b2 t2 =>
        simp only at h
        split at h
        · next hb2 => simp only [Res.ok.injEq, Prod.mk.injEq] at h; exact ⟨.ms, by simp [TypeSp.bytes, hb, hb2, h.2], by simp [TypeSp.type, h.1]⟩
        · simp at h
    split at h
    · next hb => simp only [Res.ok.injEq, Prod.mk.injEq] at h; exact ⟨.h, by simp [TypeSp.bytes, hb, h.2], by simp [TypeSp.type, h.1]⟩
    split at h
    · next hb => simp only [Res.ok.injEq, Prod.mk.injEq] at h; exact ⟨.s, by simp [TypeSp.bytes, hb, h.2], by simp [TypeSp.type, h.1]⟩
    · simp at h

theorem lexType_ne_panic (l : Bytes) : lexType l ≠ .panic := by
  cases l with
  | nil => simp [lexType]
  | cons b t =>
    simp only [lexType]
    repeat' split
    all_goals simp

/-! ### metric attributes -/

theorem applyRate_ne_panic {F} [FloatLike F] (cfg : Cfg) (pf : Bytes → Option F) (cur : Bytes) : applyRate cfg pf cur ≠ .panic := by
  unfold applyRate; repeat' split
  all_goals simp

/-- the ghost invariant of a mode when `n` bytes remain -/
def MModeOk (g : Ghost) (n : Nat) : MMode → Prop
  | .sep => True
  | .start => True
  | .rate sl _ => n ≤ sl ∧ sl ≤ g.len.toNat
  | .tag sl _ => n ≤ sl ∧ sl ≤ g.len.toNat
  | .skip sl => n ≤ sl ∧ sl ≤ g.len.toNat

theorem mattrs_ne_panic {F} [FloatLike F] (cfg : Cfg) (pf : Bytes → Option F) (g : Ghost) (hcap : g.len.toNat ≤ g.cap) (l : Bytes) :
    ∀ (mode : MMode) (r : F) (tags : List Bytes), l.length ≤ g.len.toNat → MModeOk g l.length mode →
      mattrs cfg pf g mode r tags l ≠ .panic := by
  induction l with
  | nil =>
    intro mode r tags hl hm
    cases mode with
    | sep => simp [mattrs]
    | start => simp only [mattrs]; exact guard_ne_panic (by ghost_omega g.len) (by simp)
    | rate sl cur =>
      simp only [mattrs, MModeOk] at hm ⊢
      exact guard_ne_panic (by ghost_omega g.len) (Res.bind_ne_panic (applyRate_ne_panic cfg pf cur) (by simp))
    | tag sl cur => simp only [mattrs, MModeOk] at hm ⊢; exact guard_ne_panic (by ghost_omega g.len) (by simp)
    | skip sl => simp only [mattrs, MModeOk] at hm ⊢; exact guard_ne_panic (by ghost_omega g.len) (by simp)
  | cons b t ih =>
    intro mode r tags hl hm
    simp only [List.length_cons] at hl hm
    cases mode with
    | sep =>
      simp only [mattrs]
      split
      · exact ih _ _ _ (by omega) trivial
      split <;> simp
    | start =>
      simp only [mattrs]
      split
      · exact guard_ne_panic (by ghost_omega g.len) (ih _ _ _ (by omega) ⟨Nat.le_refl _, by omega⟩)
      split
      · exact ih _ _ _ (by omega) ⟨Nat.le_refl _, by omega⟩
      · exact guard_ne_panic (by ghost_omega g.len) (ih _ _ _ (by omega) ⟨Nat.le_refl _, by omega⟩)
    | rate sl cur =>
      simp only [mattrs, MModeOk] at hm ⊢
      split
      · exact guard_ne_panic (by ghost_omega g.len)
          (Res.bind_ne_panic (applyRate_ne_panic cfg pf cur) (fun v _ => ih _ _ _ (by omega) trivial))
      · exact ih _ _ _ (by omega) ⟨by omega, hm.2⟩
    | tag sl cur =>
      simp only [mattrs, MModeOk] at hm ⊢
      split
      · exact guard_ne_panic (by ghost_omega g.len) (ih _ _ _ (by omega) ⟨Nat.le_refl _, by omega⟩)
      split
      · exact guard_ne_panic (by ghost_omega g.len) (ih _ _ _ (by omega) trivial)
      split
      · exact guard_ne_panic (by ghost_omega g.len) (ih _ _ _ (by omega) trivial)
      · exact ih _ _ _ (by omega) ⟨by omega, hm.2⟩
    | skip sl =>
      simp only [mattrs, MModeOk] at hm ⊢
      split
      · exact guard_ne_panic (by ghost_omega g.len) (ih _ _ _ (by omega) trivial)
      · exact ih _ _ _ (by omega) ⟨by omega, hm.2⟩

theorem guard_eq_ok {α} {c : Bool} {k : Res α} {a : α} (h : guard c k = .ok a) : k = .ok a := by
  unfold guard at h; split at h
  · exact h
  · simp at h

theorem Res.bind_eq_ok {α β} {x : Res α} {f : α → Res β} {b : β} (h : x.bind f = .ok b) : ∃ a, x = .ok a ∧ f a = .ok b := by
  cases x with
  | ok a => exact ⟨a, rfl, h⟩
  | err e => simp at h
  | panic => simp at h

/-- a tag as the property wants it: non-empty, no `,`, no `|` -/
def TagOk (t : Bytes) : Prop := t ≠ [] ∧ (44 : UInt8) ∉ t ∧ (124 : UInt8) ∉ t

theorem pushTag_ok {cur : Bytes} {tags : List Bytes} (hc : (44 : UInt8) ∉ cur ∧ (124 : UInt8) ∉ cur)
    (ht : ∀ t ∈ tags, TagOk t) : ∀ t ∈ pushTag cur tags, TagOk t := by
  unfold pushTag
  split
  · exact ht
  · next hne =>
    intro t htm
    rcases List.mem_cons.1 htm with rfl | h
    · exact ⟨by simpa using hne, by simpa using hc.1, by simpa using hc.2⟩
    · exact ht t h

def MCurOk : MMode → Prop
  | .tag _ cur => (44 : UInt8) ∉ cur ∧ (124 : UInt8) ∉ cur
  | _ => True

theorem applyRate_ok {F} [FloatLike F] {cfg : Cfg} {pf : Bytes → Option F} {cur : Bytes} {v : F}
    (h : applyRate cfg pf cur = .ok v) : pf cur.reverse = some v ∧ (cfg.checkRate = true → FloatLike.rateOk v = true) := by
  unfold applyRate at h
  split at h
  · simp at h
  · next v' hv =>
    split at h
    · simp at h
    · next hc =>
      simp only [Res.ok.injEq] at h; subst h
      refine ⟨hv, fun hcr => ?_⟩
      simp only [hcr, Bool.true_and, Bool.not_eq_true', Bool.not_eq_false] at hc
      cases hr : FloatLike.rateOk v' <;> simp_all

/-- whatever `lexMetricAttributes` accepts has well-formed tags, and — with the D2 repair — a finite
positive rate -/
theorem mattrs_wf {F} [FloatLike F] (cfg : Cfg) (pf : Bytes → Option F) (g : Ghost) (l : Bytes) :
    ∀ (mode : MMode) (r : F) (tags : List Bytes) (r' : F) (tags' : List Bytes),
      mattrs cfg pf g mode r tags l = .ok (r', tags') → MCurOk mode → (∀ t ∈ tags, TagOk t) →
      (cfg.checkRate = true → FloatLike.rateOk r = true) →
      (∀ t ∈ tags', TagOk t) ∧ (cfg.checkRate = true → FloatLike.rateOk r' = true) := by
  induction l with
  | nil =>
    intro mode r tags r' tags' h hc ht hr
    cases mode with
    | sep => simp only [mattrs, Res.ok.injEq, Prod.mk.injEq] at h; obtain ⟨rfl, rfl⟩ := h; exact ⟨ht, hr⟩
    | start =>
      simp only [mattrs] at h; have h := guard_eq_ok h
      simp only [Res.ok.injEq, Prod.mk.injEq] at h; obtain ⟨rfl, rfl⟩ := h; exact ⟨ht, hr⟩
    | rate sl cur =>
      simp only [mattrs] at h; have h := guard_eq_ok h
      obtain ⟨v, hv, h⟩ := Res.bind_eq_ok h
      simp only [Res.ok.injEq, Prod.mk.injEq] at h; obtain ⟨rfl, rfl⟩ := h
      exact ⟨ht, (applyRate_ok hv).2⟩
    | tag sl cur =>
      simp only [mattrs] at h; have h := guard_eq_ok h
      simp only [Res.ok.injEq, Prod.mk.injEq] at h; obtain ⟨rfl, rfl⟩ := h
      exact ⟨pushTag_ok hc ht, hr⟩
    | skip sl =>
      simp only [mattrs] at h; have h := guard_eq_ok h
      simp only [Res.ok.injEq, Prod.mk.injEq] at h; obtain ⟨rfl, rfl⟩ := h; exact ⟨ht, hr⟩
  | cons b t ih =>
    intro mode r tags r' tags' h hc ht hr
    cases mode with
    | sep =>
      simp only [mattrs] at h
      split at h
      · exact ih _ _ _ _ _ h trivial ht hr
      split at h
      · simp only [Res.ok.injEq, Prod.mk.injEq] at h; obtain ⟨rfl, rfl⟩ := h; exact ⟨ht, hr⟩
      · simp at h
    | start =>
      simp only [mattrs] at h
      split at h
      · exact ih _ _ _ _ _ (guard_eq_ok h) trivial ht hr
      split at h
      · exact ih _ _ _ _ _ h (by simp [MCurOk]) ht hr
      · exact ih _ _ _ _ _ (guard_eq_ok h) trivial ht hr
    | rate sl cur =>
      simp only [mattrs] at h
      split at h
      · obtain ⟨v, hv, h⟩ := Res.bind_eq_ok (guard_eq_ok h)
        exact ih _ _ _ _ _ h trivial ht (applyRate_ok hv).2
      · exact ih _ _ _ _ _ h trivial ht hr
    | tag sl cur =>
      simp only [mattrs] at h
      simp only [MCurOk] at hc
      split at h
      · exact ih _ _ _ _ _ (guard_eq_ok h) (by simp [MCurOk]) (pushTag_ok hc ht) hr
      split at h
      · exact ih _ _ _ _ _ (guard_eq_ok h) trivial (pushTag_ok hc ht) hr
      split at h
      · refine ih _ _ _ _ _ (guard_eq_ok h) trivial (pushTag_ok ?_ ht) hr
        simp only [List.mem_cons, not_or]
        exact ⟨⟨by decide, hc.1⟩, ⟨by decide, hc.2⟩⟩
      · next h1 h2 h3 =>
        refine ih _ _ _ _ _ h ?_ ht hr
        simp only [MCurOk, List.mem_cons, not_or]
        exact ⟨⟨fun e => h1 e.symm, hc.1⟩, ⟨fun e => h2 e.symm, hc.2⟩⟩
    | skip sl =>
      simp only [mattrs] at h
      split at h
      · exact ih _ _ _ _ _ (guard_eq_ok h) trivial ht hr
      · exact ih _ _ _ _ _ h trivial ht hr

/-! ### metric attributes on rendered fields -/

/-- what may follow a field: the end of the line or the `|` of the next field -/
def SepTail (tail : Bytes) : Prop := tail = [] ∨ ∃ m, tail = 124 :: m

theorem sepTail_renderFields (fs : List Field) (tail : Bytes) (h : SepTail tail) : SepTail (renderFields fs ++ tail) := by
  cases fs with
  | nil => simpa [renderFields] using h
  | cons f fs => right; exact ⟨_, by simp [renderFields]; rfl⟩

theorem pushTag_reverse (t : Bytes) (X : List Bytes) : pushTag t.reverse X = ([t].filter (· ≠ [])).reverse ++ X := by
  unfold pushTag
  by_cases h : t = []
  · subst h; simp
  · simp [h]

section mrun
variable {F : Type} [FloatLike F] (cfg : Cfg) (pf : Bytes → Option F) (g : Ghost) (hcap : g.len.toNat ≤ g.cap)
include hcap

theorem mattrs_rate_run (t tail : Bytes) (h : (124 : UInt8) ∉ t) (hs : SepTail tail) :
    ∀ (sl : Nat) (cur : Bytes) (r : F) (tags : List Bytes), (t ++ tail).length ≤ sl → sl ≤ g.len.toNat →
      mattrs cfg pf g (.rate sl cur) r tags (t ++ tail) =
        (applyRate cfg pf (t.reverse ++ cur)).bind (fun v => mattrs cfg pf g .sep v tags tail) := by
  induction t with
  | nil =>
    intro sl cur r tags h1 h2
    rcases hs with rfl | ⟨m, rfl⟩
    · simp only [List.append_nil, mattrs, List.reverse_nil, List.nil_append]
      rw [guard_true _ (by ghost_omega g.len)]
    · simp only [List.nil_append, mattrs, if_true, List.reverse_nil]
      rw [guard_true _ (by ghost_omega g.len)]
  | cons b t ih =>
    intro sl cur r tags h1 h2
    have hb : b ≠ 124 := fun e => h (by simp [e])
    simp only [List.cons_append, mattrs, hb, if_false]
    rw [ih (fun e => h (List.mem_cons_of_mem _ e)) sl (b :: cur) r tags (by simp only [List.length_cons, List.length_append] at h1 ⊢; omega) h2]
    simp

theorem mattrs_skip_run (t tail : Bytes) (h : (124 : UInt8) ∉ t) (hs : SepTail tail) :
    ∀ (sl : Nat) (r : F) (tags : List Bytes), (t ++ tail).length ≤ sl → sl ≤ g.len.toNat →
      mattrs cfg pf g (.skip sl) r tags (t ++ tail) = mattrs cfg pf g .sep r tags tail := by
  induction t with
  | nil =>
    intro sl r tags h1 h2
    rcases hs with rfl | ⟨m, rfl⟩
    · simp only [List.append_nil, mattrs]
      rw [guard_true _ (by ghost_omega g.len)]
    · simp only [List.nil_append, mattrs, if_true]
      rw [guard_true _ (by ghost_omega g.len)]
  | cons b t ih =>
    intro sl r tags h1 h2
    have hb : b ≠ 124 := fun e => h (by simp [e])
    simp only [List.cons_append, mattrs, hb, if_false]
    exact ih (fun e => h (List.mem_cons_of_mem _ e)) sl r tags (by simp only [List.length_cons, List.length_append] at h1 ⊢; omega) h2

omit hcap in
theorem mattrs_tag_token (t X : Bytes) (h1 : (44 : UInt8) ∉ t) (h2 : (124 : UInt8) ∉ t) (h3 : (0 : UInt8) ∉ t) :
    ∀ (sl : Nat) (cur : Bytes) (r : F) (tags : List Bytes),
      mattrs cfg pf g (.tag sl cur) r tags (t ++ X) = mattrs cfg pf g (.tag sl (t.reverse ++ cur)) r tags X := by
  induction t with
  | nil => intro sl cur r tags; simp
  | cons b t ih =>
    intro sl cur r tags
    have hb1 : b ≠ 44 := fun e => h1 (by simp [e])
    have hb2 : b ≠ 124 := fun e => h2 (by simp [e])
    have hb3 : b ≠ 0 := fun e => h3 (by simp [e])
    simp only [List.cons_append, mattrs, hb1, hb2, hb3, if_false]
    rw [ih (fun e => h1 (List.mem_cons_of_mem _ e)) (fun e => h2 (List.mem_cons_of_mem _ e)) (fun e => h3 (List.mem_cons_of_mem _ e))]
    simp

theorem mattrs_tag_end (tail : Bytes) (hs : SepTail tail) (sl : Nat) (cur : Bytes) (r : F) (tags : List Bytes)
    (h1 : tail.length ≤ sl) (h2 : sl ≤ g.len.toNat) :
    mattrs cfg pf g (.tag sl cur) r tags tail = mattrs cfg pf g .sep r (pushTag cur tags) tail := by
  rcases hs with rfl | ⟨m, rfl⟩
  · simp only [mattrs]; rw [guard_true _ (by ghost_omega g.len)]
  · have : (124 : UInt8) ≠ 44 := by decide
    simp only [mattrs, this, if_false, if_true]; rw [guard_true _ (by ghost_omega g.len)]

theorem mattrs_tags_run (tail : Bytes) (hs : SepTail tail) (ts : List Bytes)
    (hts : ∀ t ∈ ts, (44 : UInt8) ∉ t ∧ (124 : UInt8) ∉ t ∧ (0 : UInt8) ∉ t) :
    ∀ (sl : Nat) (cur : Bytes) (r : F) (tags : List Bytes), (joinTail ts ++ tail).length ≤ sl → sl ≤ g.len.toNat →
      mattrs cfg pf g (.tag sl cur) r tags (joinTail ts ++ tail) =
        mattrs cfg pf g .sep r ((ts.filter (· ≠ [])).reverse ++ pushTag cur tags) tail := by
  induction ts with
  | nil => intro sl cur r tags h1 h2; simpa [joinTail] using mattrs_tag_end cfg pf g hcap tail hs sl cur r tags (by simpa [joinTail] using h1) h2
  | cons t ts ih =>
    intro sl cur r tags h1 h2
    have ht := hts t (by simp)
    have e : joinTail (t :: ts) ++ tail = 44 :: (t ++ (joinTail ts ++ tail)) := by simp [joinTail]
    rw [e] at h1 ⊢
    simp only [mattrs, if_true]
    rw [guard_true _ (by ghost_omega g.len)]
    rw [mattrs_tag_token cfg pf g t _ ht.1 ht.2.1 ht.2.2]
    rw [ih (fun t' h' => hts t' (List.mem_cons_of_mem _ h')) _ _ _ _ (by simp only [List.length_cons, List.length_append] at h1 ⊢; omega) (by simp only [List.length_cons, List.length_append] at h1 ⊢; omega)]
    rw [List.append_nil, pushTag_reverse]
    congr 1
    simp only [List.filter_cons]
    split <;> simp <;> done

/-- the sample rate after one field -/
def Field.rateAfter (pf : Bytes → Option F) (r : F) : Field → F
  | .rate t => (pf t).getD r
  | _ => r

/-- tags of one field -/
def Field.tagList : Field → List Bytes
  | .tags ts => ts.filter (· ≠ [])
  | _ => []

theorem mattrs_field_run (f : Field) (hf : f.WF cfg pf) (tail : Bytes) (hs : SepTail tail) (r : F) (tags : List Bytes)
    (h1 : (f.render ++ tail).length ≤ g.len.toNat) :
    mattrs cfg pf g .start r tags (f.render ++ tail) = mattrs cfg pf g .sep (f.rateAfter pf r) (f.tagList.reverse ++ tags) tail := by
  cases f with
  | rate t =>
    obtain ⟨h124, v, hv, hok⟩ := hf
    simp only [Field.render, List.cons_append, List.length_cons] at h1 ⊢
    simp only [mattrs, if_true]
    rw [guard_true _ (by ghost_omega g.len)]
    rw [mattrs_rate_run cfg pf g hcap t tail h124 hs _ _ _ _ (Nat.le_refl _) (by omega)]
    have : applyRate cfg pf (t.reverse ++ []) = .ok v := by
      simp only [applyRate, List.append_nil, List.reverse_reverse, hv]
      cases hc : cfg.checkRate
      · simp
      · simp [hok hc]
    rw [this]
    simp [Field.rateAfter, Field.tagList, hv]
  | tags ts =>
    simp only [Field.render, List.cons_append, List.length_cons] at h1 ⊢
    have e35 : (35 : UInt8) ≠ 64 := by decide
    simp only [mattrs, e35, if_false, if_true]
    cases ts with
    | nil =>
      simp only [joinComma, List.nil_append] at h1 ⊢
      rw [mattrs_tag_end cfg pf g hcap tail hs _ _ _ _ (Nat.le_refl _) (by omega)]
      simp [pushTag, Field.rateAfter, Field.tagList]
    | cons t ts =>
      have ht := hf t (by simp)
      simp only [joinComma, List.append_assoc] at h1 ⊢
      rw [mattrs_tag_token cfg pf g t _ ht.1 ht.2.1 ht.2.2]
      rw [mattrs_tags_run cfg pf g hcap tail hs ts (fun t' h' => hf t' (List.mem_cons_of_mem _ h')) _ _ _ _
        (by simp only [List.length_cons, List.length_append] at h1 ⊢; omega) (by simp only [List.length_cons, List.length_append] at h1 ⊢; omega)]
      rw [List.append_nil, pushTag_reverse]
      simp only [Field.rateAfter, Field.tagList, List.filter_cons]
      split <;> simp
  | other t =>
    obtain ⟨h124, b, r0, rfl, hb1, hb2⟩ := hf
    simp only [Field.render, List.cons_append, List.length_cons] at h1 ⊢
    simp only [mattrs, hb1, hb2, if_false]
    rw [guard_true _ (by ghost_omega g.len)]
    rw [mattrs_skip_run cfg pf g hcap r0 tail (fun e => h124 (List.mem_cons_of_mem _ e)) hs _ _ _ (Nat.le_refl _) (by omega)]
    simp [Field.rateAfter, Field.tagList]

omit [FloatLike F] hcap in
theorem specRate_cons (f : Field) (fs : List Field) (r : F) : specRate pf (f :: fs) r = specRate pf fs (f.rateAfter pf r) := by
  cases f <;> simp [specRate, Field.rateAfter]

omit hcap in
theorem specTags_cons (f : Field) (fs : List Field) : specTags (f :: fs) = f.tagList ++ specTags fs := by
  cases f <;> simp [specTags, Field.tagList]

/-- **the attribute loop on rendered well-formed fields**: it ends in the state the grammar specifies -/
theorem mattrs_fields_run (fs : List Field) (hfs : ∀ f ∈ fs, f.WF cfg pf) (tail : Bytes) (hs : SepTail tail) :
    ∀ (r : F) (tags : List Bytes), (renderFields fs ++ tail).length ≤ g.len.toNat →
      mattrs cfg pf g .sep r tags (renderFields fs ++ tail) =
        mattrs cfg pf g .sep (specRate pf fs r) ((specTags fs).reverse ++ tags) tail := by
  induction fs with
  | nil => intro r tags _; simp [renderFields, specRate, specTags]
  | cons f fs ih =>
    intro r tags h1
    have e : renderFields (f :: fs) ++ tail = 124 :: (f.render ++ (renderFields fs ++ tail)) := by simp [renderFields]
    rw [e] at h1 ⊢
    simp only [mattrs, if_true]
    rw [mattrs_field_run cfg pf g hcap f (hfs f (by simp)) _ (sepTail_renderFields fs tail hs) r tags (by simp only [List.length_cons, List.length_append] at h1 ⊢; omega)]
    rw [ih (fun f' h' => hfs f' (List.mem_cons_of_mem _ h')) _ _ (by simp only [List.length_cons, List.length_append] at h1 ⊢; omega)]
    rw [specRate_cons, specTags_cons]
    simp

end mrun

/-! ### the metric chain as a whole -/

theorem append_cons_unique {c : UInt8} {a a' b b' : Bytes} (h : a ++ c :: b = a' ++ c :: b') (h1 : c ∉ a) (h2 : c ∉ a') :
    a = a' ∧ b = b' := by
  induction a generalizing a' with
  | nil =>
    cases a' with
    | nil => simpa using h
    | cons x t => simp at h; exact absurd (by simp [h.1]) h2
  | cons x t ih =>
    cases a' with
    | nil => simp at h; exact absurd (by simp [h.1]) h1
    | cons y t' =>
      simp only [List.cons_append, List.cons.injEq] at h
      obtain ⟨e1, e2⟩ := ih h.2 (fun m => h1 (List.mem_cons_of_mem _ m)) (fun m => h2 (List.mem_cons_of_mem _ m))
      exact ⟨by rw [h.1, e1], e2⟩

/-- the continuation of the metric chain after the value: type, attributes, assembling -/
def metricTail {F : Type} [FloatLike F] (cfg : Cfg) (pf : Bytes → Option F) (ns : Bytes) (g : Ghost) (raw v r2 : Bytes) :
    Res (Bytes × MType × Bytes × F × List Bytes) :=
  (lexType r2).bind fun (ty, r3) =>
    (mattrs cfg pf g .sep FloatLike.one [] r3).bind fun (rate, tagsRev) =>
      .ok (withNs ns (norm raw), ty, v, rate, tagsRev.reverse)

/-- forward reading: a line that has a name part without `:`/NUL and a value part without `|`/NUL -/
theorem metricLine_fwd {F : Type} [FloatLike F] (cfg : Cfg) (pf : Bytes → Option F) (ns : Bytes) (cap : Nat) (len : UInt32)
    (raw v r2 : Bytes) (h0 : (0 : UInt8) ∉ raw) (hc : (58 : UInt8) ∉ raw) (hv0 : (0 : UInt8) ∉ v) (hvb : (124 : UInt8) ∉ v)
    (hl : (raw ++ 58 :: (v ++ 124 :: r2)).length ≤ len.toNat) (hcap : len.toNat ≤ cap) :
    ∃ len' : UInt32, r2.length ≤ len'.toNat ∧ len'.toNat ≤ cap ∧
      metricLine cfg pf ns cap len (raw ++ 58 :: (v ++ 124 :: r2)) =
        if norm raw = [] then .err .emptyKey else metricTail cfg pf ns ⟨len', cap⟩ raw v r2 := by
  simp only [List.length_append, List.length_cons] at hl
  obtain ⟨len', e, l1, l2⟩ := keySep_append cap raw (v ++ 124 :: r2) h0 hc len [] (by simp only [List.length_append, List.length_cons]; omega) hcap
  simp only [List.length_append, List.length_cons] at l1
  refine ⟨len', by omega, by omega, ?_⟩
  unfold metricLine
  rw [e]
  simp only [Res.bind_ok, List.append_nil, List.reverse_eq_nil_iff, List.reverse_reverse]
  split
  · rfl
  · rw [guard_true _ (by ghost_omega len')]
    rw [valueSep_append v r2 hv0 hvb]
    simp only [Res.bind_ok, List.reverse_nil, List.nil_append]
    rw [guard_true _ (by ghost_omega len')]
    rfl

/-- every run of the metric chain, on any bytes -/
theorem metricLine_cases {F : Type} [FloatLike F] (cfg : Cfg) (pf : Bytes → Option F) (ns : Bytes) (cap : Nat) (len : UInt32)
    (input : Bytes) (hl : input.length ≤ len.toNat) (hcap : len.toNat ≤ cap) :
    metricLine cfg pf ns cap len input = .err .keysep ∨
    ∃ raw r1, input = raw ++ 58 :: r1 ∧ (0 : UInt8) ∉ raw ∧ (58 : UInt8) ∉ raw ∧
      ((norm raw = [] ∧ metricLine cfg pf ns cap len input = .err .emptyKey) ∨
       (norm raw ≠ [] ∧ metricLine cfg pf ns cap len input = .err .valuesep) ∨
       (norm raw ≠ [] ∧ ∃ v r2 len', r1 = v ++ 124 :: r2 ∧ (0 : UInt8) ∉ v ∧ (124 : UInt8) ∉ v ∧
          r2.length ≤ len'.toNat ∧ len'.toNat ≤ cap ∧
          metricLine cfg pf ns cap len input = metricTail cfg pf ns ⟨len', cap⟩ raw v r2)) := by
  rcases keySep_inv cap input len [] hl hcap with e | ⟨raw, r1, len', e1, e2, e3, e4, e5, e6⟩
  · left; unfold metricLine; rw [e]; rfl
  · right
    refine ⟨raw, r1, e1, e2, e3, ?_⟩
    by_cases hn : norm raw = []
    · left; refine ⟨hn, ?_⟩
      unfold metricLine; rw [e4]; simp [hn]
    · right
      rcases valueSep_inv r1 [] with ev | ⟨v, r2, ev1, ev2, ev3, ev4⟩
      · left; refine ⟨hn, ?_⟩
        unfold metricLine; rw [e4]
        simp only [Res.bind_ok, List.append_nil, List.reverse_eq_nil_iff, hn, if_false]
        rw [guard_true _ (by ghost_omega len'), ev]; rfl
      · right; refine ⟨hn, v, r2, len', ev1, ev2, ev3, ?_, by omega, ?_⟩
        · subst ev1; simp only [List.length_append, List.length_cons] at e5; omega
        · subst ev1
          simp only [List.length_append, List.length_cons] at e5
          unfold metricLine; rw [e4]
          simp only [Res.bind_ok, List.append_nil, List.reverse_eq_nil_iff, hn, if_false, List.reverse_reverse]
          rw [guard_true _ (by ghost_omega len'), ev4]
          simp only [Res.bind_ok, List.reverse_nil, List.nil_append]
          rw [guard_true _ (by ghost_omega len')]
          rfl

theorem metricTail_ne_panic {F : Type} [FloatLike F] (cfg : Cfg) (pf : Bytes → Option F) (ns : Bytes) (g : Ghost)
    (raw v r2 : Bytes) (h1 : r2.length ≤ g.len.toNat) (h2 : g.len.toNat ≤ g.cap) : metricTail cfg pf ns g raw v r2 ≠ .panic := by
  unfold metricTail
  refine Res.bind_ne_panic (lexType_ne_panic _) (fun ⟨ty, r3⟩ h => ?_)
  obtain ⟨sp, e, _⟩ := lexType_inv h
  refine Res.bind_ne_panic (mattrs_ne_panic cfg pf g h2 r3 _ _ _ ?_ trivial) (fun _ _ => by simp)
  subst e; simp only [List.length_append] at h1; omega

theorem metricLine_ne_panic {F : Type} [FloatLike F] (cfg : Cfg) (pf : Bytes → Option F) (ns : Bytes) (cap : Nat) (len : UInt32)
    (input : Bytes) (hl : input.length ≤ len.toNat) (hcap : len.toNat ≤ cap) : metricLine cfg pf ns cap len input ≠ .panic := by
  rcases metricLine_cases cfg pf ns cap len input hl hcap with e | ⟨raw, r1, _, _, _, ⟨_, e⟩ | ⟨_, e⟩ | ⟨_, v, r2, len', _, _, _, h1, h2, e⟩⟩
  · simp [e]
  · simp [e]
  · simp [e]
  · rw [e]; exact metricTail_ne_panic cfg pf ns ⟨len', cap⟩ raw v r2 h1 h2

theorem metricLine_emptyKey {F : Type} [FloatLike F] (cfg : Cfg) (pf : Bytes → Option F) (ns : Bytes) (cap : Nat) (len : UInt32)
    (raw r1 : Bytes) (h0 : (0 : UInt8) ∉ raw) (hc : (58 : UInt8) ∉ raw) (hn : norm raw = [])
    (hl : (raw ++ 58 :: r1).length ≤ len.toNat) (hcap : len.toNat ≤ cap) :
    metricLine cfg pf ns cap len (raw ++ 58 :: r1) = .err .emptyKey := by
  simp only [List.length_append, List.length_cons] at hl
  obtain ⟨len', e, _, _⟩ := keySep_append cap raw r1 h0 hc len [] (by omega) hcap
  unfold metricLine
  rw [e]; simp [hn]

theorem lexType_cases (l : Bytes) : (∃ ty r, lexType l = .ok (ty, r)) ∨ lexType l = .err .type := by
  cases l with
  | nil => right; rfl
  | cons b t =>
    simp only [lexType]
    repeat' split
    all_goals first | (left; exact ⟨_, _, rfl⟩) | (right; rfl)

end Gsd.Lexer
