import Gsd.Model.Forward
import Gsd.Proofs.Lemmas.MetricMap
/-! Helper lemmas for C14: re-nesting a flat map by name and flattening it again (core-only). -/
set_option linter.unusedSimpArgs false
set_option linter.unusedSectionVars false
namespace Gsd
open AList

section append
variable {κ ν : Type} [DecidableEq κ]

theorem lookup_append (k : κ) (a b : AList κ ν) :
    lookup k (a ++ b) = match lookup k a with | some v => some v | none => lookup k b := by
  induction a with
  | nil => simp
  | cons e t ih =>
    obtain ⟨k', v⟩ := e
    simp only [List.cons_append, lookup_cons]
    by_cases h : k' = k
    · simp [h]
    · simp [h, ih]

theorem keys_append (a b : AList κ ν) : keys (a ++ b) = keys a ++ keys b := by simp [keys]

end append

section nesting
variable {ν μ : Type}

/-- the rows one outer entry contributes -/
theorem lookup_row (g : μ → ν) (n0 n tk : String) (tm : AList String μ) :
    lookup (n, tk) (tm.map (fun r => (((n0, r.1) : Key), g r.2))) = if n0 = n then (lookup tk tm).map g else none := by
  induction tm with
  | nil => simp
  | cons e t ih =>
    obtain ⟨tk', v⟩ := e
    simp only [List.map_cons, lookup_cons, ih]
    by_cases h1 : n0 = n
    · subst h1
      by_cases h2 : tk' = tk
      · subst h2; simp
      · have : ¬ ((n0, tk') : Key) = (n0, tk) := by simp [h2]
        simp [this, h2]
    · have : ¬ ((n0, tk') : Key) = (n, tk) := by simp [h1]
      simp [this, h1]

theorem lookup_unnest (g : μ → ν) (p : Nested μ) (hp : NodupKeys p) (n tk : String) :
    lookup (n, tk) (unnest g p) = (Nested.lookup2 n tk p).map g := by
  induction p with
  | nil => simp [unnest, Nested.lookup2]
  | cons e t ih =>
    obtain ⟨n0, tm⟩ := e
    simp only [NodupKeys, keys, List.map_cons, List.nodup_cons] at hp
    have iht := ih hp.2
    have hcons : unnest g ((n0, tm) :: t) = tm.map (fun r => (((n0, r.1) : Key), g r.2)) ++ unnest g t := by
      simp [unnest]
    rw [hcons, lookup_append, lookup_row, iht]
    simp only [Nested.lookup2, lookup_cons]
    by_cases h : n0 = n
    · subst h
      have hnone : lookup n0 t = none := lookup_eq_none_of_not_mem_keys hp.1
      simp only [if_true, hnone, Option.bind_some, Option.bind_none, Option.map_none]
      cases lookup tk tm <;> simp
    · simp [h]

theorem keys_unnest (g : μ → ν) (p : Nested μ) :
    keys (unnest g p) = p.flatMap (fun e => (keys e.2).map (fun tk => ((e.1, tk) : Key))) := by
  induction p with
  | nil => simp [unnest, keys]
  | cons e t ih =>
    have hcons : unnest g (e :: t) = e.2.map (fun r => (((e.1, r.1) : Key), g r.2)) ++ unnest g t := by
      simp [unnest]
    rw [hcons, keys_append, ih]
    simp [keys, List.map_map, Function.comp_def]

theorem nodupKeys_unnest (g : μ → ν) (p : Nested μ) (hp : Nested.WF p) : NodupKeys (unnest g p) := by
  obtain ⟨ho, hi⟩ := hp
  unfold NodupKeys
  rw [keys_unnest]
  induction p with
  | nil => simp
  | cons e t ih =>
    simp only [NodupKeys, keys, List.map_cons, List.nodup_cons] at ho
    simp only [List.flatMap_cons]
    refine List.nodup_append.mpr ⟨?_, ih ho.2 (fun x hx => hi x (List.mem_cons_of_mem _ hx)), ?_⟩
    · have := hi e List.mem_cons_self
      exact List.Pairwise.map _ (fun a b hab hc => hab (by simpa using hc)) this
    · intro a ha b hb hab
      subst hab
      simp only [List.mem_map] at ha
      obtain ⟨tk, _, rfl⟩ := ha
      simp only [List.mem_flatMap, List.mem_map] at hb
      obtain ⟨e', he', tk', _, heq⟩ := hb
      simp only [Prod.mk.injEq] at heq
      apply ho.1
      simp only [keys] at *
      exact List.mem_map.mpr ⟨e', he', heq.1⟩

/-- one step of `nest` -/
def nestStep (f : ν → μ) (acc : Nested μ) (e : Key × ν) : Nested μ :=
  AList.upsert e.1.1 (fun o => AList.upsert e.1.2 (fun _ => f e.2) (o.getD [])) acc

theorem nest_eq_foldl (f : ν → μ) (m : AList Key ν) : nest f m = m.foldl (nestStep f) [] := rfl

theorem lookup2_nestStep (f : ν → μ) (acc : Nested μ) (e : Key × ν) (n tk : String) :
    Nested.lookup2 n tk (nestStep f acc e) = if e.1 = (n, tk) then some (f e.2) else Nested.lookup2 n tk acc := by
  obtain ⟨⟨n0, tk0⟩, v⟩ := e
  simp only [nestStep, Nested.lookup2, lookup_upsert]
  by_cases h1 : n0 = n
  · subst h1
    simp only [if_true, Option.bind_some, lookup_upsert]
    by_cases h2 : tk0 = tk
    · subst h2; simp
    · have : ¬ ((n0, tk0) : Key) = (n0, tk) := by simp [h2]
      simp only [h2, this, if_false]
      cases lookup n0 acc <;> simp
  · have : ¬ ((n0, tk0) : Key) = (n, tk) := by simp [h1]
    simp [h1, this]

theorem lookup2_foldl_nest (f : ν → μ) (m : AList Key ν) (hm : NodupKeys m) (acc : Nested μ) (n tk : String) :
    Nested.lookup2 n tk (m.foldl (nestStep f) acc) =
      match lookup (n, tk) m with | some v => some (f v) | none => Nested.lookup2 n tk acc := by
  induction m generalizing acc with
  | nil => simp
  | cons e t ih =>
    obtain ⟨k0, v0⟩ := e
    simp only [NodupKeys, keys, List.map_cons, List.nodup_cons] at hm
    simp only [List.foldl_cons, ih hm.2, lookup2_nestStep, lookup_cons]
    by_cases h : k0 = (n, tk)
    · subst h
      have hnone : lookup (n, tk) t = none := lookup_eq_none_of_not_mem_keys hm.1
      simp [hnone]
    · simp [h]

theorem lookup2_nest (f : ν → μ) (m : AList Key ν) (hm : NodupKeys m) (n tk : String) :
    Nested.lookup2 n tk (nest f m) = (lookup (n, tk) m).map f := by
  rw [nest_eq_foldl, lookup2_foldl_nest f m hm]
  cases lookup (n, tk) m <;> simp [Nested.lookup2]

theorem wf_nestStep (f : ν → μ) (acc : Nested μ) (e : Key × ν) (h : Nested.WF acc) : Nested.WF (nestStep f acc e) := by
  obtain ⟨ho, hi⟩ := h
  refine ⟨nodupKeys_upsert _ _ ho, ?_⟩
  intro x hx
  obtain ⟨n, tm⟩ := x
  have hl : lookup n (nestStep f acc e) = some tm := lookup_of_mem_nodup (nodupKeys_upsert _ _ ho) hx
  simp only [nestStep, lookup_upsert] at hl
  by_cases h1 : e.1.1 = n
  · simp only [h1, if_true, Option.some.injEq] at hl
    subst hl
    apply nodupKeys_upsert
    cases hq : lookup n acc with
    | none => simp [NodupKeys, keys]
    | some w => exact hi (n, w) (mem_of_lookup_some hq)
  · simp only [h1, if_false] at hl
    exact hi (n, tm) (mem_of_lookup_some hl)

theorem wf_nest (f : ν → μ) (m : AList Key ν) : Nested.WF (nest f m) := by
  rw [nest_eq_foldl]
  have : ∀ acc : Nested μ, Nested.WF acc → Nested.WF (m.foldl (nestStep f) acc) := by
    induction m with
    | nil => intro acc h; simpa using h
    | cons e t ih => intro acc h; exact ih _ (wf_nestStep f acc e h)
  exact this [] ⟨by simp [NodupKeys, keys], by simp⟩

/-- the round trip of one typed sub-map -/
theorem lookup_unnest_nest (f : ν → μ) (g : μ → ν) (m : AList Key ν) (hm : NodupKeys m) (k : Key) :
    lookup k (unnest g (nest f m)) = (lookup k m).map (fun v => g (f v)) := by
  obtain ⟨n, tk⟩ := k
  rw [lookup_unnest g _ (wf_nest f m).1, lookup2_nest f m hm]
  cases lookup (n, tk) m <;> simp

end nesting

theorem setUnion_nil_of_nodup (l : List String) (h : l.Nodup) : setUnion [] l = l := by
  have gen : ∀ (a l : List String), (a ++ l).Nodup → setUnion a l = a ++ l := by
    intro a l
    induction l generalizing a with
    | nil => simp [setUnion]
    | cons v t ih =>
      intro hn
      have hv : v ∉ a := by
        intro hmem
        have := (List.nodup_append.mp hn).2.2 v hmem v (by simp)
        exact this rfl
      have e : setUnion a (v :: t) = setUnion (a ++ [v]) t := by simp [setUnion, hv]
      rw [e, ih (a ++ [v]) (by simpa [List.append_assoc] using hn)]
      simp [List.append_assoc]
  simpa using gen [] l (by simpa using h)

end Gsd
