import Gsd.Proofs.Lemmas.Relay
/-! Lemmas for the relay's event round trip. -/
set_option linter.unusedSimpArgs false
set_option linter.unusedVariables false
namespace Gsd.Backends

/-- formatter hypothesis on `strconv.Itoa`: a non-empty string of decimal digits that `lexUint` reads back -/
structure DecAt (dec : Nat → Line) (n : Nat) : Prop where
  ne : dec n ≠ []
  digits : ∀ ch ∈ dec n, ch.isDigit = true
  val : digitsVal (dec n) 0 = n

def DecOK (dec : Nat → Line) : Prop := ∀ n, DecAt dec n

theorem spanDigits_append (d rest : Line) (hd : ∀ ch ∈ d, ch.isDigit = true)
    (hr : ∀ ch, rest.head? = some ch → ch.isDigit = false) : spanDigits (d ++ rest) = (d, rest) := by
  induction d with
  | nil =>
    cases rest with
    | nil => rfl
    | cons ch t => simp [spanDigits, hr ch (by simp)]
  | cons ch t ih =>
    simp [spanDigits, hd ch (by simp), ih (fun c hc => hd c (by simp [hc]))]

theorem lexNat_dec (dec : Nat → Line) (n : Nat) (h : DecAt dec n) (rest : Line)
    (hr : ∀ ch, rest.head? = some ch → ch.isDigit = false) : lexNat (dec n ++ rest) = some (n, rest) := by
  unfold lexNat
  rw [spanDigits_append _ _ h.digits hr]
  simp [h.ne, h.val]

theorem splitBar_field (f cur rest : Line) (h : ∀ ch ∈ f, ch ≠ '|') :
    splitBar cur (f ++ rest) = splitBar (f.reverse ++ cur) rest := by
  induction f generalizing cur with
  | nil => simp
  | cons ch t ih =>
    have := h ch (by simp)
    simp only [List.cons_append, splitBar, this, if_false]
    rw [ih (ch :: cur) (fun c hc => h c (by simp [hc]))]
    simp

/-- splitting `f₀|f₁|…|fₙ` at the bars gives the sections back -/
theorem splitBar_fields (f : Line) (fs : List Line) (hf : ∀ ch ∈ f, ch ≠ '|') (hfs : ∀ g ∈ fs, ∀ ch ∈ g, ch ≠ '|') :
    splitBar [] (f ++ fs.flatMap (fun g => '|' :: g)) = f :: fs := by
  induction fs generalizing f with
  | nil =>
    have := splitBar_field f [] [] hf
    simp only [List.append_nil] at this
    simp [this, splitBar]
  | cons g gs ih =>
    rw [splitBar_field f [] _ hf]
    simp only [List.flatMap_cons, List.cons_append, splitBar, if_true, List.append_nil, List.reverse_reverse]
    rw [ih g (hfs g (by simp)) (fun x hx => hfs x (by simp [hx]))]

/-- `NoBSN t`: the text has no literal backslash-n pair -/
def NoBSN : Line → Prop
  | [] => True
  | [_] => True
  | a :: b :: t => ¬ (a = '\\' ∧ b = 'n') ∧ NoBSN (b :: t)

theorem head_escNL (t : Line) : (escNL t).head? = t.head?.map (fun ch => if ch = '\n' then '\\' else ch) := by
  cases t with
  | nil => rfl
  | cons a r => by_cases e : a = '\n' <;> simp [escNL, e]

theorem unescNL_escNL (t : Line) (h : NoBSN t) : unescNL (escNL t) = t := by
  induction t with
  | nil => rfl
  | cons a r ih =>
    have ihr : unescNL (escNL r) = r := by
      apply ih
      cases r with
      | nil => trivial
      | cons b t => exact h.2
    by_cases e : a = '\n'
    · subst e
      simp only [escNL, if_true]
      rw [unescNL]
      simp [ihr]
    · simp only [escNL, e, if_false]
      cases hr : escNL r with
      | nil =>
        have : r = [] := by
          cases r with
          | nil => rfl
          | cons b t => by_cases eb : b = '\n' <;> simp [escNL, eb] at hr
        subst this; simp [unescNL]
      | cons b' tl =>
        have hne : ¬ (a = '\\' ∧ b' = 'n') := by
          rintro ⟨ha, hb⟩
          cases r with
          | nil => simp [escNL] at hr
          | cons b t =>
            have hh := head_escNL (b :: t)
            rw [hr] at hh
            simp only [List.head?_cons, Option.map_some, Option.some.injEq] at hh
            by_cases eb : b = '\n'
            · simp [eb] at hh; rw [hh] at hb; exact absurd hb (by decide)
            · simp [eb] at hh
              exact h.1 ⟨ha, by rw [← hh]; exact hb⟩
        rw [unescNL]
        simp only [hne, if_false]
        rw [← hr, ihr]

end Gsd.Backends

namespace Gsd.Backends
set_option linter.unusedSimpArgs false
set_option linter.unusedVariables false

theorem evFields_append (a b : List Line) (st : Event × Bool) :
    evFields (a ++ b) st = (evFields a st).bind (evFields b) := by
  induction a generalizing st with
  | nil => simp [evFields]
  | cons f fs ih =>
    simp only [List.cons_append, evFields]
    cases evField st f with
    | none => simp
    | some st' => simp [ih]

theorem all_digits (l : Line) (h : ∀ ch ∈ l, ch.isDigit = true) : l.all Char.isDigit = true := by
  simpa [List.all_eq_true] using h

theorem step_date (dec : Nat → Line) (st : Event) (n : Nat) (hd : DecAt dec n) (h0 : st.date = 0) :
    evFields (if n ≠ 0 then ['d' :: ':' :: dec n] else []) (st, false) = some ({ st with date := n }, false) := by
  by_cases e : n = 0
  · subst e; cases st; simp_all [evFields]
  · simp [e, evFields, evField, hd.ne, all_digits _ hd.digits, hd.val]

theorem step_host (st : Event) (v : Line) (h0 : st.host = []) :
    evFields (if v ≠ [] then ['h' :: ':' :: v] else []) (st, false) = some ({ st with host := v }, false) := by
  by_cases e : v = []
  · subst e; cases st; simp_all [evFields]
  · simp [e, evFields, evField]

theorem step_agg (st : Event) (v : Line) (h0 : st.aggKey = []) :
    evFields (if v ≠ [] then ['k' :: ':' :: v] else []) (st, false) = some ({ st with aggKey := v }, false) := by
  by_cases e : v = []
  · subst e; cases st; simp_all [evFields]
  · simp [e, evFields, evField]

theorem step_src (st : Event) (v : Line) (h0 : st.srcType = []) :
    evFields (if v ≠ [] then ['s' :: ':' :: v] else []) (st, false) = some ({ st with srcType := v }, false) := by
  by_cases e : v = []
  · subst e; cases st; simp_all [evFields]
  · simp [e, evFields, evField]

theorem step_pri (st : Event) (p : Nat) (hp : p ≤ 1) (h0 : st.pri = 0) :
    evFields (if p ≠ 0 then ['p' :: ':' :: priText p] else []) (st, false) = some ({ st with pri := p }, false) := by
  have : p = 0 ∨ p = 1 := by omega
  rcases this with rfl | rfl
  · cases st; simp_all [evFields]
  · simp [evFields, evField, priText]

theorem step_alert (st : Event) (a : Nat) (ha : a ≤ 3) (h0 : st.alert = 0) :
    evFields (if a ≠ 0 then ['t' :: ':' :: alertText a] else []) (st, false) = some ({ st with alert := a }, false) := by
  have : a = 0 ∨ a = 1 ∨ a = 2 ∨ a = 3 := by omega
  rcases this with rfl | rfl | rfl | rfl
  · cases st; simp_all [evFields]
  · simp [evFields, evField, alertText]
  · simp [evFields, evField, alertText]
  · simp [evFields, evField, alertText]

theorem filter_ne_nil_self (tags : List Line) (h : ∀ a ∈ tags, a ≠ []) : tags.filter (fun a => a ≠ []) = tags := by
  rw [List.filter_eq_self]
  intro a ha
  simpa using h a ha

theorem step_tags (st : Event) (tags : List Line) (hns : ∀ a ∈ tags, NoSep a) (hne : ∀ a ∈ tags, a ≠ []) (h0 : st.tags = []) :
    evFields (if tags ≠ [] then ['#' :: joinCommaL tags] else []) (st, false) = some ({ st with tags := tags }, false) := by
  by_cases e : tags = []
  · subst e; cases st; simp_all [evFields]
  · simp [e, evFields, evField, lexTags_join_end tags hns, filter_ne_nil_self tags hne, h0]
    exact hne

/-- the hypotheses of the event round trip -/
structure EventOK (e : Event) : Prop where
  text : NoBSN e.text
  host : ∀ ch ∈ e.host, ch ≠ '|'
  agg : ∀ ch ∈ e.aggKey, ch ≠ '|'
  src : ∀ ch ∈ e.srcType, ch ≠ '|'
  pri : e.pri ≤ 1
  alert : e.alert ≤ 3
  tags_sep : ∀ a ∈ e.tags, NoSep a
  tags_ne : ∀ a ∈ e.tags, a ≠ []

theorem evFields_eventFields (dec : Nat → Line) (e : Event) (hd : DecAt dec e.date) (h : EventOK e) :
    evFields (eventFields dec e) ({ title := e.title, text := e.text }, false) = some (e, false) := by
  unfold eventFields
  simp only [evFields_append]
  rw [step_date dec _ e.date hd rfl]
  simp only [Option.bind_some]
  rw [step_host _ e.host rfl]
  simp only [Option.bind_some]
  rw [step_agg _ e.aggKey rfl]
  simp only [Option.bind_some]
  rw [step_src _ e.srcType rfl]
  simp only [Option.bind_some]
  rw [step_pri _ e.pri h.pri rfl]
  simp only [Option.bind_some]
  rw [step_alert _ e.alert h.alert rfl]
  simp only [Option.bind_some]
  rw [step_tags _ e.tags h.tags_sep h.tags_ne rfl]

theorem eventFields_noBar (dec : Nat → Line) (e : Event) (hd : DecAt dec e.date) (h : EventOK e) :
    ∀ g ∈ eventFields dec e, ∀ ch ∈ g, ch ≠ '|' := by
  have hdig : ∀ ch ∈ dec e.date, ch ≠ '|' := by
    intro ch hch e'
    have := hd.digits ch hch
    subst e'; revert this; decide
  have hjoin : ∀ (tags : List Line), (∀ a ∈ tags, NoSep a) → ∀ ch ∈ joinCommaL tags, ch ≠ '|' := by
    intro tags
    induction tags with
    | nil => intro _ ch hch; simp [joinCommaL] at hch
    | cons a t ih =>
      intro hs ch hch
      cases t with
      | nil => simp only [joinCommaL] at hch; exact (hs a (by simp) ch hch).2
      | cons b t' =>
        simp only [joinCommaL, List.mem_append, List.mem_cons] at hch
        rcases hch with hch | rfl | hch
        · exact (hs a (by simp) ch hch).2
        · decide
        · exact ih (fun x hx => hs x (by simp [hx])) ch hch
  intro g hg ch hch
  unfold eventFields at hg
  simp only [List.mem_append] at hg
  rcases hg with (((((hg | hg) | hg) | hg) | hg) | hg) | hg <;> split at hg <;> simp at hg <;> subst hg <;>
    simp only [List.mem_cons] at hch
  · rcases hch with rfl | rfl | hch
    · decide
    · decide
    · exact hdig ch hch
  · rcases hch with rfl | rfl | hch
    · decide
    · decide
    · exact h.host ch hch
  · rcases hch with rfl | rfl | hch
    · decide
    · decide
    · exact h.agg ch hch
  · rcases hch with rfl | rfl | hch
    · decide
    · decide
    · exact h.src ch hch
  · rcases hch with rfl | rfl | hch
    · decide
    · decide
    · have : e.pri = 0 ∨ e.pri = 1 := by have := h.pri; omega
      rcases this with h0 | h0 <;> rw [h0] at hch <;> simp [priText] at hch <;>
        (rcases hch with rfl | rfl | rfl | rfl | rfl | rfl <;> decide)
  · rcases hch with rfl | rfl | hch
    · decide
    · decide
    · have : e.alert = 0 ∨ e.alert = 1 ∨ e.alert = 2 ∨ e.alert = 3 := by have := h.alert; omega
      rcases this with h0 | h0 | h0 | h0 <;> rw [h0] at hch <;> simp [alertText] at hch <;> (intro e'; subst e'; simp at hch)
  · rcases hch with rfl | hch
    · decide
    · exact hjoin _ h.tags_sep ch hch

theorem drop_len_cons {α : Type} (T : List α) (c : α) (R : List α) : (T ++ c :: R).drop (T.length + 1) = R := by
  induction T with
  | nil => simp
  | cons a t ih => simp [ih]


end Gsd.Backends
