import Gsd.Model.Datagram
import Gsd.Proofs.Lemmas.LexerEvent
import Gsd.Proofs.Lemmas.AList
/-!
Helper lemmas about the datagram model.
-/
set_option linter.unusedSimpArgs false
set_option linter.unusedVariables false
namespace Gsd.Datagram
open Gsd.Lexer

theorem splitLinesAux_length_le (msg : Bytes) : ∀ cur : Bytes, ∀ l ∈ splitLinesAux cur msg, l.length ≤ cur.length + msg.length := by
  induction msg with
  | nil =>
    intro cur l hl
    simp only [splitLinesAux] at hl
    split at hl
    · simp at hl
    · simp only [List.mem_cons, List.not_mem_nil, or_false] at hl; subst hl; simp
  | cons b t ih =>
    intro cur l hl
    simp only [splitLinesAux] at hl
    split at hl
    · rcases List.mem_cons.1 hl with rfl | h
      · simp
      · have := ih [] l h; simp at this ⊢; omega
    · have := ih (b :: cur) l hl; simp at this ⊢; omega

theorem splitLines_length_le (msg : Bytes) : ∀ l ∈ splitLines msg, l.length ≤ msg.length := by
  intro l hl
  have := splitLinesAux_length_le msg [] l hl
  simpa using this

/-- the sum of the line lengths plus separators fits the message: every line's slice lies inside it -/
theorem splitLinesAux_total (msg : Bytes) : ∀ cur : Bytes,
    ((splitLinesAux cur msg).map (fun l => l.length + 1)).sum ≤ cur.length + msg.length + 1 := by
  induction msg with
  | nil => intro cur; simp only [splitLinesAux]; split <;> simp
  | cons b t ih =>
    intro cur
    simp only [splitLinesAux]
    split
    · have := ih []; simp at this ⊢; omega
    · have := ih (b :: cur); simp at this ⊢; omega

/-- offsets computed by `withCaps` stay inside the buffer: each line's capacity covers the line -/
theorem withCaps_cap_ge (bufCap : Nat) (ls : List Bytes) : ∀ off, off + (ls.map (fun l => l.length + 1)).sum ≤ bufCap + 1 →
    ∀ lc ∈ withCaps bufCap off ls, lc.1.length ≤ lc.2 := by
  induction ls with
  | nil => intro off _ lc h; simp [withCaps] at h
  | cons l ls ih =>
    intro off hsum lc h
    simp only [List.map_cons, List.sum_cons] at hsum
    simp only [withCaps] at h
    rcases List.mem_cons.1 h with rfl | h'
    · simp only; omega
    · exact ih (off + l.length + 1) (by omega) lc h'

theorem withCaps_fst (bufCap : Nat) (ls : List Bytes) : ∀ off, (withCaps bufCap off ls).map Prod.fst = ls := by
  induction ls with
  | nil => intro off; rfl
  | cons l ls ih => intro off; simp [withCaps, ih]

theorem count_items {F : Type} (items : List (Item F)) (hno : ∀ i ∈ items, i ≠ Item.panic) :
    panicked items = false ∧
    (metricsOf items).length + (eventsOf items).length + badCount items = items.length := by
  induction items with
  | nil => simp [panicked, metricsOf, eventsOf, badCount]
  | cons i rest ih =>
    have ih' := ih (fun j hj => hno j (List.mem_cons_of_mem _ hj))
    have hi := hno i (by simp)
    obtain ⟨p1, p2⟩ := ih'
    cases i with
    | panic => exact absurd rfl hi
    | metric d =>
      refine ⟨by simpa [panicked] using p1, ?_⟩
      have e1 : metricsOf (Item.metric d :: rest) = d :: metricsOf rest := rfl
      have e2 : eventsOf (Item.metric d :: rest) = eventsOf rest := rfl
      have e3 : badCount (Item.metric d :: rest) = badCount rest := rfl
      rw [e1, e2, e3]; simp only [List.length_cons]; omega
    | event e =>
      refine ⟨by simpa [panicked] using p1, ?_⟩
      have e1 : metricsOf (Item.event e :: rest) = metricsOf rest := rfl
      have e2 : eventsOf (Item.event e :: rest) = e :: eventsOf rest := rfl
      have e3 : badCount (Item.event e :: rest) = badCount rest := rfl
      rw [e1, e2, e3]; simp only [List.length_cons]; omega
    | bad e =>
      refine ⟨by simpa [panicked] using p1, ?_⟩
      have e1 : metricsOf (Item.bad e :: rest) = metricsOf rest := rfl
      have e2 : eventsOf (Item.bad e :: rest) = eventsOf rest := rfl
      have e3 : badCount (Item.bad e :: rest) = badCount rest + 1 := rfl
      rw [e1, e2, e3]; simp only [List.length_cons]; omega

/-! ### the frame of the in-place rewriting -/

theorem delAt_length (buf : Bytes) (i j : Nat) (h1 : i < j) (h2 : j ≤ buf.length) : (delAt buf i j).length = buf.length := by
  simp only [delAt, List.length_append, List.length_take, List.length_drop]; omega

theorem delAt_getElem? (buf : Bytes) (i j k : Nat) (h1 : i < j) (h2 : j ≤ buf.length) (hk : k < i ∨ j - 1 ≤ k) :
    (delAt buf i j)[k]? = buf[k]? := by
  unfold delAt
  rcases hk with hk | hk
  · rw [List.getElem?_append_left (by simp only [List.length_take]; omega)]
    simp [List.getElem?_take, hk]
  · rw [List.getElem?_append_right (by simp only [List.length_take]; omega)]
    rw [List.getElem?_append_right (by simp only [List.length_take, List.length_drop]; omega)]
    simp only [List.length_take, List.length_drop, List.getElem?_drop]
    congr 1; omega

theorem keySepArr_frame (n : Nat) : ∀ (buf : Bytes) (lo pos : Nat), lo + pos + n ≤ buf.length →
    (keySepArr n buf lo pos).length = buf.length ∧
    ∀ k, (k < lo + pos ∨ lo + pos + n ≤ k) → (keySepArr n buf lo pos)[k]? = buf[k]? := by
  induction n with
  | zero => intro buf lo pos _; exact ⟨rfl, fun _ _ => rfl⟩
  | succ n ih =>
    intro buf lo pos h
    simp only [keySepArr]
    split
    · exact ⟨rfl, fun _ _ => rfl⟩
    · split
      · next c hc =>
        have := ih (buf.set (lo + pos) c) lo (pos + 1) (by simp only [List.length_set]; omega)
        refine ⟨by rw [this.1]; simp, fun k hk => ?_⟩
        rw [this.2 k (by omega)]
        rw [List.getElem?_set_ne (by omega)]
      · have hl := delAt_length buf (lo + pos) (lo + pos + n + 1) (by omega) (by omega)
        have := ih (delAt buf (lo + pos) (lo + pos + n + 1)) lo pos (by rw [hl]; omega)
        refine ⟨by rw [this.1, hl], fun k hk => ?_⟩
        rw [this.2 k (by omega)]
        exact delAt_getElem? buf _ _ k (by omega) (by omega) (by omega)

theorem lexWindowBuf_frame (buf : Bytes) (lo hi : Nat) (h : hi ≤ buf.length) :
    (lexWindowBuf buf lo hi).length = buf.length ∧
    ∀ k, (k < lo ∨ hi ≤ k) → (lexWindowBuf buf lo hi)[k]? = buf[k]? := by
  unfold lexWindowBuf
  split
  · exact ⟨rfl, fun _ _ => rfl⟩
  · split
    · exact ⟨rfl, fun _ _ => rfl⟩
    · next hc =>
      have hlh : lo < hi := by omega
      have := keySepArr_frame (hi - lo) buf lo 0 (by omega)
      exact ⟨this.1, fun k hk => this.2 k (by omega)⟩


/-! ### lines of a window -/

theorem splitLinesAux_no_nl (l : Bytes) (h : (10 : UInt8) ∉ l) : ∀ cur : Bytes,
    splitLinesAux cur l = if cur.reverse ++ l = [] then [] else [cur.reverse ++ l] := by
  induction l with
  | nil => intro cur; simp only [splitLinesAux, List.append_nil, List.reverse_eq_nil_iff]
  | cons b t ih =>
    intro cur
    have hb : b ≠ 10 := fun e => h (by simp [e])
    simp only [splitLinesAux, hb, if_false]
    rw [ih (fun m => h (List.mem_cons_of_mem _ m))]
    simp

theorem splitLinesAux_append (a b : Bytes) (h : (10 : UInt8) ∉ a) : ∀ cur : Bytes,
    splitLinesAux cur (a ++ 10 :: b) = (cur.reverse ++ a) :: splitLinesAux [] b := by
  induction a with
  | nil => intro cur; simp [splitLinesAux]
  | cons x t ih =>
    intro cur
    have hb : x ≠ 10 := fun e => h (by simp [e])
    simp only [List.cons_append, splitLinesAux, hb, if_false]
    rw [ih (fun m => h (List.mem_cons_of_mem _ m))]
    simp

theorem window_length (buf : Bytes) (lo hi : Nat) (h : hi ≤ buf.length) : (window buf lo hi).length = hi - lo := by
  simp only [window, List.length_take, List.length_drop]; omega

theorem window_getElem? (buf : Bytes) (lo hi k : Nat) (hk : k < hi - lo) : (window buf lo hi)[k]? = buf[lo + k]? := by
  simp only [window, List.getElem?_take, hk, if_true, List.getElem?_drop]

theorem window_no_nl (buf : Bytes) (lo hi : Nat) (h : ∀ k, lo ≤ k → k < hi → buf[k]? ≠ some 10) :
    (10 : UInt8) ∉ window buf lo hi := by
  intro hm
  obtain ⟨i, he⟩ := List.getElem?_of_mem hm
  have hi' : i < (window buf lo hi).length := (List.getElem?_eq_some_iff.1 he).1
  have hlen : i < hi - lo := by
    have : (window buf lo hi).length ≤ hi - lo := by simp only [window, List.length_take]; omega
    omega
  rw [window_getElem? buf lo hi i hlen] at he
  exact h (lo + i) (by omega) (by omega) he

theorem window_split (buf : Bytes) (lo idx hi : Nat) (h1 : lo ≤ idx) (h2 : idx < hi) (h3 : hi ≤ buf.length)
    (hnl : buf[idx]? = some 10) :
    window buf lo hi = window buf lo idx ++ 10 :: window buf (idx + 1) hi := by
  apply List.ext_getElem?
  intro k
  by_cases hk : k < hi - lo
  · rw [window_getElem? buf lo hi k hk]
    by_cases hk1 : k < idx - lo
    · rw [List.getElem?_append_left (by rw [window_length buf lo idx (by omega)]; exact hk1)]
      rw [window_getElem? buf lo idx k hk1]
    · rw [List.getElem?_append_right (by rw [window_length buf lo idx (by omega)]; omega)]
      rw [window_length buf lo idx (by omega)]
      by_cases hk2 : k = idx - lo
      · subst hk2; simp only [Nat.sub_self, List.getElem?_cons_zero]
        rw [show lo + (idx - lo) = idx by omega]; exact hnl
      · have : k - (idx - lo) = (k - (idx - lo) - 1) + 1 := by omega
        rw [this, List.getElem?_cons_succ, window_getElem? buf (idx + 1) hi _ (by omega)]
        congr 1; omega
  · have e1 : (window buf lo hi)[k]? = none := by
      rw [List.getElem?_eq_none_iff, window_length buf lo hi h3]; omega
    rw [e1, eq_comm, List.getElem?_eq_none_iff]
    simp only [List.length_append, List.length_cons, window_length buf lo idx (by omega), window_length buf (idx + 1) hi h3]
    omega

theorem window_congr (buf buf' : Bytes) (lo hi : Nat) (h : ∀ k, lo ≤ k → buf'[k]? = buf[k]?) :
    window buf' lo hi = window buf lo hi := by
  apply List.ext_getElem?
  intro k
  by_cases hk : k < hi - lo
  · rw [window_getElem? buf' lo hi k hk, window_getElem? buf lo hi k hk]; exact h _ (by omega)
  · simp only [window, List.getElem?_take, hk, if_false]

theorem findNl_none (buf : Bytes) (hi : Nat) : ∀ (fuel off : Nat), hi - off ≤ fuel → findNl buf hi fuel off = none →
    ∀ k, off ≤ k → k < hi → buf[k]? ≠ some 10 := by
  intro fuel
  induction fuel with
  | zero => intro off h _ k h1 h2; omega
  | succ f ih =>
    intro off h hf k h1 h2
    simp only [findNl] at hf
    split at hf
    · omega
    · split at hf
      · simp at hf
      · next hge hnl =>
        by_cases hk : k = off
        · subst hk; exact hnl
        · exact ih (off + 1) (by omega) hf k (by omega) h2

theorem findNl_some (buf : Bytes) (hi : Nat) : ∀ (fuel off idx : Nat), findNl buf hi fuel off = some idx →
    off ≤ idx ∧ idx < hi ∧ buf[idx]? = some 10 ∧ ∀ k, off ≤ k → k < idx → buf[k]? ≠ some 10 := by
  intro fuel
  induction fuel with
  | zero => intro off idx h; simp [findNl] at h
  | succ f ih =>
    intro off idx hf
    simp only [findNl] at hf
    split at hf
    · simp at hf
    · split at hf
      · next hge hnl =>
        simp only [Option.some.injEq] at hf; subst hf
        exact ⟨Nat.le_refl _, by omega, hnl, fun k h1 h2 => by omega⟩
      · next hge hnl =>
        obtain ⟨a, b, c, d⟩ := ih (off + 1) idx hf
        refine ⟨by omega, b, c, fun k h1 h2 => ?_⟩
        by_cases hk : k = off
        · subst hk; exact hnl
        · exact d k (by omega) h2


theorem splitLines_window_none (buf : Bytes) (off hi : Nat) (h3 : hi ≤ buf.length)
    (h : ∀ k, off ≤ k → k < hi → buf[k]? ≠ some 10) :
    splitLines (window buf off hi) = if off ≥ hi then [] else [window buf off hi] := by
  unfold splitLines
  rw [splitLinesAux_no_nl _ (window_no_nl buf off hi h)]
  simp only [List.reverse_nil, List.nil_append]
  have hl := window_length buf off hi h3
  by_cases hc : off ≥ hi
  · have : window buf off hi = [] := List.eq_nil_of_length_eq_zero (by omega)
    simp [hc, this]
  · have : window buf off hi ≠ [] := fun e => by rw [e] at hl; simp at hl; omega
    simp [hc, this]

theorem splitLines_window_some (buf : Bytes) (off idx hi : Nat) (h1 : off ≤ idx) (h2 : idx < hi) (h3 : hi ≤ buf.length)
    (hnl : buf[idx]? = some 10) (h : ∀ k, off ≤ k → k < idx → buf[k]? ≠ some 10) :
    splitLines (window buf off hi) = window buf off idx :: splitLines (window buf (idx + 1) hi) := by
  unfold splitLines
  rw [window_split buf off idx hi h1 h2 h3 hnl, splitLinesAux_append _ _ (window_no_nl buf off idx h)]
  simp

/-- **the threaded buffer does not matter**: lexing the lines one after the other in the buffer that the
earlier lines have already rewritten gives, line by line, what lexing each original line alone gives -/
theorem handleBuf_eq {F : Type} [FloatLike F] (cfg : Cfg) (pf : Bytes → Option F) (c : Config) (bufCap hi : Nat) :
    ∀ (fuel : Nat) (buf : Bytes) (off : Nat), hi ≤ buf.length → hi - off < fuel →
      (handleBuf cfg pf c bufCap hi fuel buf off).1 =
        (withCaps bufCap off (splitLines (window buf off hi))).map (fun lc => lexAlone cfg pf c lc.1 lc.2) := by
  intro fuel
  induction fuel with
  | zero => intro buf off _ h; omega
  | succ f ih =>
    intro buf off hlen hf
    simp only [handleBuf]
    cases hfn : findNl buf hi (hi - off) off with
    | none =>
      have hno := findNl_none buf hi (hi - off) off (Nat.le_refl _) hfn
      rw [splitLines_window_none buf off hi hlen hno]
      simp only
      split <;> simp [withCaps]
    | some idx =>
      obtain ⟨a, b, cc, d⟩ := findNl_some buf hi (hi - off) off idx hfn
      rw [splitLines_window_some buf off idx hi a b hlen cc d]
      simp only [withCaps, List.map_cons]
      have hfr := lexWindowBuf_frame buf off idx (by omega)
      have hrec := ih (lexWindowBuf buf off idx) (idx + 1) (by rw [hfr.1]; exact hlen) (by omega)
      rw [window_congr buf (lexWindowBuf buf off idx) (idx + 1) hi (fun k hk => hfr.2 k (Or.inr (by omega)))] at hrec
      rw [hrec]
      have : off + (window buf off idx).length + 1 = idx + 1 := by rw [window_length buf off idx (by omega)]; omega
      rw [this]

theorem window_all (buf : Bytes) : window buf 0 buf.length = buf := by
  simp [window]


theorem splitLinesAux_trailing (l : Bytes) : ∀ cur : Bytes, (cur ≠ [] ∨ l ≠ []) → l.getLast? ≠ some 10 →
    splitLinesAux cur (l ++ [10]) = splitLinesAux cur l := by
  induction l with
  | nil =>
    intro cur h _
    have hc : cur ≠ [] := by simpa using h
    simp [splitLinesAux, hc]
  | cons b t ih =>
    intro cur _ hl
    by_cases hb : b = 10
    · subst hb
      have ht : t ≠ [] := by intro e; subst e; simp at hl
      simp only [List.cons_append, splitLinesAux, if_true]
      rw [ih [] (Or.inr ht) (by rwa [List.getLast?_cons_of_ne_nil ht] at hl)]
    · simp only [List.cons_append, splitLinesAux, hb, if_false]
      refine ih (b :: cur) (Or.inl (by simp)) ?_
      cases t with
      | nil => simp
      | cons x r => rwa [List.getLast?_cons_of_ne_nil (by simp)] at hl

/-! ### gauges of one datagram -/

/-- the value of the last datapoint for key `k` -/
def lastFor {κ V : Type} [DecidableEq κ] (k : κ) : List (κ × Int × V) → Option V
  | [] => none
  | d :: t => match lastFor k t with
    | some v => some v
    | none => if d.1 = k then some d.2.2 else none

theorem gaugeFold_aux {κ V : Type} [DecidableEq κ] (now : Int) (k : κ) (dps : List (κ × Int × V)) :
    ∀ acc : AList κ (Int × V), (∀ k' ts v, AList.lookup k' acc = some (ts, v) → ts = now) → (∀ d ∈ dps, d.2.1 = now) →
      AList.lookup k (dps.foldl (fun mm d => receiveGauge true mm d.1 d.2.1 d.2.2) acc) =
        match lastFor k dps with
        | some v => some (now, v)
        | none => AList.lookup k acc := by
  induction dps with
  | nil => intro acc _ _; simp [lastFor]
  | cons d t ih =>
    intro acc hacc hts
    have hd : d.2.1 = now := hts d (by simp)
    have hstep : ∀ k', AList.lookup k' (receiveGauge true acc d.1 d.2.1 d.2.2) =
        if d.1 = k' then some (now, d.2.2) else AList.lookup k' acc := by
      intro k'
      unfold receiveGauge
      rw [AList.lookup_upsert]
      split
      · congr 1
        cases hl : AList.lookup d.1 acc with
        | none => simp [hd]
        | some p =>
          obtain ⟨ts0, v0⟩ := p
          have := hacc d.1 ts0 v0 hl
          simp [hd, this]
      · rfl
    have hacc' : ∀ k' ts v, AList.lookup k' (receiveGauge true acc d.1 d.2.1 d.2.2) = some (ts, v) → ts = now := by
      intro k' ts v h
      rw [hstep k'] at h
      split at h
      · simp only [Option.some.injEq, Prod.mk.injEq] at h; exact h.1.symm
      · exact hacc k' ts v h
    simp only [List.foldl_cons]
    rw [ih _ hacc' (fun d' h' => hts d' (List.mem_cons_of_mem _ h'))]
    simp only [lastFor]
    cases hlf : lastFor k t with
    | some v => rfl
    | none => simp only; rw [hstep k]; split <;> rfl

/-! ### ignore-host -/

def isHostTag (t : Bytes) : Bool := hostPrefix.isPrefixOf t

theorem stripHost_none (tags : List Bytes) (h : ∀ t ∈ tags, isHostTag t = false) : stripHost tags = ([], tags) := by
  induction tags with
  | nil => rfl
  | cons t ts ih =>
    have ht : hostPrefix.isPrefixOf t = false := h t (by simp)
    simp only [stripHost, ht, Bool.false_eq_true, if_false]
    rw [ih (fun x hx => h x (List.mem_cons_of_mem _ hx))]

theorem stripHost_first (pre : List Bytes) (t : Bytes) (post : List Bytes) (hpre : ∀ x ∈ pre, isHostTag x = false)
    (ht : isHostTag t = true) : stripHost (pre ++ t :: post) = (t.drop 5, pre ++ post) := by
  induction pre with
  | nil => simp only [List.nil_append, stripHost]; simp [isHostTag] at ht; simp [ht]
  | cons x xs ih =>
    have hx : hostPrefix.isPrefixOf x = false := hpre x (by simp)
    simp only [List.cons_append, stripHost, hx, Bool.false_eq_true, if_false]
    rw [ih (fun y hy => hpre y (List.mem_cons_of_mem _ hy))]

/-! ### reading the name back from the rewritten buffer -/

theorem delAt_append (A : Bytes) (x : UInt8) (M : Bytes) (B : Bytes) (hM : M ≠ []) :
    delAt (A ++ x :: (M ++ B)) A.length (A.length + M.length + 1) = A ++ (M ++ (M.getLast hM :: B)) := by
  unfold delAt
  have e1 : List.take A.length (A ++ x :: (M ++ B)) = A := by simp
  have e2 : List.drop (A.length + 1) (A ++ x :: (M ++ B)) = M ++ B := by
    rw [show A ++ x :: (M ++ B) = (A ++ [x]) ++ (M ++ B) by simp]
    rw [show A.length + 1 = (A ++ [x]).length by simp]
    exact List.drop_left
  have e3 : List.take (A.length + M.length + 1 - (A.length + 1)) (M ++ B) = M := by
    rw [show A.length + M.length + 1 - (A.length + 1) = M.length by omega]; simp
  have e4 : List.drop (A.length + M.length + 1 - 1) (A ++ x :: (M ++ B)) = M.getLast hM :: B := by
    rw [show A.length + M.length + 1 - 1 = (A ++ x :: M.dropLast).length by
      simp [List.length_dropLast]; have := List.length_pos_iff.mpr hM; omega]
    conv => lhs; arg 2; rw [show A ++ x :: (M ++ B) = (A ++ x :: M.dropLast) ++ (M.getLast hM :: B) by
      conv => lhs; rw [← List.dropLast_concat_getLast hM]
      simp]
    exact List.drop_left
  rw [e1, e2, e3, e4]

/-- reading back what `lexKeySep` wrote: after the in-place rewriting the window starts with the
normalised name, the `:` and the rest of the line (followed by stale bytes up to the old end) — the bytes
the list-level model continues with -/
theorem keySepArr_readback (pre rest post : Bytes) (nm : Bytes) (h0 : (0 : UInt8) ∉ nm) (h58 : (58 : UInt8) ∉ nm) :
    ∀ (done stale : Bytes),
      ∃ stale' : Bytes, stale'.length = stale.length + (nm.length - (norm nm).length) ∧
        keySepArr (nm.length + 1 + rest.length) (pre ++ (done ++ (nm ++ 58 :: (rest ++ (stale ++ post))))) pre.length done.length =
          pre ++ (done ++ (norm nm ++ 58 :: (rest ++ (stale' ++ post)))) := by
  induction nm with
  | nil =>
    intro done stale
    refine ⟨stale, by simp [norm], ?_⟩
    have : (pre ++ (done ++ ([] ++ 58 :: (rest ++ (stale ++ post)))))[pre.length + done.length]? = some 58 := by
      rw [← List.append_assoc, show pre.length + done.length = (pre ++ done).length by simp]
      simp
    simp only [List.length_nil, Nat.zero_add, Nat.add_comm 1, keySepArr, this, Option.getD_some, true_or, if_true, norm,
      List.filterMap_nil]
  | cons x t ih =>
    intro done stale
    have hx0 : x ≠ 0 := fun e => h0 (by simp [e])
    have hx58 : x ≠ 58 := fun e => h58 (by simp [e])
    have hget : (pre ++ (done ++ (x :: t ++ 58 :: (rest ++ (stale ++ post)))))[pre.length + done.length]? = some x := by
      rw [← List.append_assoc, show pre.length + done.length = (pre ++ done).length by simp]
      simp
    have hn : (x :: t).length + 1 + rest.length = (t.length + 1 + rest.length) + 1 := by simp; omega
    rw [hn]
    simp only [keySepArr, hget, Option.getD_some, hx0, hx58, or_self, if_false]
    cases hnb : normByte x with
    | some c =>
      simp only
      obtain ⟨stale', hl, e⟩ := ih (fun m => h0 (List.mem_cons_of_mem _ m)) (fun m => h58 (List.mem_cons_of_mem _ m)) (done ++ [c]) stale
      refine ⟨stale', ?_, ?_⟩
      · rw [hl, norm_cons, hnb]; simp
      · have hset : (pre ++ (done ++ (x :: t ++ 58 :: (rest ++ (stale ++ post))))).set (pre.length + done.length) c =
            pre ++ ((done ++ [c]) ++ (t ++ 58 :: (rest ++ (stale ++ post)))) := by
          rw [← List.append_assoc, show pre.length + done.length = (pre ++ done).length by simp]
          simp
        rw [hset]
        have : done.length + 1 = (done ++ [c]).length := by simp
        rw [this, e, norm_cons, hnb]
        simp
    | none =>
      simp only
      have hM : t ++ 58 :: rest ≠ [] := by simp
      obtain ⟨stale', hl, e⟩ := ih (fun m => h0 (List.mem_cons_of_mem _ m)) (fun m => h58 (List.mem_cons_of_mem _ m)) done
        ((t ++ 58 :: rest).getLast hM :: stale)
      refine ⟨stale', ?_, ?_⟩
      · rw [hl, norm_cons, hnb]
        have : (norm t).length ≤ t.length := by simp [norm]; exact List.length_filterMap_le _ _
        simp; omega
      · have hdel : delAt (pre ++ (done ++ (x :: t ++ 58 :: (rest ++ (stale ++ post))))) (pre.length + done.length)
            (pre.length + done.length + (t.length + 1 + rest.length) + 1) =
            pre ++ (done ++ (t ++ 58 :: (rest ++ (((t ++ 58 :: rest).getLast hM :: stale) ++ post)))) := by
          have := delAt_append (pre ++ done) x (t ++ 58 :: rest) (stale ++ post) hM
          simp only [List.length_append, List.length_cons, List.append_assoc, List.cons_append] at this ⊢
          rw [show pre.length + done.length + (t.length + 1 + rest.length) + 1 = pre.length + done.length + (t.length + (rest.length + 1)) + 1 by omega]
          exact this
        rw [hdel, e, norm_cons, hnb]


end Gsd.Datagram
