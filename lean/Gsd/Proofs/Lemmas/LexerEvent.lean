import Gsd.Proofs.Lemmas.Lexer
/-!
Helper lemmas about the event half of the lexer model: `lexUint`, `lexEventBody`, the event
attribute loop.  Core Lean only.
-/
set_option linter.unusedSimpArgs false
set_option linter.unusedVariables false
set_option linter.unusedSectionVars false
namespace Gsd.Lexer

/-! ### `lexUint` -/

theorem isDigit_iff (b : UInt8) : isDigit b = true ↔ 48 ≤ b.toNat ∧ b.toNat ≤ 57 := by
  simp only [isDigit, Bool.and_eq_true, decide_eq_true_eq, UInt8.le_iff_toNat_le]
  constructor <;> intro h <;> exact h

theorem digit_toNat {b : UInt8} (h : isDigit b = true) : (b - 48).toUInt64.toNat = b.toNat - 48 := by
  have := (isDigit_iff b).1 h
  have hb := b.toNat_lt
  simp only [UInt8.toNat_toUInt64, UInt8.toNat_sub]
  simp only [show (48 : UInt8).toNat = 48 from rfl]
  omega

/-- one accumulation step of `lexUint` when the exact value still fits 64 bits: no wrap, and the
code's overflow test `n < value` does not fire -/
theorem uintStep_ok {v : UInt64} {b : UInt8} (hd : isDigit b = true) (hfit : v.toNat * 10 + (b.toNat - 48) < 18446744073709551616) :
    (v * 10 + (b - 48).toUInt64).toNat = v.toNat * 10 + (b.toNat - 48) ∧ ¬ (v * 10 + (b - 48).toUInt64 < v) := by
  have h1 : (v * 10 + (b - 48).toUInt64).toNat = v.toNat * 10 + (b.toNat - 48) := by
    rw [UInt64.toNat_add, UInt64.toNat_mul, digit_toNat hd]
    simp only [show (10 : UInt64).toNat = 10 from rfl]
    omega
  refine ⟨h1, ?_⟩
  rw [UInt64.lt_iff_toNat_lt, h1]; omega

def digitsAcc (a : Nat) (ds : Bytes) : Nat := ds.foldl (fun v b => v * 10 + (b.toNat - 48)) a

theorem digitsAcc_cons (a : Nat) (b : UInt8) (ds : Bytes) : digitsAcc a (b :: ds) = digitsAcc (a * 10 + (b.toNat - 48)) ds := by
  simp only [digitsAcc, List.foldl_cons]

theorem digitsAcc_ge (ds : Bytes) : ∀ a, a ≤ digitsAcc a ds := by
  induction ds with
  | nil => intro a; exact Nat.le_refl _
  | cons b t ih => intro a; rw [digitsAcc_cons]; exact Nat.le_trans (by omega) (ih _)

theorem digitsVal_eq (ds : Bytes) : digitsVal ds = digitsAcc 0 ds := rfl

/-- what may follow a number: the end, or a byte that is neither a digit nor NUL -/
def NumTail (rest : Bytes) : Prop := rest = [] ∨ ∃ c m, rest = c :: m ∧ isDigit c = false ∧ c ≠ 0

theorem uintLoop_digits (ds rest : Bytes) (hd : ∀ b ∈ ds, isDigit b = true) (hr : NumTail rest) :
    ∀ (v : UInt64) (any : Bool), digitsAcc v.toNat ds < 18446744073709551616 → (any = true ∨ ds ≠ []) →
      uintLoop v any (ds ++ rest) = .ok (UInt64.ofNat (digitsAcc v.toNat ds), rest) := by
  induction ds with
  | nil =>
    intro v any hfit hany
    have hany : any = true := by simpa using hany
    simp only [List.nil_append, digitsAcc, List.foldl_nil, UInt64.ofNat_toNat]
    rcases hr with rfl | ⟨c, m, rfl, hc1, hc2⟩
    · simp [uintLoop, hany]
    · simp [uintLoop, hany, hc1, hc2]
  | cons b t ih =>
    intro v any hfit _
    have hb : isDigit b = true := hd b (by simp)
    rw [digitsAcc_cons] at hfit
    have hfit1 : v.toNat * 10 + (b.toNat - 48) < 18446744073709551616 := Nat.lt_of_le_of_lt (digitsAcc_ge t _) hfit
    obtain ⟨e1, e2⟩ := uintStep_ok hb hfit1
    simp only [List.cons_append, uintLoop, hb, if_true, e2, if_false]
    rw [ih (fun x hx => hd x (List.mem_cons_of_mem _ hx)) _ true (by rw [e1]; exact hfit) (Or.inl rfl)]
    rw [e1, digitsAcc_cons]

theorem lexUint32_digits (ds rest : Bytes) (hd : AllDigits ds) (hr : NumTail rest) (hfit : digitsVal ds < 4294967296) :
    lexUint32 (ds ++ rest) = .ok (UInt32.ofNat (digitsVal ds), rest) := by
  unfold lexUint32
  rw [uintLoop_digits ds rest hd.2 hr 0 false (by rw [digitsVal_eq] at hfit; simp only [show (0 : UInt64).toNat = 0 from rfl]; omega) (Or.inr hd.1)]
  simp only [Res.bind_ok, show (0 : UInt64).toNat = 0 from rfl, ← digitsVal_eq]
  have h1 : ¬ (UInt64.ofNat (digitsVal ds) > 0xFFFFFFFF) := by
    simp only [gt_iff_lt, UInt64.lt_iff_toNat_lt, UInt64.toNat_ofNat', show (0xFFFFFFFF : UInt64).toNat = 4294967295 from rfl]
    omega
  simp only [h1, if_false]
  congr 2
  apply UInt32.toNat_inj.1
  simp only [UInt64.toNat_toUInt32, UInt64.toNat_ofNat', UInt32.toNat_ofNat']
  omega

/-- the rest returned by `lexUint` consists of bytes of its input -/
theorem uintLoop_subset (l : Bytes) : ∀ (v : UInt64) (any : Bool) (x : UInt64) (r : Bytes),
    uintLoop v any l = .ok (x, r) → ∀ b ∈ r, b ∈ l := by
  induction l with
  | nil =>
    intro v any x r h
    simp only [uintLoop] at h
    split at h
    · simp only [Res.ok.injEq, Prod.mk.injEq] at h; intro b hb; rw [← h.2] at hb; exact hb
    · simp at h
  | cons c t ih =>
    intro v any x r h
    simp only [uintLoop] at h
    split at h
    · split at h
      · simp at h
      · intro b hb; exact List.mem_cons_of_mem _ (ih _ _ _ _ h b hb)
    · split at h
      · simp only [Res.ok.injEq, Prod.mk.injEq] at h; intro b hb; rw [← h.2] at hb; exact List.mem_cons_of_mem _ hb
      · split at h
        · simp only [Res.ok.injEq, Prod.mk.injEq] at h; intro b hb; rw [← h.2] at hb; exact hb
        · simp at h

theorem uintLoop_ne_panic (l : Bytes) : ∀ (v : UInt64) (any : Bool), uintLoop v any l ≠ .panic := by
  induction l with
  | nil => intro v any; simp only [uintLoop]; split <;> simp
  | cons c t ih =>
    intro v any
    simp only [uintLoop]
    split
    · split
      · simp
      · exact ih _ _
    · split
      · simp
      · split <;> simp

theorem uintLoop_length (l : Bytes) : ∀ (v : UInt64) (any : Bool) (x : UInt64) (r : Bytes),
    uintLoop v any l = .ok (x, r) → r.length ≤ l.length := by
  induction l with
  | nil =>
    intro v any x r h
    simp only [uintLoop] at h
    split at h
    · simp only [Res.ok.injEq, Prod.mk.injEq] at h; rw [← h.2]; exact Nat.le_refl _
    · simp at h
  | cons c t ih =>
    intro v any x r h
    simp only [uintLoop] at h
    split at h
    · split at h
      · simp at h
      · exact Nat.le_trans (ih _ _ _ _ h) (by simp)
    · split at h
      · simp only [Res.ok.injEq, Prod.mk.injEq] at h; rw [← h.2]; simp
      · split at h
        · simp only [Res.ok.injEq, Prod.mk.injEq] at h; rw [← h.2]; exact Nat.le_refl _
        · simp at h

theorem lexUint32_inv {l : Bytes} {x : UInt32} {r : Bytes} (h : lexUint32 l = .ok (x, r)) :
    (∀ b ∈ r, b ∈ l) ∧ r.length ≤ l.length := by
  unfold lexUint32 at h
  obtain ⟨⟨v, r'⟩, h1, h2⟩ := Res.bind_eq_ok h
  dsimp only at h2
  split at h2
  · simp at h2
  · simp only [Res.ok.injEq, Prod.mk.injEq] at h2
    obtain ⟨_, rfl⟩ := h2
    exact ⟨uintLoop_subset l _ _ _ _ h1, uintLoop_length l _ _ _ _ h1⟩

theorem lexUint32_ne_panic (l : Bytes) : lexUint32 l ≠ .panic := by
  unfold lexUint32
  refine Res.bind_ne_panic (uintLoop_ne_panic l _ _) (fun ⟨v, r⟩ _ => ?_)
  dsimp only
  split <;> simp

theorem lexAssert_inv {c : UInt8} {l r : Bytes} (h : lexAssert c l = .ok r) : l = c :: r := by
  cases l with
  | nil => simp [lexAssert] at h
  | cons b t =>
    simp only [lexAssert] at h
    split at h
    · next hb => simp only [Res.ok.injEq] at h; rw [hb, h]
    · simp at h

theorem lexAssert_ne_panic (c : UInt8) (l : Bytes) : lexAssert c l ≠ .panic := by
  cases l with
  | nil => simp [lexAssert]
  | cons b t => simp only [lexAssert]; split <;> simp

/-! ### `lexEventBody` -/

theorem eventBody_exact (cfg : Cfg) (g : Ghost) (hdr title text tailF : Bytes)
    (hlen : g.len.toNat = (hdr ++ (title ++ 124 :: (text ++ tailF))).length) (hcap : g.len.toNat ≤ g.cap) :
    eventBody cfg g (hdr ++ (title ++ 124 :: (text ++ tailF))) (title ++ 124 :: (text ++ tailF))
      (UInt32.ofNat title.length) (UInt32.ofNat text.length) = .ok (title, unescape text, tailF) := by
  have hL := g.len.toNat_lt
  simp only [List.length_append, List.length_cons] at hlen
  have hT : (UInt32.ofNat title.length).toNat = title.length := by simp only [UInt32.toNat_ofNat']; omega
  have hX : (UInt32.ofNat text.length).toNat = text.length := by simp only [UInt32.toNat_ofNat']; omega
  have hpos : (g.at (title ++ 124 :: (text ++ tailF)).length).toNat = hdr.length := by
    simp only [Ghost.at, UInt32.toNat_sub, UInt32.toNat_ofNat', List.length_append, List.length_cons]; omega
  generalize hp : g.at (title ++ 124 :: (text ++ tailF)).length = pos at hpos
  have hpt : (pos + UInt32.ofNat title.length).toNat = hdr.length + title.length := by
    simp only [UInt32.toNat_add, hpos, hT]; omega
  have hp2 : (pos + (UInt32.ofNat title.length + 1)).toNat = hdr.length + title.length + 1 := by
    simp only [UInt32.toNat_add, hpos, hT, UInt32.toNat_one]; omega
  have hp3 : (pos + (UInt32.ofNat title.length + 1) + UInt32.ofNat text.length).toNat = hdr.length + title.length + 1 + text.length := by
    rw [UInt32.toNat_add, hp2, hX]; omega
  have hshort : lenShort cfg g.len pos (UInt32.ofNat title.length) (UInt32.ofNat text.length) = false := by
    unfold lenShort
    have h1 : (g.len - pos).toNat = g.len.toNat - hdr.length := by
      simp only [UInt32.toNat_sub, hpos]; omega
    split
    · simp only [decide_eq_false_iff_not, UInt64.lt_iff_toNat_lt, UInt32.toNat_toUInt64, UInt64.toNat_add, h1, hT, hX,
        show (1 : UInt64).toNat = 1 from rfl]
      omega
    · simp only [decide_eq_false_iff_not, UInt32.lt_iff_toNat_lt, UInt32.toNat_add, h1, hT, hX, UInt32.toNat_one]
      omega
  unfold eventBody
  simp only [hp, hshort, Bool.false_eq_true, if_false]
  rw [guard_true _ (by simp only [indexOk, hpt, decide_eq_true_eq]; omega)]
  have hidx : (hdr ++ (title ++ 124 :: (text ++ tailF)))[(pos + UInt32.ofNat title.length).toNat]? = some 124 := by
    rw [hpt, List.getElem?_append_right (by omega)]
    simp
  simp only [hidx, ne_eq, not_true_eq_false, if_false]
  rw [guard_true _ (by simp only [sliceOk, hpos, hpt, Bool.and_eq_true, decide_eq_true_eq]; omega)]
  rw [guard_true _ (by simp only [sliceOk, hp2, hp3, Bool.and_eq_true, decide_eq_true_eq]; omega)]
  simp only [slice, hpos, hpt, hp2, hp3]
  congr 1
  have e1 : List.drop hdr.length (hdr ++ (title ++ 124 :: (text ++ tailF))) = title ++ 124 :: (text ++ tailF) := by simp
  have e2 : List.drop (hdr.length + title.length + 1) (hdr ++ (title ++ 124 :: (text ++ tailF))) = text ++ tailF := by
    rw [show hdr.length + title.length + 1 = hdr.length + (title.length + 1) by omega, ← List.drop_drop, e1]
    rw [show title.length + 1 = (title ++ [124]).length by simp]
    rw [show title ++ 124 :: (text ++ tailF) = (title ++ [124]) ++ (text ++ tailF) by simp]
    exact List.drop_left
  have e3 : List.drop (hdr.length + title.length + 1 + text.length) (hdr ++ (title ++ 124 :: (text ++ tailF))) = tailF := by
    rw [show hdr.length + title.length + 1 + text.length = (hdr.length + title.length + 1) + text.length by omega, ← List.drop_drop, e2]
    exact List.drop_left
  rw [e1, e2, e3]
  simp

theorem eventBody_ok_bar {cfg : Cfg} {g : Ghost} {input rest : Bytes} {tl xl : UInt32} {x : Bytes × Bytes × Bytes}
    (h : eventBody cfg g input rest tl xl = .ok x) : (124 : UInt8) ∈ input ∧ x.2.2.length ≤ input.length := by
  unfold eventBody at h
  dsimp only at h
  split at h
  · simp at h
  · have h := guard_eq_ok h
    split at h
    · simp at h
    · next hidx =>
      have h := guard_eq_ok (guard_eq_ok h)
      simp only [Res.ok.injEq] at h
      subst h
      refine ⟨?_, by simp⟩
      simp only [ne_eq, Decidable.not_not] at hidx
      exact List.mem_of_getElem? hidx

/-- with the D1 repair (lengths compared in 64 bits) `lexEventBody` cannot go out of bounds -/
theorem eventBody_wide_ne_panic (cfg : Cfg) (hw : cfg.wideLenCheck = true) (g : Ghost) (input rest : Bytes) (tl xl : UInt32)
    (hr : rest.length ≤ g.len.toNat) (hcap : g.len.toNat ≤ g.cap) : eventBody cfg g input rest tl xl ≠ .panic := by
  have hL := g.len.toNat_lt
  have hT := tl.toNat_lt
  have hX := xl.toNat_lt
  have hpos : (g.at rest.length).toNat = g.len.toNat - rest.length := by
    simp only [Ghost.at, UInt32.toNat_sub, UInt32.toNat_ofNat']; omega
  generalize hp : g.at rest.length = pos at hpos
  unfold eventBody
  simp only [hp]
  split
  · simp
  · next hshort =>
    have h1 : (g.len - pos).toNat = rest.length := by
      simp only [UInt32.toNat_sub, hpos]; omega
    simp only [lenShort, hw, if_true, decide_eq_true_eq, UInt64.lt_iff_toNat_lt, UInt32.toNat_toUInt64, UInt64.toNat_add, h1,
      show (1 : UInt64).toNat = 1 from rfl] at hshort
    have hfit : tl.toNat + 1 + xl.toNat ≤ rest.length := by omega
    have hpt : (pos + tl).toNat = g.len.toNat - rest.length + tl.toNat := by
      simp only [UInt32.toNat_add, hpos]; omega
    have hp2 : (pos + (tl + 1)).toNat = g.len.toNat - rest.length + tl.toNat + 1 := by
      simp only [UInt32.toNat_add, hpos, UInt32.toNat_one]; omega
    have hp3 : (pos + (tl + 1) + xl).toNat = g.len.toNat - rest.length + tl.toNat + 1 + xl.toNat := by
      rw [UInt32.toNat_add, hp2]; omega
    refine guard_ne_panic (by simp only [indexOk, hpt, decide_eq_true_eq]; omega) ?_
    split
    · simp
    · refine guard_ne_panic (by simp only [sliceOk, hpos, hpt, Bool.and_eq_true, decide_eq_true_eq]; omega) ?_
      refine guard_ne_panic (by simp only [sliceOk, hp2, hp3, Bool.and_eq_true, decide_eq_true_eq]; omega) ?_
      simp

/-! ### event attributes -/

theorem setDate_ne_panic (e : Event) (v : UInt64) : setDate e v ≠ .panic := by
  unfold setDate; split <;> simp

theorem setDate_tags {e e' : Event} {v : UInt64} (h : setDate e v = .ok e') : e'.tags = e.tags := by
  unfold setDate at h; split at h
  · simp at h
  · simp only [Res.ok.injEq] at h; rw [← h]

theorem applyData_ne_panic (k : UInt8) (cur : Bytes) (e : Event) : applyData k cur e ≠ .panic := by
  unfold applyData; dsimp only; repeat' split
  all_goals simp

theorem applyData_tags {k : UInt8} {cur : Bytes} {e e' : Event} (h : applyData k cur e = .ok e') : e'.tags = e.tags := by
  unfold applyData at h; dsimp only at h
  repeat' split at h
  all_goals first | (simp at h; done) | (simp only [Res.ok.injEq] at h; rw [← h])

def EModeOk (g : Ghost) (n : Nat) : EMode → Prop
  | .data _ sl _ => n ≤ sl ∧ sl ≤ g.len.toNat
  | .tag sl _ => n ≤ sl ∧ sl ≤ g.len.toNat
  | .skip sl => n ≤ sl ∧ sl ≤ g.len.toNat
  | _ => True

theorem eattrs_ne_panic (g : Ghost) (hcap : g.len.toNat ≤ g.cap) (l : Bytes) :
    ∀ (mode : EMode) (e : Event), l.length ≤ g.len.toNat → EModeOk g l.length mode → eattrs g mode e l ≠ .panic := by
  induction l with
  | nil =>
    intro mode e hl hm
    cases mode with
    | sep => simp [eattrs]
    | start => simp only [eattrs]; exact guard_ne_panic (by ghost_omega g.len) (by simp)
    | colon k => simp [eattrs]
    | date v any => simp only [eattrs]; split; exact setDate_ne_panic _ _; simp
    | data k sl cur => simp only [eattrs, EModeOk] at hm ⊢; exact guard_ne_panic (by ghost_omega g.len) (applyData_ne_panic _ _ _)
    | tag sl cur => simp only [eattrs, EModeOk] at hm ⊢; exact guard_ne_panic (by ghost_omega g.len) (by simp)
    | skip sl => simp only [eattrs, EModeOk] at hm ⊢; exact guard_ne_panic (by ghost_omega g.len) (by simp)
  | cons b t ih =>
    intro mode e hl hm
    simp only [List.length_cons] at hl hm
    cases mode with
    | sep =>
      simp only [eattrs]
      split
      · exact ih _ _ (by omega) trivial
      split <;> simp
    | start =>
      simp only [eattrs]
      split
      · exact ih _ _ (by omega) trivial
      split
      · exact ih _ _ (by omega) ⟨Nat.le_refl _, by omega⟩
      · exact guard_ne_panic (by ghost_omega g.len) (ih _ _ (by omega) ⟨Nat.le_refl _, by omega⟩)
    | colon k =>
      simp only [eattrs]
      split
      · split
        · exact ih _ _ (by omega) trivial
        · exact guard_ne_panic (by ghost_omega g.len) (ih _ _ (by omega) ⟨Nat.le_refl _, by omega⟩)
      · simp
    | date v any =>
      simp only [eattrs]
      split
      · split
        · simp
        · exact ih _ _ (by omega) trivial
      split
      · exact Res.bind_ne_panic (setDate_ne_panic _ _) (fun _ _ => ih _ _ (by omega) trivial)
      split
      · refine Res.bind_ne_panic (setDate_ne_panic _ _) (fun _ _ => ?_)
        split
        · exact ih _ _ (by omega) trivial
        · simp
      · simp
    | data k sl cur =>
      simp only [eattrs, EModeOk] at hm ⊢
      split
      · exact guard_ne_panic (by ghost_omega g.len)
          (Res.bind_ne_panic (applyData_ne_panic _ _ _) (fun _ _ => ih _ _ (by omega) trivial))
      · exact ih _ _ (by omega) ⟨by omega, hm.2⟩
    | tag sl cur =>
      simp only [eattrs, EModeOk] at hm ⊢
      split
      · exact guard_ne_panic (by ghost_omega g.len) (ih _ _ (by omega) ⟨Nat.le_refl _, by omega⟩)
      split
      · exact guard_ne_panic (by ghost_omega g.len) (ih _ _ (by omega) trivial)
      split
      · exact guard_ne_panic (by ghost_omega g.len) (ih _ _ (by omega) trivial)
      · exact ih _ _ (by omega) ⟨by omega, hm.2⟩
    | skip sl =>
      simp only [eattrs, EModeOk] at hm ⊢
      split
      · exact guard_ne_panic (by ghost_omega g.len) (ih _ _ (by omega) trivial)
      · exact ih _ _ (by omega) ⟨by omega, hm.2⟩

def ECurOk : EMode → Prop
  | .tag _ cur => (44 : UInt8) ∉ cur ∧ (124 : UInt8) ∉ cur
  | _ => True

/-- the tags of an accepted event are non-empty and free of `,` and `|` -/
theorem eattrs_wf (g : Ghost) (l : Bytes) :
    ∀ (mode : EMode) (e e' : Event), eattrs g mode e l = .ok e' → ECurOk mode → (∀ t ∈ e.tags, TagOk t) →
      ∀ t ∈ e'.tags, TagOk t := by
  induction l with
  | nil =>
    intro mode e e' h hc ht
    cases mode with
    | sep => simp only [eattrs, Res.ok.injEq] at h; subst h; exact ht
    | start => simp only [eattrs] at h; have h := guard_eq_ok h; simp only [Res.ok.injEq] at h; subst h; exact ht
    | colon k => simp [eattrs] at h
    | date v any =>
      simp only [eattrs] at h; split at h
      · rw [setDate_tags h]; exact ht
      · simp at h
    | data k sl cur => simp only [eattrs] at h; rw [applyData_tags (guard_eq_ok h)]; exact ht
    | tag sl cur =>
      simp only [eattrs] at h; have h := guard_eq_ok h; simp only [Res.ok.injEq] at h; subst h
      exact pushTag_ok hc ht
    | skip sl => simp only [eattrs] at h; have h := guard_eq_ok h; simp only [Res.ok.injEq] at h; subst h; exact ht
  | cons b t ih =>
    intro mode e e' h hc ht
    cases mode with
    | sep =>
      simp only [eattrs] at h
      split at h
      · exact ih _ _ _ h trivial ht
      split at h
      · simp only [Res.ok.injEq] at h; subst h; exact ht
      · simp at h
    | start =>
      simp only [eattrs] at h
      split at h
      · exact ih _ _ _ h trivial ht
      split at h
      · exact ih _ _ _ h (by simp [ECurOk]) ht
      · exact ih _ _ _ (guard_eq_ok h) trivial ht
    | colon k =>
      simp only [eattrs] at h
      split at h
      · split at h
        · exact ih _ _ _ h trivial ht
        · exact ih _ _ _ (guard_eq_ok h) trivial ht
      · simp at h
    | date v any =>
      simp only [eattrs] at h
      split at h
      · split at h
        · simp at h
        · exact ih _ _ _ h trivial ht
      split at h
      · obtain ⟨e1, h1, h2⟩ := Res.bind_eq_ok h
        exact ih _ _ _ h2 trivial (by rw [setDate_tags h1]; exact ht)
      split at h
      · obtain ⟨e1, h1, h2⟩ := Res.bind_eq_ok h
        split at h2
        · exact ih _ _ _ h2 trivial (by rw [setDate_tags h1]; exact ht)
        · simp at h2
      · simp at h
    | data k sl cur =>
      simp only [eattrs] at h
      split at h
      · obtain ⟨e1, h1, h2⟩ := Res.bind_eq_ok (guard_eq_ok h)
        exact ih _ _ _ h2 trivial (by rw [applyData_tags h1]; exact ht)
      · exact ih _ _ _ h trivial ht
    | tag sl cur =>
      simp only [eattrs] at h
      simp only [ECurOk] at hc
      split at h
      · exact ih _ _ _ (guard_eq_ok h) (by simp [ECurOk]) (pushTag_ok hc ht)
      split at h
      · exact ih _ _ _ (guard_eq_ok h) trivial (pushTag_ok hc ht)
      split at h
      · refine ih _ _ _ (guard_eq_ok h) trivial (pushTag_ok (cur := 0 :: cur) ?_ ht)
        simp only [List.mem_cons, not_or]
        exact ⟨⟨by decide, hc.1⟩, ⟨by decide, hc.2⟩⟩
      · next h1 h2 h3 =>
        refine ih _ _ _ h ?_ ht
        simp only [ECurOk, List.mem_cons, not_or]
        exact ⟨⟨fun e => h1 e.symm, hc.1⟩, ⟨fun e => h2 e.symm, hc.2⟩⟩
    | skip sl =>
      simp only [eattrs] at h
      split at h
      · exact ih _ _ _ (guard_eq_ok h) trivial ht
      · exact ih _ _ _ h trivial ht

/-! ### event attributes on rendered fields -/

theorem sepTail_renderEFields (fs : List EField) (tail : Bytes) (h : SepTail tail) : SepTail (renderEFields fs ++ tail) := by
  cases fs with
  | nil => simpa [renderEFields] using h
  | cons f fs => right; exact ⟨_, by simp [renderEFields]; rfl⟩

section erun
variable (g : Ghost) (hcap : g.len.toNat ≤ g.cap)
include hcap

theorem eattrs_data_run (k : UInt8) (t tail : Bytes) (h : (124 : UInt8) ∉ t) (hs : SepTail tail) :
    ∀ (sl : Nat) (cur : Bytes) (e : Event), (t ++ tail).length ≤ sl → sl ≤ g.len.toNat →
      eattrs g (.data k sl cur) e (t ++ tail) = (applyData k (t.reverse ++ cur) e).bind (fun e' => eattrs g .sep e' tail) := by
  induction t with
  | nil =>
    intro sl cur e h1 h2
    rcases hs with rfl | ⟨m, rfl⟩
    · simp only [List.append_nil, eattrs, List.reverse_nil, List.nil_append]
      rw [guard_true _ (by ghost_omega g.len)]
      cases applyData k cur e <;> simp [eattrs]
    · simp only [List.nil_append, eattrs, if_true, List.reverse_nil]
      rw [guard_true _ (by ghost_omega g.len)]
  | cons b t ih =>
    intro sl cur e h1 h2
    have hb : b ≠ 124 := fun e => h (by simp [e])
    simp only [List.cons_append, eattrs, hb, if_false]
    rw [ih (fun e => h (List.mem_cons_of_mem _ e)) sl (b :: cur) e (by simp only [List.length_cons, List.length_append] at h1 ⊢; omega) h2]
    simp

theorem eattrs_skip_run (t tail : Bytes) (h : (124 : UInt8) ∉ t) (hs : SepTail tail) :
    ∀ (sl : Nat) (e : Event), (t ++ tail).length ≤ sl → sl ≤ g.len.toNat →
      eattrs g (.skip sl) e (t ++ tail) = eattrs g .sep e tail := by
  induction t with
  | nil =>
    intro sl e h1 h2
    rcases hs with rfl | ⟨m, rfl⟩
    · simp only [List.append_nil, eattrs]; rw [guard_true _ (by ghost_omega g.len)]
    · simp only [List.nil_append, eattrs, if_true]; rw [guard_true _ (by ghost_omega g.len)]
  | cons b t ih =>
    intro sl e h1 h2
    have hb : b ≠ 124 := fun e => h (by simp [e])
    simp only [List.cons_append, eattrs, hb, if_false]
    exact ih (fun e => h (List.mem_cons_of_mem _ e)) sl e (by simp only [List.length_cons, List.length_append] at h1 ⊢; omega) h2

omit hcap in
theorem eattrs_tag_token (t X : Bytes) (h1 : (44 : UInt8) ∉ t) (h2 : (124 : UInt8) ∉ t) (h3 : (0 : UInt8) ∉ t) :
    ∀ (sl : Nat) (cur : Bytes) (e : Event),
      eattrs g (.tag sl cur) e (t ++ X) = eattrs g (.tag sl (t.reverse ++ cur)) e X := by
  induction t with
  | nil => intro sl cur e; simp
  | cons b t ih =>
    intro sl cur e
    have hb1 : b ≠ 44 := fun e => h1 (by simp [e])
    have hb2 : b ≠ 124 := fun e => h2 (by simp [e])
    have hb3 : b ≠ 0 := fun e => h3 (by simp [e])
    simp only [List.cons_append, eattrs, hb1, hb2, hb3, if_false]
    rw [ih (fun e => h1 (List.mem_cons_of_mem _ e)) (fun e => h2 (List.mem_cons_of_mem _ e)) (fun e => h3 (List.mem_cons_of_mem _ e))]
    simp

theorem eattrs_tag_end (tail : Bytes) (hs : SepTail tail) (sl : Nat) (cur : Bytes) (e : Event)
    (h1 : tail.length ≤ sl) (h2 : sl ≤ g.len.toNat) :
    eattrs g (.tag sl cur) e tail = eattrs g .sep { e with tags := pushTag cur e.tags } tail := by
  rcases hs with rfl | ⟨m, rfl⟩
  · simp only [eattrs]; rw [guard_true _ (by ghost_omega g.len)]
  · have : (124 : UInt8) ≠ 44 := by decide
    simp only [eattrs, this, if_false, if_true]; rw [guard_true _ (by ghost_omega g.len)]

theorem eattrs_tags_run (tail : Bytes) (hs : SepTail tail) (ts : List Bytes)
    (hts : ∀ t ∈ ts, (44 : UInt8) ∉ t ∧ (124 : UInt8) ∉ t ∧ (0 : UInt8) ∉ t) :
    ∀ (sl : Nat) (cur : Bytes) (e : Event), (joinTail ts ++ tail).length ≤ sl → sl ≤ g.len.toNat →
      eattrs g (.tag sl cur) e (joinTail ts ++ tail) =
        eattrs g .sep { e with tags := (ts.filter (· ≠ [])).reverse ++ pushTag cur e.tags } tail := by
  induction ts with
  | nil => intro sl cur e h1 h2; simpa [joinTail] using eattrs_tag_end g hcap tail hs sl cur e (by simpa [joinTail] using h1) h2
  | cons t ts ih =>
    intro sl cur e h1 h2
    have ht := hts t (by simp)
    have e' : joinTail (t :: ts) ++ tail = 44 :: (t ++ (joinTail ts ++ tail)) := by simp [joinTail]
    rw [e'] at h1 ⊢
    simp only [eattrs, if_true]
    rw [guard_true _ (by ghost_omega g.len)]
    rw [eattrs_tag_token g t _ ht.1 ht.2.1 ht.2.2]
    rw [ih (fun t' h' => hts t' (List.mem_cons_of_mem _ h')) _ _ _ (by simp only [List.length_cons, List.length_append] at h1 ⊢; omega)
      (by simp only [List.length_cons, List.length_append] at h1 ⊢; omega)]
    rw [List.append_nil, pushTag_reverse]
    congr 2
    simp only [List.filter_cons]
    split <;> simp <;> done

theorem eattrs_date_run (ds tail : Bytes) (hd : ∀ b ∈ ds, isDigit b = true) (hs : SepTail tail) :
    ∀ (v : UInt64) (any : Bool) (e : Event), digitsAcc v.toNat ds < 18446744073709551616 → (any = true ∨ ds ≠ []) →
      eattrs g (.date v any) e (ds ++ tail) =
        (setDate e (UInt64.ofNat (digitsAcc v.toNat ds))).bind (fun e' => eattrs g .sep e' tail) := by
  induction ds with
  | nil =>
    intro v any e hfit hany
    have hany : any = true := by simpa using hany
    simp only [List.nil_append, digitsAcc, List.foldl_nil, UInt64.ofNat_toNat]
    rcases hs with rfl | ⟨m, rfl⟩
    · simp only [eattrs, hany, if_true]
      cases setDate e v <;> simp [eattrs]
    · have h1 : isDigit 124 = false := by decide
      have h2 : (124 : UInt8) ≠ 0 := by decide
      simp only [eattrs, h1, h2, hany, if_true, if_false, Bool.false_eq_true]
  | cons b t ih =>
    intro v any e hfit _
    have hb : isDigit b = true := hd b (by simp)
    rw [digitsAcc_cons] at hfit
    have hfit1 : v.toNat * 10 + (b.toNat - 48) < 18446744073709551616 := Nat.lt_of_le_of_lt (digitsAcc_ge t _) hfit
    obtain ⟨e1, e2⟩ := uintStep_ok hb hfit1
    simp only [List.cons_append, eattrs, hb, if_true, e2, if_false]
    rw [ih (fun x hx => hd x (List.mem_cons_of_mem _ hx)) _ true e (by rw [e1]; exact hfit) (Or.inl rfl)]
    rw [e1, digitsAcc_cons]

theorem eattrs_field_run (f : EField) (hf : f.WF) (tail : Bytes) (hs : SepTail tail) (e : Event)
    (h1 : (f.render ++ tail).length ≤ g.len.toNat) :
    eattrs g .start e (f.render ++ tail) = eattrs g .sep (f.apply e) tail := by
  have dataCase : ∀ (k : UInt8) (t : Bytes), isDataKey k = true → (124 : UInt8) ∉ t →
      ((k :: 58 :: t) ++ tail).length ≤ g.len.toNat →
      eattrs g .start e ((k :: 58 :: t) ++ tail) = (applyData k t.reverse e).bind (fun e' => eattrs g .sep e' tail) := by
    intro k t hk h124 hl
    have hk100 : k ≠ 100 := by
      intro e; subst e; simp [isDataKey] at hk
    simp only [List.cons_append, List.length_cons] at hl ⊢
    simp only [eattrs, hk, Bool.or_true, if_true, hk100, if_false]
    rw [guard_true _ (by ghost_omega g.len)]
    rw [eattrs_data_run g hcap k t tail h124 hs _ _ _ (Nat.le_refl _) (by omega)]
    simp
  cases f with
  | date ds =>
    obtain ⟨⟨hne, hd⟩, hmax⟩ := hf
    simp only [EField.render, List.cons_append, List.length_cons] at h1 ⊢
    have h100 : (decide ((100 : UInt8) = 100) || isDataKey 100) = true := by decide
    simp only [eattrs, h100, if_true]
    rw [eattrs_date_run g hcap ds tail hd hs 0 false e (by simp only [show (0 : UInt64).toNat = 0 from rfl, ← digitsVal_eq]; omega) (Or.inr hne)]
    simp only [show (0 : UInt64).toNat = 0 from rfl, ← digitsVal_eq]
    have : setDate e (UInt64.ofNat (digitsVal ds)) = .ok { e with date := UInt64.ofNat (digitsVal ds) } := by
      unfold setDate
      have : ¬ (UInt64.ofNat (digitsVal ds) > 0x7FFFFFFFFFFFFFFF) := by
        simp only [gt_iff_lt, UInt64.lt_iff_toNat_lt, UInt64.toNat_ofNat', show (0x7FFFFFFFFFFFFFFF : UInt64).toNat = 9223372036854775807 from rfl]
        omega
      simp [this]
    rw [this]; rfl
  | host t =>
    rw [show (EField.host t).render = 104 :: 58 :: t from rfl] at h1 ⊢
    rw [dataCase 104 t (by decide) hf h1]
    simp [applyData, EField.apply]
  | aggKey t =>
    rw [show (EField.aggKey t).render = 107 :: 58 :: t from rfl] at h1 ⊢
    rw [dataCase 107 t (by decide) hf h1]
    simp [applyData, EField.apply]
  | srcType t =>
    rw [show (EField.srcType t).render = 115 :: 58 :: t from rfl] at h1 ⊢
    rw [dataCase 115 t (by decide) hf h1]
    simp [applyData, EField.apply]
  | prio p =>
    cases p with
    | low =>
      rw [show (EField.prio .low).render = 112 :: 58 :: bLow from rfl] at h1 ⊢
      rw [dataCase 112 bLow (by decide) (by decide) h1]
      simp [applyData, EField.apply]
    | normal =>
      rw [show (EField.prio .normal).render = 112 :: 58 :: bNormal from rfl] at h1 ⊢
      rw [dataCase 112 bNormal (by decide) (by decide) h1]
      have : bNormal ≠ bLow := by decide
      simp [applyData, EField.apply, this]
  | alert a =>
    cases a with
    | info =>
      rw [show (EField.alert .info).render = 116 :: 58 :: bInfo from rfl] at h1 ⊢
      rw [dataCase 116 bInfo (by decide) (by decide) h1]
      have h1 : bInfo ≠ bError := by decide
      have h2 : bInfo ≠ bWarning := by decide
      have h3 : bInfo ≠ bSuccess := by decide
      simp [applyData, EField.apply, h1, h2, h3]
    | warning =>
      rw [show (EField.alert .warning).render = 116 :: 58 :: bWarning from rfl] at h1 ⊢
      rw [dataCase 116 bWarning (by decide) (by decide) h1]
      have h1 : bWarning ≠ bError := by decide
      simp [applyData, EField.apply, h1]
    | error =>
      rw [show (EField.alert .error).render = 116 :: 58 :: bError from rfl] at h1 ⊢
      rw [dataCase 116 bError (by decide) (by decide) h1]
      simp [applyData, EField.apply]
    | success =>
      rw [show (EField.alert .success).render = 116 :: 58 :: bSuccess from rfl] at h1 ⊢
      rw [dataCase 116 bSuccess (by decide) (by decide) h1]
      have h1 : bSuccess ≠ bError := by decide
      have h2 : bSuccess ≠ bWarning := by decide
      simp [applyData, EField.apply, h1, h2]
  | tags ts =>
    simp only [EField.render, List.cons_append, List.length_cons] at h1 ⊢
    have e35 : (decide ((35 : UInt8) = 100) || isDataKey 35) = false := by decide
    simp only [eattrs, e35, Bool.false_eq_true, if_false, if_true]
    cases ts with
    | nil =>
      simp only [joinComma, List.nil_append] at h1 ⊢
      rw [eattrs_tag_end g hcap tail hs _ _ _ (Nat.le_refl _) (by omega)]
      simp [pushTag, EField.apply]
    | cons t ts =>
      have ht := hf t (by simp)
      simp only [joinComma, List.append_assoc] at h1 ⊢
      rw [eattrs_tag_token g t _ ht.1 ht.2.1 ht.2.2]
      rw [eattrs_tags_run g hcap tail hs ts (fun t' h' => hf t' (List.mem_cons_of_mem _ h')) _ _ _
        (by simp only [List.length_cons, List.length_append] at h1 ⊢; omega) (by simp only [List.length_cons, List.length_append] at h1 ⊢; omega)]
      rw [List.append_nil, pushTag_reverse]
      simp only [EField.apply, List.filter_cons]
      congr 2
      split <;> simp <;> done
  | other t =>
    obtain ⟨h124, b, r0, rfl, hb1, hb2, hb3, hb4, hb5, hb6, hb7⟩ := hf
    simp only [EField.render, List.cons_append, List.length_cons] at h1 ⊢
    have hk : (decide (b = 100) || isDataKey b) = false := by simp [isDataKey, hb1, hb2, hb3, hb4, hb5, hb6]
    simp only [eattrs, hk, hb7, Bool.false_eq_true, if_false]
    rw [guard_true _ (by ghost_omega g.len)]
    rw [eattrs_skip_run g hcap r0 tail (fun e => h124 (List.mem_cons_of_mem _ e)) hs _ _ (Nat.le_refl _) (by omega)]
    rfl

theorem eattrs_fields_run (fs : List EField) (hfs : ∀ f ∈ fs, f.WF) (tail : Bytes) (hs : SepTail tail) :
    ∀ (e : Event), (renderEFields fs ++ tail).length ≤ g.len.toNat →
      eattrs g .sep e (renderEFields fs ++ tail) = eattrs g .sep (fs.foldl EField.apply e) tail := by
  induction fs with
  | nil => intro e _; simp [renderEFields]
  | cons f fs ih =>
    intro e h1
    have e' : renderEFields (f :: fs) ++ tail = 124 :: (f.render ++ (renderEFields fs ++ tail)) := by simp [renderEFields]
    rw [e'] at h1 ⊢
    simp only [eattrs, if_true]
    rw [eattrs_field_run g hcap f (hfs f (by simp)) _ (sepTail_renderEFields fs tail hs) e
      (by simp only [List.length_cons, List.length_append] at h1 ⊢; omega)]
    rw [ih (fun f' h' => hfs f' (List.mem_cons_of_mem _ h')) _ (by simp only [List.length_cons, List.length_append] at h1 ⊢; omega)]
    rfl

end erun

/-! ### the event header and the event chain -/

theorem eventHeader_ne_panic (t : Bytes) : eventHeader t ≠ .panic := by
  unfold eventHeader
  split
  · simp
  · split
    · refine Res.bind_ne_panic (lexAssert_ne_panic _ _) (fun _ _ => ?_)
      refine Res.bind_ne_panic (lexUint32_ne_panic _) (fun ⟨_, _⟩ _ => ?_)
      refine Res.bind_ne_panic (lexAssert_ne_panic _ _) (fun _ _ => ?_)
      refine Res.bind_ne_panic (lexUint32_ne_panic _) (fun ⟨_, _⟩ _ => ?_)
      refine Res.bind_ne_panic (lexAssert_ne_panic _ _) (fun _ _ => ?_)
      refine Res.bind_ne_panic (lexAssert_ne_panic _ _) (fun _ _ => ?_)
      simp
    · simp

theorem eventHeader_inv {t : Bytes} {tl xl : UInt32} {t7 : Bytes} (h : eventHeader t = .ok (tl, xl, t7)) :
    (58 : UInt8) ∈ t ∧ t7.length < t.length ∧ t.head? = some 101 := by
  unfold eventHeader at h
  split at h
  · simp at h
  · next b t1 =>
    split at h
    · next hb =>
      obtain ⟨t2, h1, h⟩ := Res.bind_eq_ok h
      obtain ⟨⟨tl', t3⟩, h2, h⟩ := Res.bind_eq_ok h
      obtain ⟨t4, h3, h⟩ := Res.bind_eq_ok h
      obtain ⟨⟨xl', t5⟩, h4, h⟩ := Res.bind_eq_ok h
      obtain ⟨t6, h5, h⟩ := Res.bind_eq_ok h
      obtain ⟨t7', h6, h⟩ := Res.bind_eq_ok h
      simp only [Res.ok.injEq, Prod.mk.injEq] at h
      obtain ⟨_, _, rfl⟩ := h
      have e1 := lexAssert_inv h1
      have ⟨s2, l2⟩ := lexUint32_inv h2
      have e3 := lexAssert_inv h3
      have ⟨s4, l4⟩ := lexUint32_inv h4
      have e5 := lexAssert_inv h5
      have e6 := lexAssert_inv h6
      subst e1 e3 e5 e6
      refine ⟨?_, ?_, by simp [hb]⟩
      · have m5 : (58 : UInt8) ∈ (125 : UInt8) :: 58 :: t7' := by simp
        have m4 := s4 _ m5
        have m3 : (58 : UInt8) ∈ (44 : UInt8) :: t4 := List.mem_cons_of_mem _ m4
        have m2 := s2 _ m3
        exact List.mem_cons_of_mem _ (List.mem_cons_of_mem _ m2)
      · simp only [List.length_cons] at l2 l4 ⊢; omega
    · simp at h

/-- the header of a rendered event -/
theorem eventHeader_render (td xd body : Bytes) (h1 : AllDigits td) (h2 : AllDigits xd)
    (f1 : digitsVal td < 4294967296) (f2 : digitsVal xd < 4294967296) :
    eventHeader (101 :: 123 :: (td ++ 44 :: (xd ++ 125 :: 58 :: body))) =
      .ok (UInt32.ofNat (digitsVal td), UInt32.ofNat (digitsVal xd), body) := by
  have n1 : NumTail (44 :: (xd ++ 125 :: 58 :: body)) := Or.inr ⟨44, _, rfl, by decide, by decide⟩
  have n2 : NumTail (125 :: 58 :: body) := Or.inr ⟨125, _, rfl, by decide, by decide⟩
  simp only [eventHeader, if_true, lexAssert, Res.bind_ok]
  rw [lexUint32_digits td _ h1 n1 f1]
  simp only [Res.bind_ok, lexAssert, if_true]
  rw [lexUint32_digits xd _ h2 n2 f2]
  simp only [Res.bind_ok, lexAssert, if_true]

/-- with the D1 repair the event chain cannot go out of bounds -/
theorem datadog_wide_ne_panic (cfg : Cfg) (hw : cfg.wideLenCheck = true) (g : Ghost) (input t : Bytes)
    (h1 : t.length ≤ input.length) (h2 : input.length ≤ g.len.toNat) (hcap : g.len.toNat ≤ g.cap) :
    datadog cfg g input t ≠ .panic := by
  unfold datadog
  refine Res.bind_ne_panic (eventHeader_ne_panic t) (fun ⟨tl, xl, t7⟩ hh => ?_)
  have := (eventHeader_inv hh).2.1
  refine Res.bind_ne_panic (eventBody_wide_ne_panic cfg hw g input t7 tl xl (by omega) hcap) (fun ⟨title, text, t8⟩ hb => ?_)
  have := (eventBody_ok_bar hb).2
  refine Res.bind_ne_panic (eattrs_ne_panic g hcap t8 _ _ (by simp only at this; omega) trivial) (fun _ _ => by simp)

theorem datadog_ok_inv {cfg : Cfg} {g : Ghost} {input t : Bytes} {e : Event} (h : datadog cfg g input t = .ok e) :
    (58 : UInt8) ∈ t ∧ (124 : UInt8) ∈ input ∧ t.head? = some 101 ∧ ∀ x ∈ e.tags, TagOk x := by
  unfold datadog at h
  obtain ⟨⟨tl, xl, t7⟩, hh, h⟩ := Res.bind_eq_ok h
  obtain ⟨⟨title, text, t8⟩, hb, h⟩ := Res.bind_eq_ok h
  obtain ⟨e0, he, h⟩ := Res.bind_eq_ok h
  simp only [Res.ok.injEq] at h
  subst h
  have hi := eventHeader_inv hh
  refine ⟨hi.1, (eventBody_ok_bar hb).1, hi.2.2, ?_⟩
  intro x hx
  have := eattrs_wf g t8 .sep _ e0 he trivial (by simp)
  exact this x (by simpa using hx)

/-- without a `:` the event chain stops in the header with an error -/
theorem datadog_no_colon (cfg : Cfg) (g : Ghost) (input t : Bytes) (h : (58 : UInt8) ∉ t) : ∃ e, datadog cfg g input t = .err e := by
  unfold datadog
  cases hh : eventHeader t with
  | ok a => obtain ⟨tl, xl, t7⟩ := a; exact absurd (eventHeader_inv hh).1 h
  | err e => exact ⟨e, rfl⟩
  | panic => exact absurd hh (eventHeader_ne_panic t)

end Gsd.Lexer
