import Gsd.Model.Sender
import Batteries.Data.List.Perm
/-! Helper lemmas for C16: the inductive invariants of the sender automaton. -/
set_option linter.unusedSimpArgs false
set_option linter.unusedVariables false
namespace Gsd.Sender

/-! ### field lemmas for `goInner`, `refresh` -/
@[simp] theorem goInner_held (cfg : Cfg) (s : St) (c : Nat) : (goInner cfg s c).held = s.held := by
  unfold goInner; split
  · split <;> rfl
  · rfl
@[simp] theorem goInner_errs (cfg : Cfg) (s : St) (c : Nat) : (goInner cfg s c).errs = s.errs := by
  unfold goInner; split
  · split <;> rfl
  · rfl
@[simp] theorem goInner_armed (cfg : Cfg) (s : St) (c : Nat) : (goInner cfg s c).armed = s.armed := by
  unfold goInner; split
  · split <;> rfl
  · rfl
@[simp] theorem goInner_scancel (cfg : Cfg) (s : St) (c : Nat) : (goInner cfg s c).scancel = s.scancel := by
  unfold goInner; split
  · split <;> rfl
  · rfl
@[simp] theorem goInner_ctxDone (cfg : Cfg) (s : St) (c : Nat) : (goInner cfg s c).ctxDone = s.ctxDone := by
  unfold goInner; split
  · split <;> rfl
  · rfl
@[simp] theorem goInner_next (cfg : Cfg) (s : St) (c : Nat) : (goInner cfg s c).next = s.next := by
  unfold goInner; split
  · split <;> rfl
  · rfl
@[simp] theorem goInner_queue (cfg : Cfg) (s : St) (c : Nat) : (goInner cfg s c).queue = s.queue := by
  unfold goInner; split
  · split <;> rfl
  · rfl
@[simp] theorem goInner_closed (cfg : Cfg) (s : St) (c : Nat) : (goInner cfg s c).closed = s.closed := by
  unfold goInner; split
  · split <;> rfl
  · rfl
@[simp] theorem goInner_cancelled (cfg : Cfg) (s : St) (c : Nat) : (goInner cfg s c).cancelled = s.cancelled := by
  unfold goInner; split
  · split <;> rfl
  · rfl
@[simp] theorem goInner_cbs (cfg : Cfg) (s : St) (c : Nat) : (goInner cfg s c).cbs = s.cbs := by
  unfold goInner; split
  · split <;> rfl
  · rfl
@[simp] theorem goInner_lost (cfg : Cfg) (s : St) (c : Nat) : (goInner cfg s c).lost = s.lost := by
  unfold goInner; split
  · split <;> rfl
  · rfl
@[simp] theorem goInner_wfail (cfg : Cfg) (s : St) (c : Nat) : (goInner cfg s c).wfail = s.wfail := by
  unfold goInner; split
  · split <;> rfl
  · rfl
@[simp] theorem refresh_pc (cfg : Cfg) (s : St) : (refresh cfg s).pc = s.pc := by
  unfold refresh; split <;> rfl
@[simp] theorem refresh_held (cfg : Cfg) (s : St) : (refresh cfg s).held = s.held := by
  unfold refresh; split <;> rfl
@[simp] theorem refresh_errs (cfg : Cfg) (s : St) : (refresh cfg s).errs = s.errs := by
  unfold refresh; split <;> rfl
@[simp] theorem refresh_ctxDone (cfg : Cfg) (s : St) : (refresh cfg s).ctxDone = s.ctxDone := by
  unfold refresh; split <;> rfl
@[simp] theorem refresh_next (cfg : Cfg) (s : St) : (refresh cfg s).next = s.next := by
  unfold refresh; split <;> rfl
@[simp] theorem refresh_queue (cfg : Cfg) (s : St) : (refresh cfg s).queue = s.queue := by
  unfold refresh; split <;> rfl
@[simp] theorem refresh_closed (cfg : Cfg) (s : St) : (refresh cfg s).closed = s.closed := by
  unfold refresh; split <;> rfl
@[simp] theorem refresh_cancelled (cfg : Cfg) (s : St) : (refresh cfg s).cancelled = s.cancelled := by
  unfold refresh; split <;> rfl
@[simp] theorem refresh_cbs (cfg : Cfg) (s : St) : (refresh cfg s).cbs = s.cbs := by
  unfold refresh; split <;> rfl
@[simp] theorem refresh_lost (cfg : Cfg) (s : St) : (refresh cfg s).lost = s.lost := by
  unfold refresh; split <;> rfl
@[simp] theorem refresh_wfail (cfg : Cfg) (s : St) : (refresh cfg s).wfail = s.wfail := by
  unfold refresh; split <;> rfl

theorem goInner_pc (cfg : Cfg) (s : St) (c : Nat) :
    (goInner cfg s c).pc = if c < cfg.max then (match s.held with | none => .recvStream c | some _ => .recvBuf c) else .dial := by
  unfold goInner; split
  · split <;> simp_all
  · simp_all

theorem refresh_armed (cfg : Cfg) (s : St) :
    (refresh cfg s).armed = match s.held with | none => true | some _ => if cfg.fixSink then false else s.armed := by
  unfold refresh; split <;> simp_all
theorem refresh_scancel (cfg : Cfg) (s : St) :
    (refresh cfg s).scancel = match s.held with | none => (if cfg.fixCancel then none else s.scancel) | some j => some j := by
  unfold refresh; split <;> simp_all

/-! ### counting callbacks -/

@[simp] theorem cbCountL_nil (k : Nat) : cbCountL [] k = 0 := rfl
theorem cbCountL_append (a b : List Cb) (k : Nat) : cbCountL (a ++ b) k = cbCountL a k + cbCountL b k := by
  simp [cbCountL]
theorem cbCountL_singleton (j : Nat) (es v) (k : Nat) : cbCountL [⟨j, es, v⟩] k = if j = k then 1 else 0 := by
  by_cases h : j = k <;> simp [cbCountL, h]
theorem cbCountL_map (q : List Nat) (es v) (k : Nat) :
    cbCountL (q.map (fun j => (⟨j, es, v⟩ : Cb))) k = q.count k := by
  induction q with
  | nil => rfl
  | cons j q ih =>
    have : cbCountL ((⟨j, es, v⟩ : Cb) :: q.map (fun j => (⟨j, es, v⟩ : Cb))) k
        = cbCountL [⟨j, es, v⟩] k + cbCountL (q.map (fun j => (⟨j, es, v⟩ : Cb))) k := by
      rw [← cbCountL_append]; rfl
    simp only [List.map_cons, this, ih, cbCountL_singleton, List.count_cons]
    by_cases h : j = k <;> simp [h] <;> omega


/-! ### counting invariant -/


/-- counting invariant -/
structure Inv1 (s : St) : Prop where
  places : ∀ j, places s j = if j < s.next then 1 else 0
  pcBuf : ∀ c, s.pc = .recvBuf c → s.held.isSome
  pcStream : ∀ c, s.pc = .recvStream c → s.held = none
  stopped : s.pc = .stopped → s.held = none ∧ s.queue = []
  panicked : s.pc = .panicked → s.held = none

theorem inv1_init : Inv1 init := by
  constructor <;> simp [init, places]

theorem places_exit (s : St) (j : Nat) : places (exit s) j = places s j := by
  simp only [places, exit, cbCountL_append, cbCountL_map]
  cases hh : s.held with
  | none => simp; omega
  | some h => simp [cbCountL_singleton]; by_cases hj : h = j <;> simp [hj] <;> omega

theorem inv1_step {cfg : Cfg} {s s' : St} {e : Ev} (hi : Inv1 s) (h : step cfg s e = some s') : Inv1 s' := by
  obtain ⟨hp, hb, hs, hst, hpa⟩ := hi
  cases e with
  | connOk =>
    simp only [step] at h
    split at h <;> simp at h
    subst h
    constructor
    · intro j; simpa [places] using hp j
    · intro c hc; rw [goInner_pc] at hc; split at hc
      · split at hc <;> simp_all
      · simp at hc
    · intro c hc; rw [goInner_pc] at hc; split at hc
      · split at hc <;> simp_all
      · simp at hc
    · intro hc; rw [goInner_pc] at hc; split at hc
      · split at hc <;> simp at hc
      · simp at hc
    · intro hc; rw [goInner_pc] at hc; split at hc
      · split at hc <;> simp at hc
      · simp at hc
  | connFail =>
    simp only [step] at h
    split at h <;> simp at h
    subst h
    constructor <;> intros <;> simp_all [places]
  | timer =>
    simp only [step] at h
    split at h <;> simp at h
    subst h
    constructor <;> intros <;> simp_all [places]
  | offer =>
    simp only [step] at h
    split at h <;> simp at h
    subst h
    constructor
    · intro j
      have := hp j
      simp only [places, List.count_append, List.count_singleton] at this ⊢
      by_cases hj : s.next = j <;> by_cases hh : s.held = some j <;> by_cases hlt : j < s.next <;>
        by_cases hlt2 : j < s.next + 1 <;> simp [hj, hh, hlt, hlt2] at this ⊢ <;> omega
    all_goals (intros; simp_all)
  | take =>
    simp only [step] at h
    split at h
    · simp at h
    · rename_i j q hq
      split at h
      · rename_i c hc
        simp at h; subst h
        have hn := hs c hc
        constructor
        · intro k
          have := hp k
          simp only [places, hq, hn, List.count_cons] at this ⊢
          by_cases hk : j = k <;> simp_all <;> omega
        all_goals (intros; simp_all)
      · rename_i hc
        split at h <;> simp at h
        subst h
        constructor
        · intro k
          have := hp k
          simp only [places, hq, List.count_cons, refresh_held, refresh_queue, refresh_lost, refresh_cbs, refresh_next, List.count_append] at this ⊢
          cases hh : s.held with
          | none => simp_all; by_cases hk : j = k <;> simp_all <;> omega
          | some h0 => simp_all [List.count_singleton]; by_cases hk : j = k <;> by_cases hk2 : h0 = k <;> simp_all <;> omega
        all_goals (intros; simp_all)
      · simp at h
  | wrote ok =>
    simp only [step] at h
    split at h
    · rename_i c j hc hh
      split at h
      · simp at h
      · split at h <;> simp at h <;> subst h
        · exact ⟨hp, hb, hs, hst, hpa⟩
        · constructor
          · intro k; simpa [places] using hp k
          all_goals (intros; simp_all)
    · simp at h
  | closeBuf j =>
    simp only [step] at h
    split at h <;> simp at h
    subst h
    constructor
    · intro k; simpa [places] using hp k
    all_goals (intros; simp_all)
  | seeClosed =>
    simp only [step] at h
    split at h
    · rename_i c j hc hh
      split at h <;> simp at h
      subst h
      constructor
      · intro k
        have := hp k
        simp only [places, goInner_held, goInner_queue, goInner_lost, goInner_cbs, goInner_next, callback, hh,
          cbCountL_append, cbCountL_singleton] at this ⊢
        by_cases hk : j = k <;> simp_all <;> omega
      all_goals
        intros
        rename_i hpc
        rw [goInner_pc] at hpc
        split at hpc
        · split at hpc <;> simp_all [callback]
        · simp at hpc
    · simp at h
  | cancelStream j =>
    simp only [step] at h
    split at h <;> simp at h
    subst h
    constructor
    · intro k; simpa [places] using hp k
    all_goals (intros; simp_all)
  | seeStreamCancel =>
    simp only [step] at h
    split at h
    · rename_i hw
      split at h
      · rename_i j hsc
        split at h
        · split at h <;> simp at h <;> subst h
          · rename_i hh
            constructor
            · intro k; simpa [places] using hp k
            all_goals (intros; simp_all)
          · rename_i h0 hh
            constructor
            · intro k
              have := hp k
              simp only [places, refresh_held, refresh_queue, refresh_lost, refresh_cbs, refresh_next, callback, hh,
                cbCountL_append, cbCountL_singleton] at this ⊢
              by_cases hk : h0 = k <;> simp_all <;> omega
            all_goals (intros; simp_all [callback])
        · simp at h
      · simp at h
    · simp at h
  | cancelCtx =>
    simp only [step] at h
    split at h <;> simp at h
    subst h
    constructor
    · intro k; simpa [places] using hp k
    all_goals (intros; simp_all)
  | seeCtx =>
    simp only [step] at h
    split at h
    · split at h <;> simp at h <;> subst h
      all_goals
        constructor
        · intro k; rw [places_exit]; simpa [places, exit] using hp k
        all_goals (intros; simp_all [exit])
    · simp at h


/-! ### the repaired behaviours -/


def Inv2 (s : St) : Prop := s.lost = [] ∧ (s.pc = .wait → s.held.isSome → s.armed = false)
def Inv3 (s : St) : Prop := s.pc ≠ .panicked ∧ (s.pc = .wait → s.held = none → s.scancel = none)

theorem goInner_pc_ne_wait (cfg : Cfg) (s : St) (c : Nat) : (goInner cfg s c).pc ≠ .wait := by
  rw [goInner_pc]; split
  · split <;> simp
  · simp
theorem goInner_pc_ne_panicked (cfg : Cfg) (s : St) (c : Nat) : (goInner cfg s c).pc ≠ .panicked := by
  rw [goInner_pc]; split
  · split <;> simp
  · simp

theorem inv2_step {cfg : Cfg} {s s' : St} {e : Ev} (hf : cfg.fixSink = true) (hi : Inv2 s)
    (h : step cfg s e = some s') : Inv2 s' := by
  obtain ⟨hl, ha⟩ := hi
  cases e <;> simp only [step] at h <;> (repeat' split at h) <;> simp at h <;> subst h <;>
    simp_all [Inv2, refresh_armed, goInner_pc_ne_wait, exit, callback] <;>
    (try (cases hh : s.held <;> simp_all))

theorem inv3_step {cfg : Cfg} {s s' : St} {e : Ev} (hf : cfg.fixCancel = true) (hi : Inv3 s)
    (h : step cfg s e = some s') : Inv3 s' := by
  obtain ⟨hl, ha⟩ := hi
  cases e <;> simp only [step] at h <;> (repeat' split at h) <;> simp at h <;> subst h <;>
    simp_all [Inv3, refresh_scancel, goInner_pc_ne_wait, goInner_pc_ne_panicked, exit, callback] <;>
    (try (cases hh : s.held <;> simp_all))


/-! ### errors carried by callbacks -/


structure Inv4 (s : St) : Prop where
  wfailCb : ∀ cb ∈ s.cbs, cb.stream ∈ s.wfail → Err.write ∈ cb.errs
  wfailHeld : ∀ j, s.held = some j → j ∈ s.wfail → Err.write ∈ s.errs
  wfailQueue : ∀ j ∈ s.wfail, j ∉ s.queue ∧ j < s.next
  viaErr : ∀ cb ∈ s.cbs, cb.via ≠ .drained → cb.errs ≠ []

theorem cbCountL_eq_zero {cbs : List Cb} {j : Nat} (h : cbCountL cbs j = 0) : ∀ cb ∈ cbs, cb.stream ≠ j := by
  intro cb hcb heq
  have : cb ∈ cbs.filter (fun cb => cb.stream == j) := by simp [hcb, heq]
  have : 0 < (cbs.filter (fun cb => cb.stream == j)).length := List.length_pos_of_mem this
  simp [cbCountL] at h
  exact h cb hcb heq

/-- consequences of the counting invariant for the held stream -/
theorem held_facts {s : St} (hp : ∀ j, places s j = if j < s.next then 1 else 0) {j : Nat} (hh : s.held = some j) :
    j < s.next ∧ j ∉ s.queue ∧ (∀ cb ∈ s.cbs, cb.stream ≠ j) := by
  have := hp j
  simp only [places, hh] at this
  by_cases hlt : j < s.next
  · simp [hlt] at this
    refine ⟨hlt, ?_, cbCountL_eq_zero (by omega)⟩
    intro hm; have := List.count_pos_iff.mpr hm; omega
  · simp [hlt] at this

theorem inv4_init : Inv4 init := by constructor <;> simp [init]

theorem inv4_step {cfg : Cfg} {s s' : St} {e : Ev} (hp : ∀ j, places s j = if j < s.next then 1 else 0)
    (hi : Inv4 s) (h : step cfg s e = some s') : Inv4 s' := by
  obtain ⟨ha, hb, hc, hd⟩ := hi
  cases e with
  | wrote ok =>
    simp only [step] at h
    split at h
    · rename_i c j hpc hh
      split at h
      · simp at h
      · split at h <;> simp at h <;> subst h
        · exact ⟨ha, hb, hc, hd⟩
        · obtain ⟨h1, h2, h3⟩ := held_facts hp hh
          constructor
          · intro cb hcb hw
            simp at hw hcb
            rcases hw with hw | hw
            · exact ha cb hcb hw
            · exact absurd hw (h3 cb hcb)
          · intro k hk _; simp
          · intro k hk
            simp at hk
            rcases hk with hk | hk
            · exact hc k hk
            · subst hk; exact ⟨h2, h1⟩
          · exact hd
    · simp at h
  | connOk | connFail | timer | closeBuf _ | cancelStream _ | cancelCtx =>
    simp only [step] at h
    (repeat' split at h) <;> simp at h <;> subst h <;>
      exact ⟨by simpa using ha, by simpa using hb, by simpa using hc, by simpa using hd⟩
  | offer =>
    simp only [step] at h
    split at h <;> simp at h
    subst h
    refine ⟨by simpa using ha, by simpa using hb, ?_, by simpa using hd⟩
    intro j hj
    have := hc j hj
    refine ⟨?_, by simp; omega⟩
    simp; exact ⟨this.1, by omega⟩
  | take =>
    simp only [step] at h
    split at h
    · simp at h
    · rename_i j q hq
      have hjq : j ∈ s.queue := by simp [hq]
      have hjw : j ∉ s.wfail := fun hw => (hc j hw).1 hjq
      split at h
      · simp at h; subst h
        refine ⟨by simpa using ha, ?_, ?_, by simpa using hd⟩
        · intro k hk hw; simp at hk hw; subst hk; exact absurd hw hjw
        · intro k hk; have := hc k hk; simp [hq] at this ⊢; exact ⟨this.1.2, this.2⟩
      · split at h <;> simp at h
        subst h
        refine ⟨by simpa using ha, ?_, ?_, by simpa using hd⟩
        · intro k hk hw; simp at hk hw; subst hk; exact absurd hw hjw
        · intro k hk; simp at hk; have := hc k hk; simp [hq] at this ⊢; exact ⟨this.1.2, this.2⟩
      · simp at h
  | seeClosed =>
    simp only [step] at h
    split at h
    · rename_i c j hpc hh
      split at h <;> simp at h
      subst h
      refine ⟨?_, by simp, by simpa [callback] using hc, ?_⟩
      · intro cb hcb hw
        simp [callback] at hcb hw
        rcases hcb with hcb | hcb
        · exact ha cb hcb hw
        · subst hcb; exact hb j hh hw
      · intro cb hcb hv
        simp [callback] at hcb
        rcases hcb with hcb | hcb
        · exact hd cb hcb hv
        · subst hcb; simp at hv
    · simp at h
  | seeStreamCancel =>
    simp only [step] at h
    split at h
    · split at h
      · split at h
        · split at h <;> simp at h <;> subst h
          · exact ⟨by simpa using ha, by simpa using hb, by simpa using hc, by simpa using hd⟩
          · rename_i h0 hh
            refine ⟨?_, by simp, by simpa [callback] using hc, ?_⟩
            · intro cb hcb hw
              simp [callback] at hcb hw
              rcases hcb with hcb | hcb
              · exact ha cb hcb hw
              · subst hcb; simp; exact hb h0 hh hw
            · intro cb hcb hv
              simp [callback] at hcb
              rcases hcb with hcb | hcb
              · exact hd cb hcb hv
              · subst hcb; simp
        · simp at h
      · simp at h
    · simp at h
  | seeCtx =>
    simp only [step] at h
    split at h
    · split at h <;> simp at h <;> subst h
      all_goals
        refine ⟨?_, by simp [exit], ?_, ?_⟩
        · intro cb hcb hw
          simp only [exit, List.mem_append, List.mem_map] at hcb hw
          rcases hcb with (hcb | hcb) | ⟨k, hk, hcb⟩
          · exact ha cb hcb hw
          · cases hh : s.held with
            | none => simp [hh] at hcb
            | some h0 =>
              simp [hh] at hcb; subst hcb; simp
              exact hb h0 hh hw
          · subst hcb; simp at hw; exact absurd hk (hc k hw).1
        · intro k hk; simp [exit] at hk ⊢; exact (hc k hk).2
        · intro cb hcb hv
          simp only [exit, List.mem_append, List.mem_map] at hcb
          rcases hcb with (hcb | hcb) | ⟨k, hk, hcb⟩
          · exact hd cb hcb hv
          · cases hh : s.held with
            | none => simp [hh] at hcb
            | some h0 => simp [hh] at hcb; subst hcb; simp
          · subst hcb; simp
    · simp at h



/-! ### all invariants together; scripts; shutdown -/


/-- everything that is invariant along every script -/
structure Inv (cfg : Cfg) (s : St) : Prop where
  count : Inv1 s
  errs : Inv4 s
  sink : cfg.fixSink = true → Inv2 s
  cancel : cfg.fixCancel = true → Inv3 s

theorem inv_init (cfg : Cfg) : Inv cfg init :=
  ⟨inv1_init, inv4_init, fun _ => by simp [Inv2, init], fun _ => by simp [Inv3, init]⟩

theorem inv_step {cfg : Cfg} {s s' : St} {e : Ev} (hi : Inv cfg s) (h : step cfg s e = some s') : Inv cfg s' :=
  ⟨inv1_step hi.count h, inv4_step hi.count.places hi.errs h,
   fun hf => inv2_step hf (hi.sink hf) h, fun hf => inv3_step hf (hi.cancel hf) h⟩

theorem inv_exec {cfg : Cfg} : ∀ (evs : List Ev) {s s' : St}, Inv cfg s → exec cfg s evs = some s' → Inv cfg s'
  | [], s, s', hi, h => by simp [exec] at h; exact h ▸ hi
  | e :: es, s, s', hi, h => by
    simp only [exec] at h
    split at h
    · rename_i s1 hs1; exact inv_exec es (inv_step hi hs1) h
    · simp at h

theorem exec_append (cfg : Cfg) : ∀ (a b : List Ev) (s : St),
    exec cfg s (a ++ b) = (exec cfg s a).bind (fun s1 => exec cfg s1 b)
  | [], b, s => by simp [exec]
  | e :: a, b, s => by
    simp only [List.cons_append, exec]
    split
    · exact exec_append cfg a b _
    · simp

/-- shutting down from `recvStream` -/
theorem fin_recvStream (cfg : Cfg) (s : St) (c : Nat) (hpc : s.pc = .recvStream c) (hd : s.ctxDone = true) :
    ∃ s', exec cfg s [.seeCtx] = some s' ∧ s'.pc = .stopped := by
  simp [exec, step, hpc, hd, exit]

theorem fin_afterInner (cfg : Cfg) (hmax : 0 < cfg.max) (s : St) (c : Nat) (hh : s.held = none) (hd : s.ctxDone = true) :
    ∃ s', exec cfg (goInner cfg s c) (if c < cfg.max then [.seeCtx] else [.connOk, .seeCtx]) = some s' ∧ s'.pc = .stopped := by
  by_cases hc : c < cfg.max
  · simp [hc, exec, step, goInner, hh, hd, exit]
  · simp [hc, exec, step, goInner, hh, hd, exit, hmax]



theorem step_seeClosed (cfg : Cfg) (s : St) (c j : Nat) (hpc : s.pc = .recvBuf c) (hh : s.held = some j)
    (hcl : j ∈ s.closed) :
    step cfg s .seeClosed = some (goInner cfg { (callback s j s.errs .drained) with held := none, errs := [] } (c + 1)) := by
  simp [step, hpc, hh, hcl]

theorem step_closeBuf (cfg : Cfg) (s : St) (j : Nat) (hlt : j < s.next) (hcl : j ∉ s.closed) :
    step cfg s (.closeBuf j) = some { s with closed := j :: s.closed } := by
  simp [step, hlt, hcl]

theorem exec_cons_of (cfg : Cfg) (s s1 : St) (e : Ev) (es : List Ev) (h : step cfg s e = some s1) :
    exec cfg s (e :: es) = exec cfg s1 es := by
  simp [exec, h]

theorem fin_buf (cfg : Cfg) (hmax : 0 < cfg.max) (s : St) (c j : Nat) (hpc : s.pc = .recvBuf c) (hh : s.held = some j)
    (hlt : j < s.next) (hd : s.ctxDone = true) :
    ∃ s', exec cfg s (finBuf cfg s c) = some s' ∧ s'.pc = .stopped := by
  unfold finBuf
  simp only [hh]
  by_cases hcl : j ∈ s.closed
  · simp only [hcl, if_true, List.nil_append, List.singleton_append]
    rw [exec_cons_of cfg s _ _ _ (step_seeClosed cfg s c j hpc hh hcl)]
    exact fin_afterInner cfg hmax { (callback s j s.errs .drained) with held := none, errs := [] } (c + 1) rfl hd
  · simp only [hcl, if_false, List.singleton_append, List.cons_append, List.nil_append]
    rw [exec_cons_of cfg s _ _ _ (step_closeBuf cfg s j hlt hcl)]
    rw [exec_cons_of cfg _ _ _ _ (step_seeClosed cfg { s with closed := j :: s.closed } c j hpc hh (by simp))]
    exact fin_afterInner cfg hmax _ (c + 1) rfl hd

theorem exec_finZ (cfg : Cfg) (s : St) (rest : List Ev) :
    exec cfg s (finZ s ++ rest) = exec cfg { s with ctxDone := true } rest := by
  unfold finZ
  by_cases hd : s.ctxDone = true
  · simp [hd]; congr; cases s; simp_all
  · simp [hd, exec, step]

theorem finScript_split (cfg : Cfg) (s : St) (h1 : s.pc ≠ .stopped) (h2 : s.pc ≠ .panicked) :
    finScript cfg s = finZ s ++ finScript cfg { s with ctxDone := true } := by
  unfold finScript
  cases hpc : s.pc <;> simp [finZ, finBuf] <;> simp_all

theorem finScript_stops_done (cfg : Cfg) (hmax : 0 < cfg.max) (s : St) (hi : ∀ c, s.pc = .recvBuf c → s.held.isSome)
    (hn : ∀ j, s.held = some j → j < s.next) (hp : s.pc ≠ .panicked) (hd : s.ctxDone = true) :
    ∃ s', exec cfg s (finScript cfg s) = some s' ∧ s'.pc = .stopped := by
  unfold finScript
  cases hpc : s.pc with
  | stopped => exact ⟨s, by simp [exec], hpc⟩
  | panicked => exact absurd hpc hp
  | wait => simp [finZ, hd, exec, step, hpc, exit]
  | recvStream c => simp [finZ, hd, exec, step, hpc, exit]
  | recvBuf c =>
    have hs := hi c hpc
    cases hh : s.held with
    | none => simp [hh] at hs
    | some j =>
      simp only [finZ, hd, if_true, List.nil_append]
      exact fin_buf cfg hmax s c j hpc hh (hn j hh) hd
  | dial =>
    have h1 : step cfg s .connOk = some (goInner cfg s 0) := by simp [step, hpc]
    simp only [finZ, hd, if_true, List.nil_append, List.singleton_append]
    rw [exec_cons_of cfg _ _ _ _ h1]
    cases hh : s.held with
    | none =>
      have := fin_afterInner cfg hmax s 0 hh hd
      simpa [hmax] using this
    | some j =>
      have hg : goInner cfg s 0 = { s with pc := .recvBuf 0 } := by simp [goInner, hmax, hh]
      have hfb : finBuf cfg s 0 = finBuf cfg { s with pc := .recvBuf 0 } 0 := by simp [finBuf]
      simp only [hg, hfb]
      exact fin_buf cfg hmax { s with pc := .recvBuf 0 } 0 j rfl hh (hn j hh) hd

theorem finScript_stops (cfg : Cfg) (hmax : 0 < cfg.max) (s : St) (hi : Inv1 s) (hp : s.pc ≠ .panicked) :
    ∃ s', exec cfg s (finScript cfg s) = some s' ∧ s'.pc = .stopped := by
  by_cases hst : s.pc = .stopped
  · exact ⟨s, by simp [finScript, hst, exec], hst⟩
  · rw [finScript_split cfg s hst hp, exec_finZ]
    exact finScript_stops_done cfg hmax { s with ctxDone := true } hi.pcBuf
      (fun j hj => (held_facts hi.places hj).1) hp rfl


end Gsd.Sender

/-! ## Collector -/
namespace Gsd.Collector

/-- invariant of `start n n` -/
structure CInv (n : Nat) (s : St) : Prop where
  counter : s.counter = n
  total : s.c + s.pending + s.quitN = n
  noQuit : s.ctxDone = false → s.quitN = 0
  running : s.done = false → s.c < s.counter
  once : s.cbs.length = if s.done then 1 else 0
  arg : s.done = true → s.cbs = [s.errs]

theorem cinv_start (n : Nat) : CInv n (start n n) := by
  unfold start
  by_cases h : n = 0
  · subst h; constructor <;> simp [finish]
  · constructor <;> simp [h] <;> omega

theorem cinv_step {n : Nat} {s s' : St} {e : Ev} (hi : CInv n s) (h : step s e = some s') : CInv n s' := by
  obtain ⟨h1, h2, h3, h4, h5, h6⟩ := hi
  cases e with
  | deliver r =>
    simp only [step] at h
    split at h <;> simp at h
    rename_i hc
    obtain ⟨hd, hpos, hlt⟩ := hc
    by_cases hl : s.c + 1 < s.counter
    · simp [hl] at h; subst h
      constructor <;> simp_all <;> omega
    · simp [hl] at h; subst h
      constructor <;> simp_all [finish] <;> omega
  | quit =>
    simp only [step] at h
    split at h <;> simp at h
    subst h
    constructor <;> simp_all <;> omega
  | cancel =>
    simp only [step] at h
    split at h <;> simp at h
    subst h
    constructor <;> simp_all
  | seeCancel =>
    simp only [step] at h
    split at h <;> simp at h
    subst h
    constructor <;> simp_all [finish]

theorem cinv_exec {n : Nat} : ∀ (evs : List Ev) {s s' : St}, CInv n s → exec s evs = some s' → CInv n s'
  | [], s, s', hi, h => by simp [exec] at h; exact h ▸ hi
  | e :: es, s, s', hi, h => by
    simp only [exec] at h
    split at h
    · rename_i s1 hs1; exact cinv_exec es (cinv_step hi hs1) h
    · simp at h

/-- no deadlock before the callback -/
theorem progress {n : Nat} {s : St} (hi : CInv n s) (hd : s.done = false) : ∃ e, (step s e).isSome = true := by
  by_cases hc : s.ctxDone = true
  · exact ⟨.seeCancel, by simp [step, hc, hd]⟩
  · have hq := hi.noQuit (by simpa using hc)
    have := hi.running hd
    have := hi.total
    have := hi.counter
    exact ⟨.deliver .ok, by simp [step, hd]; omega⟩

theorem measure_step {s s' : St} {e : Ev} (h : step s e = some s') : measure s' + 1 ≤ measure s := by
  cases e with
  | deliver r =>
    simp only [step] at h
    split at h <;> simp at h
    rename_i hc
    obtain ⟨hd, hpos, hlt⟩ := hc
    by_cases hl : s.c + 1 < s.counter
    · simp [hl] at h; subst h; cases hcd : s.ctxDone <;> simp [measure, hd, hcd] <;> omega
    · simp [hl] at h; subst h; cases hcd : s.ctxDone <;> simp [measure, hd, finish, hcd] <;> omega
  | quit =>
    simp only [step] at h
    split at h <;> simp at h
    subst h; cases hcd : s.ctxDone <;> cases hdd : s.done <;> simp_all [measure] <;> omega
  | cancel =>
    simp only [step] at h
    split at h <;> simp at h
    subst h; simp_all [measure]
  | seeCancel =>
    simp only [step] at h
    split at h <;> simp at h
    subst h; simp_all [measure, finish]

theorem measure_exec : ∀ (evs : List Ev) {s s' : St}, exec s evs = some s' → measure s' + evs.length ≤ measure s
  | [], s, s', h => by simp [exec] at h; simp [h]
  | e :: es, s, s', h => by
    simp only [exec] at h
    split at h
    · rename_i s1 hs1
      have := measure_exec es h
      have := measure_step hs1
      simp; omega
    · simp at h

theorem errs_mono_step {s s' : St} {e : Ev} (h : step s e = some s') : ∀ r ∈ s.errs, r ∈ s'.errs := by
  cases e <;> simp only [step] at h <;> (repeat' split at h) <;> simp at h <;> subst h <;> simp_all [finish]

theorem errs_mono_exec : ∀ (evs : List Ev) {s s' : St}, exec s evs = some s' → ∀ r ∈ s.errs, r ∈ s'.errs
  | [], s, s', h => by simp [exec] at h; simp [h]
  | e :: es, s, s', h => by
    simp only [exec] at h
    split at h
    · rename_i s1 hs1
      intro r hr; exact errs_mono_exec es h r (errs_mono_step hs1 r hr)
    · simp at h

theorem deliver_in_errs : ∀ (evs : List Ev) {s s' : St}, exec s evs = some s' →
    (∀ r, Ev.deliver r ∈ evs → r ∈ s'.errs) ∧ (Ev.seeCancel ∈ evs → Res.ctx ∈ s'.errs)
  | [], s, s', h => by simp
  | e :: es, s, s', h => by
    simp only [exec] at h
    split at h
    · rename_i s1 hs1
      have ih := deliver_in_errs es h
      constructor
      · intro r hr
        simp at hr
        rcases hr with hr | hr
        · subst hr
          apply errs_mono_exec es h
          simp only [step] at hs1
          split at hs1 <;> simp at hs1
          subst hs1; split <;> simp [finish]
        · exact ih.1 r hr
      · intro hr
        simp at hr
        rcases hr with hr | hr
        · subst hr
          apply errs_mono_exec es h
          simp only [step] at hs1
          split at hs1 <;> simp at hs1
          subst hs1; simp [finish]
        · exact ih.2 hr
    · simp at h

end Gsd.Collector

/-! ## Flusher wait group -/
namespace Gsd.Flusher

/-- all (aggregator, backend) pairs of the processed aggregators -/
def allPairs (backends : Nat) (processed : List Nat) : List (Nat × Nat) :=
  processed.flatMap (fun a => (List.range backends).map (fun b => (a, b)))

theorem length_allPairs (B : Nat) (p : List Nat) : (allPairs B p).length = B * p.length := by
  induction p with
  | nil => simp [allPairs]
  | cons a p ih =>
    simp only [allPairs, List.flatMap_cons, List.length_append, List.length_map, List.length_range, List.length_cons] at ih ⊢
    rw [ih, Nat.mul_succ]; omega

theorem mem_allPairs (B : Nat) (p : List Nat) (a b : Nat) : (a, b) ∈ allPairs B p ↔ a ∈ p ∧ b < B := by
  simp [allPairs]

theorem nodup_allPairs (B : Nat) (p : List Nat) (hp : p.Nodup) : (allPairs B p).Nodup := by
  induction p with
  | nil => simp [allPairs]
  | cons a p ih =>
    have hp' := List.nodup_cons.mp hp
    have : allPairs B (a :: p) = (List.range B).map (fun b => (a, b)) ++ allPairs B p := by simp [allPairs]
    rw [this, List.nodup_append]
    refine ⟨?_, ih hp'.2, ?_⟩
    · exact List.Pairwise.map (fun b => (a, b)) (fun x y h => by simpa using h) List.nodup_range
    · intro x hx y hy hxy
      subst hxy
      simp at hx
      obtain ⟨b, _, rfl⟩ := hx
      rw [mem_allPairs] at hy
      exact hp'.1 hy.1

structure FInv (B : Nat) (s : St) : Prop where
  wg : s.wg = (B * s.processed.length : Nat) - (s.calls.length : Nat)
  sub : ∀ p ∈ s.calls, p ∈ allPairs B s.processed
  pan : s.panicked = true → s.wg < 0
  nodup : s.processed.Nodup

theorem finv_init (B : Nat) : FInv B {} := by constructor <;> simp

theorem finv_step {B : Nat} {s s' : St} {e : Ev} (hi : FInv B s) (h : step B s e = some s') : FInv B s' := by
  obtain ⟨h1, h2, h3, h4⟩ := hi
  cases e with
  | process a =>
    simp only [step] at h
    split at h <;> simp at h
    subst h
    rename_i hc
    constructor
    · simp [h1, Nat.mul_succ]; omega
    · intro p hp
      have := h2 p hp
      obtain ⟨x, y⟩ := p
      rw [mem_allPairs] at this ⊢
      exact ⟨by simp [this.1], this.2⟩
    · intro hp; simp at hp hc; simp [hc.2] at hp
    · simp at hc; exact List.nodup_cons.mpr ⟨hc.1, h4⟩
  | callback a b =>
    simp only [step] at h
    split at h <;> simp at h
    subst h
    rename_i hc
    constructor
    · simp [h1]; omega
    · intro p hp
      simp at hp
      rcases hp with hp | hp
      · subst hp; rw [mem_allPairs]; exact ⟨hc.1, hc.2.1⟩
      · exact h2 p hp
    · intro hp; simpa using hp
    · exact h4

theorem finv_exec {B : Nat} : ∀ (evs : List Ev) {s s' : St}, FInv B s → exec B s evs = some s' → FInv B s'
  | [], s, s', hi, h => by simp [exec] at h; exact h ▸ hi
  | e :: es, s, s', hi, h => by
    simp only [exec] at h
    split at h
    · rename_i s1 hs1; exact finv_exec es (finv_step hi hs1) h
    · simp at h

/-- with at-most-once callbacks the wait group is zero exactly when every pair has called back -/
theorem wg_zero_iff {B : Nat} {s : St} (hi : FInv B s) (hn : s.calls.Nodup) :
    (s.wg = 0 ∧ s.panicked = false) ↔ ∀ a ∈ s.processed, ∀ b, b < B → (a, b) ∈ s.calls := by
  have hsub : s.calls ⊆ allPairs B s.processed := fun p hp => hi.sub p hp
  have hsp := List.subperm_of_subset hn hsub
  have hle := hsp.length_le
  rw [length_allPairs] at hle
  constructor
  · rintro ⟨hz, _⟩ a ha b hb
    have hlen : (allPairs B s.processed).length ≤ s.calls.length := by
      rw [length_allPairs]; have := hi.wg; omega
    have hperm := hsp.perm_of_length_le hlen
    exact hperm.symm.subset ((mem_allPairs B _ a b).mpr ⟨ha, hb⟩)
  · intro hall
    have hsub2 : allPairs B s.processed ⊆ s.calls := by
      intro p hp; obtain ⟨a, b⟩ := p
      rw [mem_allPairs] at hp; exact hall a hp.1 b hp.2
    have hge := (List.subperm_of_subset (nodup_allPairs B _ hi.nodup) hsub2).length_le
    rw [length_allPairs] at hge
    have hw := hi.wg
    have hz : s.wg = 0 := by omega
    refine ⟨hz, ?_⟩
    cases hpan : s.panicked with
    | false => rfl
    | true => have := hi.pan hpan; omega

end Gsd.Flusher

/-! ## influxdb buffers, cloudwatch loop -/
namespace Gsd.Influx

theorem addSeries_have (perBatch : Nat) (gets : Nat → Bool) (hg : ∀ k, gets k = true) :
    ∀ (n : Nat) (cnt b g : Nat), (addSeries perBatch gets n (cnt, b, g, true)).2.2.2 = true
  | 0, cnt, b, g => rfl
  | n + 1, cnt, b, g => by
    simp only [addSeries]
    split
    · simp at *
    · split
      · rw [hg g]; exact addSeries_have perBatch gets hg n 0 (b + 1) (g + 1)
      · exact addSeries_have perBatch gets hg n (cnt + 1) b g

theorem no_panic_guard (perBatch series : Nat) (gets : Nat → Bool) :
    processMetrics true perBatch series gets ≠ .panic := by
  unfold processMetrics
  split
  rename_i cnt b g hv heq
  split <;> simp

theorem no_panic_uncancelled (perBatch series : Nat) (gets : Nat → Bool) (hg : ∀ k, gets k = true) :
    processMetrics false perBatch series gets ≠ .panic := by
  unfold processMetrics
  have h := addSeries_have perBatch gets hg series 0 0 1
  rw [hg 0]
  split
  rename_i cnt b g hv heq
  rw [heq] at h
  simp at h
  subst h
  split <;> simp [hg]

end Gsd.Influx

namespace Gsd.Direct

theorem cwLoop_length (batch length : Nat) (outcome : Nat → Bool) (hb : 0 < batch) :
    ∀ (fuel start k : Nat) (acc : List Bool), length - start ≤ fuel → start ≤ length →
      (cwLoop batch length outcome fuel start k acc).length = acc.length + (length - start + batch - 1) / batch
  | 0, start, k, acc, hf, hs => by
    have : length - start = 0 := by omega
    simp [cwLoop, this]
    have : (batch - 1) / batch = 0 := Nat.div_eq_of_lt (by omega)
    omega
  | fuel + 1, start, k, acc, hf, hs => by
    simp only [cwLoop]
    by_cases hlt : start < length
    · simp only [hlt, if_true]
      by_cases hover : start + batch > length
      · simp only [hover, if_true]
        have : ¬ start ≥ length := by omega
        simp only [this, if_false]
        rw [cwLoop_length batch length outcome hb fuel length (k + 1) _ (by omega) (by omega)]
        simp
        have h1 : (batch - 1) / batch = 0 := Nat.div_eq_of_lt (by omega)
        have h2 : (length - start + batch - 1) / batch = 1 := by
          apply Nat.div_eq_of_lt_le <;> omega
        omega
      · simp only [hover, if_false]
        have : ¬ start ≥ start + batch := by omega
        simp only [this, if_false]
        rw [cwLoop_length batch length outcome hb fuel (start + batch) (k + 1) _ (by omega) (by omega)]
        simp
        have h2 : (length - start + batch - 1) / batch = (length - (start + batch) + batch - 1) / batch + 1 := by
          have : length - start + batch - 1 = (length - (start + batch) + batch - 1) + batch := by omega
          rw [this, Nat.add_div_right _ hb]
        omega
    · have : length - start = 0 := by omega
      simp [hlt, this]
      have : (batch - 1) / batch = 0 := Nat.div_eq_of_lt (by omega)
      omega

end Gsd.Direct
