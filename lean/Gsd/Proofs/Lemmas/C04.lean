import Gsd.Proofs.Lemmas.Aggregator
import Gsd.Model.BackendPanics
/-!
Helper lemmas for C04: invariants of reachable aggregates (`StateOK`) and of flush views (`ViewOK`),
totality of `Flush` over an aggregate, totality of each payload builder on `ViewOK` timers.
-/
set_option linter.unusedSimpArgs false
set_option linter.unusedSectionVars false
set_option linter.unusedVariables false
namespace Gsd
section
variable {α : Type} [Field α] [LinearOrder α] [IsStrictOrderedRing α] [FloorRing α] [HasSqrt α]

/-! ### invariants of reachable aggregates and flush views -/

/-- a histogram map as the aggregator produces it: nil, empty (limit 0), or containing the `+Inf` bucket -/
def HistOK (o : Option (Hist α)) : Prop := o = none ∨ o = some [] ∨ ∃ h, o = some h ∧ Bound.inf ∈ histKeys h

/-- a timer held between flushes -/
def StateOK (t : ATimer α) : Prop := t.percentiles = [] ∧ HistOK t.histogram

/-- a timer of a flush view -/
def ViewOK (t : ATimer α) : Prop := (∀ e ∈ t.percentiles, '_' ∈ e.1) ∧ HistOK t.histogram

theorem mem_histKeys_insert0 (b : Bound α) (h : Hist α) : b ∈ histKeys (histInsert0 b h) := by
  rw [histKeys_insert0]; split <;> simp [*]

theorem mem_histKeys_set (b : Bound α) (n : Nat) (h : Hist α) : b ∈ histKeys (histSet b n h) := by
  rw [histKeys_set]; split <;> simp [*]

theorem emptyHistogram_ok (parse : Bytes → Option α) (tags : List Bytes) (limit : Nat) :
    HistOK (emptyHistogram parse tags limit) := by
  unfold emptyHistogram
  split
  · exact Or.inr (Or.inl rfl)
  · split
    · exact Or.inl rfl
    · exact Or.inr (Or.inr ⟨_, rfl, mem_histKeys_insert0 _ _⟩)

theorem latencyHistogram_ok (parse : Bytes → Option α) (tags : List Bytes) (vals : List α) (limit : Nat) :
    HistOK (latencyHistogram parse tags vals limit) := by
  unfold latencyHistogram
  split
  · exact Or.inl rfl
  · exact Or.inr (Or.inl rfl)
  · exact Or.inr (Or.inr ⟨_, rfl, mem_histKeys_set _ _ _⟩)

theorem underscore_mem_pctName (pre : String) (p : Int) (h : '_' ∈ pre.toList) : '_' ∈ pctName pre p := by
  unfold pctName dotToUnderscore
  apply List.mem_map.mpr
  exact ⟨'_', by simp [h], by decide⟩

theorem pctEntries_names (m : Mask) (p : Int) (v : PctVals α) : ∀ e ∈ pctEntries m p v, '_' ∈ e.1 := by
  intro e he
  unfold pctEntries at he
  simp only [List.mem_append] at he
  rcases he with (((he | he) | he) | he) | he
  · split at he
    · simp at he; subst he; exact underscore_mem_pctName _ _ (by decide)
    · simp at he
  · split at he
    · simp at he; subst he; exact underscore_mem_pctName _ _ (by decide)
    · simp at he
  · split at he
    · simp at he; subst he; exact underscore_mem_pctName _ _ (by decide)
    · simp at he
  · split at he
    · simp at he; subst he; exact underscore_mem_pctName _ _ (by decide)
    · simp at he
  · split at he
    · split at he
      · simp at he; subst he; exact underscore_mem_pctName _ _ (by decide)
      · simp at he
    · split at he
      · simp at he; subst he; exact underscore_mem_pctName _ _ (by decide)
      · simp at he

theorem pctTable_names (m : Mask) (l : List (Int × Option (PctVals α))) : ∀ e ∈ pctTable m l, '_' ∈ e.1 := by
  intro e he
  unfold pctTable at he
  obtain ⟨x, _, hx⟩ := List.mem_flatMap.mp he
  cases hv : x.2 with
  | none => simp [hv] at hx
  | some v => simp only [hv] at hx; exact pctEntries_names m x.1 v e hx

/-- what `Flush` leaves in a timer that was held in a reachable aggregate -/
theorem flushTimer_viewOK (fx : Bool) (parse : Bytes → Option α) (cfg : AggCfg) (secs : α) (t out : ATimer α)
    (ht : StateOK t) (h : flushTimerWith fx parse cfg secs t = .ok out) : ViewOK out := by
  obtain ⟨hp, hh⟩ := ht
  by_cases htag : hasHistogramTag t.tags = true
  · simp only [flushTimerWith, htag, if_true] at h
    injection h with h; subst h
    exact ⟨by simp [hp], latencyHistogram_ok _ _ _ _⟩
  · have htag' : hasHistogramTag t.tags = false := by simpa using htag
    by_cases hv : t.values = []
    · simp [flushTimerWith, htag', hv] at h
      subst h
      exact ⟨by simp [hp], hh⟩
    · have ho := flushTimerWith_plain fx parse cfg secs t out htag' hv h
      subst ho
      refine ⟨?_, hh⟩
      intro e he
      simp only [specFlush, hp, List.nil_append, specPctTable] at he
      exact pctTable_names _ _ e he

theorem fresh_stateOK (tags : List Bytes) (vals : List α) (sc : α) : StateOK (ATimer.fresh tags vals sc) :=
  ⟨rfl, Or.inl rfl⟩

theorem mergeTimer_stateOK (into frm : ATimer α) (h : StateOK into) : StateOK (aggMergeTimer into frm) := h

theorem resetTimer_stateOK (parse : Bytes → Option α) (cfg : AggCfg) (t : ATimer α) : StateOK (resetTimer parse cfg t) := by
  unfold resetTimer
  split
  · exact ⟨rfl, emptyHistogram_ok _ _ _⟩
  · exact fresh_stateOK _ _ _



/-! ### aggregates -/

theorem forall_upsert {ν : Type} {P : ν → Prop} (k : AKey) (f : Option ν → ν) (m : AList AKey ν)
    (hm : ∀ e ∈ m, P e.2) (hf : ∀ o, (∀ v, o = some v → P v) → P (f o)) :
    ∀ e ∈ AList.upsert k f m, P e.2 := by
  induction m with
  | nil =>
    intro e he
    simp [AList.upsert] at he
    subst he
    exact hf none (by intro v hv; cases hv)
  | cons x xs ih =>
    obtain ⟨k', v'⟩ := x
    intro e he
    simp only [AList.upsert] at he
    split at he
    · rcases List.mem_cons.mp he with rfl | he
      · exact hf (some v') (by intro v hv; injection hv with hv; subst hv; exact hm (k', v') (by simp))
      · exact hm e (by simp [he])
    · rcases List.mem_cons.mp he with rfl | he
      · exact hm (k', v') (by simp)
      · exact ih (fun e he => hm e (by simp [he])) e he

theorem merge_stateOK (s : AggSt α) (batch : List (AKey × ATimer α)) (hs : ∀ e ∈ s, StateOK e.2)
    (hb : ∀ e ∈ batch, StateOK e.2) : ∀ e ∈ s.merge batch, StateOK e.2 := by
  unfold AggSt.merge
  induction batch generalizing s with
  | nil => simpa using hs
  | cons x xs ih =>
    simp only [List.foldl_cons]
    apply ih
    · apply forall_upsert _ _ _ hs
      intro o ho
      cases o with
      | none => exact hb x (by simp)
      | some into => exact mergeTimer_stateOK into x.2 (ho into rfl)
    · intro e he; exact hb e (by simp [he])

theorem reset_stateOK (parse : Bytes → Option α) (cfg : AggCfg) (expired : List AKey) (s : AggSt α) :
    ∀ e ∈ AggSt.reset parse cfg expired s, StateOK e.2 := by
  intro e he
  unfold AggSt.reset at he
  obtain ⟨x, _, rfl⟩ := List.mem_map.mp he
  exact resetTimer_stateOK parse cfg x.2

theorem flushWith_viewOK (fx : Bool) (parse : Bytes → Option α) (cfg : AggCfg) (secs : α) (s view : AggSt α)
    (hs : ∀ e ∈ s, StateOK e.2) (h : AggSt.flushWith fx parse cfg secs s = .ok view) : ∀ e ∈ view, ViewOK e.2 := by
  induction s generalizing view with
  | nil => simp [AggSt.flushWith] at h; subst h; simp
  | cons x xs ih =>
    obtain ⟨k, t⟩ := x
    simp only [AggSt.flushWith] at h
    cases ht : flushTimerWith fx parse cfg secs t with
    | panic st => simp [ht] at h
    | ok t' =>
      simp only [ht, Res.bind_ok] at h
      cases hr : AggSt.flushWith fx parse cfg secs xs with
      | panic st => simp [hr] at h
      | ok rest =>
        simp only [hr, Res.bind_ok, Res.pure_eq] at h
        injection h with h; subst h
        intro e he
        rcases List.mem_cons.mp he with rfl | he
        · exact flushTimer_viewOK fx parse cfg secs t t' (hs (k, t) (by simp)) ht
        · exact ih rest (fun e he => hs e (by simp [he])) hr e he

/-- **`Flush` over a whole aggregate never panics** (repaired code, accepted configuration, any aggregate) -/
theorem flushWith_total (parse : Bytes → Option α) (cfg : AggCfg) (hc : cfg.Valid) (secs : α) (s : AggSt α) :
    ∃ view, AggSt.flushWith true parse cfg secs s = .ok view := by
  induction s with
  | nil => exact ⟨[], rfl⟩
  | cons x xs ih =>
    obtain ⟨k, t⟩ := x
    obtain ⟨t', ht⟩ := flushTimerWith_total parse cfg hc secs t
    obtain ⟨rest, hr⟩ := ih
    exact ⟨(k, t') :: rest, by simp [AggSt.flushWith, ht, hr]⟩

/-! ### backends -/

theorem lastIdx_isSome (c : Char) (l : List Char) (h : c ∈ l) : (lastIdx c l).isSome = true := by
  induction l with
  | nil => simp at h
  | cons x xs ih =>
    simp only [lastIdx]
    cases hl : lastIdx c xs with
    | some i => simp
    | none =>
      rcases List.mem_cons.mp h with rfl | h
      · simp
      · have := ih h; simp [hl] at this

theorem newrelicPct_ok (name : List Char) (h : '_' ∈ name) : newrelicPct name = .ok () := by
  unfold newrelicPct
  have := lastIdx_isSome '_' name h
  cases hl : lastIdx '_' name with
  | none => simp [hl] at this
  | some i => rfl

theorem forAll_ok {β : Type} (f : β → Res Unit) (l : List β) (h : ∀ x ∈ l, f x = .ok ()) : forAll f l = .ok () := by
  induction l with
  | nil => rfl
  | cons x xs ih =>
    simp only [forAll, h x (by simp), Res.bind_ok]
    exact ih (fun y hy => h y (by simp [hy]))

theorem otlpBoundsLoop_infs (L : Nat) (i : Nat) (bs : List (Bound α)) (h : ∀ b ∈ bs, b.isInf = true) :
    otlpBoundsLoop L i bs = .ok () := by
  induction bs generalizing i with
  | nil => rfl
  | cons b bs ih =>
    simp only [otlpBoundsLoop, h b (by simp), if_true]
    exact ih _ (fun x hx => h x (by simp [hx]))

theorem otlpBoundsLoop_fins (L : Nat) (i : Nat) (fins rest : List (Bound α)) (h : ∀ b ∈ fins, b.isInf = false)
    (hl : i + fins.length < L ∨ fins = []) :
    otlpBoundsLoop L i (fins ++ rest) = otlpBoundsLoop L (i + fins.length) rest := by
  induction fins generalizing i with
  | nil => simp
  | cons b bs ih =>
    have hl' : i + (bs.length + 1) < L := by
      rcases hl with hl | hl
      · simpa using hl
      · simp at hl
    simp only [List.cons_append, otlpBoundsLoop, h b (by simp), Bool.false_eq_true, if_false]
    have : i + 1 < L := by omega
    simp only [this, if_true]
    rw [ih (i + 1) (fun x hx => h x (by simp [hx])) (Or.inl (by omega))]
    simp only [List.length_cons]
    congr 1
    omega

theorem otlpBuckets_ok (h : Hist α) (hne : h ≠ []) (hinf : Bound.inf ∈ histKeys h) : otlpBuckets h = .ok () := by
  unfold otlpBuckets
  have hL : h.length ≠ 0 := by simpa using hne
  simp only [hL, if_false]
  have hsplit : (List.filter (fun b : Bound α => !b.isInf) (h.map Prod.fst)).length +
      (List.filter (fun b : Bound α => b.isInf) (h.map Prod.fst)).length = h.length := by
    have := List.length_eq_length_filter_add (l := h.map Prod.fst) (fun b : Bound α => b.isInf)
    simp only [List.length_map] at this
    omega
  have hinfs : 1 ≤ (List.filter (fun b : Bound α => b.isInf) (h.map Prod.fst)).length := by
    apply List.length_pos_iff.mpr
    intro hnil
    have : Bound.inf ∈ List.filter (fun b : Bound α => b.isInf) (h.map Prod.fst) :=
      List.mem_filter.mpr ⟨hinf, rfl⟩
    rw [hnil] at this
    simp at this
  rw [otlpBoundsLoop_fins _ 0 _ _ (by intro b hb; have := (List.mem_filter.mp hb).2; simpa using this)
    (Or.inl (by omega))]
  exact otlpBoundsLoop_infs _ _ _ (by intro b hb; exact (List.mem_filter.mp hb).2)

theorem otlpStatistics_ok (values : List α) : otlpStatistics true values = .ok () := by
  unfold otlpStatistics
  cases values with
  | nil => rfl
  | cons x xs =>
    have e1 : (((x :: xs).length : Nat) : Int) - 1 = ((xs.length : Nat) : Int) := by simp
    have h0 : idx Site.otlpValuesFirst (x :: xs) 0 = .ok x := by rw [idx_ok_iff]; simp
    have h1 : idx Site.otlpValuesLast (x :: xs) ((((x :: xs).length : Nat) : Int) - 1) = .ok ((x :: xs)[xs.length]) := by
      rw [e1, idx_natCast]; simp
    simp only [List.isEmpty_cons, Bool.and_false, Bool.false_eq_true, if_false, h0, h1, Res.bind_ok, Res.pure_eq]

/-- **every payload builder is total on every timer of a reachable flush view** (repaired code) -/
theorem backendTimer_ok (b : Backend) (m : Mask) (t : ATimer α) (ht : ViewOK t) :
    backendTimerWith true true b m t = .ok () := by
  obtain ⟨hn, hh⟩ := ht
  cases b with
  | influxdb =>
    simp only [backendTimerWith, influxTimer]
    cases hhist : t.histogram with
    | none => simp only; split <;> simp_all [dropLastByte]
    | some h =>
      cases h with
      | nil => simp
      | cons e es => simp [dropLastByte]
  | otlp asGauge =>
    simp only [backendTimerWith, otlpTimer]
    cases asGauge with
    | true => rfl
    | false =>
      simp only [Bool.false_eq_true, if_false, otlpStatistics_ok, Res.bind_ok]
      cases hhist : t.histogram with
      | none => rfl
      | some h =>
        cases h with
        | nil => rfl
        | cons e es =>
          simp only [List.isEmpty_cons, Bool.false_eq_true, if_false]
          rcases hh with hh | hh | ⟨h', hh, hinf⟩
          · simp [hhist] at hh
          · simp [hhist] at hh
          · rw [hhist] at hh; injection hh with hh; subst hh
            exact otlpBuckets_ok _ (by simp) hinf
  | newrelic metricsApi =>
    simp only [backendTimerWith, newrelicTimer]
    cases t.histogram with
    | some _ => rfl
    | none =>
      simp only
      split
      · exact forAll_ok _ _ (fun e he => newrelicPct_ok e.1 (hn e he))
      · rfl
  | graphite => rfl
  | datadog => rfl
  | statsdaemon => rfl
  | stdout => rfl
  | cloudwatch => rfl

theorem backendFlush_ok (b : Backend) (m : Mask) (view : AggSt α) (hv : ∀ e ∈ view, ViewOK e.2) :
    backendFlushWith true true b m view = .ok () :=
  forAll_ok _ _ (fun e he => backendTimer_ok b m e.2 (hv e he))


/-! ### histories -/

theorem step_inv (fx : Bool) (parse : Bytes → Option α) (cfg : AggCfg) (s : AggSt α) (op : Op α)
    (hs : ∀ e ∈ s, StateOK e.2) (r : AggSt α × Option (AggSt α)) (h : AggSt.stepWith fx parse cfg s op = .ok r) :
    (∀ e ∈ r.1, StateOK e.2) ∧ (∀ v, r.2 = some v → ∀ e ∈ v, ViewOK e.2) := by
  cases op with
  | merge batch =>
    simp only [AggSt.stepWith] at h
    injection h with h; subst h
    refine ⟨?_, by intro v hv; cases hv⟩
    apply merge_stateOK _ _ hs
    intro e he
    obtain ⟨x, _, rfl⟩ := List.mem_map.mp he
    exact fresh_stateOK _ _ _
  | flush secs expired =>
    simp only [AggSt.stepWith] at h
    cases hv : AggSt.flushWith fx parse cfg secs s with
    | panic st => simp [hv] at h
    | ok view =>
      simp only [hv, Res.bind_ok, Res.pure_eq] at h
      injection h with h; subst h
      refine ⟨reset_stateOK _ _ _ _, ?_⟩
      intro v hv'
      injection hv' with hv'; subst hv'
      exact flushWith_viewOK fx parse cfg secs s view hs hv

theorem step_total (parse : Bytes → Option α) (cfg : AggCfg) (hc : cfg.Valid) (s : AggSt α) (op : Op α) :
    ∃ r, AggSt.stepWith true parse cfg s op = .ok r := by
  cases op with
  | merge batch => exact ⟨_, rfl⟩
  | flush secs expired =>
    obtain ⟨view, hv⟩ := flushWith_total parse cfg hc secs s
    exact ⟨(AggSt.reset parse cfg expired view, some view), by simp [AggSt.stepWith, hv]⟩

theorem run_inv (fx : Bool) (parse : Bytes → Option α) (cfg : AggCfg) (ops : List (Op α)) (s : AggSt α)
    (hs : ∀ e ∈ s, StateOK e.2) (r : AggSt α × List (AggSt α)) (h : AggSt.runWith fx parse cfg s ops = .ok r) :
    (∀ e ∈ r.1, StateOK e.2) ∧ (∀ v ∈ r.2, ∀ e ∈ v, ViewOK e.2) := by
  induction ops generalizing s r with
  | nil => simp [AggSt.runWith] at h; subst h; exact ⟨hs, by simp⟩
  | cons op ops ih =>
    simp only [AggSt.runWith] at h
    cases h1 : AggSt.stepWith fx parse cfg s op with
    | panic st => simp [h1] at h
    | ok r1 =>
      simp only [h1, Res.bind_ok] at h
      obtain ⟨hs1, hv1⟩ := step_inv fx parse cfg s op hs r1 h1
      cases h2 : AggSt.runWith fx parse cfg r1.1 ops with
      | panic st => simp [h2] at h
      | ok r2 =>
        simp only [h2, Res.bind_ok, Res.pure_eq] at h
        injection h with h; subst h
        obtain ⟨hs2, hv2⟩ := ih r1.1 hs1 r2 h2
        refine ⟨hs2, ?_⟩
        intro v hv
        rcases List.mem_append.mp hv with hv | hv
        · cases hr : r1.2 with
          | none => simp [hr] at hv
          | some v1 =>
            simp only [hr, List.mem_singleton] at hv
            subst hv
            exact hv1 _ hr
        · exact hv2 v hv

end
end Gsd
