import Gsd.Model.Expiry
import Gsd.Proofs.Lemmas.AList
/-! Helper lemmas for C09 (core-only). -/
set_option linter.unusedSimpArgs false
set_option linter.unusedVariables false
namespace Gsd.Expiry
open Gsd Gsd.AList

/-- **Obligation on the source's operators.**  With the operators `factgen` found in `isExpired`, the
model's test is `i ≠ 0 ∧ now − ts > i`.  A changed operator in the source makes this proof fail. -/
theorem isExpired_iff (i now ts : Int) : isExpired i now ts = true ↔ (i ≠ 0 ∧ now - ts > i) := by
  simp [isExpired, Facts.rel_isExpired, relCmp, cmpOp]

theorem isExpired_false_iff (i now ts : Int) : isExpired i now ts = false ↔ ¬ (i ≠ 0 ∧ now - ts > i) := by
  rw [← isExpired_iff]; simp

/-! ### the aggregate is a well-formed Go map at every moment -/

def WF (a : Aggr) : Prop := ∀ ty, NodupKeys (a ty)

theorem wf_init : WF init := fun _ => List.nodup_nil

theorem wf_step (cfg : Config) (a : Aggr) (op : Op) (h : WF a) : WF (step cfg a op).1 := by
  intro ty
  cases op with
  | dp ty' k t d =>
    simp only [step]
    split
    · next e => subst e; exact nodupKeys_upsert _ _ (h ty)
    · exact h ty
  | flush t =>
    simp only [step, resetMap]
    exact nodupKeys_filterMapVals _ (h ty)

theorem run_append (cfg : Config) (h₁ h₂ : List Op) :
    run cfg (h₁ ++ h₂) = h₂.foldl (fun a op => (step cfg a op).1) (run cfg h₁) := by
  simp [run, List.foldl_append]

theorem run_snoc (cfg : Config) (h : List Op) (op : Op) :
    run cfg (h ++ [op]) = (step cfg (run cfg h) op).1 := by
  simp [run_append]

theorem wf_run (cfg : Config) (h : List Op) : WF (run cfg h) := by
  have : ∀ (l : List Op), WF (run cfg l.reverse) := by
    intro l
    induction l with
    | nil => exact wf_init
    | cons op l ih => rw [List.reverse_cons, run_snoc]; exact wf_step _ _ _ ih
  simpa using this h.reverse

/-! ### projection onto one series -/

/-- the effect of one operation on series `(ty, k)` alone -/
def sstep (i : Int) (ty : MType) (k : Key) (s : Option Entry) : Op → Option Entry
  | .dp ty' k' t d => if ty' = ty ∧ k' = k then some (mergeE ty s t d) else s
  | .flush t => s.bind (fun e => if isExpired i t e.ts then none else some (zeroE ty e))

def srun (i : Int) (ty : MType) (k : Key) (h : List Op) : Option Entry :=
  h.foldl (sstep i ty k) none

theorem srun_snoc (i : Int) (ty : MType) (k : Key) (h : List Op) (op : Op) :
    srun i ty k (h ++ [op]) = sstep i ty k (srun i ty k h) op := by
  simp [srun, List.foldl_append]

theorem lookup_step (cfg : Config) (a : Aggr) (ha : WF a) (op : Op) (ty : MType) (k : Key) :
    lookup k ((step cfg a op).1 ty) = sstep (cfg ty) ty k (lookup k (a ty)) op := by
  cases op with
  | dp ty' k' t d =>
    simp only [step, sstep]
    by_cases hty : ty = ty'
    · subst hty
      simp only [if_true, true_and]
      rw [lookup_upsert]
      split
      · next e => subst e; rfl
      · rfl
    · have hty' : ¬ ty' = ty := fun e => hty e.symm
      simp [hty, hty']
  | flush t =>
    simp only [step, sstep, resetMap]
    rw [lookup_filterMapVals_nodup _ _ (ha ty)]

theorem lookup_run (cfg : Config) (h : List Op) (ty : MType) (k : Key) :
    lookup k (run cfg h ty) = srun (cfg ty) ty k h := by
  have : ∀ (l : List Op), lookup k (run cfg l.reverse ty) = srun (cfg ty) ty k l.reverse := by
    intro l
    induction l with
    | nil => simp [run, srun, init]
    | cons op l ih =>
      rw [List.reverse_cons, run_snoc, srun_snoc, lookup_step _ _ (wf_run _ _), ih]
  simpa using this h.reverse

theorem lookup_viewAt (cfg : Config) (h : List Op) (ty : MType) (k : Key) :
    lookup k (viewAt cfg h ty) = (srun (cfg ty) ty k h).map (viewVal ty) := by
  simp only [viewAt, viewOf]
  rw [lookup_mapVals, lookup_run]

/-! ### `lastDp`, `flushTimes` -/

theorem isDpFor_dp (ty ty' : MType) (k k' : Key) (t : Int) (d : Dp) :
    (Op.dp ty' k' t d).isDpFor ty k = true ↔ (ty' = ty ∧ k' = k) := by
  simp [Op.isDpFor]

theorem lastDp_none_iff (ty : MType) (k : Key) (h : List Op) : lastDp ty k h = none ↔ NoDp ty k h := by
  induction h with
  | nil => simp [lastDp, NoDp]
  | cons op rest ih =>
    simp only [lastDp, NoDp, List.mem_cons, forall_eq_or_imp]
    cases hr : lastDp ty k rest with
    | some r =>
      simp only [reduceCtorEq, false_iff]
      intro hh
      have := ih.2 hh.2
      rw [hr] at this; cases this
    | none =>
      have hrest := ih.1 hr
      cases op with
      | flush t => simp only [Op.isDpFor, true_and, true_iff]; exact hrest
      | dp ty' k' t d =>
        by_cases hm : ty' = ty ∧ k' = k
        · simp [hm, Op.isDpFor]
        · simp only [hm, if_false, true_iff]
          refine ⟨?_, hrest⟩
          cases hb : (Op.dp ty' k' t d).isDpFor ty k with
          | false => rfl
          | true => exact absurd ((isDpFor_dp ..).1 hb) hm

theorem lastDp_some_iff (ty : MType) (k : Key) (h : List Op) (T : Int) (d : Dp) (b : List Op) :
    lastDp ty k h = some (T, d, b) ↔ ∃ a, h = a ++ Op.dp ty k T d :: b ∧ NoDp ty k b := by
  induction h with
  | nil => simp [lastDp]
  | cons op rest ih =>
    simp only [lastDp]
    cases hr : lastDp ty k rest with
    | some r =>
      simp only [Option.some.injEq]
      constructor
      · intro e
        subst e
        obtain ⟨a, ha, hb⟩ := ih.1 hr
        exact ⟨op :: a, by simp [ha], hb⟩
      · rintro ⟨a, ha, hb⟩
        cases a with
        | nil =>
          simp only [List.nil_append, List.cons.injEq] at ha
          have := (lastDp_none_iff ty k rest).2 (ha.2 ▸ hb)
          rw [hr] at this; cases this
        | cons x a' =>
          simp only [List.cons_append, List.cons.injEq] at ha
          have := ih.2 ⟨a', ha.2, hb⟩
          rw [hr] at this
          exact Option.some.inj this
    | none =>
      have hnd := (lastDp_none_iff ty k rest).1 hr
      constructor
      · intro e
        cases op with
        | flush t => simp at e
        | dp ty' k' t d' =>
          by_cases hm : ty' = ty ∧ k' = k
          · simp only [hm, and_self, if_true, Option.some.injEq, Prod.mk.injEq] at e
            obtain ⟨rfl, rfl, rfl⟩ := e
            obtain ⟨rfl, rfl⟩ := hm
            exact ⟨[], rfl, hnd⟩
          · simp [hm] at e
      · rintro ⟨a, ha, hb⟩
        cases a with
        | nil =>
          simp only [List.nil_append, List.cons.injEq] at ha
          obtain ⟨rfl, rfl⟩ := ha
          simp
        | cons x a' =>
          simp only [List.cons_append, List.cons.injEq] at ha
          have : Op.dp ty k T d ∈ rest := by rw [ha.2]; simp
          have := hnd _ this
          simp [Op.isDpFor] at this

theorem lastDp_snoc (ty : MType) (k : Key) (h : List Op) (op : Op) :
    lastDp ty k (h ++ [op]) =
      match op with
      | .dp ty' k' t d => if ty' = ty ∧ k' = k then some (t, d, []) else (lastDp ty k h).map (fun r => (r.1, r.2.1, r.2.2 ++ [op]))
      | .flush _ => (lastDp ty k h).map (fun r => (r.1, r.2.1, r.2.2 ++ [op])) := by
  induction h with
  | nil =>
    cases op with
    | flush t => simp [lastDp]
    | dp ty' k' t d => by_cases hm : ty' = ty ∧ k' = k <;> simp [lastDp, hm]
  | cons x rest ih =>
    simp only [List.cons_append, lastDp]
    rw [ih]
    cases op with
    | flush t =>
      simp only
      cases hr : lastDp ty k rest with
      | some r => simp
      | none =>
        cases x with
        | flush t' => simp
        | dp ty' k' t' d' => by_cases hm : ty' = ty ∧ k' = k <;> simp [hm]
    | dp ty₂ k₂ t d =>
      simp only
      by_cases hm₂ : ty₂ = ty ∧ k₂ = k
      · simp [hm₂]
      · simp only [hm₂, if_false]
        cases hr : lastDp ty k rest with
        | some r => simp
        | none =>
          cases x with
          | flush t' => simp
          | dp ty' k' t' d' => by_cases hm : ty' = ty ∧ k' = k <;> simp [hm]

theorem flushTimes_append (a b : List Op) : flushTimes (a ++ b) = flushTimes a ++ flushTimes b := by
  induction a with
  | nil => simp [flushTimes]
  | cons x a ih => cases x <;> simp [flushTimes, ih]

theorem mem_flushTimes (g : Int) (b : List Op) : g ∈ flushTimes b ↔ Op.flush g ∈ b := by
  induction b with
  | nil => simp [flushTimes]
  | cons x b ih => cases x <;> simp [flushTimes, ih]

/-- the time of the newest datapoint is the time of an operation of the history -/
theorem lastDp_time_mem (ty : MType) (k : Key) (h : List Op) (T : Int) (d : Dp) (b : List Op)
    (hl : lastDp ty k h = some (T, d, b)) : ∃ op ∈ h, op.time = T := by
  obtain ⟨a, ha, _⟩ := (lastDp_some_iff ..).1 hl
  exact ⟨Op.dp ty k T d, by simp [ha], rfl⟩

theorem nondecreasing_snoc (h : List Op) (op : Op) :
    Nondecreasing (h ++ [op]) ↔ Nondecreasing h ∧ ∀ x ∈ h, x.time ≤ op.time := by
  simp [Nondecreasing, List.pairwise_append]

theorem zeroE_ts (ty : MType) (e : Entry) : (zeroE ty e).ts = e.ts := by cases ty <;> rfl

theorem zeroE_idem (ty : MType) (e : Entry) : zeroE ty (zeroE ty e) = zeroE ty e := by cases ty <;> rfl

theorem mergeE_ts (ty : MType) (s : Option Entry) (t : Int) (d : Dp)
    (hs : ∀ e, s = some e → e.ts ≤ t) : (mergeE ty s t d).ts = t := by
  cases s with
  | none => rfl
  | some e =>
    have := hs e rfl
    cases ty <;> simp only [mergeE, imax] <;> split <;> first | rfl | (simp only []; omega) | omega

/-! ### the invariant tying one series' state to the history -/

/-- State of series `(ty, k)` after history `h`, described by the history alone:
absent iff it has no datapoint or some flush after the newest datapoint `T` found it expired;
when present its timestamp is `T`. -/
def Inv (i : Int) (ty : MType) (k : Key) (h : List Op) : Prop :=
  (lastDp ty k h = none → srun i ty k h = none) ∧
  (∀ T d b, lastDp ty k h = some (T, d, b) →
    (srun i ty k h = none → ∃ g ∈ flushTimes b, isExpired i g T = true) ∧
    (∀ e, srun i ty k h = some e → e.ts = T ∧ ∀ g ∈ flushTimes b, isExpired i g T = false))

theorem inv_snoc (i : Int) (ty : MType) (k : Key) (h : List Op) (op : Op)
    (hm : Nondecreasing (h ++ [op])) (ih : Inv i ty k h) : Inv i ty k (h ++ [op]) := by
  obtain ⟨hmh, hle⟩ := (nondecreasing_snoc h op).1 hm
  obtain ⟨ih1, ih2⟩ := ih
  unfold Inv
  rw [lastDp_snoc, srun_snoc]
  cases op with
  | dp ty' k' t d =>
    simp only [sstep]
    by_cases hmatch : ty' = ty ∧ k' = k
    · obtain ⟨rfl, rfl⟩ := hmatch
      simp only [and_self, if_true]
      refine ⟨by simp, ?_⟩
      intro T d' b hb
      simp only [Option.some.injEq, Prod.mk.injEq] at hb
      obtain ⟨rfl, rfl, rfl⟩ := hb
      refine ⟨by simp, ?_⟩
      intro e he
      have he' := (Option.some.inj he).symm
      subst he'
      refine ⟨?_, by simp [flushTimes]⟩
      apply mergeE_ts
      intro e he
      cases hl : lastDp ty' k' h with
      | none => rw [ih1 hl] at he; cases he
      | some r =>
        obtain ⟨T, d₀, b⟩ := r
        have := ((ih2 T d₀ b hl).2 e he).1
        obtain ⟨x, hx, hxt⟩ := lastDp_time_mem _ _ _ _ _ _ hl
        have h2 := hle x hx
        rw [hxt] at h2
        have h3 : (Op.dp ty' k' t d).time = t := rfl
        omega
    · simp only [hmatch, if_false]
      constructor
      · intro hn
        cases hl : lastDp ty k h with
        | none => exact ih1 hl
        | some r => rw [hl] at hn; simp at hn
      · intro T d' b hb
        cases hl : lastDp ty k h with
        | none => rw [hl] at hb; simp at hb
        | some r =>
          obtain ⟨T₀, d₀, b₀⟩ := r
          rw [hl] at hb
          simp only [Option.map_some, Option.some.injEq, Prod.mk.injEq] at hb
          obtain ⟨rfl, rfl, rfl⟩ := hb
          simp only [flushTimes_append, flushTimes, List.append_nil]
          exact ih2 _ _ _ hl
  | flush t =>
    simp only [sstep]
    constructor
    · intro hn
      cases hl : lastDp ty k h with
      | none => rw [ih1 hl]; rfl
      | some r => rw [hl] at hn; simp at hn
    · intro T d' b hb
      cases hl : lastDp ty k h with
      | none => rw [hl] at hb; simp at hb
      | some r =>
        obtain ⟨T₀, d₀, b₀⟩ := r
        rw [hl] at hb
        simp only [Option.map_some, Option.some.injEq, Prod.mk.injEq] at hb
        obtain ⟨rfl, rfl, rfl⟩ := hb
        obtain ⟨ihn, ihs⟩ := ih2 _ _ _ hl
        have hft : ∀ g, g ∈ flushTimes (b₀ ++ [Op.flush t]) ↔ (g ∈ flushTimes b₀ ∨ g = t) := by
          intro g; simp [flushTimes_append, flushTimes]
        cases hs : srun i ty k h with
        | none =>
          obtain ⟨g, hg, he⟩ := ihn hs
          simp only [Option.bind_none, true_implies, reduceCtorEq, false_implies, implies_true, and_true]
          exact ⟨g, (hft g).2 (Or.inl hg), he⟩
        | some e =>
          obtain ⟨hts, hall⟩ := ihs e hs
          simp only [Option.bind_some]
          cases hx : isExpired i t e.ts with
          | true =>
            simp only [if_true, true_implies, reduceCtorEq, false_implies, implies_true, and_true]
            exact ⟨t, (hft t).2 (Or.inr rfl), hts ▸ hx⟩
          | false =>
            simp only [Bool.false_eq_true, if_false, reduceCtorEq, false_implies, true_and, Option.some.injEq]
            intro e' he'
            subst he'
            refine ⟨by rw [zeroE_ts]; exact hts, ?_⟩
            intro g hg
            rcases (hft g).1 hg with hg | rfl
            · exact hall g hg
            · exact hts ▸ hx

theorem nondecreasing_prefix (a b : List Op) (h : Nondecreasing (a ++ b)) : Nondecreasing a :=
  (List.pairwise_append.1 h).1

theorem inv_all (i : Int) (ty : MType) (k : Key) (h : List Op) (hm : Nondecreasing h) : Inv i ty k h := by
  have : ∀ (l : List Op), Nondecreasing l.reverse → Inv i ty k l.reverse := by
    intro l
    induction l with
    | nil => intro _; simp [Inv, lastDp, srun]
    | cons op l ih =>
      intro hm
      rw [List.reverse_cons] at hm ⊢
      exact inv_snoc _ _ _ _ _ hm (ih (nondecreasing_prefix _ _ hm))
  simpa using this h.reverse (by simpa using hm)

/-- presence, as a Bool equation with the specification function -/
theorem srun_isSome_eq_spec (i : Int) (ty : MType) (k : Key) (h : List Op) (hm : Nondecreasing h) :
    (srun i ty k h).isSome = specReported i ty k h := by
  obtain ⟨h1, h2⟩ := inv_all i ty k h hm
  unfold specReported
  cases hl : lastDp ty k h with
  | none => simp [h1 hl]
  | some r =>
    obtain ⟨T, d₀, b⟩ := r
    obtain ⟨hn, hsome⟩ := h2 T d₀ b hl
    cases hs : srun i ty k h with
    | none =>
      obtain ⟨g, hg, he⟩ := hn hs
      simp only [Option.isSome_none]
      symm
      rw [Bool.eq_false_iff]
      intro hall
      rw [List.all_eq_true] at hall
      have := hall g hg
      rw [isExpired_iff] at he
      simp [he.1, he.2] at this
    | some e =>
      simp only [Option.isSome_some]
      symm
      rw [List.all_eq_true]
      intro g hg
      have := (isExpired_false_iff ..).1 ((hsome e hs).2 g hg)
      cases hd : (decide (i ≠ 0) && decide (g - T > i)) with
      | false => rfl
      | true =>
        simp only [Bool.and_eq_true, decide_eq_true_eq] at hd
        exact absurd hd this

/-! ### persistence without new data -/

theorem noDp_snoc (ty : MType) (k : Key) (b : List Op) (op : Op) :
    NoDp ty k (b ++ [op]) ↔ NoDp ty k b ∧ op.isDpFor ty k = false := by
  simp [NoDp, List.mem_append, or_imp, forall_and]

theorem sstep_noDp (i : Int) (ty : MType) (k : Key) (s : Option Entry) (op : Op) (h : op.isDpFor ty k = false) :
    sstep i ty k s op = match op with
      | .flush t => s.bind (fun e => if isExpired i t e.ts then none else some (zeroE ty e))
      | .dp .. => s := by
  cases op with
  | flush t => rfl
  | dp ty' k' t d =>
    have : ¬ (ty' = ty ∧ k' = k) := by
      intro hh; rw [(isDpFor_dp ..).2 hh] at h; cases h
    simp [sstep, this]

/-- Without new data a series that is still there holds what it held, or that zeroed. -/
theorem persist_weak (i : Int) (ty : MType) (k : Key) (pre mid : List Op) (hn : NoDp ty k mid) (e' : Entry)
    (hs : srun i ty k (pre ++ mid) = some e') :
    ∃ e, srun i ty k pre = some e ∧ (e' = e ∨ e' = zeroE ty e) := by
  have : ∀ (l : List Op), NoDp ty k l.reverse → ∀ e', srun i ty k (pre ++ l.reverse) = some e' →
      ∃ e, srun i ty k pre = some e ∧ (e' = e ∨ e' = zeroE ty e) := by
    intro l
    induction l with
    | nil => intro _ e' h; exact ⟨e', by simpa using h, Or.inl rfl⟩
    | cons op l ih =>
      intro hn e' hs
      rw [List.reverse_cons] at hn hs
      obtain ⟨hn1, hn2⟩ := (noDp_snoc ..).1 hn
      rw [← List.append_assoc, srun_snoc, sstep_noDp _ _ _ _ _ hn2] at hs
      cases op with
      | dp ty' k' t d => exact ih hn1 e' hs
      | flush t =>
        simp only at hs
        cases hp : srun i ty k (pre ++ l.reverse) with
        | none => rw [hp] at hs; simp at hs
        | some e₁ =>
          rw [hp] at hs
          simp only [Option.bind_some] at hs
          split at hs
          · cases hs
          · obtain ⟨e, he, hor⟩ := ih hn1 e₁ hp
            refine ⟨e, he, Or.inr ?_⟩
            have : e' = zeroE ty e₁ := (Option.some.inj hs).symm
            rcases hor with rfl | rfl
            · exact this
            · rw [this, zeroE_idem]
  simpa using this mid.reverse (by simpa using hn) e' (by simpa using hs)

/-- After a flush and without new data a series that is still there holds its zeroed value. -/
theorem persist_zeroed (i : Int) (ty : MType) (k : Key) (pre : List Op) (t : Int) (mid : List Op)
    (hn : NoDp ty k mid) (e' : Entry) (hs : srun i ty k (pre ++ Op.flush t :: mid) = some e') :
    ∃ e, srun i ty k pre = some e ∧ e' = zeroE ty e := by
  have hs' : srun i ty k ((pre ++ [Op.flush t]) ++ mid) = some e' := by simpa using hs
  obtain ⟨e₁, he₁, hor⟩ := persist_weak i ty k _ mid hn e' hs'
  rw [srun_snoc] at he₁
  simp only [sstep] at he₁
  cases hp : srun i ty k pre with
  | none => rw [hp] at he₁; simp at he₁
  | some e =>
    rw [hp] at he₁
    simp only [Option.bind_some] at he₁
    split at he₁
    · cases he₁
    · have : e₁ = zeroE ty e := (Option.some.inj he₁).symm
      refine ⟨e, rfl, ?_⟩
      rcases hor with rfl | rfl
      · exact this
      · rw [this, zeroE_idem]

/-! ### one type's interval does not touch another type -/

theorem step_congr (cfg cfg' : Config) (a a' : Aggr) (op : Op) (ty : MType)
    (hc : cfg ty = cfg' ty) (ha : a ty = a' ty) : (step cfg a op).1 ty = (step cfg' a' op).1 ty := by
  cases op with
  | dp ty' k t d => simp only [step]; split <;> simp_all
  | flush t => simp only [step, hc, ha]

theorem run_congr (cfg cfg' : Config) (ty : MType) (hc : cfg ty = cfg' ty) (h : List Op) :
    run cfg h ty = run cfg' h ty := by
  have : ∀ (l : List Op), run cfg l.reverse ty = run cfg' l.reverse ty := by
    intro l
    induction l with
    | nil => rfl
    | cons op l ih => rw [List.reverse_cons, run_snoc, run_snoc]; exact step_congr _ _ _ _ _ _ hc ih
  simpa using this h.reverse

/-! ### the list of views printed by the driver is made of `viewAt` -/

theorem viewsFrom_append (cfg : Config) (a : Aggr) (l₁ l₂ : List Op) :
    viewsFrom cfg a (l₁ ++ l₂) =
      viewsFrom cfg a l₁ ++ viewsFrom cfg (l₁.foldl (fun a op => (step cfg a op).1) a) l₂ := by
  induction l₁ generalizing a with
  | nil => rfl
  | cons op l ih =>
    cases op with
    | dp ty k t d =>
      show viewsFrom cfg (step cfg a (Op.dp ty k t d)).1 (l ++ l₂) = _
      rw [ih]; rfl
    | flush t =>
      show viewOf a :: viewsFrom cfg (step cfg a (Op.flush t)).1 (l ++ l₂) = _
      rw [ih]; rfl

end Gsd.Expiry
