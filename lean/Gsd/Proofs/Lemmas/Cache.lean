import Gsd.Model.Cache
import Gsd.Proofs.Lemmas.AList
/-! Helper lemmas for C12 (instance cache): list bookkeeping, the invariant and its preservation. -/
set_option linter.unusedSimpArgs false
set_option linter.unusedSectionVars false
set_option linter.unusedVariables false
namespace Gsd.Cache
open Gsd Gsd.AList

variable {σ ι : Type} [DecidableEq σ]

/-! ### lists -/

theorem takeOut_count {p ss r : List σ} (h : takeOut p ss = some r) (s : σ) :
    p.count s = r.count s + ss.count s := by
  induction ss generalizing p with
  | nil => simp [takeOut] at h; subst h; simp
  | cons x xs ih =>
    simp only [takeOut] at h
    split at h
    · rename_i hx
      have := ih h
      rw [List.count_erase] at this
      by_cases hxs : x = s
      · subst hxs
        have hpos : 0 < p.count x := List.count_pos_iff.mpr hx
        simp at this ⊢
        omega
      · have h1 : (x == s) = false := by simpa using hxs
        have h2 : (s == x) = false := by simpa using (fun e => hxs e.symm)
        simp [List.count_cons, h1, h2] at this ⊢
        omega
    · simp at h

theorem takeOut_singleton_of_mem {p : List σ} {x : σ} (h : x ∈ p) : takeOut p [x] = some (p.erase x) := by
  simp [takeOut, h]

theorem extract_countP {α : Type} {k : Nat} {l r : List α} {i : α} (h : extract k l = some (i, r))
    (p : α → Bool) : l.countP p = r.countP p + (if p i then 1 else 0) := by
  induction l generalizing k r with
  | nil => simp [extract] at h
  | cons x xs ih =>
    cases k with
    | zero =>
      simp [extract] at h
      obtain ⟨rfl, rfl⟩ := h
      simp [List.countP_cons]
    | succ k =>
      simp only [extract, Option.map_eq_some_iff] at h
      obtain ⟨⟨i', r'⟩, hr, heq⟩ := h
      simp at heq
      obtain ⟨rfl, rfl⟩ := heq
      have := ih hr
      simp [List.countP_cons, this]; omega

theorem extract_zero_cons {α : Type} (x : α) (xs : List α) : extract 0 (x :: xs) = some (x, xs) := rfl

theorem countP_ip_map (ss : List σ) (o : σ → Option ι) (s : σ) :
    (ss.map (fun x => ({ ip := x, inst := o x } : Info σ ι))).countP (fun i => decide (i.ip = s)) = ss.count s := by
  induction ss with
  | nil => simp
  | cons x xs ih =>
    simp only [List.map_cons, List.countP_cons, ih, List.count_cons]
    by_cases hx : x = s <;> simp [hx]

/-! ### association lists with a predicate on the entries -/

theorem countP_upsert_none {ν : Type} (q : σ × ν → Bool) (k : σ) (f : Option ν → ν) (m : AList σ ν)
    (h : lookup k m = none) : (upsert k f m).countP q = m.countP q + (if q (k, f none) then 1 else 0) := by
  induction m with
  | nil => simp [upsert, List.countP_cons]
  | cons e t ih =>
    obtain ⟨k', v⟩ := e
    simp only [lookup_cons] at h
    by_cases hk : k' = k
    · simp [hk] at h
    · simp only [hk, if_false] at h
      simp only [upsert, hk, if_false, List.countP_cons, ih h]
      omega

theorem countP_upsert_some {ν : Type} (q : σ × ν → Bool) (k : σ) (f : Option ν → ν) (m : AList σ ν) (v : ν)
    (h : lookup k m = some v) :
    (upsert k f m).countP q + (if q (k, v) then 1 else 0) = m.countP q + (if q (k, f (some v)) then 1 else 0) := by
  induction m with
  | nil => simp at h
  | cons e t ih =>
    obtain ⟨k', v'⟩ := e
    simp only [lookup_cons] at h
    by_cases hk : k' = k
    · subst hk
      simp only [if_true, Option.some.injEq] at h
      subst h
      simp only [upsert, if_true, List.countP_cons]
      omega
    · simp only [hk, if_false] at h
      have := ih h
      simp only [upsert, hk, if_false, List.countP_cons]
      omega

theorem nodupKeys_filter {ν : Type} (p : σ × ν → Bool) {m : AList σ ν} (h : NodupKeys m) :
    NodupKeys (m.filter p) := by
  unfold NodupKeys keys at *
  exact List.Nodup.sublist (List.Sublist.map _ List.filter_sublist) h

theorem lookup_filter {ν : Type} (p : σ × ν → Bool) (k : σ) {m : AList σ ν} (hn : NodupKeys m) :
    lookup k (m.filter p) = (lookup k m).filter (fun v => p (k, v)) := by
  induction m with
  | nil => simp
  | cons e t ih =>
    obtain ⟨k', v⟩ := e
    simp only [NodupKeys, keys, List.map_cons, List.nodup_cons] at hn
    have iht := ih hn.2
    by_cases hk : k' = k
    · subst hk
      have hnone : lookup k' t = none := lookup_eq_none_of_not_mem_keys hn.1
      by_cases hp : p (k', v) = true
      · simp [List.filter_cons, hp, lookup_cons, Option.filter]
      · simp [List.filter_cons, hp, lookup_cons, Option.filter, iht, hnone]
    · by_cases hp : p (k', v) = true
      · simp [List.filter_cons, hp, lookup_cons, hk, iht]
      · simp [List.filter_cons, hp, lookup_cons, hk, iht]

theorem count_keys_filter {ν : Type} (p : σ × ν → Bool) (k : σ) {m : AList σ ν} (hn : NodupKeys m) :
    ((m.filter p).map (·.1)).count k = if ((lookup k m).filter (fun v => p (k, v))).isSome then 1 else 0 := by
  induction m with
  | nil => simp
  | cons e t ih =>
    obtain ⟨k', v⟩ := e
    simp only [NodupKeys, keys, List.map_cons, List.nodup_cons] at hn
    have iht := ih hn.2
    by_cases hk : k' = k
    · subst hk
      have hnone : lookup k' t = none := lookup_eq_none_of_not_mem_keys hn.1
      have hz : ((t.filter p).map (·.1)).count k' = 0 := by
        rw [iht, hnone]; simp
      by_cases hp : p (k', v) = true
      · simp [List.filter_cons, hp, lookup_cons, Option.filter, List.count_cons, hz]
      · simp [List.filter_cons, hp, lookup_cons, Option.filter, hz]
    · have h1 : (k' == k) = false := by simpa using hk
      by_cases hp : p (k', v) = true
      · simp [List.filter_cons, hp, lookup_cons, hk, iht, List.count_cons, h1]
      · simp [List.filter_cons, hp, lookup_cons, hk, iht]

theorem countP_filter_split {α : Type} (q keep : α → Bool) (l : List α) :
    l.countP q = (l.filter keep).countP q + (l.filter (fun e => !keep e)).countP q := by
  induction l with
  | nil => simp
  | cons x xs ih =>
    by_cases hk : keep x = true <;> by_cases hq : q x = true <;>
      simp [List.filter_cons, List.countP_cons, hk, hq, ih] <;> omega

theorem countP_mapVals {ν : Type} (q : σ × ν → Bool) (f : σ → ν → ν) (m : AList σ ν)
    (h : ∀ k v, q (k, f k v) = q (k, v)) : (mapVals f m).countP q = m.countP q := by
  induction m with
  | nil => simp [mapVals]
  | cons e t ih =>
    obtain ⟨k, v⟩ := e
    simp only [mapVals, List.map_cons, List.countP_cons] at ih ⊢
    rw [ih, h]

/-! ### handle -/

theorem handle_cache (cfg : Config) (now : Int) (i : Info σ ι) (st : State σ ι) :
    (handle cfg now i st).cache = upsert i.ip (newHolder cfg now i.inst) st.cache ∧
    (handle cfg now i st).answers = st.answers := by
  unfold handle
  repeat' split
  all_goals exact ⟨rfl, rfl⟩

/-! ### the invariant -/

/-- What holds in every reachable state. -/
structure Inv (st : State σ ι) : Prop where
  nodup : NodupKeys st.cache
  pos_eq : st.pos = (st.cache.countP isPos : Nat)
  neg_eq : st.neg = (st.cache.countP isNeg : Nat)
  /-- every answer `doLookup` ever sent is waiting, handled-but-not-delivered, or delivered: never lost,
  never duplicated (for every predicate on answers, hence for every source and every single answer) -/
  conserve : ∀ p : Info σ ι → Bool,
    st.emitted.countP p = st.answers.countP p + st.toReturn.countP p + st.delivered.countP p
  perSource : ∀ s : σ, st.emitted.countP (fun i => decide (i.ip = s)) = st.queried.count s
  req : ∀ s : σ, st.requested.count s = st.queried.count s + st.pending.count s

theorem inv_init : Inv (init : State σ ι) := by
  refine ⟨?_, ?_, ?_, ?_, ?_, ?_⟩ <;> simp [init, NodupKeys, keys]

theorem isPos_newHolder_none (cfg : Config) (now : Int) (k : σ) (a : Option ι) :
    isPos (k, newHolder cfg now a none) = a.isSome := by simp [isPos, newHolder]
theorem isNeg_newHolder_none (cfg : Config) (now : Int) (k : σ) (a : Option ι) :
    isNeg (k, newHolder cfg now a none) = a.isNone := by simp [isNeg, newHolder]

theorem inv_handle (cfg : Config) (now : Int) (i : Info σ ι) (st : State σ ι) (rest : List (Info σ ι))
    (hst : Inv st) (ha : st.answers = i :: rest) : Inv (handle cfg now i { st with answers := rest }) := by
  obtain ⟨hn, hp, hg, hc, hs, hr⟩ := hst
  have hcons : ∀ p : Info σ ι → Bool, st.emitted.countP p =
      rest.countP p + (st.toReturn ++ [i]).countP p + st.delivered.countP p := by
    intro p
    have := hc p
    rw [ha] at this
    simp only [List.countP_cons, List.countP_append, List.countP_nil] at this ⊢
    omega
  obtain ⟨ip, ans⟩ := i
  cases hl : lookup ip st.cache with
  | none =>
    have cp := countP_upsert_none isPos ip (newHolder cfg now ans) st.cache hl
    have cn := countP_upsert_none isNeg ip (newHolder cfg now ans) st.cache hl
    rw [isPos_newHolder_none] at cp
    rw [isNeg_newHolder_none] at cn
    cases ans with
    | none =>
      simp only [handle, hl]
      refine ⟨nodupKeys_upsert _ _ hn, ?_, ?_, hcons, hs, hr⟩
      · simp at cp; simp [cp, hp]
      · simp at cn; simp [cn, hg]
    | some v =>
      simp only [handle, hl]
      refine ⟨nodupKeys_upsert _ _ hn, ?_, ?_, hcons, hs, hr⟩
      · simp at cp; simp [cp, hp]
      · simp at cn; simp [cn, hg]
  | some cur =>
    have cp := countP_upsert_some isPos ip (newHolder cfg now ans) st.cache cur hl
    have cn := countP_upsert_some isNeg ip (newHolder cfg now ans) st.cache cur hl
    cases hci : cur.inst with
    | none =>
      cases ans with
      | none =>
        simp only [handle, hl]
        simp [isPos, newHolder, hci] at cp
        simp [isNeg, newHolder, hci] at cn
        exact ⟨nodupKeys_upsert _ _ hn, by simp [hp, cp], by simp [hg, cn], hcons, hs, hr⟩
      | some v =>
        simp only [handle, hl, hci, Option.isNone_none, if_true]
        simp [isPos, newHolder, hci] at cp
        simp [isNeg, newHolder, hci] at cn
        refine ⟨nodupKeys_upsert _ _ hn, ?_, ?_, hcons, hs, hr⟩
        · simp [hp, cp]
        · simp [hg]; omega
    | some w =>
      cases ans with
      | none =>
        simp only [handle, hl]
        simp [isPos, newHolder, hci] at cp
        simp [isNeg, newHolder, hci] at cn
        exact ⟨nodupKeys_upsert _ _ hn, by simp [hp, cp], by simp [hg, cn], hcons, hs, hr⟩
      | some v =>
        simp only [handle, hl, hci, Option.isNone_some, Bool.false_eq_true, if_false]
        simp [isPos, newHolder, hci] at cp
        simp [isNeg, newHolder, hci] at cn
        exact ⟨nodupKeys_upsert _ _ hn, by simp [hp, cp], by simp [hg, cn], hcons, hs, hr⟩

theorem inv_tick (cfg : Config) (t : Int) (st : State σ ι) (hst : Inv st) : Inv (tick cfg t st) := by
  obtain ⟨hn, hp, hg, hc, hs, hr⟩ := hst
  refine ⟨nodupKeys_filter _ hn, ?_, ?_, hc, hs, ?_⟩
  · have := countP_filter_split isPos (fun e : σ × Holder ι => !idleOut cfg t e.2) st.cache
    simp only [Bool.not_not] at this
    simp only [tick, hp]; omega
  · have := countP_filter_split isNeg (fun e : σ × Holder ι => !idleOut cfg t e.2) st.cache
    simp only [Bool.not_not] at this
    simp only [tick, hg]; omega
  · intro s
    have := hr s
    simp only [tick, List.count_append]; omega

theorem inv_step (cfg : Config) (st st' : State σ ι) (a : Action σ ι) (hst : Inv st)
    (h : step cfg st a = some st') : Inv st' := by
  cases a with
  | submit s =>
    simp only [step, Option.some.injEq] at h; subst h
    obtain ⟨hn, hp, hg, hc, hs, hr⟩ := hst
    refine ⟨hn, hp, hg, hc, hs, ?_⟩
    intro x; have := hr x; simp only [List.count_append]; omega
  | batch ss o e =>
    simp only [step] at h
    split at h
    · simp at h
    · split at h
      · simp at h
      · rename_i rest hto
        simp only [Option.some.injEq] at h; subst h
        obtain ⟨hn, hp, hg, hc, hs, hr⟩ := hst
        refine ⟨hn, hp, hg, ?_, ?_, ?_⟩
        · intro p; have := hc p; simp only [List.countP_append]; omega
        · intro s; have := hs s
          simp only [List.countP_append, List.count_append, countP_ip_map]; omega
        · intro s; have := hr s; have := takeOut_count hto s
          simp only [List.count_append]; omega
  | handleInfo now =>
    simp only [step] at h
    split at h
    · simp at h
    · rename_i i rest ha
      simp only [Option.some.injEq] at h; subst h
      exact inv_handle cfg now i st rest hst ha
  | deliver k =>
    simp only [step] at h
    split at h
    · simp at h
    · rename_i i rest hex
      simp only [Option.some.injEq] at h; subst h
      obtain ⟨hn, hp, hg, hc, hs, hr⟩ := hst
      refine ⟨hn, hp, hg, ?_, hs, hr⟩
      intro p; have := hc p; have := extract_countP hex p
      simp only [List.countP_append, List.countP_cons, List.countP_nil]; omega
  | peek s now =>
    simp only [step, Option.some.injEq] at h; subst h
    obtain ⟨hn, hp, hg, hc, hs, hr⟩ := hst
    refine ⟨by simp only [touch]; exact nodupKeys_mapVals _ hn, ?_, ?_, hc, hs, hr⟩
    · simp only [touch]; rw [countP_mapVals]; exact hp
      intro k v; simp only [isPos]; split <;> rfl
    · simp only [touch]; rw [countP_mapVals]; exact hg
      intro k v; simp only [isNeg]; split <;> rfl
  | tick t =>
    simp only [step, Option.some.injEq] at h; subst h
    exact inv_tick cfg t st hst

/-- lifting a step-preserved predicate over every schedule -/
theorem run_preserves (cfg : Config) (P : State σ ι → Prop)
    (hstep : ∀ st st' a, P st → step cfg st a = some st' → P st')
    (st st' : State σ ι) (acts : List (Action σ ι)) (h0 : P st) (hr : run cfg st acts = some st') : P st' := by
  induction acts generalizing st with
  | nil => simp [run] at hr; subst hr; exact h0
  | cons a as ih =>
    simp only [run, Option.bind_eq_some_iff] at hr
    obtain ⟨mid, hm, hrest⟩ := hr
    exact ih mid (hstep st mid a h0 hm) hrest

theorem inv_run (cfg : Config) (st st' : State σ ι) (acts : List (Action σ ι)) (h0 : Inv st)
    (hr : run cfg st acts = some st') : Inv st' :=
  run_preserves cfg Inv (fun s s' a hs h => inv_step cfg s s' a hs h) st st' acts h0 hr

theorem inv_reachable (cfg : Config) (acts : List (Action σ ι)) (st : State σ ι)
    (hr : run cfg init acts = some st) : Inv st :=
  inv_run cfg init st acts inv_init hr

end Gsd.Cache
