import Gsd.Model.Lambda
/-!
Helper lemmas for C20 (Lambda extension): the invariant of the transition system and its preservation.
Core Lean only.
-/
set_option linter.unusedSimpArgs false
set_option linter.unusedVariables false
namespace Gsd.Lambda

/-- program counters before the heartbeat's initial flush -/
def Pc.early : Pc → Bool
  | .start | .registered | .serving | .initFailed | .initErrSent | .hbStart => true
  | _ => false

theorem countP_set {α : Type} (p : α → Bool) (l : List α) (j : Nat) (x y : α) (h : l[j]? = some x) :
    ((l.set j y).countP p : Int) = (l.countP p : Int) - (if p x then 1 else 0) + (if p y then 1 else 0) := by
  induction l generalizing j with
  | nil => simp at h
  | cons a t ih =>
    cases j with
    | zero =>
      simp only [List.getElem?_cons_zero, Option.some.injEq] at h
      subst h
      simp only [List.set_cons_zero, List.countP_cons]
      split <;> split <;> simp <;> omega
    | succ k =>
      simp only [List.getElem?_cons_succ] at h
      have := ih k h
      simp only [List.set_cons_succ, List.countP_cons]
      omega

theorem getElem?_set' {α : Type} (l : List α) (j j' : Nat) (x y : α) (h : l[j]? = some x) :
    (l.set j y)[j']? = if j = j' then some y else l[j']? := by
  have hlt : j < l.length := by
    rcases Nat.lt_or_ge j l.length with h' | h'
    · exact h'
    · rw [List.getElem?_eq_none_iff.mpr h'] at h; cases h
  rw [List.getElem?_set]
  by_cases hj : j = j'
  · subst hj; simp [hlt]
  · simp [hj]

theorem getElem?_append_one' {α : Type} (l : List α) (x : α) (j : Nat) :
    (l ++ [x])[j]? = if j < l.length then l[j]? else if j = l.length then some x else none := by
  by_cases h : j < l.length
  · simp [h, List.getElem?_append_left h]
  · simp only [h, if_false]
    rw [List.getElem?_append_right (by omega)]
    by_cases h2 : j = l.length
    · simp [h2]
    · have : j - l.length ≠ 0 := by omega
      simp [h2]
      omega

/-! ### list-level parts of the invariant -/

def OrdL (fs : List Flush) (n : Nat) : Prop := ∀ j : Nat, j < n → ∃ f : Flush, fs[j]? = some f ∧ f.st.over = true
def OrigL (fs : List Flush) : Prop := ∀ (j : Nat) (f : Flush), fs[j]? = some f → f.origin = (if j = 0 then none else some j)
def InBody (fs : List Flush) (dp : Nat) : Prop := ∃ (j : Nat) (f : Flush), fs[j]? = some f ∧ dp ∈ f.body
def D0L (fs : List Flush) (buf : List Nat) (acc : List (Nat × Nat)) : Prop :=
  ∀ dp, (dp ∈ buf ∨ InBody fs dp) → ∃ e, (dp, e) ∈ acc
def D1L (fs : List Flush) (buf : List Nat) (acc : List (Nat × Nat)) : Prop :=
  ∀ p, p ∈ acc → p.1 ∈ buf ∨ InBody fs p.1
def D3L (fs : List Flush) (acc : List (Nat × Nat)) : Prop :=
  ∀ p, p ∈ acc → ∀ (j : Nat) (f : Flush), fs[j]? = some f → p.1 ∈ f.body → j ≤ p.2 + 1

section setLemmas
variable (fs : List Flush) (j : Nat) (f : Flush) (st' : FSt) (hf : fs[j]? = some f)
include hf

theorem inBody_set (dp : Nat) : InBody (fs.set j { f with st := st' }) dp ↔ InBody fs dp := by
  constructor
  · rintro ⟨j', f', h1, h2⟩
    rw [getElem?_set' fs j j' f _ hf] at h1
    by_cases hj : j = j'
    · subst hj
      simp only [if_true, Option.some.injEq] at h1
      subst h1
      exact ⟨j, f, hf, h2⟩
    · simp only [hj, if_false] at h1
      exact ⟨j', f', h1, h2⟩
  · rintro ⟨j', f', h1, h2⟩
    by_cases hj : j = j'
    · subst hj
      rw [hf] at h1; cases h1
      exact ⟨j, { f with st := st' }, by rw [getElem?_set' fs j j f _ hf]; simp, h2⟩
    · exact ⟨j', f', by rw [getElem?_set' fs j j' f _ hf]; simp [hj, h1], h2⟩

theorem ordL_set (n : Nat) (hmono : f.st.over = true → st'.over = true) (h : OrdL fs n) :
    OrdL (fs.set j { f with st := st' }) n := by
  intro j' hj'
  obtain ⟨f', h1, h2⟩ := h j' hj'
  rw [getElem?_set' fs j j' f _ hf]
  by_cases hj : j = j'
  · subst hj
    rw [hf] at h1; cases h1
    exact ⟨{ f with st := st' }, by simp, hmono h2⟩
  · exact ⟨f', by simp [hj, h1], h2⟩

theorem origL_set (h : OrigL fs) : OrigL (fs.set j { f with st := st' }) := by
  intro j' f' h1
  rw [getElem?_set' fs j j' f _ hf] at h1
  by_cases hj : j = j'
  · subst hj
    simp only [if_true, Option.some.injEq] at h1
    subst h1
    exact h j f hf
  · simp only [hj, if_false] at h1
    exact h j' f' h1

theorem d3L_set (acc : List (Nat × Nat)) (h : D3L fs acc) : D3L (fs.set j { f with st := st' }) acc := by
  intro p hp j' f' h1 h2
  rw [getElem?_set' fs j j' f _ hf] at h1
  by_cases hj : j = j'
  · subst hj
    simp only [if_true, Option.some.injEq] at h1
    subst h1
    exact h p hp j f hf h2
  · simp only [hj, if_false] at h1
    exact h p hp j' f' h1 h2

theorem d0L_set (buf : List Nat) (acc : List (Nat × Nat)) (h : D0L fs buf acc) :
    D0L (fs.set j { f with st := st' }) buf acc := by
  intro dp hdp
  rw [inBody_set fs j f st' hf] at hdp
  exact h dp hdp

theorem d1L_set (buf : List Nat) (acc : List (Nat × Nat)) (h : D1L fs buf acc) :
    D1L (fs.set j { f with st := st' }) buf acc := by
  intro p hp
  rw [inBody_set fs j f st' hf]
  exact h p hp

theorem notified_set :
    ((notifiedCount (fs.set j { f with st := st' }) : Nat) : Int) =
      notifiedCount fs - (if f.st = .notified then 1 else 0) + (if st' = .notified then 1 else 0) := by
  have := countP_set (fun f : Flush => decide (f.st = .notified)) fs j f { f with st := st' } hf
  simp only [notifiedCount]
  simpa using this

theorem over_set :
    ((overCount (fs.set j { f with st := st' }) : Nat) : Int) =
      overCount fs - (if f.st.over then 1 else 0) + (if st'.over then 1 else 0) := by
  have := countP_set (fun f : Flush => f.st.over) fs j f { f with st := st' } hf
  simp only [overCount]
  simpa using this

end setLemmas

section appendLemmas
variable (fs : List Flush) (g : Flush)

theorem inBody_append (dp : Nat) : InBody (fs ++ [g]) dp ↔ InBody fs dp ∨ dp ∈ g.body := by
  constructor
  · rintro ⟨j, f, h1, h2⟩
    rw [getElem?_append_one'] at h1
    by_cases hj : j < fs.length
    · simp only [hj, if_true] at h1
      exact Or.inl ⟨j, f, h1, h2⟩
    · simp only [hj, if_false] at h1
      by_cases hj2 : j = fs.length
      · simp only [hj2, if_true, Option.some.injEq] at h1
        subst h1
        exact Or.inr h2
      · simp [hj2] at h1
  · rintro (⟨j, f, h1, h2⟩ | h)
    · have hlt : j < fs.length := by
        rcases Nat.lt_or_ge j fs.length with h' | h'
        · exact h'
        · rw [List.getElem?_eq_none_iff.mpr h'] at h1; cases h1
      exact ⟨j, f, by rw [List.getElem?_append_left hlt]; exact h1, h2⟩
    · exact ⟨fs.length, g, by rw [getElem?_append_one']; simp, h⟩

theorem ordL_append (n : Nat) (h : OrdL fs n) : OrdL (fs ++ [g]) n := by
  intro j hj
  obtain ⟨f, h1, h2⟩ := h j hj
  have hlt : j < fs.length := by
    rcases Nat.lt_or_ge j fs.length with h' | h'
    · exact h'
    · rw [List.getElem?_eq_none_iff.mpr h'] at h1; cases h1
  exact ⟨f, by rw [List.getElem?_append_left hlt]; exact h1, h2⟩

theorem origL_append (h : OrigL fs) (hg : g.origin = (if fs.length = 0 then none else some fs.length)) :
    OrigL (fs ++ [g]) := by
  intro j f h1
  rw [getElem?_append_one'] at h1
  by_cases hj : j < fs.length
  · simp only [hj, if_true] at h1
    exact h j f h1
  · simp only [hj, if_false] at h1
    by_cases hj2 : j = fs.length
    · simp only [hj2, if_true, Option.some.injEq] at h1
      subst h1
      rw [hj2]; exact hg
    · simp [hj2] at h1

theorem notified_append (hg : g.st ≠ .notified) : notifiedCount (fs ++ [g]) = notifiedCount fs := by
  simp [notifiedCount, List.countP_append, hg]

theorem over_append (hg : g.st.over = false) : overCount (fs ++ [g]) = overCount fs := by
  simp [overCount, List.countP_append, hg]

end appendLemmas

/-- scalar part of the invariant -/
structure Ctl (s : St) : Prop where
  pcR1 : s.pc = .inNext → s.nextReq = s.nextResp + 1
  pcR2 : s.pc ≠ .inNext → s.nextReq = s.nextResp
  pcW1 : s.pc = .woken → s.waits = s.nextReq + 1
  pcW2 : s.pc ≠ .woken → s.waits = s.nextReq
  early : s.pc.early = true → s.nextReq = 0 ∧ s.initFlushed = false
  late : s.pc.early = false → s.initFlushed = true
  tok : s.tokens = (s.notifies : Int) - s.waits
  tokNonneg : 0 ≤ s.tokens
  done : s.doneProcessed + s.doneQueued = s.doneEmitted
  env : s.doneEmitted ≤ s.nextResp
  fail : s.failed = true ↔ (s.pc = .initFailed ∨ s.pc = .initErrSent)
  ierr : s.initErrors = (if s.pc = .initErrSent then 1 else 0)

/-- list part of the invariant -/
structure Lst (s : St) : Prop where
  notif : s.notifies = notifiedCount s.flushes
  over : s.attempts + s.empties = overCount s.flushes
  len : s.flushes.length = (if s.initFlushed then 1 else 0) + s.doneProcessed
  ord : OrdL s.flushes s.nextReq
  orig : OrigL s.flushes
  d0 : D0L s.flushes s.buf s.accepted
  d1 : D1L s.flushes s.buf s.accepted
  d2 : ∀ p, p ∈ s.accepted → p.1 ∈ s.buf → s.doneProcessed ≤ p.2
  d3 : D3L s.flushes s.accepted

structure Inv (s : St) : Prop where
  ctl : Ctl s
  lst : Lst s

theorem inv_init (cap : Int) : Inv (init cap) := by
  refine ⟨⟨?_, ?_, ?_, ?_, ?_, ?_, ?_, ?_, ?_, ?_, ?_, ?_⟩, ⟨?_, ?_, ?_, ?_, ?_, ?_, ?_, ?_, ?_⟩⟩ <;>
    simp [init, Pc.early, notifiedCount, overCount, OrdL, OrigL, D0L, D1L, D3L, InBody]

theorem all_notified (fs : List Flush) (h : notifiedCount fs = fs.length) : ∀ f ∈ fs, f.st = .notified := by
  have := (List.countP_eq_length (p := fun f : Flush => decide (f.st = .notified)) (l := fs)).mp h
  intro f hf
  simpa using this f hf

theorem notified_le_length (fs : List Flush) : notifiedCount fs ≤ fs.length := List.countP_le_length

macro "ctl_close" : tactic =>
  `(tactic| (constructor <;>
      (first
        | (simp_all [Pc.early, setFlush]; done)
        | (simp_all [Pc.early, setFlush] <;> omega)
        | omega)))

theorem ctl_step {s s' : St} {a : Act} (c : Ctl s) (h : step s a = some s') (henv : envOK s' = true) : Ctl s' := by
  obtain ⟨pcR1, pcR2, pcW1, pcW2, early, late, tok, tokNonneg, done, env, fail, ierr⟩ := c
  simp only [envOK, decide_eq_true_eq] at henv
  cases a with
  | register | subscribe | serverFail | initError | windowElapsed | hbInitFlush | hbWait | hbNext | rtInvoke
  | rtShutdown | teleFlush | accept dp =>
    simp only [step] at h
    split at h
    all_goals first | (cases h; done) | skip
    all_goals
      rename_i hg
      simp only [Option.some.injEq] at h
      subst h
      ctl_close
  | rtDone | otherRecord =>
    simp only [step, Option.some.injEq] at h
    subst h
    ctl_close
  | skip j | postBegin j | postEnd j | notify j =>
    simp only [step] at h
    split at h
    · rename_i f hf
      split at h
      · rename_i hg
        simp only [Option.some.injEq] at h
        subst h
        ctl_close
      · cases h
    · cases h

theorem lst_step {s s' : St} {a : Act} (inv : Inv s) (h : step s a = some s') : Lst s' := by
  obtain ⟨c, l⟩ := inv
  cases a with
  | register | subscribe | serverFail | initError | windowElapsed | hbWait | rtInvoke | rtShutdown =>
    simp only [step] at h
    split at h
    · simp only [Option.some.injEq] at h
      subst h
      exact ⟨l.notif, l.over, l.len, l.ord, l.orig, l.d0, l.d1, l.d2, l.d3⟩
    · cases h
  | rtDone | otherRecord =>
    simp only [step, Option.some.injEq] at h
    subst h
    exact ⟨l.notif, l.over, l.len, l.ord, l.orig, l.d0, l.d1, l.d2, l.d3⟩
  | hbNext =>
    simp only [step] at h
    split at h
    · rename_i hpc
      simp only [Option.some.injEq] at h
      subst h
      refine ⟨l.notif, l.over, l.len, ?_, l.orig, l.d0, l.d1, l.d2, l.d3⟩
      -- the counting argument: every flush that exists has been notified
      have hw := c.pcW1 hpc
      have hr := c.pcR2 (by rw [hpc]; simp)
      have hlate := c.late (by rw [hpc]; rfl)
      have htok := c.tok
      have hnn := c.tokNonneg
      have hnot := l.notif
      have hlen := l.len
      have hle := notified_le_length s.flushes
      have hdone := c.done
      have henv := c.env
      rw [hlate] at hlen
      simp only [if_true] at hlen
      have hall : notifiedCount s.flushes = s.flushes.length := by omega
      have hlen' : s.flushes.length = s.nextReq + 1 := by omega
      intro j hj
      have hj' : j < s.flushes.length := by
        have : j < s.nextReq + 1 := hj
        omega
      refine ⟨s.flushes[j], List.getElem?_eq_getElem hj', ?_⟩
      have := all_notified s.flushes hall _ (List.getElem_mem hj')
      rw [this]; rfl
    · cases h
  | hbInitFlush =>
    simp only [step] at h
    split at h
    · rename_i hpc
      simp only [Option.some.injEq] at h
      subst h
      obtain ⟨hreq, hif⟩ := c.early (by rw [hpc]; rfl)
      have hresp := c.pcR2 (by rw [hpc]; simp)
      have hlen := l.len
      rw [hif] at hlen
      have hP : s.doneProcessed = 0 := by have := c.done; have := c.env; omega
      have hlen0 : s.flushes.length = 0 := by simp at hlen; omega
      refine ⟨?_, ?_, ?_, ?_, ?_, ?_, ?_, ?_, ?_⟩
      · show s.notifies = notifiedCount (s.flushes ++ [_])
        rw [notified_append _ _ (by simp)]; exact l.notif
      · show s.attempts + s.empties = overCount (s.flushes ++ [_])
        rw [over_append _ _ (by rfl)]; exact l.over
      · show (s.flushes ++ [_]).length = (if true = true then 1 else 0) + s.doneProcessed
        simp [hlen0, hP]
      · show OrdL (s.flushes ++ [_]) s.nextReq
        exact ordL_append _ _ _ l.ord
      · show OrigL (s.flushes ++ [_])
        exact origL_append _ _ l.orig (by simp [hlen0])
      · show D0L (s.flushes ++ [_]) [] s.accepted
        intro dp hdp
        rw [inBody_append] at hdp
        rcases hdp with h0 | h1 | h2
        · simp at h0
        · exact l.d0 dp (Or.inr h1)
        · exact l.d0 dp (Or.inl h2)
      · show D1L (s.flushes ++ [_]) [] s.accepted
        intro p hp
        rw [inBody_append]
        rcases l.d1 p hp with h1 | h1
        · exact Or.inr (Or.inr h1)
        · exact Or.inr (Or.inl h1)
      · intro p hp hb
        simp at hb
      · show D3L (s.flushes ++ [_]) s.accepted
        intro p hp j f h1 h2
        rw [getElem?_append_one'] at h1
        by_cases hj : j < s.flushes.length
        · simp only [hj, if_true] at h1
          exact l.d3 p hp j f h1 h2
        · simp only [hj, if_false] at h1
          by_cases hj2 : j = s.flushes.length
          · omega
          · simp [hj2] at h1
    · cases h
  | teleFlush =>
    simp only [step] at h
    split at h
    · rename_i hq
      simp only [Option.some.injEq] at h
      subst h
      -- a queued runtimeDone record means an invocation was handed out, hence the initial flush is long done
      have hne : s.pc.early = false := by
        cases he : s.pc.early with
        | false => rfl
        | true =>
          obtain ⟨hreq, _⟩ := c.early he
          have h1 := c.done
          have h2 := c.env
          by_cases hin : s.pc = .inNext
          · rw [hin] at he; cases he
          · have := c.pcR2 hin; omega
      have hif := c.late hne
      have hlen := l.len
      rw [hif] at hlen
      simp only [if_true] at hlen
      refine ⟨?_, ?_, ?_, ?_, ?_, ?_, ?_, ?_, ?_⟩
      · show s.notifies = notifiedCount (s.flushes ++ [_])
        rw [notified_append _ _ (by simp)]; exact l.notif
      · show s.attempts + s.empties = overCount (s.flushes ++ [_])
        rw [over_append _ _ (by rfl)]; exact l.over
      · show (s.flushes ++ [_]).length = (if s.initFlushed = true then 1 else 0) + (s.doneProcessed + 1)
        simp [hif]; omega
      · show OrdL (s.flushes ++ [_]) s.nextReq
        exact ordL_append _ _ _ l.ord
      · show OrigL (s.flushes ++ [_])
        apply origL_append _ _ l.orig
        have : s.flushes.length ≠ 0 := by omega
        simp only [this, if_false]
        congr 1; omega
      · show D0L (s.flushes ++ [_]) [] s.accepted
        intro dp hdp
        rw [inBody_append] at hdp
        rcases hdp with h0 | h1 | h2
        · simp at h0
        · exact l.d0 dp (Or.inr h1)
        · exact l.d0 dp (Or.inl h2)
      · show D1L (s.flushes ++ [_]) [] s.accepted
        intro p hp
        rw [inBody_append]
        rcases l.d1 p hp with h1 | h1
        · exact Or.inr (Or.inr h1)
        · exact Or.inr (Or.inl h1)
      · intro p hp hb
        simp at hb
      · show D3L (s.flushes ++ [_]) s.accepted
        intro p hp j f h1 h2
        rw [getElem?_append_one'] at h1
        by_cases hj : j < s.flushes.length
        · simp only [hj, if_true] at h1
          exact l.d3 p hp j f h1 h2
        · simp only [hj, if_false] at h1
          by_cases hj2 : j = s.flushes.length
          · simp only [hj2, if_true, Option.some.injEq] at h1
            subst h1
            have := l.d2 p hp h2
            omega
          · simp [hj2] at h1
    · cases h
  | accept dp =>
    simp only [step] at h
    split at h
    · cases h
    · rename_i hg
      simp only [Option.some.injEq] at h
      subst h
      have hfresh : ∀ e, (dp, e) ∉ s.accepted := by
        intro e he
        apply hg
        refine Or.inr (Or.inr ?_)
        simp only [List.any_eq_true, beq_iff_eq]
        exact ⟨(dp, e), he, rfl⟩
      refine ⟨l.notif, l.over, l.len, l.ord, l.orig, ?_, ?_, ?_, ?_⟩
      · show D0L s.flushes (s.buf ++ [dp]) (s.accepted ++ [(dp, s.doneEmitted)])
        intro x hx
        rcases hx with hx | hx
        · simp only [List.mem_append, List.mem_singleton] at hx
          rcases hx with hx | rfl
          · obtain ⟨e, he⟩ := l.d0 x (Or.inl hx)
            exact ⟨e, by simp [he]⟩
          · exact ⟨s.doneEmitted, by simp⟩
        · obtain ⟨e, he⟩ := l.d0 x (Or.inr hx)
          exact ⟨e, by simp [he]⟩
      · show D1L s.flushes (s.buf ++ [dp]) (s.accepted ++ [(dp, s.doneEmitted)])
        intro p hp
        simp only [List.mem_append, List.mem_singleton] at hp
        rcases hp with hp | rfl
        · rcases l.d1 p hp with h1 | h1
          · exact Or.inl (by simp [h1])
          · exact Or.inr h1
        · exact Or.inl (by simp)
      · intro p hp hb
        show s.doneProcessed ≤ p.2
        simp only [List.mem_append, List.mem_singleton] at hp hb
        rcases hp with hp | rfl
        · rcases hb with hb | hb
          · exact l.d2 p hp hb
          · exfalso
            apply hfresh p.2
            have : p = (dp, p.2) := by rw [← hb]
            rw [← this]; exact hp
        · have := c.done
          show s.doneProcessed ≤ s.doneEmitted
          omega
      · show D3L s.flushes (s.accepted ++ [(dp, s.doneEmitted)])
        intro p hp j f h1 h2
        simp only [List.mem_append, List.mem_singleton] at hp
        rcases hp with hp | rfl
        · exact l.d3 p hp j f h1 h2
        · exfalso
          obtain ⟨e, he⟩ := l.d0 dp (Or.inr ⟨j, f, h1, h2⟩)
          exact hfresh e he
  | skip j =>
    simp only [step] at h
    split at h
    · rename_i f hf
      split at h
      · rename_i hg
        simp only [Option.some.injEq] at h
        subst h
        refine ⟨?_, ?_, ?_, ?_, ?_, ?_, ?_, l.d2, ?_⟩
        · show s.notifies = notifiedCount (s.flushes.set j _)
          have := notified_set s.flushes j f .completed hf
          have := l.notif
          simp [hg.1] at *; omega
        · show s.attempts + (s.empties + 1) = overCount (s.flushes.set j _)
          have := over_set s.flushes j f .completed hf
          have := l.over
          simp [hg.1, FSt.over] at *; omega
        · show (s.flushes.set j _).length = _
          simp; exact l.len
        · exact ordL_set s.flushes j f .completed hf s.nextReq (fun _ => rfl) l.ord
        · exact origL_set s.flushes j f .completed hf l.orig
        · exact d0L_set s.flushes j f .completed hf s.buf s.accepted l.d0
        · exact d1L_set s.flushes j f .completed hf s.buf s.accepted l.d1
        · exact d3L_set s.flushes j f .completed hf s.accepted l.d3
      · cases h
    · cases h
  | postBegin j =>
    simp only [step] at h
    split at h
    · rename_i f hf
      split at h
      · rename_i hg
        simp only [Option.some.injEq] at h
        subst h
        refine ⟨?_, ?_, ?_, ?_, ?_, ?_, ?_, l.d2, ?_⟩
        · show s.notifies = notifiedCount (s.flushes.set j _)
          have := notified_set s.flushes j f .posting hf
          have := l.notif
          simp [hg.1] at *; omega
        · show s.attempts + s.empties = overCount (s.flushes.set j _)
          have := over_set s.flushes j f .posting hf
          have := l.over
          simp [hg.1, FSt.over] at *; omega
        · show (s.flushes.set j _).length = _
          simp; exact l.len
        · exact ordL_set s.flushes j f .posting hf s.nextReq (by rw [hg.1]; intro h; cases h) l.ord
        · exact origL_set s.flushes j f .posting hf l.orig
        · exact d0L_set s.flushes j f .posting hf s.buf s.accepted l.d0
        · exact d1L_set s.flushes j f .posting hf s.buf s.accepted l.d1
        · exact d3L_set s.flushes j f .posting hf s.accepted l.d3
      · cases h
    · cases h
  | postEnd j =>
    simp only [step] at h
    split at h
    · rename_i f hf
      split at h
      · rename_i hg
        simp only [Option.some.injEq] at h
        subst h
        refine ⟨?_, ?_, ?_, ?_, ?_, ?_, ?_, l.d2, ?_⟩
        · show s.notifies = notifiedCount (s.flushes.set j _)
          have := notified_set s.flushes j f .completed hf
          have := l.notif
          simp [hg] at *; omega
        · show (s.attempts + 1) + s.empties = overCount (s.flushes.set j _)
          have := over_set s.flushes j f .completed hf
          have := l.over
          simp [hg, FSt.over] at *; omega
        · show (s.flushes.set j _).length = _
          simp; exact l.len
        · exact ordL_set s.flushes j f .completed hf s.nextReq (fun _ => rfl) l.ord
        · exact origL_set s.flushes j f .completed hf l.orig
        · exact d0L_set s.flushes j f .completed hf s.buf s.accepted l.d0
        · exact d1L_set s.flushes j f .completed hf s.buf s.accepted l.d1
        · exact d3L_set s.flushes j f .completed hf s.accepted l.d3
      · cases h
    · cases h
  | notify j =>
    simp only [step] at h
    split at h
    · rename_i f hf
      split at h
      · rename_i hg
        simp only [Option.some.injEq] at h
        subst h
        refine ⟨?_, ?_, ?_, ?_, ?_, ?_, ?_, l.d2, ?_⟩
        · show s.notifies + 1 = notifiedCount (s.flushes.set j _)
          have := notified_set s.flushes j f .notified hf
          have := l.notif
          simp [hg.1] at *; omega
        · show s.attempts + s.empties = overCount (s.flushes.set j _)
          have := over_set s.flushes j f .notified hf
          have := l.over
          simp [hg.1, FSt.over] at *; omega
        · show (s.flushes.set j _).length = _
          simp; exact l.len
        · exact ordL_set s.flushes j f .notified hf s.nextReq (fun _ => rfl) l.ord
        · exact origL_set s.flushes j f .notified hf l.orig
        · exact d0L_set s.flushes j f .notified hf s.buf s.accepted l.d0
        · exact d1L_set s.flushes j f .notified hf s.buf s.accepted l.d1
        · exact d3L_set s.flushes j f .notified hf s.accepted l.d3
      · cases h
    · cases h

theorem inv_step {s s' : St} {a : Act} (inv : Inv s) (h : step s a = some s') (henv : envOK s' = true) : Inv s' :=
  ⟨ctl_step inv.ctl h henv, lst_step inv h⟩

theorem inv_run {s s' : St} {acts : List Act} (inv : Inv s) (h : run s acts = some s') : Inv s' := by
  induction acts generalizing s with
  | nil => simp only [run, Option.some.injEq] at h; subst h; exact inv
  | cons a t ih =>
    simp only [run] at h
    cases hs : step s a with
    | none => simp [hs] at h
    | some s₁ =>
      simp only [hs] at h
      split at h
      · rename_i he
        exact ih (inv_step inv hs he) h
      · cases h

theorem step_cap {s s' : St} {a : Act} (h : step s a = some s') : s'.cap = s.cap := by
  cases a <;> simp only [step] at h <;>
    first
    | (split at h <;> first | (cases h; done) | (split at h <;> first | (cases h; done) | (simp only [Option.some.injEq] at h; subst h; rfl)) | (simp only [Option.some.injEq] at h; subst h; rfl))
    | (simp only [Option.some.injEq] at h; subst h; rfl)

theorem run_cap {s s' : St} {acts : List Act} (h : run s acts = some s') : s'.cap = s.cap := by
  induction acts generalizing s with
  | nil => simp only [run, Option.some.injEq] at h; subst h; rfl
  | cons a t ih =>
    simp only [run] at h
    cases hs : step s a with
    | none => simp [hs] at h
    | some s₁ =>
      simp only [hs] at h
      split at h
      · exact (ih h).trans (step_cap hs)
      · cases h

/-! ### datapoints accepted before the heartbeat's initial flush -/

/-- `dp` was accepted during start-up and is either still in the consolidator (no flush yet) or in the body of
flush 0 -/
def EarlyIn (s : St) (dp : Nat) : Prop :=
  (s.initFlushed = false ∧ dp ∈ s.buf) ∨ (∃ f, s.flushes[0]? = some f ∧ dp ∈ f.body)

/-- before the initial flush nothing has been flushed and no runtimeDone record is pending -/
theorem early_empty {s : St} (inv : Inv s) (h : s.initFlushed = false) : s.flushes = [] ∧ s.doneQueued = 0 := by
  obtain ⟨c, l⟩ := inv
  have he : s.pc.early = true := by
    cases hp : s.pc.early with
    | true => rfl
    | false => have := c.late hp; rw [h] at this; cases this
  have h0 := (c.early he).1
  have hne : s.pc ≠ .inNext := by intro hp; rw [hp] at he; cases he
  have hr := c.pcR2 hne
  have hd := c.done
  have hen := c.env
  have hlen := l.len
  rw [h] at hlen
  simp only [Bool.false_eq_true, if_false] at hlen
  refine ⟨List.eq_nil_of_length_eq_zero (by omega), by omega⟩

theorem earlyIn_step {s s' : St} {a : Act} (dp : Nat) (inv : Inv s) (h : step s a = some s') (he : EarlyIn s dp) :
    EarlyIn s' dp := by
  rcases he with ⟨hf, hb⟩ | ⟨f, hf0, hb⟩
  · -- still in the consolidator
    obtain ⟨hnil, hq⟩ := early_empty inv hf
    cases a with
    | register | subscribe | serverFail | initError | windowElapsed | hbWait | hbNext | rtInvoke | rtShutdown =>
      simp only [step] at h
      split at h
      · simp only [Option.some.injEq] at h; subst h; exact Or.inl ⟨hf, hb⟩
      · cases h
    | rtDone | otherRecord =>
      simp only [step, Option.some.injEq] at h; subst h; exact Or.inl ⟨hf, hb⟩
    | accept d =>
      simp only [step] at h
      split at h
      · cases h
      · simp only [Option.some.injEq] at h; subst h
        exact Or.inl ⟨hf, List.mem_append_left _ hb⟩
    | hbInitFlush =>
      simp only [step] at h
      split at h
      · simp only [Option.some.injEq] at h; subst h
        refine Or.inr ⟨{ st := .created, origin := none, body := s.buf }, ?_, hb⟩
        simp [hnil]
      · cases h
    | teleFlush =>
      simp only [step] at h
      split at h
      · omega
      · cases h
    | skip j | postBegin j | postEnd j | notify j =>
      simp only [step] at h
      split at h
      · rename_i g hg; rw [hnil] at hg; simp at hg
      · cases h
  · -- in the body of flush 0: bodies never change, flushes are only appended
    have hlen : 0 < s.flushes.length := by
      rcases Nat.lt_or_ge 0 s.flushes.length with h' | h'
      · exact h'
      · rw [List.getElem?_eq_none_iff.mpr h'] at hf0; cases hf0
    cases a with
    | register | subscribe | serverFail | initError | windowElapsed | hbWait | hbNext | rtInvoke | rtShutdown =>
      simp only [step] at h
      split at h
      · simp only [Option.some.injEq] at h; subst h; exact Or.inr ⟨f, hf0, hb⟩
      · cases h
    | rtDone | otherRecord =>
      simp only [step, Option.some.injEq] at h; subst h; exact Or.inr ⟨f, hf0, hb⟩
    | accept d =>
      simp only [step] at h
      split at h
      · cases h
      · simp only [Option.some.injEq] at h; subst h; exact Or.inr ⟨f, hf0, hb⟩
    | hbInitFlush | teleFlush =>
      simp only [step] at h
      split at h
      · simp only [Option.some.injEq] at h; subst h
        refine Or.inr ⟨f, ?_, hb⟩
        simp only
        rw [List.getElem?_append_left hlen]; exact hf0
      · cases h
    | skip j | postBegin j | postEnd j | notify j =>
      simp only [step] at h
      split at h
      · rename_i g hg
        split at h
        · simp only [Option.some.injEq] at h; subst h
          by_cases hj : j = 0
          · subst hj
            rw [hf0] at hg; cases hg
            refine Or.inr ?_
            simp only [setFlush]
            rw [getElem?_set' s.flushes 0 0 f _ hf0]
            simpa using hb
          · refine Or.inr ⟨f, ?_, hb⟩
            simp only [setFlush]
            rw [getElem?_set' s.flushes j 0 g _ hg]; simp [hj, hf0]
        · cases h
      · cases h

theorem earlyIn_run {s s' : St} {acts : List Act} (dp : Nat) (inv : Inv s) (h : run s acts = some s')
    (he : EarlyIn s dp) : EarlyIn s' dp := by
  induction acts generalizing s with
  | nil => simp only [run, Option.some.injEq] at h; subst h; exact he
  | cons a t ih =>
    simp only [run] at h
    cases hs : step s a with
    | none => simp [hs] at h
    | some s₁ =>
      simp only [hs] at h
      split at h
      · rename_i henv
        exact ih (inv_step inv hs henv) h (earlyIn_step dp inv hs he)
      · cases h

theorem run_append {s : St} (as bs : List Act) : run s (as ++ bs) = (run s as).bind (fun s' => run s' bs) := by
  induction as generalizing s with
  | nil => simp [run]
  | cons a t ih =>
    simp only [List.cons_append, run]
    cases hs : step s a with
    | none => simp
    | some s₁ =>
      simp only
      split
      · exact ih
      · simp


end Gsd.Lambda
