import Gsd.Proofs.Lemmas.Lexer
import Gsd.Proofs.Lemmas.LexerEvent
/-!
Helper lemmas about `Lexer.run` as a whole (which chain a line takes, inversion of an accepted
outcome), used by the property theorems of C02 and C03.
-/
set_option linter.unusedSimpArgs false
set_option linter.unusedVariables false
namespace Gsd
open Lexer

section
variable {F : Type} [FloatLike F]

/-- a line is *accepted* when the lexer returns a metric or an event -/
def Lexer.Outcome.Accepted (o : Outcome F) : Prop := (∃ m, o = .metric m) ∨ (∃ e, o = .event e)

theorem ofNat_len {n : Nat} (h : n < 4294967296) : (UInt32.ofNat n).toNat = n := by
  simp only [UInt32.toNat_ofNat']; omega

theorem run_metric_path (cfg : Cfg) (pf : Bytes → Option F) (ns : Bytes) (cap : Nat) (b : UInt8) (t : Bytes)
    (h1 : b ≠ 95) (h2 : b ≠ 0) :
    run cfg pf ns cap (b :: t) = ofMetricRes pf (metricLine cfg pf ns cap (UInt32.ofNat (b :: t).length) (b :: t)) := by
  simp [run, h1, h2]

omit [FloatLike F] in
theorem ofEventRes_ne_metric (x : Res Event) (m : Metric F) : (ofEventRes x : Outcome F) ≠ .metric m := by
  cases x <;> simp [ofEventRes]

theorem finishMetric_inv {pf : Bytes → Option F} {name : Bytes} {ty : MType} {value : Bytes} {rate : F}
    {tags : List Bytes} {m : Metric F} (h : finishMetric pf name ty value rate tags = .metric m) :
    m.name = name ∧ m.type = ty ∧ m.rate = rate ∧ m.tags = tags ∧
    (ty = .set → m.value = none ∧ m.svalue = value) ∧
    (ty ≠ .set → ∃ v, pf value = some v ∧ FloatLike.isNaN v = false ∧ m.value = some v ∧ m.svalue = []) := by
  unfold finishMetric at h
  split at h
  · next hs => simp only [Outcome.metric.injEq] at h; subst h; simp [hs]
  · next hs =>
    split at h
    · simp at h
    · next v hv =>
      split at h
      · simp at h
      · next hn =>
        simp only [Outcome.metric.injEq] at h; subst h
        refine ⟨rfl, rfl, rfl, rfl, fun e => absurd e hs, fun _ => ⟨v, hv, by simpa using hn, rfl, rfl⟩⟩

/-- an accepted metric comes from the metric chain, on a line that starts neither with `_` nor NUL -/
theorem run_metric_inv {cfg : Cfg} {pf : Bytes → Option F} {ns : Bytes} {cap : Nat} {input : Bytes} {m : Metric F}
    (h : run cfg pf ns cap input = .metric m) :
    input.head? ≠ some 95 ∧ ∃ name ty value rate tags,
      metricLine cfg pf ns cap (UInt32.ofNat input.length) input = .ok (name, ty, value, rate, tags) ∧
      finishMetric pf name ty value rate tags = .metric m := by
  cases input with
  | nil => simp [run] at h
  | cons b t =>
    by_cases h1 : b = 95
    · subst h1
      simp only [run, if_true] at h
      exact absurd h (ofEventRes_ne_metric _ _)
    by_cases h2 : b = 0
    · subst h2; simp [run] at h
    rw [run_metric_path cfg pf ns cap b t h1 h2] at h
    refine ⟨by simp [h1], ?_⟩
    cases hm : metricLine cfg pf ns cap (UInt32.ofNat (b :: t).length) (b :: t) with
    | ok a =>
      obtain ⟨name, ty, value, rate, tags⟩ := a
      rw [hm] at h
      exact ⟨name, ty, value, rate, tags, rfl, h⟩
    | err e => rw [hm] at h; simp [ofMetricRes] at h
    | panic => rw [hm] at h; simp [ofMetricRes] at h

/-- the anatomy of every accepted metric line (any bytes, NUL included) -/
theorem accepted_metric_anatomy {cfg : Cfg} {pf : Bytes → Option F} {ns : Bytes} {cap : Nat} {input : Bytes} {m : Metric F}
    (hlt : input.length < 4294967296) (hcap : input.length ≤ cap) (h : run cfg pf ns cap input = .metric m) :
    input.head? ≠ some 95 ∧
    ∃ raw v sp r3 len' rate tagsRev, input = raw ++ 58 :: (v ++ 124 :: (TypeSp.bytes sp ++ r3)) ∧
      (0 : UInt8) ∉ raw ∧ (58 : UInt8) ∉ raw ∧ norm raw ≠ [] ∧ (0 : UInt8) ∉ v ∧ (124 : UInt8) ∉ v ∧
      mattrs cfg pf ⟨len', cap⟩ .sep FloatLike.one [] r3 = .ok (rate, tagsRev) ∧
      finishMetric pf (withNs ns (norm raw)) sp.type v rate tagsRev.reverse = .metric m := by
  obtain ⟨hh, name, ty, value, rate, tags, hml, hfin⟩ := run_metric_inv h
  refine ⟨hh, ?_⟩
  have hl : input.length ≤ (UInt32.ofNat input.length).toNat := by rw [ofNat_len hlt]; exact Nat.le_refl _
  have hc : (UInt32.ofNat input.length).toNat ≤ cap := by rw [ofNat_len hlt]; exact hcap
  rcases metricLine_cases cfg pf ns cap _ input hl hc with e | ⟨raw, r1, e1, e2, e3, ⟨_, e⟩ | ⟨_, e⟩ | ⟨hn, v, r2, len', e4, e5, e6, _, _, e⟩⟩
  · rw [e] at hml; simp at hml
  · rw [e] at hml; simp at hml
  · rw [e] at hml; simp at hml
  · rw [e] at hml
    unfold metricTail at hml
    obtain ⟨⟨ty', r3⟩, ht, hml⟩ := Res.bind_eq_ok hml
    obtain ⟨⟨rate', tagsRev⟩, hma, hml⟩ := Res.bind_eq_ok hml
    simp only [Res.ok.injEq, Prod.mk.injEq] at hml
    obtain ⟨rfl, rfl, rfl, rfl, rfl⟩ := hml
    obtain ⟨sp, rfl, rfl⟩ := lexType_inv ht
    exact ⟨raw, v, sp, r3, len', rate', tagsRev, by rw [e1, e4], e2, e3, hn, e5, e6, hma, hfin⟩


theorem run_event_inv {cfg : Cfg} {pf : Bytes → Option F} {ns : Bytes} {cap : Nat} {input : Bytes} {e : Event}
    (h : run cfg pf ns cap input = .event e) : ∃ t, input = 95 :: t ∧
      datadog cfg ⟨UInt32.ofNat input.length, cap⟩ input t = .ok e := by
  cases input with
  | nil => simp [run] at h
  | cons b t =>
    by_cases h1 : b = 95
    · subst h1
      refine ⟨t, rfl, ?_⟩
      simp only [run, if_true] at h
      cases hd : datadog cfg ⟨UInt32.ofNat (95 :: t).length, cap⟩ (95 :: t) t with
      | ok e' => rw [hd] at h; simp only [ofEventRes, Outcome.event.injEq] at h; rw [h]
      | err _ => rw [hd] at h; simp [ofEventRes] at h
      | panic => rw [hd] at h; simp [ofEventRes] at h
    · by_cases h2 : b = 0
      · subst h2; simp [run] at h
      · rw [run_metric_path cfg pf ns cap b t h1 h2] at h
        cases hm : metricLine cfg pf ns cap (UInt32.ofNat (b :: t).length) (b :: t) with
        | ok a =>
          obtain ⟨name, ty, value, rate, tags⟩ := a
          rw [hm] at h
          simp only [ofMetricRes, finishMetric] at h
          repeat' split at h
          all_goals simp at h
        | err _ => rw [hm] at h; simp [ofMetricRes] at h
        | panic => rw [hm] at h; simp [ofMetricRes] at h

/-- on a line that does not begin with `_` the outcome is the metric chain's (never an event, never a panic) -/
theorem run_plain (cfg : Cfg) (pf : Bytes → Option F) (ns : Bytes) (cap : Nat) (input : Bytes)
    (hlt : input.length < 4294967296) (hcap : input.length ≤ cap) (hh : input.head? ≠ some 95) :
    (∃ e, run cfg pf ns cap input = .reject e ∧
        (input = [] ∨ input.head? = some 0 ∨ metricLine cfg pf ns cap (UInt32.ofNat input.length) input = .err e)) ∨
    (∃ m a, run cfg pf ns cap input = .metric m ∧ metricLine cfg pf ns cap (UInt32.ofNat input.length) input = .ok a) ∨
    (∃ e a, run cfg pf ns cap input = .reject e ∧ (e = .num ∨ e = .nan) ∧
        metricLine cfg pf ns cap (UInt32.ofNat input.length) input = .ok a) := by
  cases input with
  | nil => left; exact ⟨.type, by simp [run], Or.inl rfl⟩
  | cons b t =>
    have h1 : b ≠ 95 := fun e => hh (by simp [e])
    by_cases h2 : b = 0
    · subst h2; left; exact ⟨.type, by simp [run], Or.inr (Or.inl rfl)⟩
    rw [run_metric_path cfg pf ns cap b t h1 h2]
    have hnp := metricLine_ne_panic cfg pf ns cap (UInt32.ofNat (b :: t).length) (b :: t)
      (by rw [ofNat_len hlt]; exact Nat.le_refl _) (by rw [ofNat_len hlt]; exact hcap)
    cases hm : metricLine cfg pf ns cap (UInt32.ofNat (b :: t).length) (b :: t) with
    | panic => exact absurd hm hnp
    | err e => left; exact ⟨e, rfl, Or.inr (Or.inr rfl)⟩
    | ok a =>
      right
      obtain ⟨name, ty, value, rate, tags⟩ := a
      simp only [ofMetricRes, finishMetric]
      split
      · left; exact ⟨_, _, rfl, rfl⟩
      · split
        · right; exact ⟨.num, _, rfl, Or.inl rfl, rfl⟩
        · split
          · right; exact ⟨.nan, _, rfl, Or.inr rfl, rfl⟩
          · left; exact ⟨_, _, rfl, rfl⟩


end
end Gsd
