import Gsd.Model.Aggregator
import Mathlib.Algebra.Order.Floor.Ring
import Mathlib.Algebra.Order.Field.Basic
import Mathlib.Algebra.BigOperators.Group.List.Basic
import Mathlib.Tactic.Ring
import Mathlib.Tactic.Linarith
/-!
Helper lemmas for C08 / C04: the exact-arithmetic instance of `Num` (any linearly ordered field with a
floor; `sqrt` an arbitrary function), facts about the insertion sort, the cumulative sums, the rank
formula and the checked index.
-/
set_option linter.unusedSimpArgs false
set_option linter.unusedSectionVars false
set_option linter.unusedVariables false
namespace Gsd

/-- `sqrt` is left arbitrary: nothing is assumed about it -/
class HasSqrt (α : Type) where
  sqrt : α → α

section
variable {α : Type} [Field α] [LinearOrder α] [IsStrictOrderedRing α] [FloorRing α] [HasSqrt α]

/-- the exact reading of the arithmetic of `Flush` -/
instance exactNum : Num α where
  add a b := a + b
  sub a b := a - b
  mul a b := a * b
  div a b := a / b
  ofNat n := (n : α)
  ofInt i := (i : α)
  lt a b := decide (a < b)
  le a b := decide (a ≤ b)
  beq a b := decide (a = b)
  floor x := ((⌊x⌋ : Int) : α)
  toInt x := if 0 ≤ x then ⌊x⌋ else ⌈x⌉
  sqrt := HasSqrt.sqrt
  abs x := |x|
  isNaN _ := false
  isPosInf _ := false

@[simp] theorem num_add (a b : α) : Num.add a b = a + b := rfl
@[simp] theorem num_sub (a b : α) : Num.sub a b = a - b := rfl
@[simp] theorem num_mul (a b : α) : Num.mul a b = a * b := rfl
@[simp] theorem num_div (a b : α) : Num.div a b = a / b := rfl
@[simp] theorem num_ofNat (n : Nat) : (Num.ofNat n : α) = (n : α) := rfl
@[simp] theorem num_ofInt (n : Int) : (Num.ofInt n : α) = (n : α) := rfl
@[simp] theorem num_le (a b : α) : Num.le a b = decide (a ≤ b) := rfl
@[simp] theorem num_lt (a b : α) : Num.lt a b = decide (a < b) := rfl
@[simp] theorem num_beq (a b : α) : Num.beq a b = decide (a = b) := rfl
@[simp] theorem num_floor (a : α) : Num.floor a = ((⌊a⌋ : Int) : α) := rfl
@[simp] theorem num_abs (a : α) : Num.abs a = |a| := rfl
@[simp] theorem num_sqrt (a : α) : Num.sqrt a = HasSqrt.sqrt a := rfl
@[simp] theorem num_isNaN (a : α) : Num.isNaN a = false := rfl
@[simp] theorem num_isPosInf (a : α) : Num.isPosInf a = false := rfl
theorem num_toInt (a : α) : Num.toInt a = if 0 ≤ a then ⌊a⌋ else ⌈a⌉ := rfl

@[simp] theorem num_toInt_intCast (z : Int) : Num.toInt ((z : Int) : α) = z := by
  rw [num_toInt]; split <;> simp

@[simp] theorem zero_eq : (zero : α) = 0 := by simp [zero]
@[simp] theorem half_eq : (half : α) = 1 / 2 := by simp [half]
@[simp] theorem sq_eq (x : α) : sq x = x * x := rfl

/-- `int(round(x)) = ⌊x + ½⌋` -/
theorem toInt_round (x : α) : Num.toInt (round x) = ⌊x + 1 / 2⌋ := by
  simp [round]

/-! ### the rank formula -/

/-- the closed form of the rank in natural numbers -/
def natRank (p : Int) (n : Nat) : Nat := (2 * p.natAbs * n + 100) / 200

/-- `int(round(|p| / 100 * n)) = (2·|p|·n + 100) / 200` -/
theorem rank_eq (p : Int) (n : Nat) : rank α p n = (natRank p n : Int) := by
  unfold rank
  rw [toInt_round]
  simp only [num_mul, num_div, num_abs, num_ofInt, num_ofNat]
  have h1 : |(p : α)| = ((p.natAbs : Nat) : α) := by
    rw [← Int.cast_abs, Int.abs_eq_natAbs]; simp
  rw [h1]
  have h2 : ((p.natAbs : Nat) : α) / ((100 : Nat) : α) * (n : α) + 1 / 2 =
      (((2 * p.natAbs * n + 100 : Nat) : Int) : α) / ((200 : Nat) : α) := by
    push_cast; rw [h1]; ring
  rw [h2, Int.floor_div_natCast, Int.floor_intCast, natRank]
  push_cast
  rfl

theorem natRank_le (p : Int) (n : Nat) (hp : p.natAbs ≤ 100) : natRank p n ≤ n := by
  unfold natRank
  have : 2 * p.natAbs * n ≤ 200 * n := by
    have : 2 * p.natAbs ≤ 200 := by omega
    exact Nat.mul_le_mul_right n this
  omega

/-! ### checked index -/

theorem idx_ok_iff {β : Type} (s : Site) (l : List β) (i : Int) (v : β) :
    idx s l i = .ok v ↔ 0 ≤ i ∧ l[i.toNat]? = some v := by
  unfold idx
  by_cases h : i < 0
  · simp [h]
  · simp only [h, if_false]
    have : 0 ≤ i := by omega
    cases hl : l[i.toNat]? <;> simp [this]

theorem idx_of_lt {β : Type} (s : Site) (l : List β) (i : Int) (h0 : 0 ≤ i) (h1 : i.toNat < l.length) :
    idx s l i = .ok l[i.toNat] := by
  rw [idx_ok_iff]; exact ⟨h0, by simp [h1]⟩

theorem idx_nat_lt {β : Type} (s : Site) (l : List β) (i : Nat) (h : i < l.length) :
    idx s l (i : Int) = .ok l[i] := by
  rw [idx_ok_iff]; exact ⟨by omega, by simp [h]⟩

theorem idx_neg {β : Type} (s : Site) (l : List β) (i : Int) (h : i < 0) : idx s l i = .panic s := by
  simp [idx, h]

/-! ### insertion sort -/

theorem insertSorted_perm (x : α) (l : List α) : (insertSorted x l).Perm (x :: l) := by
  induction l with
  | nil => simp [insertSorted]
  | cons y ys ih =>
    simp only [insertSorted]
    split
    · exact List.Perm.refl _
    · exact (List.Perm.cons y ih).trans (List.Perm.swap x y ys)

theorem isort_perm (l : List α) : (isort l).Perm l := by
  induction l with
  | nil => simp [isort]
  | cons x xs ih => exact (insertSorted_perm x _).trans (List.Perm.cons x ih)

theorem isort_length (l : List α) : (isort l).length = l.length := (isort_perm l).length_eq

theorem insertSorted_sorted (x : α) (l : List α) (h : l.Pairwise (· ≤ ·)) :
    (insertSorted x l).Pairwise (· ≤ ·) := by
  induction l with
  | nil => simp [insertSorted]
  | cons y ys ih =>
    simp only [insertSorted, num_le]
    rw [List.pairwise_cons] at h
    by_cases hxy : x ≤ y
    · simp only [hxy, decide_true, if_true]
      rw [List.pairwise_cons]
      refine ⟨?_, List.pairwise_cons.mpr h⟩
      intro z hz
      rcases List.mem_cons.mp hz with rfl | hz
      · exact hxy
      · exact le_trans hxy (h.1 z hz)
    · simp only [hxy, decide_false, Bool.false_eq_true, if_false]
      rw [List.pairwise_cons]
      refine ⟨?_, ih h.2⟩
      intro z hz
      have := (insertSorted_perm x ys).mem_iff.mp hz
      rcases List.mem_cons.mp this with rfl | hz
      · exact le_of_lt (not_le.mp hxy)
      · exact h.1 z hz

theorem isort_sorted (l : List α) : (isort l).Pairwise (· ≤ ·) := by
  induction l with
  | nil => simp [isort]
  | cons x xs ih => exact insertSorted_sorted x _ ih

/-- a linear order has exactly one ascending arrangement of a multiset -/
theorem isort_eq_of_perm {l l' : List α} (h : l.Perm l') : isort l = isort l' := by
  apply List.Perm.eq_of_pairwise (le := (· ≤ ·))
  · intro a b _ _ hab hba; exact le_antisymm hab hba
  · exact isort_sorted l
  · exact isort_sorted l'
  · exact (isort_perm l).trans (h.trans (isort_perm l').symm)

theorem isort_ne_nil {l : List α} (h : l ≠ []) : isort l ≠ [] := by
  intro h'
  have := isort_length l
  rw [h'] at this
  exact h (List.length_eq_zero_iff.mp this.symm)

/-! ### cumulative sums -/

theorem cumFrom_length (f : α → α) (acc : α) (l : List α) : (cumFrom f acc l).length = l.length := by
  induction l generalizing acc with
  | nil => rfl
  | cons x xs ih => simp [cumFrom, ih]

theorem cumul_length (f : α → α) (l : List α) : (cumul f l).length = l.length := by
  cases l <;> simp [cumul, cumFrom_length]

theorem cumFrom_getElem? (f : α → α) (acc : α) (l : List α) (i : Nat) (hi : i < l.length) :
    (cumFrom f acc l)[i]? = some (acc + ((l.take (i + 1)).map f).sum) := by
  induction l generalizing acc i with
  | nil => simp at hi
  | cons x xs ih =>
    cases i with
    | zero => simp [cumFrom]; ring
    | succ j =>
      simp only [cumFrom, num_add, List.getElem?_cons_succ]
      rw [ih _ j (by simpa using hi)]
      simp [List.take_succ_cons]; ring

/-- `cumul f l` at position `i` is the sum of `f` over the first `i+1` elements -/
theorem cumul_getElem? (f : α → α) (l : List α) (i : Nat) (hi : i < l.length) :
    (cumul f l)[i]? = some (((l.take (i + 1)).map f).sum) := by
  cases l with
  | nil => simp at hi
  | cons x xs =>
    cases i with
    | zero => simp [cumul]
    | succ j =>
      simp only [cumul, List.getElem?_cons_succ]
      rw [cumFrom_getElem? _ _ _ j (by simpa using hi)]
      simp [List.take_succ_cons]

theorem sum_map_perm (f : α → α) {l l' : List α} (h : l.Perm l') : (l.map f).sum = (l'.map f).sum :=
  (h.map f).sum_eq

theorem foldl_add_eq (g : α → α) (a : α) (l : List α) :
    l.foldl (fun acc x => acc + g x) a = a + (l.map g).sum := by
  induction l generalizing a with
  | nil => simp
  | cons x xs ih => simp [ih]; ring

theorem sumOfDiffs_eq (m : α) (l : List α) :
    sumOfDiffs m l = (l.map (fun x => (x - m) * (x - m))).sum := by
  unfold sumOfDiffs
  have := foldl_add_eq (fun x => (x - m) * (x - m)) (0 : α) l
  simp only [num_add, num_mul, num_sub, zero_eq]
  rw [this]; simp

/-! ### one threshold -/

theorem idx_natCast {β : Type} (st : Site) (l : List β) (i : Nat) :
    idx st l ((i : Nat) : Int) = if h : i < l.length then .ok l[i] else .panic st := by
  split
  · next h => exact idx_nat_lt st l i h
  · next h =>
    have : ¬ ((i : Int) < 0) := by omega
    simp [idx, this, List.getElem?_eq_none (Nat.le_of_not_lt h)]

/-- the rank the property speaks about: `n` itself when `n ≤ 1`, else `(2|p|n + 100) / 200` -/
def specRank (p : Int) (n : Nat) : Nat := if n ≤ 1 then n else natRank p n

/-- what the property says one threshold reports, on the ascending list `s` -/
def specPct (s : List α) (p : Int) : Option (PctVals α) :=
  let n := s.length
  let k := specRank p n
  if k = 0 then none else
  let part := if p > 0 then s.take k else s.drop (n - k)
  some { k := (k : Int), mean := part.sum / (k : α), sum := part.sum, sumSq := (part.map (fun x => x * x)).sum,
         boundary := if p > 0 then s[k - 1]?.getD 0 else s[n - k]?.getD 0 }

theorem sum_drop_eq (l : List α) (i : Nat) : (l.drop i).sum = l.sum - (l.take i).sum := by
  have := List.sum_take_add_sum_drop l i
  linarith

theorem map_take_sum_full (f : α → α) (l : List α) : ((l.take l.length).map f).sum = (l.map f).sum := by
  simp

theorem cumul_getElem (f : α → α) (l : List α) (i : Nat) (hi : i < (cumul f l).length) :
    (cumul f l)[i] = ((l.take (i + 1)).map f).sum := by
  have := cumul_getElem? f l i (by simpa [cumul_length] using hi)
  rw [List.getElem?_eq_getElem hi] at this
  exact Option.some.inj this

theorem sq_def : (sq : α → α) = fun x => x * x := rfl

theorem pctVals_spec (fx : Bool) (s : List α) (minV maxV : α) (p : Int)
    (hmin : s[0]? = some minV) (hmax : s[s.length - 1]? = some maxV) (r : Option (PctVals α))
    (h : pctVals fx s (cumul (fun x => x) s) (cumul sq s) minV maxV p = .ok r) : r = specPct s p := by
  unfold pctVals at h
  by_cases hn : s.length ≤ 1
  · have hlen : s.length = 1 := by
      cases s with
      | nil => simp at hmin
      | cons x xs => simp at hn ⊢; omega
    obtain ⟨x, rfl⟩ : ∃ x, s = [x] := List.length_eq_one_iff.mp hlen
    simp at hmin hmax
    subst hmin; subst hmax
    simp at h
    subst h
    simp [specPct, specRank]
  · simp only [hn, if_false] at h
    rw [rank_eq] at h
    have hsr : specRank p s.length = natRank p s.length := by simp [specRank, hn]
    generalize hK : natRank p s.length = K at h hsr
    by_cases hK0 : K = 0
    · subst hK0
      simp at h
      subst h
      simp [specPct, hsr]
    · have hK1 : 1 ≤ K := Nat.one_le_iff_ne_zero.mpr hK0
      have hKz : ¬ ((K : Int) = 0) := by omega
      simp only [hKz, if_false] at h
      have e1 : (K : Int) - 1 = ((K - 1 : Nat) : Int) := by omega
      by_cases hp : p > 0
      · simp only [hp, if_true, e1, idx_natCast, cumul_length] at h
        by_cases hlt : K - 1 < s.length
        · simp only [hlt, dite_true, Res.bind_ok, Res.pure_eq] at h
          injection h with h
          subst h
          simp [specPct, hsr, hK0, hp, cumul_getElem, Nat.sub_add_cancel hK1, hlt, sq_def]
        · simp [hlt] at h
      · simp only [hp, if_false] at h
        by_cases hKn : K ≤ s.length
        · have e2 : (s.length : Int) - (K : Int) = ((s.length - K : Nat) : Int) := by omega
          have e3 : (s.length : Int) - 1 = ((s.length - 1 : Nat) : Int) := by omega
          have hlt1 : s.length - K < s.length := by omega
          have hlt2 : s.length - 1 < s.length := by omega
          simp only [e2, e3, idx_natCast, cumul_length, hlt1, hlt2, dite_true, Res.bind_ok] at h
          have hfull : s.length - 1 + 1 = s.length := by omega
          by_cases hKe : K = s.length
          · have hneg : ((s.length - K : Nat) : Int) - 1 < 0 := by omega
            cases fx
            · simp [hneg, idx_neg] at h
            · simp only [hneg, Bool.true_and, decide_true, if_true, Res.pure_eq, Res.bind_ok] at h
              injection h with h
              subst h
              have hpos : 0 < s.length := by omega
              have hne : s ≠ [] := by intro e; subst e; simp at hpos
              simp [specPct, hsr, hK0, hp, cumul_getElem, hfull, sq_def, hKe, hne, List.getElem?_eq_getElem hpos]
          · have hnn : ¬ (((s.length - K : Nat) : Int) - 1 < 0) := by omega
            have e4 : ((s.length - K : Nat) : Int) - 1 = ((s.length - K - 1 : Nat) : Int) := by omega
            have hlt3 : s.length - K - 1 < s.length := by omega
            have hnn' : ¬ (((s.length - K - 1 : Nat) : Int) < 0) := by omega
            have hfull2 : s.length - K - 1 + 1 = s.length - K := by omega
            simp only [hnn, hnn', decide_false, Bool.and_false, Bool.false_eq_true, if_false, e4, idx_natCast, cumul_length, hlt3,
              dite_true, Res.bind_ok, Res.pure_eq] at h
            injection h with h
            subst h
            simp [specPct, hsr, hK0, hp, cumul_getElem, hfull, hfull2, sq_def, sum_drop_eq, List.getElem?_eq_getElem hlt1]
        · have hneg : (s.length : Int) - (K : Int) < 0 := by omega
          simp [idx_neg, hneg] at h

theorem pctVals_total (s : List α) (minV maxV : α) (p : Int) (hs : s ≠ []) (hp : p.natAbs ≤ 100) :
    ∃ r, pctVals true s (cumul (fun x => x) s) (cumul sq s) minV maxV p = .ok r := by
  unfold pctVals
  by_cases hn : s.length ≤ 1
  · simp [hn]
  · simp only [hn, if_false]
    rw [rank_eq]
    have hle := natRank_le p s.length hp
    generalize natRank p s.length = K at hle
    by_cases hK0 : K = 0
    · subst hK0; simp
    · have hK1 : 1 ≤ K := Nat.one_le_iff_ne_zero.mpr hK0
      have hKz : ¬ ((K : Int) = 0) := by omega
      simp only [hKz, if_false]
      have e1 : (K : Int) - 1 = ((K - 1 : Nat) : Int) := by omega
      have hlt : K - 1 < s.length := by omega
      by_cases hpp : p > 0
      · simp [hpp, e1, idx_natCast, cumul_length, hlt]
      · have e2 : (s.length : Int) - (K : Int) = ((s.length - K : Nat) : Int) := by omega
        have e3 : (s.length : Int) - 1 = ((s.length - 1 : Nat) : Int) := by omega
        have hlt1 : s.length - K < s.length := by omega
        have hlt2 : s.length - 1 < s.length := by omega
        simp only [hpp, if_false, e2, e3, idx_natCast, cumul_length, hlt1, hlt2, dite_true, Res.bind_ok]
        by_cases hKe : K = s.length
        · have hneg : ((s.length - K : Nat) : Int) - 1 < 0 := by omega
          simp [hneg]
        · have hnn : ¬ (((s.length - K : Nat) : Int) - 1 < 0) := by omega
          have e4 : ((s.length - K : Nat) : Int) - 1 = ((s.length - K - 1 : Nat) : Int) := by omega
          have hlt3 : s.length - K - 1 < s.length := by omega
          have hnn' : ¬ (((s.length - K - 1 : Nat) : Int) < 0) := by omega
          simp [hnn, hnn', e4, idx_natCast, cumul_length, hlt3]

theorem pctValsLoop_spec (fx : Bool) (s : List α) (minV maxV : α)
    (hmin : s[0]? = some minV) (hmax : s[s.length - 1]? = some maxV) (ps : List Int) (l)
    (h : pctValsLoop fx s (cumul (fun x => x) s) (cumul sq s) minV maxV ps = .ok l) :
    l = ps.map (fun p => (p, specPct s p)) := by
  induction ps generalizing l with
  | nil => simp [pctValsLoop] at h; simp [← h]
  | cons p ps ih =>
    simp only [pctValsLoop] at h
    cases hv : pctVals fx s (cumul (fun x => x) s) (cumul sq s) minV maxV p with
    | panic st => simp [hv] at h
    | ok v =>
      simp only [hv, Res.bind_ok] at h
      cases hr : pctValsLoop fx s (cumul (fun x => x) s) (cumul sq s) minV maxV ps with
      | panic st => simp [hr] at h
      | ok rest =>
        simp only [hr, Res.bind_ok, Res.pure_eq] at h
        injection h with h
        subst h
        simp [pctVals_spec fx s minV maxV p hmin hmax v hv, ih rest hr]

theorem pctValsLoop_total (s : List α) (minV maxV : α) (hs : s ≠ []) (ps : List Int) (hp : ∀ p ∈ ps, p.natAbs ≤ 100) :
    ∃ l, pctValsLoop true s (cumul (fun x => x) s) (cumul sq s) minV maxV ps = .ok l := by
  induction ps with
  | nil => exact ⟨[], rfl⟩
  | cons p ps ih =>
    obtain ⟨v, hv⟩ := pctVals_total s minV maxV p hs (hp p (by simp))
    obtain ⟨l, hl⟩ := ih (fun q hq => hp q (by simp [hq]))
    exact ⟨(p, v) :: l, by simp [pctValsLoop, hv, hl]⟩


/-- the median of an ascending list: the middle element / the mean of the two middle elements -/
def specMedian (s : List α) : α :=
  let n := s.length
  if n % 2 = 0 then (s[n / 2 - 1]?.getD 0 + s[n / 2]?.getD 0) / 2 else s[n / 2]?.getD 0

/-- the percentile table the property describes, for the ascending list `s` -/
def specPctTable (cfg : AggCfg) (s : List α) : List (List Char × α) :=
  pctTable cfg.mask ((dedupInt cfg.pcts).map (fun p => (p, specPct s p)))

/-- what `Flush` must leave in a plain timer whose sorted values are `s` (`s ≠ []`) -/
def specFlush (cfg : AggCfg) (secs : α) (t : ATimer α) (s : List α) : ATimer α :=
  let n : α := (s.length : α)
  let mean := s.sum / n
  { t with
    values := s, min := s[0]?.getD 0, max := s[s.length - 1]?.getD 0,
    percentiles := t.percentiles ++ specPctTable cfg s,
    median := specMedian s, mean := mean,
    stdDev := HasSqrt.sqrt ((s.map (fun x => (x - mean) * (x - mean))).sum / n),
    sum := s.sum, sumSquares := (s.map (fun x => x * x)).sum,
    count := ⌊t.sampledCount + 1 / 2⌋, perSecond := t.sampledCount / secs }

theorem flushSorted_spec (fx : Bool) (cfg : AggCfg) (secs : α) (t : ATimer α) (s : List α) (out : ATimer α)
    (h : flushSorted fx cfg secs t s = .ok out) : out = specFlush cfg secs t s := by
  unfold flushSorted at h
  cases s with
  | nil => simp [idx] at h
  | cons x xs =>
    generalize hs : x :: xs = s at h ⊢
    have hpos : 0 < s.length := by subst hs; simp
    have e0 : (0 : Int) = ((0 : Nat) : Int) := rfl
    have e1 : (s.length : Int) - 1 = ((s.length - 1 : Nat) : Int) := by omega
    have hl1 : s.length - 1 < s.length := by omega
    have hfull : s.length - 1 + 1 = s.length := by omega
    rw [e0] at h
    simp only [e1, idx_natCast, hpos, hl1, dite_true, Res.bind_ok, cumul_length] at h
    cases hv : pctValsLoop fx s (cumul (fun x => x) s) (cumul sq s) s[0] s[s.length - 1] (dedupInt cfg.pcts) with
    | panic st => simp [hv] at h
    | ok l =>
      have hl := pctValsLoop_spec fx s s[0] s[s.length - 1] (by simp [hpos]) (by simp [hl1]) _ l hv
      simp only [hv, Res.bind_ok] at h
      by_cases hpar : s.length % 2 = 0
      · have hmid1 : 1 ≤ s.length / 2 := by omega
        have e2 : ((s.length / 2 : Nat) : Int) - 1 = ((s.length / 2 - 1 : Nat) : Int) := by omega
        have hl2 : s.length / 2 - 1 < s.length := by omega
        have hl3 : s.length / 2 < s.length := by omega
        simp only [hpar, if_true, e2, idx_natCast, hl2, hl3, dite_true, Res.bind_ok, Res.pure_eq] at h
        injection h with h
        subst h
        simp [specFlush, specMedian, specPctTable, hl, hpar, cumul_getElem, hfull, sq_def, sumOfDiffs_eq, toInt_round,
          List.getElem?_eq_getElem hpos, List.getElem?_eq_getElem hl1, List.getElem?_eq_getElem hl2, List.getElem?_eq_getElem hl3]
      · have hl3 : s.length / 2 < s.length := by omega
        simp only [hpar, if_false, idx_natCast, hl3, dite_true, Res.bind_ok, Res.pure_eq] at h
        injection h with h
        subst h
        simp [specFlush, specMedian, specPctTable, hl, hpar, cumul_getElem, hfull, sq_def, sumOfDiffs_eq, toInt_round,
          List.getElem?_eq_getElem hpos, List.getElem?_eq_getElem hl1, List.getElem?_eq_getElem hl3]


/-- a configuration the server accepts: thresholds of magnitude at most 100 -/
def AggCfg.Valid (cfg : AggCfg) : Prop := ∀ p ∈ cfg.pcts, p.natAbs ≤ 100

theorem mem_dedupInt {p : Int} {ps : List Int} (h : p ∈ dedupInt ps) : p ∈ ps := by
  induction ps with
  | nil => simp [dedupInt] at h
  | cons q qs ih =>
    simp only [dedupInt, List.mem_cons, List.mem_filter] at h
    rcases h with rfl | ⟨h, _⟩
    · simp
    · simp [ih h]

theorem flushSorted_total (cfg : AggCfg) (hc : cfg.Valid) (secs : α) (t : ATimer α) (s : List α) (hs : s ≠ []) :
    ∃ out, flushSorted true cfg secs t s = .ok out := by
  unfold flushSorted
  have hpos : 0 < s.length := List.length_pos_iff.mpr hs
  have e0 : (0 : Int) = ((0 : Nat) : Int) := rfl
  have e1 : (s.length : Int) - 1 = ((s.length - 1 : Nat) : Int) := by omega
  have hl1 : s.length - 1 < s.length := by omega
  rw [e0]
  simp only [e1, idx_natCast, hpos, hl1, dite_true, Res.bind_ok, cumul_length]
  obtain ⟨l, hl⟩ := pctValsLoop_total s s[0] s[s.length - 1] hs (dedupInt cfg.pcts)
    (fun p hp => hc p (mem_dedupInt hp))
  simp only [hl, Res.bind_ok]
  by_cases hpar : s.length % 2 = 0
  · have hmid1 : 1 ≤ s.length / 2 := by omega
    have e2 : ((s.length / 2 : Nat) : Int) - 1 = ((s.length / 2 - 1 : Nat) : Int) := by omega
    have hl2 : s.length / 2 - 1 < s.length := by omega
    have hl3 : s.length / 2 < s.length := by omega
    simp only [hpar, if_true, e2, idx_natCast, hl2, hl3, dite_true, Res.bind_ok, Res.pure_eq]
    exact ⟨_, rfl⟩
  · have hl3 : s.length / 2 < s.length := by omega
    simp only [hpar, if_false, idx_natCast, hl3, dite_true, Res.bind_ok, Res.pure_eq]
    exact ⟨_, rfl⟩

/-- **the flush of one timer never panics** (repaired code, accepted configuration, *any* timer) -/
theorem flushTimerWith_total (parse : Bytes → Option α) (cfg : AggCfg) (hc : cfg.Valid) (secs : α) (t : ATimer α) :
    ∃ out, flushTimerWith true parse cfg secs t = .ok out := by
  unfold flushTimerWith
  split
  · exact ⟨_, rfl⟩
  · split
    · exact ⟨_, rfl⟩
    · next x xs heq =>
      apply flushSorted_total cfg hc
      apply isort_ne_nil
      simp [heq]

theorem flushTimerWith_plain (fx : Bool) (parse : Bytes → Option α) (cfg : AggCfg) (secs : α) (t out : ATimer α)
    (hh : hasHistogramTag t.tags = false) (hne : t.values ≠ [])
    (h : flushTimerWith fx parse cfg secs t = .ok out) : out = specFlush cfg secs t (isort t.values) := by
  unfold flushTimerWith at h
  simp only [hh, Bool.false_eq_true, if_false] at h
  cases hv : t.values with
  | nil => exact absurd hv hne
  | cons x xs =>
    rw [hv] at h
    simp only at h
    rw [← hv]
    rw [← hv] at h
    exact flushSorted_spec fx cfg secs t _ out h


/-! ### histograms -/

theorem bound_beq_iff (a b : Bound α) : Bound.beq a b = true ↔ a = b := by
  cases a <;> cases b <;> simp [Bound.beq]

instance boundDecEq : DecidableEq (Bound α) := fun a b => decidable_of_iff _ (bound_beq_iff a b)

@[simp] theorem mkBound_eq (b : α) : mkBound b = Bound.fin b := by simp [mkBound]

theorem histLookup_insert0 (b b' : Bound α) (h : Hist α) :
    histLookup b' (histInsert0 b h) = if b = b' then some 0 else histLookup b' h := by
  induction h with
  | nil => simp [histInsert0, histLookup, bound_beq_iff]
  | cons e t ih =>
    obtain ⟨k, c⟩ := e
    simp only [histInsert0, histLookup]
    by_cases hk : Bound.beq k b = true
    · have hkb := (bound_beq_iff k b).mp hk
      subst hkb
      simp only [hk, if_true, histLookup]
      by_cases hb : k = b'
      · subst hb; simp [(bound_beq_iff k k).mpr rfl]
      · have : ¬ Bound.beq k b' = true := fun h => hb ((bound_beq_iff _ _).mp h)
        simp [hb, this]
    · simp only [hk, Bool.false_eq_true, if_false, histLookup, ih]
      have hkb : ¬ k = b := fun h => hk ((bound_beq_iff _ _).mpr h)
      by_cases hkb' : Bound.beq k b' = true
      · have := (bound_beq_iff _ _).mp hkb'
        subst this
        have : ¬ b = k := fun h => hkb h.symm
        simp [hkb', this]
      · simp [hkb']

theorem histLookup_set (b b' : Bound α) (n : Nat) (h : Hist α) :
    histLookup b' (histSet b n h) = if b = b' then some n else histLookup b' h := by
  induction h with
  | nil => simp [histSet, histLookup, bound_beq_iff]
  | cons e t ih =>
    obtain ⟨k, c⟩ := e
    simp only [histSet, histLookup]
    by_cases hk : Bound.beq k b = true
    · have hkb := (bound_beq_iff k b).mp hk
      subst hkb
      simp only [hk, if_true, histLookup]
      by_cases hb : k = b'
      · subst hb; simp [(bound_beq_iff k k).mpr rfl]
      · have : ¬ Bound.beq k b' = true := fun h => hb ((bound_beq_iff _ _).mp h)
        simp [hb, this]
    · simp only [hk, Bool.false_eq_true, if_false, histLookup, ih]
      have hkb : ¬ k = b := fun h => hk ((bound_beq_iff _ _).mpr h)
      by_cases hkb' : Bound.beq k b' = true
      · have := (bound_beq_iff _ _).mp hkb'
        subst this
        have : ¬ b = k := fun h => hkb h.symm
        simp [hkb', this]
      · simp [hkb']

/-- keys of a table -/
def histKeys (h : Hist α) : List (Bound α) := h.map Prod.fst

theorem histKeys_insert0 (b : Bound α) (h : Hist α) :
    histKeys (histInsert0 b h) = if b ∈ histKeys h then histKeys h else histKeys h ++ [b] := by
  induction h with
  | nil => simp [histInsert0, histKeys]
  | cons e t ih =>
    obtain ⟨k, c⟩ := e
    simp only [histInsert0]
    by_cases hk : Bound.beq k b = true
    · have hkb := (bound_beq_iff k b).mp hk
      subst hkb
      simp [hk, histKeys]
    · have hkb : ¬ k = b := fun h => hk ((bound_beq_iff _ _).mpr h)
      have hbk : ¬ b = k := fun h => hkb h.symm
      simp only [hk, Bool.false_eq_true, if_false]
      simp only [histKeys, List.map_cons, List.mem_cons, hbk, false_or] at ih ⊢
      rw [ih]
      by_cases hm : b ∈ List.map Prod.fst t <;> simp [hm]

theorem histKeys_set (b : Bound α) (n : Nat) (h : Hist α) :
    histKeys (histSet b n h) = if b ∈ histKeys h then histKeys h else histKeys h ++ [b] := by
  induction h with
  | nil => simp [histSet, histKeys]
  | cons e t ih =>
    obtain ⟨k, c⟩ := e
    simp only [histSet]
    by_cases hk : Bound.beq k b = true
    · have hkb := (bound_beq_iff k b).mp hk
      subst hkb
      simp [hk, histKeys]
    · have hkb : ¬ k = b := fun h => hk ((bound_beq_iff _ _).mpr h)
      have hbk : ¬ b = k := fun h => hkb h.symm
      simp only [hk, Bool.false_eq_true, if_false]
      simp only [histKeys, List.map_cons, List.mem_cons, hbk, false_or] at ih ⊢
      rw [ih]
      by_cases hm : b ∈ List.map Prod.fst t <;> simp [hm]

theorem histKeys_nodup_insert0 (b : Bound α) (h : Hist α) (hn : (histKeys h).Nodup) :
    (histKeys (histInsert0 b h)).Nodup := by
  rw [histKeys_insert0]
  split
  · exact hn
  · next hb => exact List.nodup_append.mpr ⟨hn, by simp, by intro x hx y hy; simp at hy; subst hy; intro e; subst e; exact hb hx⟩

/-- the per-value counting loop computes, per bucket, the number of values not greater than the bound -/
theorem foldl_histCountValue (vals : List α) (h : Hist α) :
    vals.foldl (fun h v => histCountValue v h) h =
      h.map (fun e => (e.1, e.2 + vals.countP (fun v => leBound v e.1))) := by
  induction vals generalizing h with
  | nil => simp
  | cons v vs ih =>
    rw [List.foldl_cons, ih]
    simp only [histCountValue, List.map_map]
    apply List.map_congr_left
    intro e _
    simp only [Function.comp]
    by_cases hle : leBound v e.1 = true
    · simp [hle, List.countP_cons]; omega
    · simp [hle, List.countP_cons]

theorem histLookup_map (g : Bound α → Nat → Nat) (b : Bound α) (h : Hist α) :
    histLookup b (h.map (fun e => (e.1, g e.1 e.2))) = (histLookup b h).map (g b) := by
  induction h with
  | nil => simp [histLookup]
  | cons e t ih =>
    obtain ⟨k, c⟩ := e
    simp only [List.map_cons, histLookup]
    by_cases hk : Bound.beq k b = true
    · have := (bound_beq_iff _ _).mp hk
      subst this
      simp [hk]
    · simp [hk, ih]

theorem histKeys_map (g : Bound α → Nat → Nat) (h : Hist α) :
    histKeys (h.map (fun e => (e.1, g e.1 e.2))) = histKeys h := by
  simp [histKeys, List.map_map, Function.comp]


theorem mem_histKeys_iff (b : Bound α) (h : Hist α) : b ∈ histKeys h ↔ (histLookup b h).isSome = true := by
  induction h with
  | nil => simp [histKeys, histLookup]
  | cons e t ih =>
    obtain ⟨k, c⟩ := e
    simp only [histKeys, List.map_cons, List.mem_cons, histLookup] at ih ⊢
    by_cases hk : Bound.beq k b = true
    · have := (bound_beq_iff _ _).mp hk
      subst this
      simp [hk]
    · have hkb : ¬ b = k := fun h => hk ((bound_beq_iff _ _).mpr h.symm)
      simp [hk, hkb, ih]

theorem histInsert0_ne_nil (b : Bound α) (h : Hist α) : histInsert0 b h ≠ [] := by
  cases h with
  | nil => simp [histInsert0]
  | cons e t => obtain ⟨k, c⟩ := e; simp only [histInsert0]; split <;> simp

theorem histLookup_foldl_insert0 (ths : List α) (h0 : Hist α) (b' : Bound α) :
    histLookup b' (ths.foldl (fun h b => histInsert0 (mkBound b) h) h0) =
      if b' ∈ ths.map Bound.fin then some 0 else histLookup b' h0 := by
  induction ths generalizing h0 with
  | nil => simp
  | cons b bs ih =>
    rw [List.foldl_cons, ih]
    simp only [List.map_cons, List.mem_cons, mkBound_eq, histLookup_insert0]
    by_cases h1 : b' ∈ bs.map Bound.fin
    · simp [h1]
    · by_cases h2 : Bound.fin b = b'
      · subst h2
        simp [h1]
      · have : ¬ b' = Bound.fin b := fun h => h2 h.symm
        simp [h1, h2, this]

theorem histKeys_nodup_foldl_insert0 (ths : List α) (h0 : Hist α) (hn : (histKeys h0).Nodup) :
    (histKeys (ths.foldl (fun h b => histInsert0 (mkBound b) h) h0)).Nodup := by
  induction ths generalizing h0 with
  | nil => simpa using hn
  | cons b bs ih => exact ih _ (histKeys_nodup_insert0 _ _ hn)

theorem histKeys_nodup_set (b : Bound α) (n : Nat) (h : Hist α) (hn : (histKeys h).Nodup) :
    (histKeys (histSet b n h)).Nodup := by
  rw [histKeys_set]
  split
  · exact hn
  · next hb => exact List.nodup_append.mpr ⟨hn, by simp, by intro x hx y hy; simp at hy; subst hy; intro e; subst e; exact hb hx⟩

theorem emptyHistogram_limit0 (parse : Bytes → Option α) (tags : List Bytes) : emptyHistogram parse tags 0 = some [] := by
  simp [emptyHistogram]

/-- the table `latencyHistogram` builds when the limit is positive and the timer has a histogram tag -/
theorem latencyHistogram_buckets (parse : Bytes → Option α) (tags : List Bytes) (vals : List α) (limit : Nat)
    (hl : limit ≠ 0) (ths : List α) (ht : retrieveThresholds parse tags limit = some ths) :
    ∃ H, latencyHistogram parse tags vals limit = some H ∧ (histKeys H).Nodup ∧
      histLookup .inf H = some vals.length ∧
      (∀ b ∈ ths, histLookup (.fin b) H = some (vals.countP (fun v => decide (v ≤ b)))) ∧
      (∀ b, b ∉ ths → histLookup (.fin b) H = none) := by
  unfold latencyHistogram emptyHistogram
  simp only [hl, if_false, ht]
  generalize hE : ths.foldl (fun h b => histInsert0 (mkBound b) h) ([] : Hist α) = E
  have hEl : ∀ b', histLookup b' E = if b' ∈ ths.map Bound.fin then some 0 else none := by
    intro b'; rw [← hE, histLookup_foldl_insert0]; simp [histLookup]
  have hEn : (histKeys E).Nodup := by
    rw [← hE]; exact histKeys_nodup_foldl_insert0 ths [] (by simp [histKeys])
  cases hE2 : histInsert0 Bound.inf E with
  | nil => exact absurd hE2 (histInsert0_ne_nil _ _)
  | cons e t =>
    simp only
    rw [← hE2, foldl_histCountValue]
    refine ⟨_, rfl, ?_, ?_, ?_, ?_⟩
    · apply histKeys_nodup_set
      rw [histKeys_map (fun b c => c + vals.countP (fun v => leBound v b))]
      exact histKeys_nodup_insert0 _ _ hEn
    · rw [histLookup_set]; simp
    · intro b hb
      rw [histLookup_set, histLookup_map (fun b c => c + vals.countP (fun v => leBound v b)), histLookup_insert0, hEl]
      have : Bound.fin b ∈ ths.map Bound.fin := List.mem_map.mpr ⟨b, hb, rfl⟩
      simp [this, leBound]
    · intro b hb
      rw [histLookup_set, histLookup_map (fun b c => c + vals.countP (fun v => leBound v b)), histLookup_insert0, hEl]
      have : Bound.fin b ∉ ths.map Bound.fin := by
        intro h; obtain ⟨c, hc, e⟩ := List.mem_map.mp h; injection e with e; subst e; exact hb hc
      simp [this]

theorem latencyHistogram_limit0 (parse : Bytes → Option α) (tags : List Bytes) (vals : List α) :
    latencyHistogram parse tags vals 0 = some [] := by
  simp [latencyHistogram, emptyHistogram]

theorem retrieveThresholds_eq (parse : Bytes → Option α) (tags : List Bytes) (limit : Nat) (tag : Bytes)
    (h : findTag histPrefix tags = some tag) :
    retrieveThresholds parse tags limit =
      some (((splitOn histSep (tag.drop histPrefix.length)).filterMap parse).take limit) := by
  simp only [retrieveThresholds, h]
  congr 1
  generalize (splitOn histSep (tag.drop histPrefix.length)).filterMap parse = l
  change l.take (min l.length limit) = l.take limit
  rcases Nat.le_total l.length limit with hle | hle
  · rw [Nat.min_eq_left hle, List.take_of_length_le hle, List.take_of_length_le (Nat.le_refl _)]
  · rw [Nat.min_eq_right hle]


/-! ### ascending lists -/

theorem sorted_getElem_le {s : List α} (hs : s.Pairwise (· ≤ ·)) {i j : Nat} (hij : i ≤ j) (hj : j < s.length) :
    s[i]'(by omega) ≤ s[j] := by
  rcases Nat.lt_or_eq_of_le hij with h | h
  · exact (List.pairwise_iff_getElem.mp hs) i j (by omega) hj h
  · subst h; exact le_refl _

theorem sorted_take_le_drop {s : List α} (hs : s.Pairwise (· ≤ ·)) (k : Nat) :
    ∀ x ∈ s.take k, ∀ y ∈ s.drop k, x ≤ y := by
  intro x hx y hy
  have := List.take_append_drop k s
  rw [← this] at hs
  exact (List.pairwise_append.mp hs).2.2 x hx y hy

theorem sorted_take_le_boundary {s : List α} (hs : s.Pairwise (· ≤ ·)) (k : Nat) (hk1 : 1 ≤ k) (hk : k ≤ s.length) :
    ∀ x ∈ s.take k, x ≤ s[k - 1]'(by omega) := by
  intro x hx
  obtain ⟨i, hi, rfl⟩ := List.mem_iff_getElem.mp hx
  simp only [List.length_take] at hi
  rw [List.getElem_take]
  exact sorted_getElem_le hs (by omega) (by omega)

theorem sorted_boundary_le_drop {s : List α} (hs : s.Pairwise (· ≤ ·)) (m : Nat) (hm : m < s.length) :
    ∀ x ∈ s.drop m, s[m] ≤ x := by
  intro x hx
  obtain ⟨i, hi, rfl⟩ := List.mem_iff_getElem.mp hx
  simp only [List.length_drop] at hi
  rw [List.getElem_drop]
  exact sorted_getElem_le hs (by omega) (by omega)

/-! ### the mask -/

inductive PctKind | count | mean | sum | sumSquares | upper | lower
  deriving DecidableEq

def Mask.disabledPct (m : Mask) : PctKind → Bool
  | .count => m.countPct | .mean => m.meanPct | .sum => m.sumPct
  | .sumSquares => m.sumSquaresPct | .upper => m.upperPct | .lower => m.lowerPct

/-- all sub-metrics of one threshold, in source order, with their kind -/
def pctEntriesAll (p : Int) (v : PctVals α) : List (PctKind × List Char × α) :=
  [(.count, pctName "count_" p, (v.k : α)), (.mean, pctName "mean_" p, v.mean), (.sum, pctName "sum_" p, v.sum),
   (.sumSquares, pctName "sum_squares_" p, v.sumSq),
   (if p > 0 then (.upper, pctName "upper_" p, v.boundary) else (.lower, pctName "lower_" p, v.boundary))]

theorem pctEntries_eq_filter (m : Mask) (p : Int) (v : PctVals α) :
    pctEntries m p v = ((pctEntriesAll p v).filter (fun e => !m.disabledPct e.1)).map (·.2) := by
  unfold pctEntries pctEntriesAll
  by_cases hp : p > 0 <;>
  cases h1 : m.countPct <;> cases h2 : m.meanPct <;> cases h3 : m.sumPct <;> cases h4 : m.sumSquaresPct <;>
  cases h5 : m.upperPct <;> cases h6 : m.lowerPct <;>
  simp [hp, h1, h2, h3, h4, h5, h6, Mask.disabledPct, List.filter_cons]


end
end Gsd
