import Gsd.Model.Tags
import Gsd.Proofs.C07
/-! Helper lemmas for C10 (tag stage). -/
set_option linter.unusedSimpArgs false
set_option linter.unusedSectionVars false
namespace Gsd.Tags
open Gsd AList

/-! ### strings.HasPrefix / HasSuffix -/

theorem hasPrefix_iff (s p : List Char) : hasPrefix s p = true ↔ p <+: s := by
  simp only [hasPrefix, Bool.and_eq_true, decide_eq_true_eq, beq_iff_eq]
  constructor
  · rintro ⟨_, h⟩; exact h ▸ List.take_prefix _ _
  · rintro ⟨t, rfl⟩; simp

theorem hasSuffix_iff (s p : List Char) : hasSuffix s p = true ↔ p <:+ s := by
  simp only [hasSuffix, Bool.and_eq_true, decide_eq_true_eq, beq_iff_eq]
  constructor
  · rintro ⟨_, h⟩; exact h ▸ List.drop_suffix _ _
  · rintro ⟨t, rfl⟩; simp

theorem hasPrefix_append (p t : List Char) : hasPrefix (p ++ t) p = true :=
  (hasPrefix_iff _ _).mpr ⟨t, rfl⟩

theorem hasPrefix_bang (t : List Char) : hasPrefix t ['!'] = true ↔ t.head? = some '!' := by
  rw [hasPrefix_iff]
  cases t with
  | nil => simp
  | cons a t => simp [List.cons_prefix_cons, eq_comm]

theorem regexLit_length : regexLit.length = 6 := rfl

theorem parseBody_regex (inv : Bool) (b : List Char) :
    parseBody inv (regexLit ++ b) = { test := b, invert := inv, pfx := false, regex := some (String.ofList b) } := by
  simp only [parseBody, hasPrefix_append, if_true, List.drop_left' regexLit_length]

theorem parseBody_prefix (inv : Bool) (b : List Char) (h : ¬ regexLit <+: (b ++ ['*'])) :
    parseBody inv (b ++ ['*']) = { test := b, invert := inv, pfx := true, regex := none } := by
  have h2 : hasPrefix (b ++ ['*']) regexLit = false := by rw [← Bool.not_eq_true, hasPrefix_iff]; exact h
  have h3 : hasSuffix (b ++ ['*']) ['*'] = true := (hasSuffix_iff _ _).mpr ⟨b, rfl⟩
  have h4 : (b ++ ['*']).take ((b ++ ['*']).length - 1) = b := by
    apply List.take_left'; simp
  simp only [parseBody, h2, h3, h4, Bool.false_eq_true, if_false, if_true]

theorem parseBody_exact (inv : Bool) (b : List Char) (h : ¬ regexLit <+: b) (h' : ¬ ['*'] <:+ b) :
    parseBody inv b = { test := b, invert := inv, pfx := false, regex := none } := by
  have h2 : hasPrefix b regexLit = false := by rw [← Bool.not_eq_true, hasPrefix_iff]; exact h
  have h3 : hasSuffix b ['*'] = false := by rw [← Bool.not_eq_true, hasSuffix_iff]; exact h'
  simp only [parseBody, h2, h3, Bool.false_eq_true, if_false]

theorem newStringMatch_neg (body : List Char) : newStringMatch (String.ofList ('!' :: body)) = parseBody true body := by
  have h1 : hasPrefix ('!' :: body) ['!'] = true := (hasPrefix_bang _).mpr rfl
  simp only [newStringMatch, String.toList_ofList, h1, if_true, List.drop_succ_cons, List.drop_zero]

theorem newStringMatch_pos (body : List Char) (h : body.head? ≠ some '!') :
    newStringMatch (String.ofList body) = parseBody false body := by
  have h1 : hasPrefix body ['!'] = false := by rw [← Bool.not_eq_true, hasPrefix_bang]; exact h
  simp only [newStringMatch, String.toList_ofList, h1, Bool.false_eq_true, if_false]

/-! ### uniqueTagsWithSeen -/

private theorem mem_swap {r : List String} {l : String} (h : r.getLast? = some l) (y : String) :
    y ∈ l :: r.dropLast ↔ y ∈ r := by
  have hr : r = r.dropLast ++ [l] := by
    have := List.dropLast_append_getLast? l h
    exact this.symm
  constructor
  · intro hy
    rw [hr]
    rcases List.mem_cons.mp hy with rfl | hy
    · simp
    · simp [hy]
  · intro hy
    rw [hr] at hy
    rcases List.mem_append.mp hy with hy | hy
    · exact List.mem_cons_of_mem _ hy
    · simp at hy; simp [hy]

private theorem length_swap {r : List String} {l : String} (h : r.getLast? = some l) :
    (l :: r.dropLast).length = r.length := by
  cases r with
  | nil => simp at h
  | cons a t => simp

/-- everything about the first loop: kept tags, final `seen` -/
theorem uniqLoop_spec (n : Nat) (seen done rest : List String) (hn : rest.length ≤ n) :
    (∀ y, y ∈ (uniqLoop n seen done rest).1 ↔ y ∈ done ∨ (y ∈ rest ∧ y ∉ seen)) ∧
    (∀ y, y ∈ (uniqLoop n seen done rest).2 ↔ y ∈ seen ∨ y ∈ rest) ∧
    (done.Nodup → (∀ d ∈ done, d ∈ seen) → (uniqLoop n seen done rest).1.Nodup) := by
  induction n generalizing seen done rest with
  | zero =>
    have : rest = [] := List.eq_nil_of_length_eq_zero (by omega)
    subst this
    simp [uniqLoop]
    exact fun h _ => h
  | succ n ih =>
    cases rest with
    | nil => simp [uniqLoop]; exact fun h _ => h
    | cons x r =>
      by_cases hx : x ∈ seen
      · cases hl : r.getLast? with
        | none =>
          have : r = [] := by simpa using hl
          subst this
          simp only [uniqLoop, hx, if_true, List.getLast?_nil]
          refine ⟨?_, ?_, fun h _ => h⟩
          · intro y; simp; intro h1 h2; exact absurd (h1 ▸ hx) h2
          · intro y; simp; intro h; exact h ▸ hx
        | some l =>
          simp only [uniqLoop, hx, if_true, hl]
          have hlen : (l :: r.dropLast).length ≤ n := by
            rw [length_swap hl]; simpa using hn
          obtain ⟨h1, h2, h3⟩ := ih seen done (l :: r.dropLast) hlen
          refine ⟨?_, ?_, h3⟩
          · intro y
            rw [h1 y, mem_swap hl]
            constructor
            · rintro (h | ⟨h, h'⟩)
              · exact Or.inl h
              · exact Or.inr ⟨List.mem_cons_of_mem _ h, h'⟩
            · rintro (h | ⟨h, h'⟩)
              · exact Or.inl h
              · rcases List.mem_cons.mp h with rfl | h
                · exact absurd hx h'
                · exact Or.inr ⟨h, h'⟩
          · intro y
            rw [h2 y, mem_swap hl]
            constructor
            · rintro (h | h)
              · exact Or.inl h
              · exact Or.inr (List.mem_cons_of_mem _ h)
            · rintro (h | h)
              · exact Or.inl h
              · rcases List.mem_cons.mp h with rfl | h
                · exact Or.inl hx
                · exact Or.inr h
      · simp only [uniqLoop, hx, if_false]
        have hlen : r.length ≤ n := by simpa using hn
        obtain ⟨h1, h2, h3⟩ := ih (x :: seen) (done ++ [x]) r hlen
        refine ⟨?_, ?_, ?_⟩
        · intro y
          rw [h1 y]
          simp only [List.mem_append, List.mem_singleton, List.mem_cons, not_or, List.not_mem_nil, or_false]
          constructor
          · rintro ((h | h) | ⟨h, h', h''⟩)
            · exact Or.inl h
            · exact Or.inr ⟨Or.inl h, h ▸ hx⟩
            · exact Or.inr ⟨Or.inr h, h''⟩
          · rintro (h | ⟨h | h, h'⟩)
            · exact Or.inl (Or.inl h)
            · exact Or.inl (Or.inr h)
            · by_cases hyx : y = x
              · exact Or.inl (Or.inr hyx)
              · exact Or.inr ⟨h, hyx, h'⟩
        · intro y
          rw [h2 y]
          simp only [List.mem_cons]
          constructor
          · rintro ((h | h) | h)
            · exact Or.inr (Or.inl h)
            · exact Or.inl h
            · exact Or.inr (Or.inr h)
          · rintro (h | h | h)
            · exact Or.inl (Or.inr h)
            · exact Or.inl (Or.inl h)
            · exact Or.inr h
        · intro hd hsub
          apply h3
          · refine List.nodup_append.mpr ⟨hd, by simp, ?_⟩
            intro a ha b hb
            simp at hb
            subst hb
            exact fun e => hx (e ▸ hsub a ha)
          · intro d hd'
            rcases List.mem_append.mp hd' with h | h
            · exact List.mem_cons_of_mem _ (hsub d h)
            · simp at h; simp [h]

theorem mem_uniqueTagsWithSeen (seen t1 t2 : List String) (y : String) :
    y ∈ uniqueTagsWithSeen seen t1 t2 ↔ (y ∈ t1 ∨ y ∈ t2) ∧ y ∉ seen := by
  obtain ⟨h1, h2, _⟩ := uniqLoop_spec t1.length seen [] t1 (Nat.le_refl _)
  simp only [uniqueTagsWithSeen, List.mem_append, List.mem_filter, h1 y, List.contains_eq_mem,
    Bool.not_eq_true', decide_eq_false_iff_not, h2 y, List.not_mem_nil, false_or, not_or]
  constructor
  · rintro (⟨h, h'⟩ | ⟨h, h', _⟩)
    · exact ⟨Or.inl h, h'⟩
    · exact ⟨Or.inr h, h'⟩
  · rintro ⟨h | h, h'⟩
    · exact Or.inl ⟨h, h'⟩
    · by_cases hy : y ∈ t1
      · exact Or.inl ⟨hy, h'⟩
      · exact Or.inr ⟨h, h', hy⟩

theorem nodup_uniqueTagsWithSeen (seen t1 t2 : List String) (ht2 : t2.Nodup) :
    (uniqueTagsWithSeen seen t1 t2).Nodup := by
  obtain ⟨h1, h2, h3⟩ := uniqLoop_spec t1.length seen [] t1 (Nat.le_refl _)
  simp only [uniqueTagsWithSeen]
  refine List.nodup_append.mpr ⟨h3 List.nodup_nil (by simp), ht2.filter _, ?_⟩
  intro a ha b hb
  simp only [List.mem_filter, List.contains_eq_mem, Bool.not_eq_true', decide_eq_false_iff_not, h2 b, not_or] at hb
  rw [h1 a] at ha
  rcases ha with ha | ⟨ha, _⟩
  · simp at ha
  · exact fun e => hb.2.2 (e ▸ ha)

theorem mem_uniqueTags (t1 t2 : List String) (y : String) : y ∈ uniqueTags t1 t2 ↔ y ∈ t1 ∨ y ∈ t2 := by
  simp [uniqueTags, mem_uniqueTagsWithSeen]

theorem nodup_uniqueTags (t1 t2 : List String) (h : t2.Nodup) : (uniqueTags t1 t2).Nodup :=
  nodup_uniqueTagsWithSeen [] t1 t2 h

/-- nothing to remove: the loop keeps the list as it is -/
theorem uniqLoop_fresh (n : Nat) (seen done rest : List String) (hn : rest.length ≤ n)
    (hnd : rest.Nodup) (hfresh : ∀ x ∈ rest, x ∉ seen) : (uniqLoop n seen done rest).1 = done ++ rest := by
  induction n generalizing seen done rest with
  | zero =>
    have : rest = [] := List.eq_nil_of_length_eq_zero (by omega)
    subst this; simp [uniqLoop]
  | succ n ih =>
    cases rest with
    | nil => simp [uniqLoop]
    | cons x r =>
      have hx : x ∉ seen := hfresh x (by simp)
      obtain ⟨hxr, hr⟩ := List.nodup_cons.mp hnd
      simp only [uniqLoop, hx, if_false]
      rw [ih (x :: seen) (done ++ [x]) r (by simpa using hn) hr]
      · simp
      · intro y hy
        simp only [List.mem_cons, not_or]
        exact ⟨fun e => hxr (e ▸ hy), hfresh y (List.mem_cons_of_mem _ hy)⟩

/-- without repetitions the two lists are concatenated in order -/
theorem uniqueTags_of_nodup (t1 t2 : List String) (h : (t1 ++ t2).Nodup) : uniqueTags t1 t2 = t1 ++ t2 := by
  obtain ⟨h1, h2, hd⟩ := List.nodup_append.mp h
  obtain ⟨_, hs, _⟩ := uniqLoop_spec t1.length [] [] t1 (Nat.le_refl _)
  simp only [uniqueTags, uniqueTagsWithSeen]
  rw [uniqLoop_fresh t1.length [] [] t1 (Nat.le_refl _) h1 (by simp), List.nil_append]
  congr 1
  apply List.filter_eq_self.mpr
  intro y hy
  simp only [List.contains_eq_mem, Bool.not_eq_true', decide_eq_false_iff_not, hs y, List.not_mem_nil, false_or]
  exact fun hy1 => hd y hy1 y hy rfl

/-- the handler's static tags are the configured ones, de-duplicated -/
theorem newTagHandler_tags (est : Nat) (raw : List String) (fs : List Filter) :
    (newTagHandler est raw fs).tags.Nodup ∧ ∀ y, y ∈ (newTagHandler est raw fs).tags ↔ y ∈ raw := by
  refine ⟨nodup_uniqueTags _ _ List.nodup_nil, fun y => ?_⟩
  simp [newTagHandler, mem_uniqueTags]

/-! ### the filter loop -/

theorem mem_addDrops (re : String → String → Bool) (pats : List StringMatch) (tags drop : List String) (x : String) :
    x ∈ addDrops re pats tags drop ↔ x ∈ drop ∨ (x ∈ tags ∧ ∃ p ∈ pats, p.matches re x = true) := by
  have inner : ∀ (p : StringMatch) (ts d : List String),
      x ∈ ts.foldl (fun d t => if p.matches re t then t :: d else d) d ↔ x ∈ d ∨ (x ∈ ts ∧ p.matches re x = true) := by
    intro p ts
    induction ts with
    | nil => intro d; simp
    | cons t ts ih =>
      intro d
      simp only [List.foldl_cons]
      rw [ih]
      by_cases ht : p.matches re t = true
      · simp only [ht, if_true, List.mem_cons]
        constructor
        · rintro ((rfl | h) | ⟨h, h'⟩)
          · exact Or.inr ⟨Or.inl rfl, ht⟩
          · exact Or.inl h
          · exact Or.inr ⟨Or.inr h, h'⟩
        · rintro (h | ⟨rfl | h, h'⟩)
          · exact Or.inl (Or.inr h)
          · exact Or.inl (Or.inl rfl)
          · exact Or.inr ⟨h, h'⟩
      · simp only [ht, if_false, List.mem_cons]
        constructor
        · rintro (h | ⟨h, h'⟩)
          · exact Or.inl h
          · exact Or.inr ⟨Or.inr h, h'⟩
        · rintro (h | ⟨rfl | h, h'⟩)
          · exact Or.inl h
          · exact absurd h' ht
          · exact Or.inr ⟨h, h'⟩
  unfold addDrops
  induction pats generalizing drop with
  | nil => simp
  | cons p ps ih =>
    simp only [List.foldl_cons]
    have := ih (tags.foldl (fun d t => if p.matches re t then t :: d else d) drop)
    refine this.trans ?_
    rw [inner]
    simp only [List.mem_cons, exists_eq_or_imp]
    constructor
    · rintro ((h | ⟨h, h'⟩) | ⟨h, q, hq, h'⟩)
      · exact Or.inl h
      · exact Or.inr ⟨h, Or.inl h'⟩
      · exact Or.inr ⟨h, Or.inr ⟨q, hq, h'⟩⟩
    · rintro (h | ⟨h, h' | ⟨q, hq, h'⟩⟩)
      · exact Or.inl (Or.inl h)
      · exact Or.inl (Or.inr ⟨h, h'⟩)
      · exact Or.inr ⟨h, q, hq, h'⟩

/-- the loop's result in closed form -/
theorem runFilters_spec (re : String → String → Bool) (name : String) (tags : List String)
    (fs : List Filter) (drop : List String) (src : String) :
    match runFilters re name tags fs drop src with
    | none => ∃ f ∈ fs, filterApplies re f name tags = true ∧ f.dropMetric = true
    | some (d, s) =>
      (¬ ∃ f ∈ fs, filterApplies re f name tags = true ∧ f.dropMetric = true) ∧
      (∀ x, x ∈ d ↔ x ∈ drop ∨ (x ∈ tags ∧ ∃ f ∈ fs, filterApplies re f name tags = true ∧
              ∃ p ∈ f.dropTags, p.matches re x = true)) ∧
      s = (if ∃ f ∈ fs, filterApplies re f name tags = true ∧ f.dropHost = true then "" else src) := by
  induction fs generalizing drop src with
  | nil => simp [runFilters]
  | cons f fs ih =>
    by_cases ha : filterApplies re f name tags = true
    · by_cases hd : f.dropMetric = true
      · simp [runFilters, ha, hd]
      · have hd' : f.dropMetric = false := by simpa using hd
        have := ih (addDrops re f.dropTags tags drop) (if f.dropHost then "" else src)
        simp only [runFilters, ha, hd', if_true, Bool.false_eq_true, if_false]
        cases hr : runFilters re name tags fs (addDrops re f.dropTags tags drop) (if f.dropHost then "" else src) with
        | none =>
          simp only [hr] at this
          obtain ⟨g, hg, h1, h2⟩ := this
          exact ⟨g, List.mem_cons_of_mem _ hg, h1, h2⟩
        | some r =>
          obtain ⟨d, s⟩ := r
          simp only [hr] at this
          obtain ⟨h1, h2, h3⟩ := this
          refine ⟨?_, ?_, ?_⟩
          · rintro ⟨g, hg, hg1, hg2⟩
            rcases List.mem_cons.mp hg with rfl | hg
            · exact hd hg2
            · exact h1 ⟨g, hg, hg1, hg2⟩
          · intro x
            rw [h2 x, mem_addDrops]
            simp only [List.mem_cons, exists_eq_or_imp, ha, true_and]
            constructor
            · rintro ((h | ⟨h, h'⟩) | ⟨h, h'⟩)
              · exact Or.inl h
              · exact Or.inr ⟨h, Or.inl h'⟩
              · exact Or.inr ⟨h, Or.inr h'⟩
            · rintro (h | ⟨h, h' | h'⟩)
              · exact Or.inl (Or.inl h)
              · exact Or.inl (Or.inr ⟨h, h'⟩)
              · exact Or.inr ⟨h, h'⟩
          · rw [h3]
            by_cases hh : f.dropHost = true
            · simp [hh, ha]
            · have hh' : f.dropHost = false := by simpa using hh
              simp [hh', ha]
    · have := ih drop src
      have ha' : filterApplies re f name tags = false := by simpa using ha
      simp only [runFilters, ha', Bool.false_eq_true, if_false]
      cases hr : runFilters re name tags fs drop src with
      | none =>
        simp only [hr] at this
        obtain ⟨g, hg, h1, h2⟩ := this
        exact ⟨g, List.mem_cons_of_mem _ hg, h1, h2⟩
      | some r =>
        obtain ⟨d, s⟩ := r
        simp only [hr] at this
        obtain ⟨h1, h2, h3⟩ := this
        refine ⟨?_, ?_, ?_⟩
        · rintro ⟨g, hg, hg1, hg2⟩
          rcases List.mem_cons.mp hg with rfl | hg
          · exact ha hg1
          · exact h1 ⟨g, hg, hg1, hg2⟩
        · intro x
          rw [h2 x]
          simp [ha']
        · rw [h3]; simp [ha']

/-! ### sort.Strings -/

theorem insertSorted_perm (x : String) (l : List String) : (insertSorted x l).Perm (x :: l) := by
  induction l with
  | nil => simp [insertSorted]
  | cons y t ih =>
    simp only [insertSorted]
    split
    · exact List.Perm.refl _
    · exact (List.Perm.cons y ih).trans (List.Perm.swap x y t)

theorem sortTags_perm (l : List String) : (sortTags l).Perm l := by
  induction l with
  | nil => simp [sortTags]
  | cons x t ih => exact (insertSorted_perm x _).trans (List.Perm.cons x ih)

theorem mem_sortTags (l : List String) (y : String) : y ∈ sortTags l ↔ y ∈ l := (sortTags_perm l).mem_iff

theorem nodup_sortTags (l : List String) : (sortTags l).Nodup ↔ l.Nodup := (sortTags_perm l).nodup_iff

/-! ### inserting a list with repeated keys into a map (the collision branch) -/

section collide
variable {ν : Type}

theorem agg_mergeWith_dups (Sum : ν → List ν → Prop) (f : ν → ν → ν) (base : ∀ v, Sum v [v])
    (step : ∀ x y xs ys, Sum x xs → Sum y ys → Sum (f x y) (xs ++ ys))
    (into : AList Key ν) (xs : List (AList Key ν)) (es : List (Key × ν)) (h : Agg Sum into xs) :
    Agg Sum (mergeWith f into es) (xs ++ es.map (fun e => [e])) := by
  induction es generalizing into xs with
  | nil => simpa [mergeWith] using h
  | cons e t ih =>
    have h' : Agg Sum (AList.upsert e.1 (fun o => match o with | none => e.2 | some w => f w e.2) into) (xs ++ [[e]]) :=
      agg_upsert Sum _ (fun w => f w e.2) e.2 e.1 rfl (fun _ => rfl) (base _)
        (fun x xs hx => step _ _ _ _ hx (base _)) into xs h
    have := ih _ _ h'
    rw [List.append_assoc] at this
    exact this

/-- a property of the first-inserted entry that the combining function keeps -/
theorem mergeWith_origin {β : Type} (f : ν → ν → ν) (π : ν → β) (hπ : ∀ w x, π (f w x) = π w)
    (into : AList Key ν) (es : List (Key × ν)) (k : Key) (v : ν)
    (h : lookup k (mergeWith f into es) = some v) :
    (∃ w, lookup k into = some w ∧ π v = π w) ∨ (∃ e ∈ es, e.1 = k ∧ π v = π e.2) := by
  induction es generalizing into with
  | nil => left; exact ⟨v, by simpa [mergeWith] using h, rfl⟩
  | cons e t ih =>
    have h' : lookup k (mergeWith f (AList.upsert e.1 (fun o => match o with | none => e.2 | some w => f w e.2) into) t) = some v := h
    rcases ih _ h' with ⟨w, hw, hv⟩ | ⟨e', he', hk, hv⟩
    · rw [lookup_upsert] at hw
      by_cases hk : e.1 = k
      · simp only [hk, if_true] at hw
        cases hl : lookup k into with
        | none =>
          simp only [hl, Option.some.injEq] at hw
          right; exact ⟨e, by simp, hk, by rw [hv, ← hw]⟩
        | some w0 =>
          simp only [hl, Option.some.injEq] at hw
          left; exact ⟨w0, rfl, by rw [hv, ← hw, hπ]⟩
      · simp only [hk, if_false] at hw
        left; exact ⟨w, hw, hv⟩
    · right; exact ⟨e', List.mem_cons_of_mem _ he', hk, hv⟩

/-- empty maps contribute nothing to an aggregation -/
theorem valsAt_empties {ν} (k : Key) (n : Nat) :
    List.filterMap (lookup k) (List.replicate n ([] : AList Key ν)) = [] := by
  induction n with
  | zero => rfl
  | succ n ih => simp [List.replicate_succ, ih]

theorem agg_congr {ν} (Sum : ν → List ν → Prop) (a : AList Key ν) (xs ys : List (AList Key ν))
    (h : ∀ k, valsAt k xs = valsAt k ys) (ha : Agg Sum a xs) : Agg Sum a ys := by
  intro k
  have := ha k
  rw [h k] at this
  exact this

end collide

/-! ### the four combining functions preserve the summary relations of C07 -/

variable {α : Type} [AddCommMonoid α]

theorem nanoMax_eq (a b : Int) : nanoMax a b = if a < b then b else a := by
  unfold nanoMax; split <;> split <;> omega

theorem csum_join (x y : Counter) (xs ys : List Counter) (hx : CSum x xs) (hy : CSum y ys) :
    CSum (joinCounter x y) (xs ++ ys) := by
  obtain ⟨hx1, hx2⟩ := hx; obtain ⟨hy1, hy2⟩ := hy
  refine ⟨by simp [joinCounter, hx1, hy1], ?_⟩
  have := isMax_append_bump x.ts y.ts _ _ hx2 hy2
  simpa [joinCounter, nanoMax_eq] using this

theorem tsum_join (x y : Timer α) (xs ys : List (Timer α)) (hx : TSum x xs) (hy : TSum y ys) :
    TSum (joinTimer x y) (xs ++ ys) := by
  obtain ⟨hx1, hx2, hx3⟩ := hx; obtain ⟨hy1, hy2, hy3⟩ := hy
  refine ⟨by simp [joinTimer, hx1, hy1], by simp [joinTimer, hx2, hy2], ?_⟩
  have := isMax_append_bump x.ts y.ts _ _ hx3 hy3
  simpa [joinTimer, nanoMax_eq] using this

theorem ssum_join (x y : SetV) (xs ys : List SetV) (hx : SSum x xs) (hy : SSum y ys) :
    SSum (joinSet x y) (xs ++ ys) := by
  obtain ⟨hx1, hx2⟩ := hx; obtain ⟨hy1, hy2⟩ := hy
  refine ⟨?_, ?_⟩
  · intro v
    simp only [joinSet, mem_setUnion, hx1, hy1, List.mem_append]
    constructor
    · rintro (⟨l, hl, h⟩ | ⟨l, hl, h⟩)
      · exact ⟨l, Or.inl hl, h⟩
      · exact ⟨l, Or.inr hl, h⟩
    · rintro ⟨l, hl | hl, h⟩
      · exact Or.inl ⟨l, hl, h⟩
      · exact Or.inr ⟨l, hl, h⟩
  · have := isMax_append_bump x.ts y.ts _ _ hx2 hy2
    simpa [joinSet, nanoMax_eq] using this

theorem gsum_join (x y : Gauge α) (xs ys : List (Gauge α)) (hx : GSum x xs) (hy : GSum y ys) :
    GSum (joinGauge x y) (xs ++ ys) := by
  obtain ⟨⟨hx1, hx2⟩, lx, hlx, hlx1, hlx2⟩ := hx
  obtain ⟨⟨hy1, hy2⟩, ly, hly, hly1, hly2⟩ := hy
  unfold joinGauge
  split
  · rename_i h
    refine ⟨⟨by simp; exact Or.inr (by simpa using hy1), ?_⟩, ly, by simp [hly], by simp [hly1], by simp [hly2]⟩
    intro t ht
    simp only [List.map_append, List.mem_append] at ht
    rcases ht with ht | ht
    · have := hx2 t ht; simp; omega
    · simpa using hy2 t ht
  · rename_i h
    refine ⟨⟨by simp; exact Or.inl (by simpa using hx1), ?_⟩, lx, by simp [hlx], hlx1, hlx2⟩
    intro t ht
    simp only [List.map_append, List.mem_append] at ht
    rcases ht with ht | ht
    · exact hx2 t ht
    · have := hy2 t ht; omega

end Gsd.Tags
