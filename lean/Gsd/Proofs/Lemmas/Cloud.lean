import Gsd.Model.Cloud
import Gsd.Proofs.C07
/-! Helper lemmas for C11 (cloud stage): parking tables, re-keying conserves content, per-field
frame lemmas of the step functions. -/
set_option linter.unusedSimpArgs false
set_option linter.unusedSectionVars false
set_option linter.unusedVariables false
namespace Gsd
open AList

/-! ### association lists: sizes, parking tables -/
namespace AList
variable {κ ν : Type} [DecidableEq κ]

theorem length_upsert (k : κ) (f : Option ν → ν) (m : AList κ ν) :
    (upsert k f m).length = if (lookup k m).isSome then m.length else m.length + 1 := by
  induction m with
  | nil => simp [upsert]
  | cons e t ih =>
    obtain ⟨k₀, v₀⟩ := e
    by_cases h : k₀ = k
    · simp [upsert, lookup, h]
    · simp only [upsert, lookup, h, if_false, List.length_cons, ih]
      split <;> simp

theorem length_erase_of_lookup {k : κ} {v : ν} {m : AList κ ν} (hn : NodupKeys m) (h : lookup k m = some v) :
    (erase k m).length + 1 = m.length := by
  induction m with
  | nil => simp at h
  | cons e t ih =>
    obtain ⟨k₀, v₀⟩ := e
    simp only [NodupKeys, keys, List.map_cons, List.nodup_cons] at hn
    by_cases hk : k₀ = k
    · subst hk
      have hnone : lookup k₀ t = none := lookup_eq_none_of_not_mem_keys hn.1
      have : erase k₀ t = t := by
        clear ih h
        induction t with
        | nil => rfl
        | cons e' t' ih' =>
          obtain ⟨k₁, v₁⟩ := e'
          simp only [keys, List.map_cons, List.mem_cons, not_or] at hn
          have hne : ¬ k₁ = k₀ := fun hh => hn.1.1 hh.symm
          simp only [erase, hne, if_false]
          congr 1
          apply ih'
          · refine ⟨?_, ?_⟩
            · simpa [keys] using hn.1.2
            · exact (List.nodup_cons.mp hn.2).2
          · simp only [lookup_cons, hne, if_false] at hnone; exact hnone
      simp [erase, this]
    · simp only [lookup_cons, hk, if_false] at h
      simp only [erase, hk, if_false, List.length_cons]
      have := ih hn.2 h
      omega

theorem erase_of_lookup_none {k : κ} {m : AList κ ν} (h : lookup k m = none) : erase k m = m := by
  induction m with
  | nil => rfl
  | cons e t ih =>
    obtain ⟨k₀, v₀⟩ := e
    by_cases hk : k₀ = k
    · simp [lookup_cons, hk] at h
    · simp only [lookup_cons, hk, if_false] at h
      simp [erase, hk, ih h]

section tables
variable {β : Type}

/-- `m[k] = append(m[k], x)` adds exactly `x` to what the table holds -/
theorem flatMap_upsert_append (k : κ) (x : β) (m : AList κ (List β)) :
    ((upsert k (fun o => o.getD [] ++ [x]) m).flatMap (·.2)).Perm (m.flatMap (·.2) ++ [x]) := by
  induction m with
  | nil => simp [upsert]
  | cons e t ih =>
    obtain ⟨k₀, v₀⟩ := e
    by_cases h : k₀ = k
    · simp only [upsert, h, if_true, List.flatMap_cons, Option.getD_some, List.append_assoc]
      exact List.Perm.append_left _ List.perm_append_comm
    · simp only [upsert, h, if_false, List.flatMap_cons, List.append_assoc]
      exact List.Perm.append_left _ ih

/-- `delete(m, k)` removes exactly `m[k]` -/
theorem flatMap_erase {k : κ} {l : List β} {m : AList κ (List β)} (hn : NodupKeys m) (h : lookup k m = some l) :
    (m.flatMap (·.2)).Perm (l ++ (erase k m).flatMap (·.2)) := by
  induction m with
  | nil => simp at h
  | cons e t ih =>
    obtain ⟨k₀, v₀⟩ := e
    simp only [NodupKeys, keys, List.map_cons, List.nodup_cons] at hn
    by_cases hk : k₀ = k
    · subst hk
      have hnone : lookup k₀ t = none := lookup_eq_none_of_not_mem_keys hn.1
      simp only [lookup_cons, if_true, Option.some.injEq] at h
      subst h
      simp [erase, erase_of_lookup_none hnone]
    · simp only [lookup_cons, hk, if_false] at h
      simp only [erase, hk, if_false, List.flatMap_cons]
      have := ih hn.2 h
      refine (List.Perm.append_left v₀ this).trans ?_
      rw [← List.append_assoc, ← List.append_assoc]
      exact List.Perm.append_right _ List.perm_append_comm

end tables
end AList
end Gsd

/-! ### re-keying conserves content -/
namespace Gsd
namespace Cloud
open AList
variable {α : Type} [AddCommMonoid α]

theorem single_c (k : Key) (v : Counter) : (Ent.c k v : Ent α).single = { counters := [(k, v)] } := rfl
theorem single_g (k : Key) (v : Gauge α) : (Ent.g k v : Ent α).single = { gauges := [(k, v)] } := rfl
theorem single_s (k : Key) (v : SetV) : (Ent.s k v : Ent α).single = { sets := [(k, v)] } := rfl
theorem single_t (k : Key) (v : Timer α) : (Ent.t k v : Ent α).single = { timers := [(k, v)] } := rfl

/-- merging one entry into a map (`MergeCounter` …) counts as one more leaf -/
theorem aggMM_addTo (e : Ent α) (m : MM α) (ls : List (MM α)) (h : AggMM m ls) :
    AggMM (e.addTo m) (ls ++ [e.single]) := by
  obtain ⟨hc, ht, hg, hs⟩ := h
  simp only [AggMM, List.map_append, List.map_cons, List.map_nil]
  cases e with
  | c k v =>
    simp only [Ent.addTo, single_c]
    refine ⟨?_, agg_append_empty _ _ _ ht, agg_append_empty _ _ _ hg, agg_append_empty _ _ _ hs⟩
    exact agg_upsert CSum _ (fun w => mergeCounter w v) v k rfl (fun _ => rfl) (csum_base _)
      (fun x xs hx => csum_step _ _ _ _ hx (csum_base _)) _ _ hc
  | g k v =>
    simp only [Ent.addTo, single_g]
    refine ⟨agg_append_empty _ _ _ hc, agg_append_empty _ _ _ ht, ?_, agg_append_empty _ _ _ hs⟩
    exact agg_upsert GSum _ (fun w => mergeGauge w v) v k rfl (fun _ => rfl) (gsum_base _)
      (fun x xs hx => gsum_step _ _ _ _ hx (gsum_base _)) _ _ hg
  | s k v =>
    simp only [Ent.addTo, single_s]
    refine ⟨agg_append_empty _ _ _ hc, agg_append_empty _ _ _ ht, agg_append_empty _ _ _ hg, ?_⟩
    exact agg_upsert SSum _ (fun w => mergeSet w v) v k rfl (fun _ => rfl) (ssum_base _)
      (fun x xs hx => ssum_step _ _ _ _ hx (ssum_base _)) _ _ hs
  | t k v =>
    simp only [Ent.addTo, single_t]
    refine ⟨agg_append_empty _ _ _ hc, ?_, agg_append_empty _ _ _ hg, agg_append_empty _ _ _ hs⟩
    exact agg_upsert TSum _ (fun w => mergeTimer w v) v k rfl (fun _ => rfl) (tsum_base _)
      (fun x xs hx => tsum_step _ _ _ _ hx (tsum_base _)) _ _ ht

theorem aggMM_foldl_addTo (es : List (Ent α)) (m : MM α) (ls : List (MM α)) (h : AggMM m ls) :
    AggMM (es.foldl (fun m e => e.addTo m) m) (ls ++ es.map Ent.single) := by
  induction es generalizing m ls with
  | nil => simpa using h
  | cons e t ih =>
    have := ih (e.addTo m) (ls ++ [e.single]) (aggMM_addTo e m ls h)
    simpa [List.append_assoc] using this

theorem aggMM_ofEntries (es : List (Ent α)) : AggMM (ofEntries es) (es.map Ent.single) := by
  simpa [ofEntries] using aggMM_foldl_addTo es MM.empty [] aggMM_empty

theorem addTo_not_isEmpty (e : Ent α) (m : MM α) : (e.addTo m).isEmpty = false := by
  have hu : ∀ {ν : Type} (k : Key) (f : Option ν → ν) (l : AList Key ν), (AList.upsert k f l).isEmpty = false := by
    intro ν k f l
    cases l with
    | nil => simp [AList.upsert]
    | cons x t => obtain ⟨k₀, v₀⟩ := x; simp only [AList.upsert]; split <;> simp
  cases e <;> simp [Ent.addTo, MMap.isEmpty, hu]

theorem ofEntries_isEmpty (es : List (Ent α)) : (ofEntries es).isEmpty = es.isEmpty := by
  have key : ∀ (es : List (Ent α)) (m : MM α), m.isEmpty = false → (es.foldl (fun m e => e.addTo m) m).isEmpty = false := by
    intro es
    induction es with
    | nil => intro m h; simpa using h
    | cons e t ih => intro m _; exact ih _ (addTo_not_isEmpty e m)
  cases es with
  | nil => simp [ofEntries, MM.empty, MMap.isEmpty]
  | cons e t => simpa [ofEntries] using key t _ (addTo_not_isEmpty e MM.empty)

end Cloud
end Gsd

/-! ### the step functions, field by field -/
namespace Gsd
namespace Cloud
open AList
section frames
variable {α : Type} [Add α]

/-! `deliver` touches `delivered` / `held` only -/
@[simp] theorem deliver_awaitingMetrics (st : St α) (ds : List (Delivery α)) : (deliver st ds).awaitingMetrics = st.awaitingMetrics := by
  unfold deliver; split <;> rfl
@[simp] theorem deliver_awaitingEvents (st : St α) (ds : List (Delivery α)) : (deliver st ds).awaitingEvents = st.awaitingEvents := by
  unfold deliver; split <;> rfl
@[simp] theorem deliver_toLookup (st : St α) (ds : List (Delivery α)) : (deliver st ds).toLookup = st.toLookup := by
  unfold deliver; split <;> rfl
@[simp] theorem deliver_inFlight (st : St α) (ds : List (Delivery α)) : (deliver st ds).inFlight = st.inFlight := by
  unfold deliver; split <;> rfl
@[simp] theorem deliver_metricHosts (st : St α) (ds : List (Delivery α)) : (deliver st ds).metricHosts = st.metricHosts := by
  unfold deliver; split <;> rfl
@[simp] theorem deliver_eventHosts (st : St α) (ds : List (Delivery α)) : (deliver st ds).eventHosts = st.eventHosts := by
  unfold deliver; split <;> rfl
@[simp] theorem deliver_eventItems (st : St α) (ds : List (Delivery α)) : (deliver st ds).eventItems = st.eventItems := by
  unfold deliver; split <;> rfl
@[simp] theorem deliver_blocked (st : St α) (ds : List (Delivery α)) : (deliver st ds).blocked = st.blocked := by
  unfold deliver; split <;> rfl

/-- as long as nothing is held while downstream takes deliveries, handing over `ds` appends `ds` to what
the stage has let go of -/
theorem outbound_deliver (st : St α) (ds : List (Delivery α)) (hh : st.blocked = false → st.held = []) :
    outbound (deliver st ds) = outbound st ++ ds := by
  unfold deliver outbound
  cases hb : st.blocked
  · simp [hh hb]
  · simp

theorem heldOK_deliver (st : St α) (ds : List (Delivery α)) (hh : st.blocked = false → st.held = []) :
    (deliver st ds).blocked = false → (deliver st ds).held = [] := by
  intro hb
  rw [deliver_blocked] at hb
  unfold deliver
  simp [hb, hh hb]

/-- the state after the caller-side half of `DispatchMetricMap` (hits forwarded, queries counted) -/
def afterHits (st : St α) (b : MM α) (pk : Peek) : St α :=
  let es := entries b
  let out := rekeyEntries (instOf pk) (es.filter (fun e => isHit pk e.src))
  let q := countQueries pk (es.map Ent.src)
  let st0 := { st with cacheHit := st.cacheHit + q.1, cacheMiss := st.cacheMiss + q.2 }
  if out.isEmpty then st0 else deliver st0 [.metrics out]

theorem step_arriveMetrics (fix : Bool) (st : St α) (b : MM α) (pk : Peek) :
    step fix st (.arriveMetrics b pk) =
      ((entries b).filter (fun e => !isHit pk e.src)).foldl (parkEnt fix) (afterHits st b pk) := rfl

theorem afterHits_frame (st : St α) (b : MM α) (pk : Peek) :
    (afterHits st b pk).awaitingMetrics = st.awaitingMetrics ∧ (afterHits st b pk).awaitingEvents = st.awaitingEvents ∧
    (afterHits st b pk).toLookup = st.toLookup ∧ (afterHits st b pk).inFlight = st.inFlight ∧
    (afterHits st b pk).metricHosts = st.metricHosts ∧ (afterHits st b pk).eventHosts = st.eventHosts ∧
    (afterHits st b pk).eventItems = st.eventItems ∧ (afterHits st b pk).blocked = st.blocked := by
  unfold afterHits
  simp only
  split <;> simp

theorem afterHits_delivered (st : St α) (b : MM α) (pk : Peek) (hh : st.blocked = false → st.held = []) :
    outbound (afterHits st b pk) = outbound st ++
      (if ((entries b).filter (fun e => isHit pk e.src)).isEmpty then []
       else [.metrics (rekeyEntries (instOf pk) ((entries b).filter (fun e => isHit pk e.src)))]) ∧
    ((afterHits st b pk).blocked = false → (afterHits st b pk).held = []) := by
  unfold afterHits
  simp only
  split <;> rename_i h
  · have : ((entries b).filter (fun e => isHit pk e.src)).isEmpty = true := by
      have h2 : (ofEntries (((entries b).filter (fun e => isHit pk e.src)).map (fun e => e.rekey (instOf pk e.src)))).isEmpty = true := h
      have hu : ∀ {ν : Type} (k : Key) (f : Option ν → ν) (l : AList Key ν), (AList.upsert k f l).isEmpty = false := by
        intro ν k f l
        cases l with
        | nil => simp [AList.upsert]
        | cons x t => obtain ⟨k₀, v₀⟩ := x; simp only [AList.upsert]; split <;> simp
      have hadd : ∀ (e : Ent α) (m : MM α), (e.addTo m).isEmpty = false := by
        intro e m; cases e <;> simp [Ent.addTo, MMap.isEmpty, hu]
      have key : ∀ (es : List (Ent α)) (m : MM α), m.isEmpty = false → (es.foldl (fun m e => e.addTo m) m).isEmpty = false := by
        intro es
        induction es with
        | nil => intro m h; simpa using h
        | cons e t ih => intro m _; exact ih _ (hadd e m)
      cases hl : (entries b).filter (fun e => isHit pk e.src) with
      | nil => rfl
      | cons e t =>
        rw [hl] at h2
        have := key (t.map (fun e => e.rekey (instOf pk e.src))) _ (hadd (e.rekey (instOf pk e.src)) MM.empty)
        simp only [ofEntries, List.map_cons, List.foldl_cons] at h2
        rw [this] at h2
        exact absurd h2 (by simp)
    simp only [this, if_true, List.append_nil]
    exact ⟨rfl, hh⟩
  · have : ((entries b).filter (fun e => isHit pk e.src)).isEmpty = false := by
      cases hl : (entries b).filter (fun e => isHit pk e.src) with
      | nil =>
        exfalso; apply h
        show (rekeyEntries (instOf pk) ((entries b).filter (fun e => isHit pk e.src))).isEmpty = true
        rw [hl]; simp [rekeyEntries, ofEntries, MM.empty, MMap.isEmpty]
      | cons e t => rfl
    simp only [this, Bool.false_eq_true, if_false]
    exact ⟨outbound_deliver _ _ hh, heldOK_deliver _ _ hh⟩

@[simp] theorem parkEnt_delivered (fix : Bool) (st : St α) (e : Ent α) : (parkEnt fix st e).delivered = st.delivered := rfl
@[simp] theorem parkEnt_held (fix : Bool) (st : St α) (e : Ent α) : (parkEnt fix st e).held = st.held := rfl
@[simp] theorem parkEnt_blocked (fix : Bool) (st : St α) (e : Ent α) : (parkEnt fix st e).blocked = st.blocked := rfl
@[simp] theorem parkEnt_awaitingEvents (fix : Bool) (st : St α) (e : Ent α) : (parkEnt fix st e).awaitingEvents = st.awaitingEvents := rfl
@[simp] theorem parkEnt_inFlight (fix : Bool) (st : St α) (e : Ent α) : (parkEnt fix st e).inFlight = st.inFlight := rfl
@[simp] theorem parkEnt_eventHosts (fix : Bool) (st : St α) (e : Ent α) : (parkEnt fix st e).eventHosts = st.eventHosts := rfl
@[simp] theorem parkEnt_eventItems (fix : Bool) (st : St α) (e : Ent α) : (parkEnt fix st e).eventItems = st.eventItems := rfl

theorem foldl_parkEnt_frame (fix : Bool) (es : List (Ent α)) (st : St α) :
    (es.foldl (parkEnt fix) st).delivered = st.delivered ∧ (es.foldl (parkEnt fix) st).awaitingEvents = st.awaitingEvents ∧
    (es.foldl (parkEnt fix) st).inFlight = st.inFlight ∧ (es.foldl (parkEnt fix) st).eventHosts = st.eventHosts ∧
    (es.foldl (parkEnt fix) st).eventItems = st.eventItems ∧ (es.foldl (parkEnt fix) st).held = st.held ∧
    (es.foldl (parkEnt fix) st).blocked = st.blocked := by
  induction es generalizing st with
  | nil => simp
  | cons e t ih => simp only [List.foldl_cons]; have := ih (parkEnt fix st e); simpa using this

/-- an invariant kept by every elementary transition is kept by every action -/
theorem step_preserves_env (P : St α → Prop) (E : St α → String → Prop) (fix : Bool)
    (hHits : ∀ st b pk, P st → P (afterHits st b pk))
    (hEnt : ∀ st e, P st → P (parkEnt fix st e))
    (hEvHit : ∀ (st : St α) (h m : Nat) (d : Delivery α), P st →
        P (deliver { st with cacheHit := h, cacheMiss := m } [d]))
    (hEvMiss : ∀ (st : St α) (h m : Nat) e, P st → P (parkEvent fix { st with cacheHit := h, cacheMiss := m } e))
    (hSend : ∀ (st : St α) s rest, st.toLookup = s :: rest → P st →
        P { st with toLookup := rest, inFlight := s :: st.inFlight, sent := st.sent ++ [s] })
    (hInfo : ∀ (st : St α) s r, E st s → P st →
        P { releaseEvents (releaseMetrics st s r) s r with inFlight := (releaseEvents (releaseMetrics st s r) s r).inFlight.erase s })
    (hEmit : ∀ (st : St α) x, P st → P { st with emitted := st.emitted ++ [x] })
    (hBlock : ∀ (st : St α), P st → P { st with blocked := true })
    (hUnblock : ∀ (st : St α), P st → P { st with blocked := false, delivered := st.delivered ++ st.held, held := [] })
    (st : St α) (a : Action α) (henv : ∀ s r, a = .info s r → E st s) (h : P st) : P (step fix st a) := by
  cases a with
  | arriveMetrics b pk =>
    rw [step_arriveMetrics]
    generalize (entries b).filter (fun e => !isHit pk e.src) = ms
    have h0 := hHits st b pk h
    generalize afterHits st b pk = st0 at h0
    induction ms generalizing st0 with
    | nil => exact h0
    | cons e t ih => exact ih _ (hEnt _ e h0)
  | arriveEvent e pk =>
    simp only [step]
    split
    · exact hEvHit st _ _ _ h
    · exact hEvMiss st _ _ e h
  | sendLookup =>
    simp only [step]
    split
    · exact h
    · rename_i s rest heq; exact hSend st s rest heq h
  | info s r => exact hInfo st s r (henv s r rfl) h
  | emit => exact hEmit st _ h
  | block => exact hBlock st h
  | unblock => exact hUnblock st h

theorem step_preserves (P : St α → Prop) (fix : Bool)
    (hHits : ∀ st b pk, P st → P (afterHits st b pk))
    (hEnt : ∀ st e, P st → P (parkEnt fix st e))
    (hEvHit : ∀ (st : St α) (h m : Nat) (d : Delivery α), P st →
        P (deliver { st with cacheHit := h, cacheMiss := m } [d]))
    (hEvMiss : ∀ (st : St α) (h m : Nat) e, P st → P (parkEvent fix { st with cacheHit := h, cacheMiss := m } e))
    (hSend : ∀ (st : St α) s rest, st.toLookup = s :: rest → P st →
        P { st with toLookup := rest, inFlight := s :: st.inFlight, sent := st.sent ++ [s] })
    (hInfo : ∀ (st : St α) s r, P st →
        P { releaseEvents (releaseMetrics st s r) s r with inFlight := (releaseEvents (releaseMetrics st s r) s r).inFlight.erase s })
    (hEmit : ∀ (st : St α) x, P st → P { st with emitted := st.emitted ++ [x] })
    (hBlock : ∀ (st : St α), P st → P { st with blocked := true })
    (hUnblock : ∀ (st : St α), P st → P { st with blocked := false, delivered := st.delivered ++ st.held, held := [] })
    (st : St α) (a : Action α) (h : P st) : P (step fix st a) :=
  step_preserves_env P (fun _ _ => True) fix hHits hEnt hEvHit hEvMiss hSend (fun st s r _ => hInfo st s r) hEmit hBlock hUnblock st a
    (fun _ _ _ => trivial) h

end frames
end Cloud
end Gsd

/-! ### well-formedness of the parking tables -/
namespace Gsd
namespace Cloud
open AList
section wf
variable {α : Type} [Add α]

structure WFst (st : St α) : Prop where
  ndM : NodupKeys st.awaitingMetrics
  ndE : NodupKeys st.awaitingEvents
  neE : ∀ s l, lookup s st.awaitingEvents = some l → l ≠ []
  srcE : ∀ s l, lookup s st.awaitingEvents = some l → ∀ e ∈ l, e.src = s
  /-- nothing is held back while downstream takes deliveries -/
  heldOK : st.blocked = false → st.held = []

theorem wf_init : WFst (init : St α) :=
  ⟨List.nodup_nil, List.nodup_nil, by intro s l h; simp [init] at h, by intro s l h; simp [init] at h, fun _ => rfl⟩

theorem wf_deliver (st : St α) (ds : List (Delivery α)) (h : WFst st) : WFst (deliver st ds) :=
  ⟨by simpa using h.ndM, by simpa using h.ndE, by simpa using h.neE, by simpa using h.srcE, heldOK_deliver st ds h.heldOK⟩

theorem noEvents_eq {st : St α} (h : WFst st) (s : String) : noEvents st s = (lookup s st.awaitingEvents).isNone := by
  unfold noEvents
  cases hl : lookup s st.awaitingEvents with
  | none => rfl
  | some l =>
    cases l with
    | nil => exact absurd rfl (h.neE s [] hl)
    | cons x t => rfl

theorem wf_parkEvent (fix : Bool) (st : St α) (e : Event) (h : WFst st) : WFst (parkEvent fix st e) := by
  refine ⟨h.ndM, nodupKeys_upsert _ _ h.ndE, ?_, ?_, h.heldOK⟩
  · intro s l hl
    simp only [parkEvent, lookup_upsert] at hl
    split at hl
    · cases hl; simp
    · exact h.neE s l hl
  · intro s l hl x hx
    simp only [parkEvent, lookup_upsert] at hl
    split at hl
    · rename_i heq
      cases hl
      simp only [List.mem_append, List.mem_singleton] at hx
      rcases hx with hx | hx
      · cases hq : lookup e.src st.awaitingEvents with
        | none => simp [hq] at hx
        | some l' => simp only [hq, Option.getD_some] at hx; rw [← heq]; exact h.srcE _ _ hq x hx
      · rw [hx]; exact heq
    · exact h.srcE s l hl x hx

theorem wf_releaseMetrics (st : St α) (s : String) (r : Option Inst) (h : WFst st) : WFst (releaseMetrics st s r) := by
  unfold releaseMetrics
  split
  · exact wf_deliver _ _ ⟨nodupKeys_erase _ h.ndM, h.ndE, h.neE, h.srcE, h.heldOK⟩
  · exact h

theorem wf_releaseEvents (st : St α) (s : String) (r : Option Inst) (h : WFst st) : WFst (releaseEvents st s r) := by
  unfold releaseEvents
  split
  · refine wf_deliver _ _ ⟨h.ndM, nodupKeys_erase _ h.ndE, ?_, ?_, h.heldOK⟩
    · intro s' l hl
      simp only [lookup_erase] at hl
      split at hl
      · cases hl
      · exact h.neE s' l hl
    · intro s' l hl
      simp only [lookup_erase] at hl
      split at hl
      · cases hl
      · exact h.srcE s' l hl
  · exact h

theorem wf_step (fix : Bool) (st : St α) (a : Action α) (h : WFst st) : WFst (step fix st a) := by
  refine step_preserves WFst fix ?_ ?_ ?_ ?_ ?_ ?_ ?_ ?_ ?_ st a h
  · intro st b pk h
    obtain ⟨e1, e2, _⟩ := afterHits_frame st b pk
    exact ⟨by rw [e1]; exact h.ndM, by rw [e2]; exact h.ndE, by rw [e2]; exact h.neE, by rw [e2]; exact h.srcE, (afterHits_delivered st b pk h.heldOK).2⟩
  · intro st e h
    exact ⟨nodupKeys_upsert _ _ h.ndM, h.ndE, h.neE, h.srcE, h.heldOK⟩
  · intro st _ _ d h; exact wf_deliver _ _ ⟨h.ndM, h.ndE, h.neE, h.srcE, h.heldOK⟩
  · intro st _ _ e h; exact wf_parkEvent fix _ e ⟨h.ndM, h.ndE, h.neE, h.srcE, h.heldOK⟩
  · intro st s rest _ h; exact ⟨h.ndM, h.ndE, h.neE, h.srcE, h.heldOK⟩
  · intro st s r h
    have := wf_releaseEvents _ s r (wf_releaseMetrics st s r h)
    exact ⟨this.ndM, this.ndE, this.neE, this.srcE, this.heldOK⟩
  · intro st x h; exact ⟨h.ndM, h.ndE, h.neE, h.srcE, h.heldOK⟩
  · intro st h; exact ⟨h.ndM, h.ndE, h.neE, h.srcE, fun hb => by simp at hb⟩
  · intro st h; exact ⟨h.ndM, h.ndE, h.neE, h.srcE, fun _ => rfl⟩

theorem wf_foldl (fix : Bool) (as : List (Action α)) (st : St α) (h : WFst st) : WFst (as.foldl (step fix) st) := by
  induction as generalizing st with
  | nil => exact h
  | cons a t ih => exact ih _ (wf_step fix st a h)

theorem wf_run (fix : Bool) (as : List (Action α)) : WFst (run fix as) := wf_foldl fix as _ wf_init

end wf
end Cloud
end Gsd

/-! ### parked data and outstanding lookups -/
namespace Gsd
namespace Cloud
open AList
section lookups
variable {α : Type} [Add α]

/-- something (metrics or events) of source `s` is parked -/
def parked (st : St α) (s : String) : Bool :=
  (lookup s st.awaitingMetrics).isSome || (lookup s st.awaitingEvents).isSome

/-- requested and not answered: waiting to be written to the sink, or written -/
def outstanding (st : St α) : List String := st.toLookup ++ st.inFlight

/-- abstract effect of parking one item of source `src` -/
def ParkEffect (st st' : St α) (src : String) : Prop :=
  (∀ s, parked st' s = (parked st s || decide (s = src))) ∧
  st'.toLookup = (bif parked st src then st.toLookup else src :: st.toLookup) ∧ st'.inFlight = st.inFlight

theorem noMetrics_eq' (st : St α) (s : String) : noMetrics st s = !(lookup s st.awaitingMetrics).isSome := by
  unfold noMetrics; cases lookup s st.awaitingMetrics <;> rfl

theorem noEvents_eq' {st : St α} (h : WFst st) (s : String) : noEvents st s = !(lookup s st.awaitingEvents).isSome := by
  rw [noEvents_eq h]; cases lookup s st.awaitingEvents <;> rfl

theorem parkEffect_parkEnt (fix : Bool) (st : St α) (e : Ent α) (h : WFst st) : ParkEffect st (parkEnt fix st e) e.src := by
  refine ⟨?_, ?_, rfl⟩
  · intro s
    simp only [parked, parkEnt, lookup_upsert]
    by_cases hs : e.src = s
    · subst hs; simp
    · have : ¬ s = e.src := fun hh => hs hh.symm
      simp [hs, this]
  · show (if (noMetrics st e.src && noEvents st e.src) = true then e.src :: st.toLookup else st.toLookup) = _
    rw [noMetrics_eq', noEvents_eq' h]
    unfold parked
    generalize (lookup e.src st.awaitingMetrics).isSome = a
    generalize (lookup e.src st.awaitingEvents).isSome = b
    cases a <;> cases b <;> rfl

theorem parkEffect_parkEvent (fix : Bool) (st : St α) (e : Event) (h : WFst st) : ParkEffect st (parkEvent fix st e) e.src := by
  refine ⟨?_, ?_, rfl⟩
  · intro s
    simp only [parked, parkEvent, lookup_upsert]
    by_cases hs : e.src = s
    · subst hs; simp
    · have : ¬ s = e.src := fun hh => hs hh.symm
      simp [hs, this]
  · show (if (noEvents st e.src && noMetrics st e.src) = true then e.src :: st.toLookup else st.toLookup) = _
    rw [noMetrics_eq', noEvents_eq' h]
    unfold parked
    generalize (lookup e.src st.awaitingMetrics).isSome = a
    generalize (lookup e.src st.awaitingEvents).isSome = b
    cases a <;> cases b <;> rfl

theorem parked_release (st : St α) (s : String) (r : Option Inst) (h : WFst st) (s' : String) :
    parked (releaseEvents (releaseMetrics st s r) s r) s' = (parked st s' && !decide (s' = s)) := by
  have e1 : ∀ k, lookup k (releaseMetrics st s r).awaitingMetrics = if s = k then none else lookup k st.awaitingMetrics := by
    intro k
    unfold releaseMetrics
    split
    · simp [lookup_erase]
    · rename_i hnone
      split
      · rename_i hk; subst hk; exact hnone
      · rfl
  have e2 : (releaseMetrics st s r).awaitingEvents = st.awaitingEvents := by
    unfold releaseMetrics; split <;> simp
  have e3 : ∀ (st : St α), (releaseEvents st s r).awaitingMetrics = st.awaitingMetrics := by
    intro st; unfold releaseEvents; split <;> simp
  have e4 : ∀ (st : St α), WFst st → ∀ k, lookup k (releaseEvents st s r).awaitingEvents = if s = k then none else lookup k st.awaitingEvents := by
    intro st hw k
    unfold releaseEvents
    split
    · simp [lookup_erase]
    · rename_i hne
      split
      · rename_i hk; subst hk
        cases hl : lookup s st.awaitingEvents with
        | none => rfl
        | some l =>
          cases l with
          | nil => exact absurd rfl (hw.neE s [] hl)
          | cons x t => exact absurd hl (hne x t)
      · rfl
  have hw1 := wf_releaseMetrics st s r h
  simp only [parked, e3, e1, e4 _ hw1, e2]
  by_cases hs : s = s'
  · subst hs; simp
  · have : ¬ s' = s := fun hh => hs hh.symm
    simp [hs, this]

theorem release_lookup_frame (st : St α) (s : String) (r : Option Inst) :
    (releaseEvents (releaseMetrics st s r) s r).toLookup = st.toLookup ∧
    (releaseEvents (releaseMetrics st s r) s r).inFlight = st.inFlight := by
  have a : ∀ (st : St α), (releaseEvents st s r).toLookup = st.toLookup ∧ (releaseEvents st s r).inFlight = st.inFlight := by
    intro st; unfold releaseEvents; split <;> simp
  have b : (releaseMetrics st s r).toLookup = st.toLookup ∧ (releaseMetrics st s r).inFlight = st.inFlight := by
    unfold releaseMetrics; split <;> simp
  exact ⟨(a _).1.trans b.1, (a _).2.trans b.2⟩

/-- parked data always has a lookup on its way -/
def LookupInv (st : St α) : Prop := WFst st ∧ ∀ s, parked st s = true → s ∈ outstanding st

/-- exactly one lookup per source with parked data, none otherwise -/
def CountInv (st : St α) : Prop := WFst st ∧ ∀ s, (outstanding st).count s = if parked st s then 1 else 0

theorem lookupInv_of_parkEffect (st st' : St α) (src : String) (hw' : WFst st') (he : ParkEffect st st' src)
    (h : LookupInv st) : LookupInv st' := by
  refine ⟨hw', ?_⟩
  intro s hs
  obtain ⟨e1, e2, e3⟩ := he
  rw [e1] at hs
  simp only [outstanding, e2, e3]
  cases hp : parked st src
  · simp only [cond_false]
    by_cases hsrc : s = src
    · subst hsrc; simp
    · simp [hsrc] at hs
      have := h.2 s hs
      simp only [outstanding] at this
      simp only [List.cons_append, List.mem_cons]
      exact Or.inr this
  · simp only [cond_true]
    by_cases hsrc : s = src
    · subst hsrc; exact h.2 s hp
    · simp [hsrc] at hs; exact h.2 s hs

theorem countInv_of_parkEffect (st st' : St α) (src : String) (hw' : WFst st') (he : ParkEffect st st' src)
    (h : CountInv st) : CountInv st' := by
  refine ⟨hw', ?_⟩
  intro s
  obtain ⟨e1, e2, e3⟩ := he
  have hs := h.2 s
  simp only [outstanding] at hs
  simp only [outstanding, e1, e2, e3]
  cases hp : parked st src
  · simp only [cond_false, List.cons_append, List.count_cons]
    by_cases hsrc : s = src
    · subst hsrc; simp [hs, hp]
    · have : ¬ src = s := fun hh => hsrc hh.symm
      simp [hsrc, this, hs]
  · simp only [cond_true]
    by_cases hsrc : s = src
    · subst hsrc; simp [hs, hp]
    · simp [hsrc, hs]

theorem lookupInv_step (fix : Bool) (st : St α) (a : Action α) (h : LookupInv st) : LookupInv (step fix st a) := by
  refine step_preserves LookupInv fix ?_ ?_ ?_ ?_ ?_ ?_ ?_ ?_ ?_ st a h
  · intro st b pk h
    obtain ⟨e1, e2, e3, e4, _⟩ := afterHits_frame st b pk
    refine ⟨⟨by rw [e1]; exact h.1.ndM, by rw [e2]; exact h.1.ndE, by rw [e2]; exact h.1.neE, by rw [e2]; exact h.1.srcE, (afterHits_delivered st b pk h.1.heldOK).2⟩, ?_⟩
    intro s hs
    simp only [parked, e1, e2] at hs
    simp only [outstanding, e3, e4]
    exact h.2 s hs
  · intro st e h
    exact lookupInv_of_parkEffect st _ e.src ⟨nodupKeys_upsert _ _ h.1.ndM, h.1.ndE, h.1.neE, h.1.srcE, h.1.heldOK⟩ (parkEffect_parkEnt fix st e h.1) h
  · intro st _ _ d h
    refine ⟨wf_deliver _ _ ⟨h.1.ndM, h.1.ndE, h.1.neE, h.1.srcE, h.1.heldOK⟩, ?_⟩
    intro s hs
    have := h.2 s (by simpa [parked] using hs)
    simpa [outstanding] using this
  · intro st hh mm e h
    have hw : WFst ({ st with cacheHit := hh, cacheMiss := mm } : St α) := ⟨h.1.ndM, h.1.ndE, h.1.neE, h.1.srcE, h.1.heldOK⟩
    exact lookupInv_of_parkEffect _ _ e.src (wf_parkEvent fix _ e hw) (parkEffect_parkEvent fix _ e hw) ⟨hw, h.2⟩
  · intro st s rest heq h
    refine ⟨⟨h.1.ndM, h.1.ndE, h.1.neE, h.1.srcE, h.1.heldOK⟩, ?_⟩
    intro s' hs'
    have := h.2 s' hs'
    simp only [outstanding, heq] at this
    simp only [outstanding, List.mem_append, List.mem_cons] at this ⊢
    rcases this with (h1 | h1) | h1
    · exact Or.inr (Or.inl h1)
    · exact Or.inl h1
    · exact Or.inr (Or.inr h1)
  · intro st s r h
    have hw := wf_releaseEvents _ s r (wf_releaseMetrics st s r h.1)
    refine ⟨⟨hw.ndM, hw.ndE, hw.neE, hw.srcE, hw.heldOK⟩, ?_⟩
    intro s' hs'
    have hp : parked (releaseEvents (releaseMetrics st s r) s r) s' = true := hs'
    rw [parked_release st s r h.1] at hp
    simp only [Bool.and_eq_true, Bool.not_eq_true', decide_eq_false_iff_not] at hp
    have := h.2 s' hp.1
    obtain ⟨f1, f2⟩ := release_lookup_frame st s r
    simp only [outstanding, f1, f2, List.mem_append] at this ⊢
    rcases this with h1 | h1
    · exact Or.inl h1
    · exact Or.inr ((List.mem_erase_of_ne hp.2).mpr h1)
  · intro st x h; exact ⟨⟨h.1.ndM, h.1.ndE, h.1.neE, h.1.srcE, h.1.heldOK⟩, h.2⟩
  · intro st h; exact ⟨⟨h.1.ndM, h.1.ndE, h.1.neE, h.1.srcE, fun hb => by simp at hb⟩, h.2⟩
  · intro st h; exact ⟨⟨h.1.ndM, h.1.ndE, h.1.neE, h.1.srcE, fun _ => rfl⟩, h.2⟩

theorem countInv_step (fix : Bool) (st : St α) (a : Action α) (henv : EnvOK st a) (h : CountInv st) : CountInv (step fix st a) := by
  refine step_preserves_env CountInv (fun st s => s ∈ st.inFlight) fix ?_ ?_ ?_ ?_ ?_ ?_ ?_ ?_ ?_ st a ?_ h
  · intro st b pk h
    obtain ⟨e1, e2, e3, e4, _⟩ := afterHits_frame st b pk
    refine ⟨⟨by rw [e1]; exact h.1.ndM, by rw [e2]; exact h.1.ndE, by rw [e2]; exact h.1.neE, by rw [e2]; exact h.1.srcE, (afterHits_delivered st b pk h.1.heldOK).2⟩, ?_⟩
    intro s
    simp only [parked, e1, e2, outstanding, e3, e4]
    exact h.2 s
  · intro st e h
    exact countInv_of_parkEffect st _ e.src ⟨nodupKeys_upsert _ _ h.1.ndM, h.1.ndE, h.1.neE, h.1.srcE, h.1.heldOK⟩ (parkEffect_parkEnt fix st e h.1) h
  · intro st _ _ d h
    refine ⟨wf_deliver _ _ ⟨h.1.ndM, h.1.ndE, h.1.neE, h.1.srcE, h.1.heldOK⟩, ?_⟩
    intro s
    have := h.2 s
    simpa [parked, outstanding] using this
  · intro st hh mm e h
    have hw : WFst ({ st with cacheHit := hh, cacheMiss := mm } : St α) := ⟨h.1.ndM, h.1.ndE, h.1.neE, h.1.srcE, h.1.heldOK⟩
    exact countInv_of_parkEffect _ _ e.src (wf_parkEvent fix _ e hw) (parkEffect_parkEvent fix _ e hw) ⟨hw, h.2⟩
  · intro st s rest heq h
    refine ⟨⟨h.1.ndM, h.1.ndE, h.1.neE, h.1.srcE, h.1.heldOK⟩, ?_⟩
    intro s'
    have := h.2 s'
    simp only [outstanding, heq] at this
    refine Eq.trans ?_ this
    simp only [outstanding, List.count_append, List.count_cons, List.cons_append]
    omega
  · intro st s r hin h
    have hw := wf_releaseEvents _ s r (wf_releaseMetrics st s r h.1)
    refine ⟨⟨hw.ndM, hw.ndE, hw.neE, hw.srcE, hw.heldOK⟩, ?_⟩
    intro s'
    have hp : parked ({ releaseEvents (releaseMetrics st s r) s r with
        inFlight := (releaseEvents (releaseMetrics st s r) s r).inFlight.erase s } : St α) s' =
        (parked st s' && !decide (s' = s)) := parked_release st s r h.1 s'
    rw [hp]
    obtain ⟨f1, f2⟩ := release_lookup_frame st s r
    have hc := h.2 s'
    simp only [outstanding, f1, f2, List.count_append] at hc ⊢
    by_cases hs : s' = s
    · subst hs
      have hpos : 0 < st.inFlight.count s' := List.count_pos_iff.mpr hin
      have : (st.inFlight.erase s').count s' = st.inFlight.count s' - 1 := by
        simp [List.count_erase_self]
      simp only [decide_true, Bool.not_true, Bool.and_false, Bool.false_eq_true, if_false, this]
      split at hc <;> omega
    · have : (st.inFlight.erase s).count s' = st.inFlight.count s' := List.count_erase_of_ne hs
      simp [hs, this, hc]
  · intro st x h; exact ⟨⟨h.1.ndM, h.1.ndE, h.1.neE, h.1.srcE, h.1.heldOK⟩, h.2⟩
  · intro st h; exact ⟨⟨h.1.ndM, h.1.ndE, h.1.neE, h.1.srcE, fun hb => by simp at hb⟩, h.2⟩
  · intro st h; exact ⟨⟨h.1.ndM, h.1.ndE, h.1.neE, h.1.srcE, fun _ => rfl⟩, h.2⟩
  · intro s r ha
    subst ha
    exact henv

end lookups
end Cloud
end Gsd

/-! ### gauges of the repaired bookkeeping -/
namespace Gsd
namespace Cloud
open AList
section gauges
variable {α : Type} [Add α]

def GaugeInv (st : St α) : Prop :=
  WFst st ∧ st.metricHosts = (hostsWithMetrics st : Int) ∧ st.eventHosts = (hostsWithEvents st : Int) ∧
  st.eventItems = ((parkedEvents st).length : Int)

theorem gaugeInv_parkEnt (st : St α) (e : Ent α) (h : GaugeInv st) : GaugeInv (parkEnt true st e) := by
  obtain ⟨hw, h1, h2, h3⟩ := h
  refine ⟨⟨nodupKeys_upsert _ _ hw.ndM, hw.ndE, hw.neE, hw.srcE, hw.heldOK⟩, ?_, h2, h3⟩
  show (if (noMetrics st e.src && (noEvents st e.src || true)) = true then st.metricHosts + 1 else st.metricHosts) =
    ((AList.upsert e.src (fun o => e.addTo (o.getD MM.empty)) st.awaitingMetrics).length : Int)
  rw [length_upsert, noMetrics_eq', h1]
  simp only [hostsWithMetrics, Bool.or_true, Bool.and_true]
  cases (lookup e.src st.awaitingMetrics).isSome <;> simp

theorem gaugeInv_parkEvent (st : St α) (e : Event) (h : GaugeInv st) : GaugeInv (parkEvent true st e) := by
  obtain ⟨hw, h1, h2, h3⟩ := h
  refine ⟨wf_parkEvent true st e hw, h1, ?_, ?_⟩
  · show (if (noEvents st e.src && (noMetrics st e.src || true)) = true then st.eventHosts + 1 else st.eventHosts) =
      ((AList.upsert e.src (fun o => o.getD [] ++ [e]) st.awaitingEvents).length : Int)
    rw [length_upsert, noEvents_eq' hw, h2]
    simp only [hostsWithEvents, Bool.or_true, Bool.and_true]
    cases (lookup e.src st.awaitingEvents).isSome <;> simp
  · show st.eventItems + 1 = (((AList.upsert e.src (fun o => o.getD [] ++ [e]) st.awaitingEvents).flatMap (·.2)).length : Int)
    rw [(flatMap_upsert_append e.src e st.awaitingEvents).length_eq, h3]
    simp [parkedEvents]

theorem gaugeInv_deliver (st : St α) (ds : List (Delivery α)) (h : GaugeInv st) : GaugeInv (deliver st ds) := by
  obtain ⟨hw, h1, h2, h3⟩ := h
  exact ⟨wf_deliver st ds hw, by simpa [hostsWithMetrics] using h1, by simpa [hostsWithEvents] using h2,
    by simpa [parkedEvents] using h3⟩

theorem gaugeInv_releaseMetrics (st : St α) (s : String) (r : Option Inst) (h : GaugeInv st) :
    GaugeInv (releaseMetrics st s r) := by
  obtain ⟨hw, h1, h2, h3⟩ := h
  unfold releaseMetrics
  split
  · rename_i m hm
    apply gaugeInv_deliver
    refine ⟨⟨nodupKeys_erase _ hw.ndM, hw.ndE, hw.neE, hw.srcE, hw.heldOK⟩, ?_, h2, h3⟩
    have := length_erase_of_lookup hw.ndM hm
    simp only [hostsWithMetrics] at h1 ⊢
    omega
  · exact ⟨hw, h1, h2, h3⟩

theorem gaugeInv_releaseEvents (st : St α) (s : String) (r : Option Inst) (h : GaugeInv st) :
    GaugeInv (releaseEvents st s r) := by
  obtain ⟨hw, h1, h2, h3⟩ := h
  have hw' := wf_releaseEvents st s r hw
  unfold releaseEvents at hw' ⊢
  split
  · rename_i e es hm
    apply gaugeInv_deliver
    simp only [hm] at hw'
    refine ⟨⟨hw.ndM, nodupKeys_erase _ hw.ndE, ?_, ?_, hw.heldOK⟩, h1, ?_, ?_⟩
    · intro s' l hl
      have := hw'.neE s' l (by simpa using hl)
      exact this
    · intro s' l hl
      have := hw'.srcE s' l (by simpa using hl)
      exact this
    · have := length_erase_of_lookup hw.ndE hm
      simp only [hostsWithEvents] at h2 ⊢
      omega
    · have := (flatMap_erase hw.ndE hm).length_eq
      simp only [parkedEvents, List.length_append, List.length_cons] at h3 this ⊢
      omega
  · exact ⟨hw, h1, h2, h3⟩

theorem gaugeInv_step (st : St α) (a : Action α) (h : GaugeInv st) : GaugeInv (step true st a) := by
  refine step_preserves GaugeInv true ?_ ?_ ?_ ?_ ?_ ?_ ?_ ?_ ?_ st a h
  · intro st b pk h
    obtain ⟨e1, e2, _, _, e5, e6, e7⟩ := afterHits_frame st b pk
    obtain ⟨hw, h1, h2, h3⟩ := h
    refine ⟨⟨by rw [e1]; exact hw.ndM, by rw [e2]; exact hw.ndE, by rw [e2]; exact hw.neE, by rw [e2]; exact hw.srcE, (afterHits_delivered st b pk hw.heldOK).2⟩, ?_, ?_, ?_⟩
    · simpa [hostsWithMetrics, e1, e5] using h1
    · simpa [hostsWithEvents, e2, e6] using h2
    · simpa [parkedEvents, e2, e7] using h3
  · intro st e h; exact gaugeInv_parkEnt st e h
  · intro st _ _ d h; exact gaugeInv_deliver _ _ ⟨⟨h.1.ndM, h.1.ndE, h.1.neE, h.1.srcE, h.1.heldOK⟩, h.2⟩
  · intro st hh mm e h
    exact gaugeInv_parkEvent _ e ⟨⟨h.1.ndM, h.1.ndE, h.1.neE, h.1.srcE, h.1.heldOK⟩, h.2⟩
  · intro st s rest _ h; exact ⟨⟨h.1.ndM, h.1.ndE, h.1.neE, h.1.srcE, h.1.heldOK⟩, h.2⟩
  · intro st s r h
    have := gaugeInv_releaseEvents _ s r (gaugeInv_releaseMetrics st s r h)
    exact ⟨⟨this.1.ndM, this.1.ndE, this.1.neE, this.1.srcE, this.1.heldOK⟩, this.2⟩
  · intro st x h; exact ⟨⟨h.1.ndM, h.1.ndE, h.1.neE, h.1.srcE, h.1.heldOK⟩, h.2⟩
  · intro st h; exact ⟨⟨h.1.ndM, h.1.ndE, h.1.neE, h.1.srcE, fun hb => by simp at hb⟩, h.2⟩
  · intro st h; exact ⟨⟨h.1.ndM, h.1.ndE, h.1.neE, h.1.srcE, fun _ => rfl⟩, h.2⟩

end gauges
end Cloud
end Gsd

/-! ### the ledger: what arrived = what was delivered ⊎ what is parked -/
namespace Gsd
namespace Cloud
open AList
section ledger
variable {α : Type}

/-- the events handed to `DispatchEvent`, in order -/
def arrivedEvents (as : List (Action α)) : List Event :=
  as.filterMap (fun a => match a with | .arriveEvent e _ => some e | _ => none)

/-- the map entries handed to `DispatchMetricMap`, batch after batch -/
def arrivedEntries (as : List (Action α)) : List (Ent α) :=
  as.flatMap (fun a => match a with | .arriveMetrics b _ => entries b | _ => [])

/-- the events the stage has handed to downstream (taken, or stuck in front of a blocked downstream), in order -/
def deliveredEvents (st : St α) : List Event :=
  (outbound st).filterMap (fun d => match d with | .event e => some e | _ => none)

/-- the metric maps the stage has handed to downstream, in order -/
def deliveredMaps (st : St α) : List (MM α) :=
  (outbound st).filterMap (fun d => match d with | .metrics m => some m | _ => none)

theorem deliveredEvents_deliver [Add α] (st : St α) (ds : List (Delivery α)) (hh : st.blocked = false → st.held = []) :
    deliveredEvents (deliver st ds) = deliveredEvents st ++ ds.filterMap (fun d => match d with | .event e => some e | _ => none) := by
  unfold deliveredEvents; rw [outbound_deliver st ds hh, List.filterMap_append]

theorem deliveredMaps_deliver [Add α] (st : St α) (ds : List (Delivery α)) (hh : st.blocked = false → st.held = []) :
    deliveredMaps (deliver st ds) = deliveredMaps st ++ ds.filterMap (fun d => match d with | .metrics m => some m | _ => none) := by
  unfold deliveredMaps; rw [outbound_deliver st ds hh, List.filterMap_append]

/-- why a delivered event `(original, instance applied)` was delivered that way: it arrived while the
cache answered `some i` for its source, or the lookup of its source completed with `i` -/
def JustE (as : List (Action α)) (p : Event × Option Inst) : Prop :=
  (∃ pk, Action.arriveEvent p.1 pk ∈ as ∧ cacheView pk p.1.src = some p.2) ∨ (Action.info p.1.src p.2 ∈ as)

/-- ghost record of one delivered metric map: the arrived entries it accounts for, the instance applied per
source, and — for a release — the parked map that was re-keyed -/
structure MRec (α : Type) where
  ents : List (Ent α)
  f : String → Option Inst
  mid : Option (MM α)

variable [AddCommMonoid α]

/-- the delivered map of a record -/
def MRec.out (r : MRec α) : MM α :=
  match r.mid with
  | none => rekeyEntries r.f r.ents
  | some m => rekeyEntries r.f (entries m)

/-- a released parked map aggregates (C07) exactly the arrived entries it accounts for -/
def MRec.Sound (r : MRec α) : Prop :=
  match r.mid with
  | none => True
  | some m => AggMM m (r.ents.map Ent.single)

def JustM (as : List (Action α)) (r : MRec α) : Prop :=
  (∃ b pk, Action.arriveMetrics b pk ∈ as ∧ r.f = instOf pk ∧ r.mid = none ∧
      r.ents = (entries b).filter (fun e => isHit pk e.src)) ∨
  (∃ s i, Action.info s i ∈ as ∧ r.f = (fun _ => i) ∧ r.mid.isSome = true ∧ ∀ e ∈ r.ents, e.src = s)

/-- the parked map of `s` aggregates the ghost list of entries parked for `s` -/
def Link (om : Option (MM α)) (oe : Option (List (Ent α))) (s : String) : Prop :=
  match om, oe with
  | none, none => True
  | some m, some es => AggMM m (es.map Ent.single) ∧ ∀ e ∈ es, e.src = s
  | _, _ => False

def MLink (st : St α) (pend : AList String (List (Ent α))) : Prop :=
  NodupKeys pend ∧ ∀ s, Link (lookup s st.awaitingMetrics) (lookup s pend) s

theorem mlink_parkEnt (fix : Bool) (st : St α) (pend : AList String (List (Ent α))) (e : Ent α) (h : MLink st pend) :
    MLink (parkEnt fix st e) (AList.upsert e.src (fun o => o.getD [] ++ [e]) pend) := by
  refine ⟨nodupKeys_upsert _ _ h.1, ?_⟩
  intro s
  have hs := h.2 s
  show Link (lookup s (AList.upsert e.src (fun o => e.addTo (o.getD MM.empty)) st.awaitingMetrics)) _ s
  rw [lookup_upsert, lookup_upsert]
  by_cases hk : e.src = s
  · subst hk
    simp only [if_true]
    cases hm : lookup e.src st.awaitingMetrics <;> cases hp : lookup e.src pend <;> simp only [hm, hp, Link] at hs ⊢
    · refine ⟨?_, by simp⟩
      simpa using aggMM_addTo e MM.empty [] aggMM_empty
    · refine ⟨?_, ?_⟩
      · simpa using aggMM_addTo e _ _ hs.1
      · intro x hx
        simp only [Option.getD_some, List.mem_append, List.mem_singleton] at hx
        rcases hx with hx | hx
        · exact hs.2 x hx
        · rw [hx]
  · simp only [hk, if_false]; exact hs

theorem mlink_foldl (fix : Bool) (es : List (Ent α)) (st : St α) (pend : AList String (List (Ent α))) (h : MLink st pend) :
    ∃ pend', MLink (es.foldl (parkEnt fix) st) pend' ∧ (pend'.flatMap (·.2)).Perm (pend.flatMap (·.2) ++ es) := by
  induction es generalizing st pend with
  | nil => exact ⟨pend, h, by simp⟩
  | cons e t ih =>
    obtain ⟨pend', h1, h2⟩ := ih _ _ (mlink_parkEnt fix st pend e h)
    refine ⟨pend', h1, h2.trans ?_⟩
    have := flatMap_upsert_append e.src e pend
    simpa [List.append_assoc] using List.Perm.append_right t this

/-- events half of the ledger: `origE` = (original event, instance applied) of every delivered event in
order; `X` = the arrived events; `J` = the justification every delivered pair must have -/
def EvOK (origE : List (Event × Option Inst)) (X : List Event) (J : Event × Option Inst → Prop) (st : St α) : Prop :=
  deliveredEvents st = origE.map (fun p => enrichEvent p.2 p.1) ∧
  (origE.map Prod.fst ++ parkedEvents st).Perm X ∧ ∀ p ∈ origE, J p

/-- metrics half of the ledger: `recs` = one record per delivered map in order, `pend` = the arrived
entries parked per source, `X` = the arrived entries -/
def MetOK (pend : AList String (List (Ent α))) (recs : List (MRec α)) (X : List (Ent α)) (J : MRec α → Prop)
    (st : St α) : Prop :=
  MLink st pend ∧ deliveredMaps st = recs.map MRec.out ∧ (∀ r ∈ recs, r.Sound ∧ J r) ∧
  (recs.flatMap (·.ents) ++ pend.flatMap (·.2)).Perm X

theorem evOK_congr {origE X J} {st st' : St α} (h1 : deliveredEvents st' = deliveredEvents st)
    (h2 : st'.awaitingEvents = st.awaitingEvents) (h : EvOK origE X J st) : EvOK origE X J st' := by
  obtain ⟨a, b, c⟩ := h
  exact ⟨h1.trans a, by simpa [parkedEvents, h2] using b, c⟩

theorem metOK_congr {pend recs X J} {st st' : St α} (h1 : deliveredMaps st' = deliveredMaps st)
    (h2 : st'.awaitingMetrics = st.awaitingMetrics) (h : MetOK pend recs X J st) : MetOK pend recs X J st' := by
  obtain ⟨a, b, c, d⟩ := h
  refine ⟨⟨a.1, fun s => ?_⟩, h1.trans b, c, d⟩
  rw [h2]; exact a.2 s

theorem evOK_mono {origE X} {J J' : Event × Option Inst → Prop} {st : St α} (hJ : ∀ p, J p → J' p)
    (h : EvOK origE X J st) : EvOK origE X J' st := ⟨h.1, h.2.1, fun p hp => hJ p (h.2.2 p hp)⟩

theorem metOK_mono {pend recs X} {J J' : MRec α → Prop} {st : St α} (hJ : ∀ r, J r → J' r)
    (h : MetOK pend recs X J st) : MetOK pend recs X J' st :=
  ⟨h.1, h.2.1, fun r hr => ⟨(h.2.2.1 r hr).1, hJ r (h.2.2.1 r hr).2⟩, h.2.2.2⟩

theorem perm_ledger {β : Type} {A P P' H M X E : List β} (h1 : (A ++ P).Perm X) (h2 : P'.Perm (P ++ M))
    (h3 : (H ++ M).Perm E) : ((A ++ H) ++ P').Perm (X ++ E) := by
  refine (List.Perm.append_left _ h2).trans ?_
  rw [List.append_assoc]
  refine (List.Perm.append_left A (List.perm_append_comm_assoc H P M)).trans ?_
  rw [← List.append_assoc]
  exact List.Perm.append h1 h3

/-- `DispatchMetricMap`: hits are one new record, misses go to the ghost parking table -/
theorem metOK_arriveMetrics (fix : Bool) {pend recs X J} (st : St α) (b : MM α) (pk : Peek)
    (hJ : J ⟨(entries b).filter (fun e => isHit pk e.src), instOf pk, none⟩)
    (hh : st.blocked = false → st.held = []) (h : MetOK pend recs X J st) :
    ∃ pend' recs', MetOK pend' recs' (X ++ entries b) J (step fix st (.arriveMetrics b pk)) := by
  obtain ⟨hl, hd, hr, hp⟩ := h
  rw [step_arriveMetrics]
  obtain ⟨e1, _⟩ := afterHits_frame st b pk
  have hl1 : MLink (afterHits st b pk) pend := ⟨hl.1, fun s => by rw [e1]; exact hl.2 s⟩
  obtain ⟨pend', hl', hperm⟩ := mlink_foldl fix ((entries b).filter (fun e => !isHit pk e.src)) _ pend hl1
  have hdel : deliveredMaps (((entries b).filter (fun e => !isHit pk e.src)).foldl (parkEnt fix) (afterHits st b pk)) =
      deliveredMaps st ++ (if ((entries b).filter (fun e => isHit pk e.src)).isEmpty then []
        else [rekeyEntries (instOf pk) ((entries b).filter (fun e => isHit pk e.src))]) := by
    unfold deliveredMaps outbound
    rw [(foldl_parkEnt_frame fix _ _).1, (foldl_parkEnt_frame fix _ _).2.2.2.2.2.1]
    have := (afterHits_delivered st b pk hh).1
    unfold outbound at this
    rw [this, List.filterMap_append]
    split <;> simp
  have hpart : ((entries b).filter (fun e => isHit pk e.src) ++ (entries b).filter (fun e => !isHit pk e.src)).Perm (entries b) :=
    List.filter_append_perm _ _
  cases hh : ((entries b).filter (fun e => isHit pk e.src)).isEmpty
  · refine ⟨pend', recs ++ [⟨(entries b).filter (fun e => isHit pk e.src), instOf pk, none⟩], hl', ?_, ?_, ?_⟩
    · rw [hdel, hd]; simp [hh, MRec.out]
    · intro r hr'
      simp only [List.mem_append, List.mem_singleton] at hr'
      rcases hr' with hr' | hr'
      · exact hr r hr'
      · subst hr'; exact ⟨trivial, hJ⟩
    · simp only [List.flatMap_append, List.flatMap_cons, List.flatMap_nil, List.append_nil]
      exact perm_ledger hp hperm hpart
  · refine ⟨pend', recs, hl', ?_, hr, ?_⟩
    · rw [hdel, hd]; simp [hh]
    · have hnil : (entries b).filter (fun e => isHit pk e.src) = [] := by simpa using hh
      rw [hnil] at hpart
      have := perm_ledger (H := []) hp hperm hpart
      simpa using this

/-- `handleInstanceInfo`, metric half: the parked map of `s` becomes one new record -/
theorem metOK_releaseMetrics {pend recs X J} (st : St α) (s : String) (r : Option Inst)
    (hJ : ∀ (es : List (Ent α)) m, (∀ e ∈ es, e.src = s) → J ⟨es, fun _ => r, some m⟩)
    (hh : st.blocked = false → st.held = []) (h : MetOK pend recs X J st) :
    ∃ pend' recs', MetOK pend' recs' X J (releaseMetrics st s r) := by
  obtain ⟨hl, hd, hr, hp⟩ := h
  unfold releaseMetrics
  have hs := hl.2 s
  cases hm : lookup s st.awaitingMetrics with
  | none => exact ⟨pend, recs, hl, hd, hr, hp⟩
  | some m =>
    cases hq : lookup s pend with
    | none => simp [hm, hq, Link] at hs
    | some es =>
      simp only [hm, hq, Link] at hs
      refine ⟨AList.erase s pend, recs ++ [⟨es, fun _ => r, some m⟩], ⟨nodupKeys_erase _ hl.1, ?_⟩, ?_, ?_, ?_⟩
      · intro s'
        simp only [deliver_awaitingMetrics]
        rw [lookup_erase, lookup_erase]
        split
        · trivial
        · exact hl.2 s'
      · simp only
        rw [deliveredMaps_deliver ({ st with awaitingMetrics := AList.erase s st.awaitingMetrics, metricHosts := st.metricHosts - 1 } : St α) _ hh]
        have hd' : deliveredMaps ({ st with awaitingMetrics := AList.erase s st.awaitingMetrics, metricHosts := st.metricHosts - 1 } : St α) = deliveredMaps st := rfl
        rw [hd', hd]
        simp [MRec.out]
      · intro r' hr'
        simp only [List.mem_append, List.mem_singleton] at hr'
        rcases hr' with hr' | hr'
        · exact hr r' hr'
        · subst hr'; exact ⟨hs.1, hJ es m hs.2⟩
      · simp only [List.flatMap_append, List.flatMap_cons, List.flatMap_nil, List.append_nil]
        have := flatMap_erase hl.1 hq
        refine List.Perm.trans ?_ hp
        rw [List.append_assoc]
        exact List.Perm.append_left _ this.symm

theorem releaseMetrics_frame (st : St α) (s : String) (r : Option Inst) (hh : st.blocked = false → st.held = []) :
    (releaseMetrics st s r).awaitingEvents = st.awaitingEvents ∧ deliveredEvents (releaseMetrics st s r) = deliveredEvents st := by
  unfold releaseMetrics
  split
  · refine ⟨by simp, ?_⟩
    rw [deliveredEvents_deliver ({ st with awaitingMetrics := AList.erase s st.awaitingMetrics, metricHosts := st.metricHosts - 1 } : St α) _ hh]
    have hd' : ∀ (a : AList String (MM α)) (n : Int), deliveredEvents ({ st with awaitingMetrics := a, metricHosts := n } : St α) = deliveredEvents st :=
      fun _ _ => rfl
    rw [hd']; simp
  · exact ⟨rfl, rfl⟩

theorem releaseEvents_frame (st : St α) (s : String) (r : Option Inst) (hh : st.blocked = false → st.held = []) :
    (releaseEvents st s r).awaitingMetrics = st.awaitingMetrics ∧ deliveredMaps (releaseEvents st s r) = deliveredMaps st := by
  unfold releaseEvents
  split
  · rename_i e es hm
    refine ⟨by simp, ?_⟩
    rw [deliveredMaps_deliver ({ st with awaitingEvents := AList.erase s st.awaitingEvents, eventItems := st.eventItems - ((e :: es).length : Int), eventHosts := st.eventHosts - 1 } : St α) _ hh]
    have hd' : ∀ (a : AList String (List Event)) (n k : Int), deliveredMaps ({ st with awaitingEvents := a, eventItems := n, eventHosts := k } : St α) = deliveredMaps st :=
      fun _ _ _ => rfl
    rw [hd', List.filterMap_map]
    simp
  · exact ⟨rfl, rfl⟩

/-- `handleInstanceInfo`, event half: the parked events of `s` are delivered in order, enriched with `r` -/
theorem evOK_releaseEvents {origE X J} (st : St α) (s : String) (r : Option Inst) (hw : WFst st)
    (hJ : ∀ e : Event, e.src = s → J (e, r)) (h : EvOK origE X J st) :
    ∃ origE', EvOK origE' X J (releaseEvents st s r) := by
  obtain ⟨hd, hp, hj⟩ := h
  unfold releaseEvents
  split
  · rename_i e es hm
    refine ⟨origE ++ (e :: es).map (fun x => (x, r)), ?_, ?_, ?_⟩
    · rw [deliveredEvents_deliver ({ st with awaitingEvents := AList.erase s st.awaitingEvents, eventItems := st.eventItems - ((e :: es).length : Int), eventHosts := st.eventHosts - 1 } : St α) _ hw.heldOK]
      have hd' : ∀ (a : AList String (List Event)) (n k : Int), deliveredEvents ({ st with awaitingEvents := a, eventItems := n, eventHosts := k } : St α) = deliveredEvents st :=
        fun _ _ _ => rfl
      rw [hd', hd, List.filterMap_map]
      simp [List.map_append, Function.comp_def]
    · have := flatMap_erase hw.ndE hm
      refine List.Perm.trans ?_ hp
      simp only [parkedEvents, deliver_awaitingEvents, List.map_append, List.map_map, Function.comp_def, List.map_id', List.append_assoc]
      exact List.Perm.append_left _ this.symm
    · intro p hp'
      simp only [List.mem_append, List.mem_map] at hp'
      rcases hp' with hp' | ⟨x, hx, rfl⟩
      · exact hj p hp'
      · exact hJ x (hw.srcE s _ hm x hx)
  · exact ⟨origE, hd, hp, hj⟩

/-- `handleIncomingEvent` / the hit branch of `DispatchEvent` -/
theorem evOK_arriveEvent (fix : Bool) {origE X J} (st : St α) (e : Event) (pk : Peek)
    (hJ : ∀ i, cacheView pk e.src = some i → J (e, i)) (hh : st.blocked = false → st.held = []) (h : EvOK origE X J st) :
    ∃ origE', EvOK origE' (X ++ [e]) J (step fix st (.arriveEvent e pk)) := by
  obtain ⟨hd, hp, hj⟩ := h
  simp only [step]
  split
  · rename_i i hi
    refine ⟨origE ++ [(e, i)], ?_, ?_, ?_⟩
    · rw [deliveredEvents_deliver ({ st with cacheHit := st.cacheHit + (countQueries pk [e.src]).1, cacheMiss := st.cacheMiss + (countQueries pk [e.src]).2 } : St α) _ hh]
      have hd' : ∀ (a b : Nat), deliveredEvents ({ st with cacheHit := a, cacheMiss := b } : St α) = deliveredEvents st := fun _ _ => rfl
      rw [hd', hd]; simp
    · simp only [parkedEvents, deliver_awaitingEvents, List.map_append, List.map_cons, List.map_nil, List.append_assoc]
      refine List.Perm.trans ?_ (List.Perm.append_right [e] hp)
      rw [List.append_assoc]
      exact List.Perm.append_left _ List.perm_append_comm
    · intro p hp'
      simp only [List.mem_append, List.mem_singleton] at hp'
      rcases hp' with hp' | rfl
      · exact hj p hp'
      · exact hJ i hi
  · refine ⟨origE, hd, ?_, hj⟩
    have := flatMap_upsert_append e.src e st.awaitingEvents
    show (origE.map Prod.fst ++ (AList.upsert e.src (fun o => o.getD [] ++ [e]) st.awaitingEvents).flatMap (·.2)).Perm _
    refine (List.Perm.append_left _ this).trans ?_
    rw [← List.append_assoc]
    exact List.Perm.append_right _ hp

/-- ghost state of the ledger -/
structure Ghost (α : Type) where
  origE : List (Event × Option Inst)
  pend : AList String (List (Ent α))
  recs : List (MRec α)

def Ghost.OK (g : Ghost α) (as : List (Action α)) (st : St α) : Prop :=
  WFst st ∧ EvOK g.origE (arrivedEvents as) (JustE as) st ∧ MetOK g.pend g.recs (arrivedEntries as) (JustM as) st

theorem justE_mono (as : List (Action α)) (a : Action α) (p : Event × Option Inst) (h : JustE as p) : JustE (as ++ [a]) p := by
  rcases h with ⟨pk, h1, h2⟩ | h
  · exact Or.inl ⟨pk, List.mem_append_left _ h1, h2⟩
  · exact Or.inr (List.mem_append_left _ h)

theorem justM_mono (as : List (Action α)) (a : Action α) (r : MRec α) (h : JustM as r) : JustM (as ++ [a]) r := by
  rcases h with ⟨b, pk, h1, h2⟩ | ⟨s, i, h1, h2⟩
  · exact Or.inl ⟨b, pk, List.mem_append_left _ h1, h2⟩
  · exact Or.inr ⟨s, i, List.mem_append_left _ h1, h2⟩

theorem ghost_init : (⟨[], [], []⟩ : Ghost α).OK [] (init : St α) := by
  refine ⟨wf_init, ⟨rfl, by simp [parkedEvents, init, arrivedEvents], by simp⟩, ⟨⟨List.nodup_nil, ?_⟩, rfl, by simp, by simp [arrivedEntries]⟩⟩
  intro s; simp [init, Link]

theorem ghost_step (fix : Bool) (g : Ghost α) (as : List (Action α)) (st : St α) (a : Action α) (h : g.OK as st) :
    ∃ g' : Ghost α, g'.OK (as ++ [a]) (step fix st a) := by
  obtain ⟨hw, hE, hM⟩ := h
  have hw' := wf_step fix st a hw
  have hE0 := evOK_mono (J' := JustE (as ++ [a])) (justE_mono as a) hE
  have hM0 := metOK_mono (J' := JustM (as ++ [a])) (justM_mono as a) hM
  cases a with
  | arriveMetrics b pk =>
    obtain ⟨pend', recs', hM'⟩ := metOK_arriveMetrics fix st b pk
      (Or.inl ⟨b, pk, by simp, rfl, rfl, rfl⟩) hw.heldOK hM0
    refine ⟨⟨g.origE, pend', recs'⟩, hw', ?_, ?_⟩
    · have hX : arrivedEvents (as ++ [Action.arriveMetrics b pk]) = arrivedEvents as := by simp [arrivedEvents, List.filterMap_append]
      rw [hX]
      refine evOK_congr ?_ ?_ hE0
      · rw [step_arriveMetrics]
        unfold deliveredEvents outbound
        rw [(foldl_parkEnt_frame fix _ _).1, (foldl_parkEnt_frame fix _ _).2.2.2.2.2.1]
        have := (afterHits_delivered st b pk hw.heldOK).1
        unfold outbound at this
        rw [this, List.filterMap_append]
        split <;> simp
      · rw [step_arriveMetrics, (foldl_parkEnt_frame fix _ _).2.1]
        exact (afterHits_frame st b pk).2.1
    · have hX : arrivedEntries (as ++ [Action.arriveMetrics b pk]) = arrivedEntries as ++ entries b := by simp [arrivedEntries, List.flatMap_append]
      rw [hX]; exact hM'
  | arriveEvent e pk =>
    obtain ⟨origE', hE'⟩ := evOK_arriveEvent fix st e pk
      (fun i hi => Or.inl ⟨pk, by simp, hi⟩) hw.heldOK hE0
    refine ⟨⟨origE', g.pend, g.recs⟩, hw', ?_, ?_⟩
    · have hX : arrivedEvents (as ++ [Action.arriveEvent e pk]) = arrivedEvents as ++ [e] := by simp [arrivedEvents, List.filterMap_append]
      rw [hX]; exact hE'
    · have hX : arrivedEntries (as ++ [Action.arriveEvent e pk]) = arrivedEntries as := by simp [arrivedEntries, List.flatMap_append]
      rw [hX]
      refine metOK_congr ?_ ?_ hM0
      · simp only [step]
        split
        · rw [deliveredMaps_deliver ({ st with cacheHit := st.cacheHit + (countQueries pk [e.src]).1, cacheMiss := st.cacheMiss + (countQueries pk [e.src]).2 } : St α) _ hw.heldOK]
          simp [deliveredMaps, outbound]
        · rfl
      · simp only [step]; split <;> simp [parkEvent]
  | sendLookup =>
    refine ⟨g, hw', ?_, ?_⟩
    · have hX : arrivedEvents (as ++ [Action.sendLookup]) = arrivedEvents as := by simp [arrivedEvents, List.filterMap_append]
      rw [hX]
      refine evOK_congr ?_ ?_ hE0 <;> (simp only [step]; split <;> rfl)
    · have hX : arrivedEntries (as ++ [Action.sendLookup]) = arrivedEntries as := by simp [arrivedEntries, List.flatMap_append]
      rw [hX]
      refine metOK_congr ?_ ?_ hM0 <;> (simp only [step]; split <;> rfl)
  | info s r =>
    have hXe : arrivedEvents (as ++ [Action.info s r]) = arrivedEvents as := by simp [arrivedEvents, List.filterMap_append]
    have hXm : arrivedEntries (as ++ [Action.info s r]) = arrivedEntries as := by simp [arrivedEntries, List.flatMap_append]
    obtain ⟨pend', recs', hM1⟩ := metOK_releaseMetrics st s r
      (fun es m hs => Or.inr ⟨s, r, by simp, rfl, rfl, hs⟩) hw.heldOK hM0
    have hE1 : EvOK g.origE (arrivedEvents as) (JustE (as ++ [Action.info s r])) (releaseMetrics st s r) :=
      evOK_congr (releaseMetrics_frame st s r hw.heldOK).2 (releaseMetrics_frame st s r hw.heldOK).1 hE0
    obtain ⟨origE', hE2⟩ := evOK_releaseEvents (releaseMetrics st s r) s r (wf_releaseMetrics st s r hw)
      (fun e he => Or.inr (by rw [he]; simp)) hE1
    have hM2 : MetOK pend' recs' (arrivedEntries as) (JustM (as ++ [Action.info s r])) (releaseEvents (releaseMetrics st s r) s r) :=
      metOK_congr (releaseEvents_frame _ s r (wf_releaseMetrics st s r hw).heldOK).2 (releaseEvents_frame _ s r (wf_releaseMetrics st s r hw).heldOK).1 hM1
    refine ⟨⟨origE', pend', recs'⟩, hw', ?_, ?_⟩
    · rw [hXe]; exact evOK_congr rfl rfl hE2
    · rw [hXm]; exact metOK_congr rfl rfl hM2
  | emit =>
    refine ⟨g, hw', ?_, ?_⟩
    · have hX : arrivedEvents (as ++ [Action.emit]) = arrivedEvents as := by simp [arrivedEvents, List.filterMap_append]
      rw [hX]; exact evOK_congr rfl rfl hE0
    · have hX : arrivedEntries (as ++ [Action.emit]) = arrivedEntries as := by simp [arrivedEntries, List.flatMap_append]
      rw [hX]; exact metOK_congr rfl rfl hM0
  | block =>
    refine ⟨g, hw', ?_, ?_⟩
    · have hX : arrivedEvents (as ++ [Action.block]) = arrivedEvents as := by simp [arrivedEvents, List.filterMap_append]
      rw [hX]; exact evOK_congr rfl rfl hE0
    · have hX : arrivedEntries (as ++ [Action.block]) = arrivedEntries as := by simp [arrivedEntries, List.flatMap_append]
      rw [hX]; exact metOK_congr rfl rfl hM0
  | unblock =>
    refine ⟨g, hw', ?_, ?_⟩
    · have hX : arrivedEvents (as ++ [Action.unblock]) = arrivedEvents as := by simp [arrivedEvents, List.filterMap_append]
      rw [hX]; exact evOK_congr (st := st) (st' := step fix st .unblock) (by simp [deliveredEvents, outbound, step]) rfl hE0
    · have hX : arrivedEntries (as ++ [Action.unblock]) = arrivedEntries as := by simp [arrivedEntries, List.flatMap_append]
      rw [hX]; exact metOK_congr (st := st) (st' := step fix st .unblock) (by simp [deliveredMaps, outbound, step]) rfl hM0

theorem ghost_run (fix : Bool) (as : List (Action α)) : ∃ g : Ghost α, g.OK as (run fix as) := by
  have key : ∀ (as pre : List (Action α)) (st : St α) (g : Ghost α), g.OK pre st →
      ∃ g' : Ghost α, g'.OK (pre ++ as) (as.foldl (step fix) st) := by
    intro as
    induction as with
    | nil => intro pre st g h; exact ⟨g, by simpa using h⟩
    | cons a t ih =>
      intro pre st g h
      obtain ⟨g1, h1⟩ := ghost_step fix g pre st a h
      obtain ⟨g2, h2⟩ := ih (pre ++ [a]) _ g1 h1
      exact ⟨g2, by simpa [List.append_assoc] using h2⟩
  simpa [run] using key as [] init _ ghost_init

end ledger
end Cloud
end Gsd

/-! ### `sort.Strings` is a permutation -/
namespace Gsd
namespace Cloud

theorem insertSorted_perm (a : String) (l : List String) : (insertSorted a l).Perm (a :: l) := by
  induction l with
  | nil => simp [insertSorted]
  | cons b t ih =>
    simp only [insertSorted]
    split
    · exact List.Perm.refl _
    · exact (List.Perm.cons b ih).trans (List.Perm.swap a b t)

theorem sortTags_perm (l : List String) : (sortTags l).Perm l := by
  induction l with
  | nil => simp [sortTags]
  | cons a t ih =>
    simp only [sortTags, List.foldr_cons] at ih ⊢
    exact (insertSorted_perm a _).trans (List.Perm.cons a ih)

end Cloud
end Gsd
