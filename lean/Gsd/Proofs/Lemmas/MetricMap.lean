import Gsd.Model.MetricMap
import Gsd.Proofs.Lemmas.AList
/-! Helper lemmas for the content algebra of metric maps (core-only). -/
set_option linter.unusedSimpArgs false
set_option linter.unusedSectionVars false
namespace Gsd
open AList

/-- combination of two optional entries: the shape of every `MergeX` -/
def optComb {ν} (f : ν → ν → ν) : Option ν → Option ν → Option ν
  | some x, some y => some (f x y)
  | some x, none => some x
  | none, some y => some y
  | none, none => none

section mergeWith
variable {ν : Type}

theorem lookup_mergeWith (f : ν → ν → ν) (into frm : AList Key ν) (hn : NodupKeys frm) (k : Key) :
    lookup k (mergeWith f into frm) = optComb f (lookup k into) (lookup k frm) := by
  induction frm generalizing into with
  | nil => simp [mergeWith, optComb]; cases lookup k into <;> rfl
  | cons e t ih =>
    obtain ⟨k₀, v₀⟩ := e
    simp only [NodupKeys, keys, List.map_cons, List.nodup_cons] at hn
    have := ih (AList.upsert k₀ (fun o => match o with | none => v₀ | some w => f w v₀) into) hn.2
    have e : mergeWith f into ((k₀, v₀) :: t) =
        mergeWith f (AList.upsert k₀ (fun o => match o with | none => v₀ | some w => f w v₀) into) t := rfl
    rw [e, this, lookup_upsert]
    by_cases hk : k₀ = k
    · subst hk
      have hnone : lookup k₀ t = none := lookup_eq_none_of_not_mem_keys hn.1
      simp only [if_true, hnone, lookup_cons]
      cases lookup k₀ into <;> simp [optComb]
    · simp only [hk, if_false, lookup_cons]

theorem nodupKeys_mergeWith (f : ν → ν → ν) (into frm : AList Key ν) (h : NodupKeys into) :
    NodupKeys (mergeWith f into frm) := by
  induction frm generalizing into with
  | nil => simpa [mergeWith] using h
  | cons e t ih =>
    simp only [mergeWith, List.foldl_cons]
    exact ih _ (nodupKeys_upsert _ _ h)

end mergeWith

/-! ### aggregation relation -/

section agg
variable {ν : Type}

/-- the entries for key `k` found in a list of maps, in order -/
def valsAt (k : Key) (ls : List (AList Key ν)) : List ν := ls.filterMap (lookup k)

theorem valsAt_append (k : Key) (xs ys : List (AList Key ν)) : valsAt k (xs ++ ys) = valsAt k xs ++ valsAt k ys := by
  simp [valsAt, List.filterMap_append]

/-- `m` aggregates the maps `ls` w.r.t. the per-type summary relation `Sum` -/
def Agg (Sum : ν → List ν → Prop) (m : AList Key ν) (ls : List (AList Key ν)) : Prop :=
  ∀ k, match lookup k m with
    | none => valsAt k ls = []
    | some v => Sum v (valsAt k ls)

theorem agg_leaf (Sum : ν → List ν → Prop) (base : ∀ v, Sum v [v]) (m : AList Key ν) : Agg Sum m [m] := by
  intro k
  cases h : lookup k m with
  | none => simp [valsAt, h]
  | some v => simpa [valsAt, h] using base v

theorem agg_nil (Sum : ν → List ν → Prop) : Agg Sum ([] : AList Key ν) [] := by
  intro k; simp [valsAt]

theorem agg_merge (Sum : ν → List ν → Prop) (f : ν → ν → ν)
    (step : ∀ x y xs ys, Sum x xs → Sum y ys → Sum (f x y) (xs ++ ys))
    (a b : AList Key ν) (xs ys : List (AList Key ν)) (ha : Agg Sum a xs) (hb : Agg Sum b ys) (hn : NodupKeys b) :
    Agg Sum (mergeWith f a b) (xs ++ ys) := by
  intro k
  rw [lookup_mergeWith f a b hn k, valsAt_append]
  have ha' := ha k
  have hb' := hb k
  cases hA : lookup k a <;> cases hB : lookup k b <;> simp only [hA, hB, optComb] at ha' hb' ⊢
  · simp [ha', hb']
  · simpa [ha'] using hb'
  · simpa [hb'] using ha'
  · exact step _ _ _ _ ha' hb'

end agg

/-! ### the comparison operators read from the source -/

theorem cmp_MergeCounter (a b : Int) : relCmp Facts.rel_MergeCounter "<" a b = decide (a < b) := by
  simp [Facts.rel_MergeCounter, relCmp, cmpOp]
theorem cmp_MergeTimer (a b : Int) : relCmp Facts.rel_MergeTimer "<" a b = decide (a < b) := by
  simp [Facts.rel_MergeTimer, relCmp, cmpOp]
theorem cmp_MergeSet (a b : Int) : relCmp Facts.rel_MergeSet "<" a b = decide (a < b) := by
  simp [Facts.rel_MergeSet, relCmp, cmpOp]
/-- `MergeGauge` replaces the value when the incoming timestamp is newer; on equal timestamps either
choice satisfies C07, so both `<` and `<=` are accepted here. -/
theorem cmp_MergeGauge (a b : Int) :
    (relCmp Facts.rel_MergeGauge "<" a b = true → a ≤ b) ∧ (a < b → relCmp Facts.rel_MergeGauge "<" a b = true) := by
  simp [Facts.rel_MergeGauge, relCmp, cmpOp]; omega
theorem cmp_receiveCounter (a b : Int) : relCmp Facts.rel_receiveCounter ">" a b = decide (a > b) := by
  simp [Facts.rel_receiveCounter, relCmp, cmpOp]
theorem cmp_receiveTimer (a b : Int) : relCmp Facts.rel_receiveTimer ">" a b = decide (a > b) := by
  simp [Facts.rel_receiveTimer, relCmp, cmpOp]
theorem cmp_receiveSet (a b : Int) : relCmp Facts.rel_receiveSet ">" a b = decide (a > b) := by
  simp [Facts.rel_receiveSet, relCmp, cmpOp]
theorem cmp_receiveGauge (a b : Int) :
    (relCmp Facts.rel_receiveGauge ">=" a b = true → a ≥ b) ∧ (a > b → relCmp Facts.rel_receiveGauge ">=" a b = true) := by
  simp [Facts.rel_receiveGauge, relCmp, cmpOp]; omega

/-! ### maxima -/

/-- `m` is the greatest element of `l` -/
def IsMax (m : Int) (l : List Int) : Prop := m ∈ l ∧ ∀ x ∈ l, x ≤ m

theorem isMax_single (a : Int) : IsMax a [a] := by simp [IsMax]

theorem isMax_append_bump (a b : Int) (xs ys : List Int) (ha : IsMax a xs) (hb : IsMax b ys) :
    IsMax (if a < b then b else a) (xs ++ ys) := by
  obtain ⟨ha1, ha2⟩ := ha
  obtain ⟨hb1, hb2⟩ := hb
  split
  · refine ⟨List.mem_append_right _ hb1, ?_⟩
    intro x hx
    rcases List.mem_append.mp hx with h | h
    · have := ha2 x h; omega
    · exact hb2 x h
  · refine ⟨List.mem_append_left _ ha1, ?_⟩
    intro x hx
    rcases List.mem_append.mp hx with h | h
    · exact ha2 x h
    · have := hb2 x h; omega

theorem isMax_unique (a b : Int) (l : List Int) (ha : IsMax a l) (hb : IsMax b l) : a = b := by
  have h1 := ha.2 b hb.1
  have h2 := hb.2 a ha.1
  omega

theorem isMax_perm (a : Int) (l l' : List Int) (hp : l.Perm l') (ha : IsMax a l) : IsMax a l' :=
  ⟨hp.mem_iff.mp ha.1, fun x hx => ha.2 x (hp.mem_iff.mpr hx)⟩

/-! ### set union -/

theorem mem_setUnion (a b : List String) (x : String) : x ∈ setUnion a b ↔ x ∈ a ∨ x ∈ b := by
  induction b generalizing a with
  | nil => simp [setUnion]
  | cons v t ih =>
    simp only [setUnion, List.foldl_cons] at ih ⊢
    rw [ih]
    by_cases hv : v ∈ a
    · simp only [hv, if_true, List.mem_cons]
      constructor
      · rintro (h | h); exact Or.inl h; exact Or.inr (Or.inr h)
      · rintro (h | h | h); exact Or.inl h; exact Or.inl (h ▸ hv); exact Or.inr h
    · simp only [hv, if_false, List.mem_append, List.mem_cons, List.not_mem_nil, or_false]
      constructor
      · rintro ((h | h) | h); exact Or.inl h; exact Or.inr (Or.inl h); exact Or.inr (Or.inr h)
      · rintro (h | h | h); exact Or.inl (Or.inl h); exact Or.inl (Or.inr h); exact Or.inr h

theorem nodup_setUnion (a b : List String) (ha : a.Nodup) : (setUnion a b).Nodup := by
  induction b generalizing a with
  | nil => simpa [setUnion] using ha
  | cons v t ih =>
    simp only [setUnion, List.foldl_cons]
    apply ih
    by_cases hv : v ∈ a
    · simpa [hv] using ha
    · simp only [hv, if_false]
      exact List.nodup_append.mpr ⟨ha, by simp, by intro x hx y hy; simp at hy; subst hy; exact fun e => hv (e ▸ hx)⟩

end Gsd
