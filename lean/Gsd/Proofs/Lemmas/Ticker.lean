import Gsd.Model.Ticker
import Mathlib.Tactic.Ring
/-! Helper lemmas for C18: truncation arithmetic, the capacity-1 channel, the mock clock. -/
set_option linter.unusedSimpArgs false
set_option linter.unusedVariables false
namespace Gsd.Ticker

/-! ### truncation arithmetic -/

theorem trunc_eq {I : Int} (hI : 0 < I) (t : Int) : trunc t I = I * (t / I) := by
  have h := Int.mul_ediv_add_emod t I
  simp only [trunc, show ¬ I ≤ 0 by omega, if_false]
  omega

theorem emod_bounds {I : Int} (hI : 0 < I) (t : Int) : 0 ≤ t % I ∧ t % I < I :=
  ⟨Int.emod_nonneg t (by omega), Int.emod_lt_of_pos t hI⟩

theorem trunc_le {I : Int} (hI : 0 < I) (t : Int) : trunc t I ≤ t ∧ t < trunc t I + I := by
  have := emod_bounds hI t
  simp only [trunc, show ¬ I ≤ 0 by omega, if_false]
  omega

theorem trunc_emod {I : Int} (hI : 0 < I) (t : Int) : trunc t I % I = 0 := by
  rw [trunc_eq hI]; exact Int.mul_emod_right I _

theorem tickValue_eq {I : Int} (hI : 0 < I) (τ off : Int) : tickValue τ off I = I * ((τ - off) / I) + off := by
  simp only [tickValue, trunc_eq hI]

theorem tickValue_aligned {I : Int} (hI : 0 < I) (τ off : Int) : (tickValue τ off I - off) % I = 0 := by
  have : tickValue τ off I - off = trunc (τ - off) I := by simp only [tickValue]; omega
  rw [this]; exact trunc_emod hI _

theorem tickValue_le {I : Int} (hI : 0 < I) (τ off : Int) :
    tickValue τ off I ≤ τ ∧ τ < tickValue τ off I + I := by
  have := trunc_le hI (τ - off)
  simp only [tickValue]
  omega

theorem initialWait_eq {I : Int} (hI : 0 < I) (now off : Int) :
    initialWait now off I = I - (now - off) % I := by
  simp only [initialWait, roundup, trunc, show ¬ I ≤ 0 by omega, if_false]
  omega

theorem initialWait_bounds {I : Int} (hI : 0 < I) (now off : Int) :
    0 < initialWait now off I ∧ initialWait now off I ≤ I := by
  have := emod_bounds hI (now - off)
  rw [initialWait_eq hI]
  omega

/-- the first deadline is a boundary: `now + initialWait − off` is a multiple of the interval -/
theorem first_deadline_eq {I : Int} (hI : 0 < I) (now off : Int) :
    now + initialWait now off I = I * ((now - off) / I + 1) + off := by
  have h := Int.mul_ediv_add_emod (now - off) I
  rw [initialWait_eq hI]
  have : I * ((now - off) / I + 1) = I * ((now - off) / I) + I := by ring
  omega

/-- a delivered time less than one interval after a boundary is rounded back to that boundary -/
theorem tickValue_of_boundary {I : Int} (hI : 0 < I) (off q late : Int) (h0 : 0 ≤ late) (h1 : late < I) :
    tickValue (I * q + off + late) off I = I * q + off := by
  rw [tickValue_eq hI]
  have e : I * q + off + late - off = late + I * q := by ring
  rw [e, Int.add_mul_ediv_left _ _ (by omega : I ≠ 0), Int.ediv_eq_zero_of_lt h0 h1]
  ring

theorem posMultiple_tick {I : Int} (hI : 0 < I) (off a b : Int) (h : a + I ≤ b) :
    PosMultiple I (tickValue a off I) (tickValue b off I) := by
  refine ⟨(b - off) / I - (a - off) / I, ?_, ?_⟩
  · have h1 : (a - off + 1 * I) / I = (a - off) / I + 1 := Int.add_mul_ediv_right _ _ (by omega)
    have h2 : (a - off + 1 * I) / I ≤ (b - off) / I := Int.ediv_le_ediv hI (by omega)
    omega
  · rw [tickValue_eq hI, tickValue_eq hI]; ring

theorem posMultiple_of_slot_lt {I : Int} (hI : 0 < I) (off a b : Int) (h : slot a off I < slot b off I) :
    PosMultiple I (tickValue a off I) (tickValue b off I) := by
  refine ⟨slot b off I - slot a off I, by omega, ?_⟩
  rw [tickValue_eq hI, tickValue_eq hI]; simp only [slot]; ring

theorem slot_lt_of_gap {I : Int} (hI : 0 < I) (off a b : Int) (h : a + I ≤ b) : slot a off I < slot b off I := by
  simp only [slot]
  have h1 : (a - off + 1 * I) / I = (a - off) / I + 1 := Int.add_mul_ediv_right _ _ (by omega)
  have h2 : (a - off + 1 * I) / I ≤ (b - off) / I := Int.ediv_le_ediv hI (by omega)
  omega

theorem slot_of_boundary {I : Int} (hI : 0 < I) (off q late : Int) (h0 : 0 ≤ late) (h1 : late < I) :
    slot (I * q + off + late) off I = q := by
  simp only [slot]
  have e : I * q + off + late - off = late + I * q := by ring
  rw [e, Int.add_mul_ediv_left _ _ (by omega : I ≠ 0), Int.ediv_eq_zero_of_lt h0 h1]
  omega

theorem pairwise_tickValues_of_slots {I : Int} (hI : 0 < I) (off : Int) (τs : List Int)
    (h : SlotsIncreasing off I τs) :
    List.Pairwise (PosMultiple I) (τs.map (fun τ => tickValue τ off I)) := by
  rw [List.pairwise_map]
  exact h.imp (fun hab => posMultiple_of_slot_lt hI off _ _ hab)

theorem posMultiple_lt {I : Int} (hI : 0 < I) {a b : Int} (h : PosMultiple I a b) : a < b := by
  obtain ⟨n, hn, he⟩ := h
  have : 0 < n * I := Int.mul_pos hn hI
  omega

/-! ### lists of delivered times and of received values -/

theorem pairwise_tickValues {I : Int} (hI : 0 < I) (off : Int) (τs : List Int)
    (h : List.Pairwise (fun a b => a + I ≤ b) τs) :
    List.Pairwise (PosMultiple I) (τs.map (fun τ => tickValue τ off I)) := by
  rw [List.pairwise_map]
  exact h.imp (fun hab => posMultiple_tick hI off _ _ hab)

theorem deltas_posMultiple {I : Int} (l : List Int) (h : List.Pairwise (PosMultiple I) l) :
    ∀ d ∈ deltas l, ∃ n : Int, 0 < n ∧ d = n * I := by
  induction l with
  | nil => intro d hd; simp [deltas] at hd
  | cons a t ih =>
    cases t with
    | nil => intro d hd; simp [deltas] at hd
    | cons b t' =>
      intro d hd
      simp only [deltas, List.mem_cons] at hd
      rcases hd with rfl | hd
      · exact (List.pairwise_cons.1 h).1 b (by simp)
      · exact ih (List.pairwise_cons.1 h).2 d hd

theorem ticksOf_append (a b : List Act) : ticksOf (a ++ b) = ticksOf a ++ ticksOf b := by
  induction a with
  | nil => rfl
  | cons x a ih => cases x <;> simp [ticksOf, ih]

theorem runActs_snoc (off I : Int) (acts : List Act) (a : Act) :
    runActs off I (acts ++ [a]) = act off I (runActs off I acts) a := by
  simp [runActs, List.foldl_append]

/-- **Dropped ticks only remove elements**: what the consumer has received, followed by what is still
in the channel, is a sub-sequence of the values computed for the delivered times. -/
theorem recvd_sublist (off I : Int) (acts : List Act) :
    ((runActs off I acts).recvd ++ (runActs off I acts).chan.toList).Sublist
      ((ticksOf acts).map (fun τ => tickValue τ off I)) := by
  have : ∀ l : List Act, ((runActs off I l.reverse).recvd ++ (runActs off I l.reverse).chan.toList).Sublist
      ((ticksOf l.reverse).map (fun τ => tickValue τ off I)) := by
    intro l
    induction l with
    | nil => simp [runActs, ticksOf]
    | cons a l ih =>
      rw [List.reverse_cons, runActs_snoc, ticksOf_append]
      cases a with
      | tick τ =>
        simp only [act, ticksOf, List.map_append, List.map_cons, List.map_nil]
        cases hc : (runActs off I l.reverse).chan with
        | none =>
          rw [hc] at ih
          simp only [Option.toList_none, List.append_nil, Option.toList_some] at ih ⊢
          exact List.Sublist.append ih (List.Sublist.refl _)
        | some v =>
          rw [hc] at ih
          simp only [hc]
          exact ih.trans (List.sublist_append_left _ _)
      | recv =>
        simp only [act, ticksOf, List.append_nil]
        cases hc : (runActs off I l.reverse).chan with
        | none => rw [hc] at ih; simpa [hc] using ih
        | some v => rw [hc] at ih; simpa [hc] using ih
  simpa using this acts.reverse

theorem recvd_sublist' (off I : Int) (acts : List Act) :
    (runActs off I acts).recvd.Sublist ((ticksOf acts).map (fun τ => tickValue τ off I)) :=
  (List.sublist_append_left _ _).trans (recvd_sublist off I acts)

theorem runActs_no_ticks (off I : Int) (acts : List Act) (h : ticksOf acts = []) : runActs off I acts = {} := by
  have : ∀ l : List Act, ticksOf l.reverse = [] → runActs off I l.reverse = {} := by
    intro l
    induction l with
    | nil => intro _; rfl
    | cons a l ih =>
      intro h
      rw [List.reverse_cons, ticksOf_append] at h
      rw [List.reverse_cons, runActs_snoc]
      cases a with
      | tick τ => simp [ticksOf] at h
      | recv =>
        have := ih (by simpa [ticksOf] using h)
        rw [this]; rfl
  simpa using this acts.reverse (by simpa using h)

/-- the first delivered tick is never dropped: it heads what the consumer gets -/
theorem recvd_head (off I : Int) (acts : List Act) (τ₀ : Int) (h : (ticksOf acts).head? = some τ₀) :
    ((runActs off I acts).recvd ++ (runActs off I acts).chan.toList).head? = some (tickValue τ₀ off I) := by
  have : ∀ l : List Act, (ticksOf l.reverse).head? = some τ₀ →
      ((runActs off I l.reverse).recvd ++ (runActs off I l.reverse).chan.toList).head? = some (tickValue τ₀ off I) := by
    intro l
    induction l with
    | nil => intro h; simp [ticksOf] at h
    | cons a l ih =>
      intro h
      rw [List.reverse_cons, ticksOf_append] at h
      rw [List.reverse_cons, runActs_snoc]
      cases hp : ticksOf l.reverse with
      | nil =>
        have h0 := runActs_no_ticks off I _ hp
        rw [hp] at h
        cases a with
        | tick τ =>
          simp only [ticksOf, List.nil_append, List.head?_cons, Option.some.injEq] at h
          subst h
          rw [h0]; rfl
        | recv => simp [ticksOf] at h
      | cons x rest =>
        rw [hp] at h
        have hx : x = τ₀ := by simpa using h
        have ih' := ih (by rw [hp]; simp [hx])
        cases a with
        | tick τ =>
          simp only [act]
          cases hc : (runActs off I l.reverse).chan with
          | none =>
            rw [hc] at ih'
            simp only [Option.toList_none, List.append_nil] at ih'
            simp only [Option.toList_some]
            rw [List.head?_append, ih']; rfl
          | some v => simpa [hc] using ih'
        | recv =>
          simp only [act]
          cases hc : (runActs off I l.reverse).chan with
          | none => simpa [hc] using ih'
          | some v => rw [hc] at ih'; simpa using ih'
  simpa using this acts.reverse (by simpa using h)

/-! ### the scripted system on the mock clock -/

theorem forall₂_snoc {α β : Type} (R : α → β → Prop) (a : List α) (b : List β) (x : α) (y : β)
    (h : List.Forall₂ R a b) (hxy : R x y) : List.Forall₂ R (a ++ [x]) (b ++ [y]) := by
  induction h with
  | nil => exact List.Forall₂.cons hxy List.Forall₂.nil
  | cons h1 _ ih => exact List.Forall₂.cons h1 ih

structure SimInv (now₀ off I : Int) (s : Sim) : Prop where
  ch_eq : s.ch = runActs off I s.log
  phase : (s.timer = some (now₀ + initialWait now₀ off I) ∧ s.ticker = none ∧ ticksOf s.log = []) ∨
          (s.timer = none ∧ ∃ Dk, s.ticker = some Dk ∧
             (ticksOf s.log).head? = some (now₀ + initialWait now₀ off I) ∧
             List.Pairwise (fun a b => a + I ≤ b) (ticksOf s.log) ∧ ∀ a ∈ ticksOf s.log, a + I ≤ Dk)
  future : (∀ D, s.timer = some D → s.now < D) ∧ (∀ D, s.ticker = some D → s.now < D)
  chan_le : ∀ v, s.ch.chan = some v → v ≤ s.now
  recvd_le : List.Forall₂ (fun v c => v ≤ c) s.ch.recvd s.clocks

theorem simInv_init {I : Int} (hI : 0 < I) (now₀ off : Int) : SimInv now₀ off I (Sim.init now₀ off I) := by
  have := initialWait_bounds hI now₀ off
  refine ⟨rfl, Or.inl ⟨rfl, rfl, rfl⟩, ⟨?_, ?_⟩, ?_, ?_⟩
  · intro D hD; simp only [Sim.init, Option.some.injEq] at hD; subst hD; simp only [Sim.init]; omega
  · intro D hD; simp [Sim.init] at hD
  · intro v hv; simp [Sim.init] at hv
  · simp [Sim.init]

/-- a consumer receipt (ticker mode `r`, or the flusher taking a value) keeps the invariant -/
theorem simInv_recv {now₀ off I : Int} (s : Sim) (h : SimInv now₀ off I s) (v : Int) (hv : s.ch.chan = some v)
    (b : Bool) (evs : List Ev) :
    SimInv now₀ off I { Sim.doAct off I s .recv with busy := b, clocks := s.clocks ++ [s.now], evs := evs } := by
  obtain ⟨h1, h2, h3, h4, h5⟩ := h
  refine ⟨?_, ?_, h3, ?_, ?_⟩
  · simp only [Sim.doAct, runActs_snoc, ← h1]
  · simpa [Sim.doAct, ticksOf_append, ticksOf] using h2
  · intro w hw; simp [Sim.doAct, act, hv] at hw
  · simp only [Sim.doAct, act, hv]
    exact forall₂_snoc _ _ _ _ _ h5 (h4 v hv)

theorem simInv_settle {now₀ off I : Int} (fl : Bool) (s : Sim) (h : SimInv now₀ off I s) :
    SimInv now₀ off I (Sim.settle off I fl s) := by
  unfold Sim.settle
  split
  · cases hc : s.ch.chan with
    | none => simpa [hc] using h
    | some v => simp only [hc]; exact simInv_recv s h v hc _ _
  · exact h

theorem simInv_busy {now₀ off I : Int} (s : Sim) (h : SimInv now₀ off I s) (b : Bool) :
    SimInv now₀ off I { s with busy := b } := ⟨h.1, h.2, h.3, h.4, h.5⟩

theorem simInv_evs {now₀ off I : Int} (s : Sim) (h : SimInv now₀ off I s) (e : List Ev) :
    SimInv now₀ off I { s with evs := e } := ⟨h.1, h.2, h.3, h.4, h.5⟩

theorem simInv_advanceTo {now₀ off I : Int} (hI : 0 < I) (fl : Bool) (s : Sim) (h : SimInv now₀ off I s)
    (t : Int) (ht : s.now ≤ t) : SimInv now₀ off I (Sim.advanceTo off I fl s t) := by
  obtain ⟨h1, h2, h3, h4, h5⟩ := h
  unfold Sim.advanceTo
  rcases h2 with ⟨ht1, ht2, ht3⟩ | ⟨ht1, Dk, ht2, hhead, hpw, hle⟩
  · -- phase 1: the timer is armed
    rw [ht1]
    simp only
    split
    · next hD =>
      apply simInv_settle
      have hch : s.ch = {} := by rw [h1]; exact runActs_no_ticks off I _ ht3
      refine ⟨?_, Or.inr ⟨rfl, t + I, rfl, ?_, ?_, ?_⟩, ⟨?_, ?_⟩, ?_, ?_⟩
      · simp only [Sim.doAct, runActs_snoc, ← h1]
      · simp [Sim.doAct, ticksOf_append, ticksOf, ht3]
      · simp [Sim.doAct, ticksOf_append, ticksOf, ht3]
      · intro a ha
        simp only [Sim.doAct, ticksOf_append, ticksOf, ht3, List.nil_append, List.mem_singleton] at ha
        subst ha; omega
      · intro D hD'; simp [Sim.doAct] at hD'
      · intro D hD'
        simp only [Sim.doAct, Option.some.injEq] at hD'
        subst hD'; simp only [Sim.doAct]; omega
      · intro v hv
        simp only [Sim.doAct, act, hch, Option.some.injEq] at hv
        subst hv
        have := (tickValue_le hI (now₀ + initialWait now₀ off I) off).1
        simp only [Sim.doAct]; omega
      · simp only [Sim.doAct, act, hch]; simpa [hch] using h5
    · next hD =>
      refine ⟨h1, Or.inl ⟨rfl, ht2, ht3⟩, ⟨?_, ?_⟩, ?_, h5⟩
      · intro D hD'; simp only [Option.some.injEq] at hD'; subst hD'; simp only; omega
      · intro D hD'; simp only [ht2] at hD'; cases hD'
      · intro v hv; have := h4 v hv; simp only; omega
  · -- phase 2: the ticker runs
    rw [ht1, ht2]
    simp only
    split
    · next hD =>
      apply simInv_settle
      have hq : 0 ≤ (t - Dk) / I := Int.ediv_nonneg (by omega) (by omega)
      have hstep : Dk + I ≤ Dk + ((t - Dk) / I + 1) * I := by
        have : ((t - Dk) / I + 1) * I = (t - Dk) / I * I + I := by ring
        have : 0 ≤ (t - Dk) / I * I := Int.mul_nonneg hq (by omega)
        omega
      have hnext : t < Dk + ((t - Dk) / I + 1) * I := by
        have := Int.lt_ediv_add_one_mul_self (t - Dk) hI
        omega
      refine ⟨?_, Or.inr ⟨rfl, _, rfl, ?_, ?_, ?_⟩, ⟨?_, ?_⟩, ?_, ?_⟩
      · simp only [Sim.doAct, runActs_snoc, ← h1]
      · simp only [Sim.doAct, ticksOf_append, ticksOf]
        cases hτ : ticksOf s.log with
        | nil => rw [hτ] at hhead; simp at hhead
        | cons x r => rw [hτ] at hhead; simpa using hhead
      · simp only [Sim.doAct, ticksOf_append, ticksOf]
        rw [List.pairwise_append]
        refine ⟨hpw, by simp, ?_⟩
        intro a ha b hb
        simp only [List.mem_singleton] at hb
        subst hb; exact hle a ha
      · intro a ha
        simp only [Sim.doAct, ticksOf_append, ticksOf, List.mem_append, List.mem_singleton] at ha
        rcases ha with ha | rfl
        · have := hle a ha; omega
        · exact hstep
      · intro D hD'; simp [Sim.doAct, ht1] at hD'
      · intro D hD'
        simp only [Sim.doAct, Option.some.injEq] at hD'
        subst hD'; simp only [Sim.doAct]; exact hnext
      · intro v hv
        simp only [Sim.doAct, act] at hv ⊢
        cases hc : s.ch.chan with
        | none =>
          rw [hc] at hv
          simp only [Option.some.injEq] at hv
          subst hv
          have := (tickValue_le hI Dk off).1
          omega
        | some w =>
          rw [hc] at hv
          simp only [hc, Option.some.injEq] at hv
          subst hv
          have := h4 w hc; omega
      · simp only [Sim.doAct, act]
        cases hc : s.ch.chan with
        | none => simpa [hc] using h5
        | some w => simpa [hc] using h5
    · next hD =>
      refine ⟨h1, Or.inr ⟨rfl, Dk, rfl, hhead, hpw, hle⟩, ⟨?_, ?_⟩, ?_, h5⟩
      · intro D hD'; cases hD'
      · intro D hD'; simp only [Option.some.injEq] at hD'; subst hD'; simp only; omega
      · intro v hv; have := h4 v hv; simp only; omega

theorem simInv_step {now₀ off I : Int} (hI : 0 < I) (fl : Bool) (s : Sim) (h : SimInv now₀ off I s)
    (op : SOp) (hop : op.ok = true) : SimInv now₀ off I (Sim.step off I fl s op) := by
  cases op with
  | add d =>
    simp only [SOp.ok, decide_eq_true_eq] at hop
    exact simInv_advanceTo hI fl s h _ (by omega)
  | next =>
    simp only [Sim.step]
    cases hT : s.timer with
    | some D =>
      simp only
      apply simInv_evs
      exact simInv_advanceTo hI fl s h _ (by have := h.future.1 D hT; omega)
    | none =>
      simp only
      cases hK : s.ticker with
      | some D =>
        simp only
        apply simInv_evs
        exact simInv_advanceTo hI fl s h _ (by have := h.future.2 D hK; omega)
      | none =>
        simp only
        have := simInv_evs s h (s.evs ++ [Ev.adv 0])
        simp only [hT, hK] at this
        exact this
  | recv =>
    simp only [Sim.step]
    cases fl with
    | true =>
      simp only [if_true]
      split
      · exact simInv_settle _ _ (simInv_busy s h false)
      · exact h
    | false =>
      simp only [Bool.false_eq_true, if_false]
      cases hc : s.ch.chan with
      | none => simp only; exact simInv_evs s h _
      | some v => simp only; exact simInv_recv s h v hc _ _

theorem simInv_run {I : Int} (hI : 0 < I) (now₀ off : Int) (fl : Bool) (script : List SOp) (hs : ScriptOk script) :
    SimInv now₀ off I (Sim.run now₀ off I fl script) := by
  have : ∀ l : List SOp, ScriptOk l.reverse → SimInv now₀ off I (Sim.run now₀ off I fl l.reverse) := by
    intro l
    induction l with
    | nil => intro _; exact simInv_init hI now₀ off
    | cons op l ih =>
      intro hs
      rw [List.reverse_cons] at hs ⊢
      have h1 : ScriptOk l.reverse := fun o ho => hs o (List.mem_append_left _ ho)
      have h2 : op.ok = true := hs op (by simp)
      have : Sim.run now₀ off I fl (l.reverse ++ [op]) = Sim.step off I fl (Sim.run now₀ off I fl l.reverse) op := by
        simp [Sim.run, List.foldl_append]
      rw [this]
      exact simInv_step hI fl _ (ih h1) op h2
  simpa using this script.reverse (by simpa using hs)

end Gsd.Ticker
