import Gsd.Proofs.Lemmas.Pipeline
/-! Where series can be: shard locality and "nothing reported that was never sent" (C01). -/
set_option linter.unusedSimpArgs false
set_option linter.unusedSectionVars false
namespace Gsd
open AList
variable {α : Type} [AddCommMonoid α]

/-- series `(t, k)` has an entry in `m` -/
def present (m : MM α) (t : MType) (k : Key) : Prop :=
  match t with
  | .counter => (lookup k m.counters).isSome
  | .timer => (lookup k m.timers).isSome
  | .gauge => (lookup k m.gauges).isSome
  | .set => (lookup k m.sets).isSome

theorem optComb_isSome {ν} (f : ν → ν → ν) (a b : Option ν) :
    (optComb f a b).isSome = (a.isSome || b.isSome) := by
  cases a <;> cases b <;> rfl

theorem present_merge (a b : MM α) (hb : b.WF) (t : MType) (k : Key) :
    present (MM.merge a b) t k ↔ present a t k ∨ present b t k := by
  have h := C07_merge_lookup a b hb k
  cases t <;> simp only [present]
  · rw [h.1, optComb_isSome]; simp
  · rw [h.2.1, optComb_isSome]; simp
  · rw [h.2.2.1, optComb_isSome]; simp
  · rw [h.2.2.2, optComb_isSome]; simp

theorem present_empty (t : MType) (k : Key) : ¬ present (MM.empty : MM α) t k := by
  cases t <;> simp [present, MM.empty]

theorem present_reset (ex : Key → Bool) (a : MM α) (hw : a.WF) (t : MType) (k : Key)
    (h : present (Pipeline.reset ex a) t k) : present a t k := by
  cases t <;> simp only [present, Pipeline.reset] at h ⊢
  · rw [lookup_filterMapVals_nodup _ k hw.1] at h
    cases hl : lookup k a.counters <;> simp [hl] at h ⊢
  · rw [lookup_filterMapVals_nodup _ k hw.2.1] at h
    cases hl : lookup k a.timers <;> simp [hl] at h ⊢
  · rw [lookup_filterMapVals_nodup _ k hw.2.2.1] at h
    cases hl : lookup k a.gauges <;> simp [hl] at h ⊢
  · rw [lookup_filterMapVals_nodup _ k hw.2.2.2] at h
    cases hl : lookup k a.sets <;> simp [hl] at h ⊢

theorem present_dispatch (h : Key → Nat) (n : Nat) (m : MM α) (hm : m.WF) (w : Nat) (p : MM α)
    (hp : (w, p) ∈ MMap.dispatch h n m) (t : MType) (k : Key) (hk : present p t k) :
    h k % n = w ∧ present m t k := by
  obtain ⟨hw, hq, _⟩ := (C06_dispatch h n m w p).mp hp
  have hpart := C06_partition h n m hm w hw k
  have e : (m.split h n)[w]?.getD {} = p := by rw [hq]; rfl
  rw [e] at hpart
  cases t <;> simp only [present] at hk ⊢
  · rw [hpart.1] at hk; split at hk <;> simp_all
  · rw [hpart.2.1] at hk; split at hk <;> simp_all
  · rw [hpart.2.2.1] at hk; split at hk <;> simp_all
  · rw [hpart.2.2.2] at hk; split at hk <;> simp_all

namespace Pipeline

/-- some parsed batch contained the series -/
def sent (s : State α) (t : MType) (k : Key) : Prop := ∃ m ∈ s.arrived, present m t k

/-- every entry anywhere in the system sits in the shard its key routes to and stems from a parsed batch -/
def KInv (h : Key → Nat) (n : Nat) (s : State α) : Prop :=
  (∀ p ∈ s.pending, ∀ t k, present p.2 t k → h k % n = p.1 ∧ sent s t k) ∧
  (∀ i q, s.queues[i]? = some q → ∀ m ∈ q, ∀ t k, present m t k → h k % n = i ∧ sent s t k) ∧
  (∀ i a, s.aggs[i]? = some a → ∀ t k, present a t k → h k % n = i ∧ sent s t k) ∧
  (∀ p ∈ s.flushed, ∀ t k, present p.2 t k → h k % n = p.1 ∧ sent s t k)

theorem sent_mono (s s' : State α) (hsub : ∀ m ∈ s.arrived, m ∈ s'.arrived) (t : MType) (k : Key)
    (h : sent s t k) : sent s' t k := by
  obtain ⟨m, hm, hp⟩ := h; exact ⟨m, hsub m hm, hp⟩

theorem kinv_init (h : Key → Nat) (n : Nat) : KInv h n (init n : State α) := by
  refine ⟨by simp [init], ?_, ?_, by simp [init]⟩
  · intro i q hq m hm
    simp [init, List.getElem?_replicate] at hq
    rw [hq.2] at hm; simp at hm
  · intro i a ha t k hk
    simp [init, List.getElem?_replicate] at ha
    rw [← ha.2] at hk
    exact absurd hk (present_empty t k)

theorem kinv_step (ops : NumOps α) (h : Key → Nat) (n : Nat) (s s' : State α) (a : Action α)
    (hinv : Inv n s) (hk : KInv h n s) (hs : step ops h n s a = some s') : KInv h n s' := by
  obtain ⟨h1, h2, h3, h4, h5⟩ := hinv
  obtain ⟨k1, k2, k3, k4⟩ := hk
  cases a with
  | arrive ds =>
    simp only [step, Option.some.injEq] at hs; subst hs
    have hwf : (MM.receiveAll ops MM.empty ds).WF := receiveAll_wf ops _ ds empty_wf
    refine ⟨?_, ?_, ?_, ?_⟩
    · intro p hp t k hpr
      rcases List.mem_append.mp hp with hp | hp
      · exact ⟨(k1 p hp t k hpr).1, sent_mono s _ (by intro m hm; simp [hm]) t k (k1 p hp t k hpr).2⟩
      · obtain ⟨w, q⟩ := p
        have := present_dispatch h n _ hwf w q hp t k hpr
        exact ⟨this.1, ⟨_, by simp, this.2⟩⟩
    · intro i q hq m hm t k hpr; exact ⟨(k2 i q hq m hm t k hpr).1, sent_mono s _ (by intro m hm; simp [hm]) t k (k2 i q hq m hm t k hpr).2⟩
    · intro i a ha t k hpr; exact ⟨(k3 i a ha t k hpr).1, sent_mono s _ (by intro m hm; simp [hm]) t k (k3 i a ha t k hpr).2⟩
    · intro p hp t k hpr; exact ⟨(k4 p hp t k hpr).1, sent_mono s _ (by intro m hm; simp [hm]) t k (k4 p hp t k hpr).2⟩
  | enqueue j =>
    simp only [step] at hs
    cases hj : s.pending[j]? with
    | none => simp [hj] at hs
    | some ip =>
      obtain ⟨i, p⟩ := ip
      simp only [hj] at hs
      split at hs
      · rename_i hi
        simp only [Option.some.injEq] at hs; subst hs
        have hmem : (i, p) ∈ s.pending := List.mem_of_getElem? hj
        refine ⟨?_, ?_, k3, k4⟩
        · intro q hq t k hpr; exact k1 q (List.mem_of_mem_eraseIdx hq) t k hpr
        · intro i' q hq m hm t k hpr
          rw [List.getElem?_modify] at hq
          by_cases hii : i = i'
          · subst hii
            simp only [if_true] at hq
            cases hq0 : s.queues[i]? with
            | none => simp [hq0] at hq
            | some q0 =>
              simp [hq0] at hq; subst hq
              rcases List.mem_append.mp hm with hm | hm
              · exact k2 i q0 hq0 m hm t k hpr
              · simp at hm; subst hm; exact k1 (i, m) hmem t k hpr
          · simp [hii] at hq
            exact k2 i' q hq m hm t k hpr
      · simp at hs
  | deliver i =>
    simp only [step] at hs
    cases hq : s.queues[i]? with
    | none => simp [hq] at hs
    | some q =>
      cases q with
      | nil => simp [hq] at hs
      | cons p rest =>
        simp only [hq] at hs
        split at hs
        · rename_i hi
          simp only [Option.some.injEq] at hs; subst hs
          have hqmem : (p :: rest) ∈ s.queues := List.mem_of_getElem? hq
          have hp : p.WF := h2 _ hqmem p (by simp)
          refine ⟨k1, ?_, ?_, k4⟩
          · intro i' q' hq' m hm t k hpr
            rw [List.getElem?_set] at hq'
            by_cases hii : i = i'
            · subst hii
              simp only [if_true] at hq'
              split at hq'
              · simp only [Option.some.injEq] at hq'; subst hq'
                exact k2 i (p :: rest) hq m (by simp [hm]) t k hpr
              · simp at hq'
            · simp only [hii, if_false] at hq'
              exact k2 i' q' hq' m hm t k hpr
          · intro i' a ha t k hpr
            rw [List.getElem?_modify] at ha
            by_cases hii : i = i'
            · subst hii
              simp only [if_true] at ha
              cases ha0 : s.aggs[i]? with
              | none => simp [ha0] at ha
              | some a0 =>
                simp [ha0] at ha; subst ha
                rcases (present_merge a0 p hp t k).mp hpr with h' | h'
                · exact k3 i a0 ha0 t k h'
                · exact k2 i (p :: rest) hq p (by simp) t k h'
            · simp [hii] at ha
              exact k3 i' a ha t k hpr
        · simp at hs
  | flushShard i ex =>
    simp only [step] at hs
    cases ha : s.aggs[i]? with
    | none => simp [ha] at hs
    | some a =>
      simp only [ha, Option.some.injEq] at hs; subst hs
      have hamem : a ∈ s.aggs := List.mem_of_getElem? ha
      refine ⟨k1, k2, ?_, ?_⟩
      · intro i' a' ha' t k hpr
        rw [List.getElem?_set] at ha'
        by_cases hii : i = i'
        · subst hii
          simp only [if_true] at ha'
          split at ha'
          · simp only [Option.some.injEq] at ha'; subst ha'
            exact k3 i a ha t k (present_reset ex a (h3 a hamem) t k hpr)
          · simp at ha'
        · simp only [hii, if_false] at ha'
          exact k3 i' a' ha' t k hpr
      · intro p hp t k hpr
        rcases List.mem_append.mp hp with hp | hp
        · exact k4 p hp t k hpr
        · simp at hp; subst hp
          exact k3 i a ha t k hpr

theorem kinv_run (ops : NumOps α) (h : Key → Nat) (n : Nat) (as : List (Action α)) (s : State α)
    (hinv : Inv n s) (hk : KInv h n s) : Inv n (run ops h n s as) ∧ KInv h n (run ops h n s as) := by
  induction as generalizing s with
  | nil => exact ⟨hinv, hk⟩
  | cons a t ih =>
    simp only [run, List.foldl_cons]
    cases hs : step ops h n s a with
    | none => simp only [hs, Option.getD_none]; exact ih s hinv hk
    | some s' =>
      simp only [hs, Option.getD_some]
      exact ih s' (inv_step ops h n s s' a hinv hs) (kinv_step ops h n s s' a hinv hk hs)

end Pipeline
end Gsd
