import Gsd.Model.K8s
import Gsd.Proofs.Lemmas.AList
/-! Helper lemmas for C13 (core-only). -/
set_option linter.unusedSimpArgs false
set_option linter.unusedVariables false
namespace Gsd.K8s
open Gsd AList

variable {Pat : Type}

/-- the specification's predicate (written from the property text) and the code's index function
select the same pods -/
theorem holds_eq (ip : String) (p : Pod) : holds ip p = (indexable p && p.ip == ip) := by
  unfold holds indexable finished isHostNetwork
  simp only [bne]
  generalize (p.ip == ip) = a
  generalize (p.ip == "") = b
  generalize (p.phase == "Succeeded") = c
  generalize (p.phase == "Failed") = d
  generalize p.deleting = e
  generalize p.hostNetwork = f
  generalize (p.ip == p.hostIP) = g
  cases a <;> cases b <;> cases c <;> cases d <;> cases e <;> cases f <;> cases g <;> rfl

theorem podsAt_eq_filter_holds (store : Store) (ip : String) :
    podsAt store ip = (store.map Prod.snd).filter (holds ip) := by
  unfold podsAt
  congr 1
  funext p
  exact (holds_eq ip p).symm

theorem mem_podsAt {store : Store} {ip : String} {q : Pod} :
    q ∈ podsAt store ip ↔ (∃ k, (k, q) ∈ store) ∧ indexable q = true ∧ q.ip = ip := by
  simp [podsAt, List.mem_filter, and_assoc]

theorem mem_podsAt_nodup {store : Store} (hn : NodupKeys store) {ip : String} {q : Pod} :
    q ∈ podsAt store ip ↔ (∃ k, lookup k store = some q) ∧ indexable q = true ∧ q.ip = ip := by
  rw [mem_podsAt]
  constructor
  · rintro ⟨⟨k, hk⟩, h⟩; exact ⟨⟨k, lookup_of_mem_nodup hn hk⟩, h⟩
  · rintro ⟨⟨k, hk⟩, h⟩; exact ⟨⟨k, mem_of_lookup_some hk⟩, h⟩

/-- the memo invariant: a memoised instance was derived from a pod that is *currently* indexed at
that IP -/
def MemoOK (cfg : Config Pat) (s : State) : Prop :=
  ∀ ip inst, lookup ip s.memo = some (some inst) → ∃ q, q ∈ podsAt s.store ip ∧ inst = derive cfg q

def Inv (cfg : Config Pat) (s : State) : Prop := NodupKeys s.store ∧ MemoOK cfg s

theorem inv_init (cfg : Config Pat) : Inv cfg init := by
  refine ⟨by simp [init, NodupKeys, keys], ?_⟩
  intro ip inst h
  simp [init] at h

@[simp] theorem invalidate_store (s : State) (p : Pod) : (invalidate s p).store = s.store := by
  unfold invalidate; split <;> rfl

theorem invalidate_memo {s : State} {p : Pod} {ip : String} {x : Option Inst}
    (h : lookup ip (invalidate s p).memo = some x) :
    lookup ip s.memo = some x ∧ (indexable p = true → p.ip ≠ ip) := by
  unfold invalidate at h
  by_cases hi : indexable p = true
  · simp only [hi, if_true] at h
    rw [lookup_erase] at h
    by_cases he : p.ip = ip
    · simp [he] at h
    · simp only [he, if_false] at h
      exact ⟨h, fun _ => he⟩
  · simp only [hi] at h
    exact ⟨h, fun hh => absurd hh hi⟩

theorem foldl_invalidate_store (l : List Pod) (s : State) : (l.foldl invalidate s).store = s.store := by
  induction l generalizing s with
  | nil => rfl
  | cons a t ih => simp [List.foldl_cons, ih]

theorem foldl_invalidate_memo (l : List Pod) {s : State} {ip : String} {x : Option Inst}
    (h : lookup ip (l.foldl invalidate s).memo = some x) : lookup ip s.memo = some x := by
  induction l generalizing s with
  | nil => exact h
  | cons a t ih =>
    simp only [List.foldl_cons] at h
    exact (invalidate_memo (ih h)).1

theorem step_store (cfg : Config Pat) (s : State) (op : Op) :
    (step cfg s op).1.store = storeStep s.store op := by
  cases op with
  | apply p =>
    simp only [step, storeStep]
    split <;> simp
  | delete p => simp [step, storeStep]
  | resync => simp [step, storeStep, foldl_invalidate_store]
  | lookup ip =>
    simp only [step, storeStep, instanceFromCache]
    split <;> rfl

theorem nodup_storeStep {store : Store} (h : NodupKeys store) (op : Op) : NodupKeys (storeStep store op) := by
  cases op with
  | apply p => exact nodupKeys_upsert _ _ h
  | delete p => exact nodupKeys_erase _ h
  | resync => exact h
  | lookup ip => exact h

theorem nodup_storeAfter {store : Store} (h : NodupKeys store) (ops : List Op) : NodupKeys (storeAfter store ops) := by
  induction ops generalizing store with
  | nil => exact h
  | cons op t ih => exact ih (nodup_storeStep h op)

/-- the invariant is kept by every event and every lookup (a Deleted event must carry the stored
version of the pod, `okOp`) -/
theorem inv_step (cfg : Config Pat) {s : State} (hinv : Inv cfg s) (op : Op) (hok : okOp s.store op = true) :
    Inv cfg (step cfg s op).1 := by
  obtain ⟨hn, hm⟩ := hinv
  refine ⟨by rw [step_store]; exact nodup_storeStep hn op, ?_⟩
  have hn' : NodupKeys (step cfg s op).1.store := by rw [step_store]; exact nodup_storeStep hn op
  cases op with
  | apply p =>
    intro ip inst h
    cases hold : lookup p.key s.store with
    | none =>
      simp only [step, hold] at h hn' ⊢
      obtain ⟨q, hq, hd⟩ := hm ip inst h
      refine ⟨q, ?_, hd⟩
      rw [mem_podsAt_nodup hn] at hq
      rw [mem_podsAt_nodup hn']
      obtain ⟨⟨k, hk⟩, hrest⟩ := hq
      refine ⟨⟨k, ?_⟩, hrest⟩
      rw [lookup_upsert]
      by_cases hkk : p.key = k
      · subst hkk; rw [hold] at hk; cases hk
      · simp [hkk, hk]
    | some old =>
      simp only [step, hold] at h hn' ⊢
      obtain ⟨h0, hne⟩ := invalidate_memo h
      simp only [invalidate_store] at hn' ⊢
      obtain ⟨q, hq, hd⟩ := hm ip inst h0
      refine ⟨q, ?_, hd⟩
      rw [mem_podsAt_nodup hn] at hq
      rw [mem_podsAt_nodup hn']
      obtain ⟨⟨k, hk⟩, hidx, hip⟩ := hq
      refine ⟨⟨k, ?_⟩, hidx, hip⟩
      rw [lookup_upsert]
      by_cases hkk : p.key = k
      · subst hkk
        rw [hold] at hk
        cases hk
        exact absurd hip (hne hidx)
      · simp [hkk, hk]
  | delete p =>
    intro ip inst h
    simp only [step] at h hn' ⊢
    obtain ⟨h0, hne⟩ := invalidate_memo h
    simp only [invalidate_store] at hn' ⊢
    obtain ⟨q, hq, hd⟩ := hm ip inst h0
    refine ⟨q, ?_, hd⟩
    rw [mem_podsAt_nodup hn] at hq
    rw [mem_podsAt_nodup hn']
    obtain ⟨⟨k, hk⟩, hidx, hip⟩ := hq
    refine ⟨⟨k, ?_⟩, hidx, hip⟩
    rw [lookup_erase]
    by_cases hkk : p.key = k
    · subst hkk
      simp only [okOp, hk, decide_eq_true_eq] at hok
      subst hok
      exact absurd hip (hne hidx)
    · simp [hkk, hk]
  | resync =>
    intro ip inst h
    simp only [step] at h ⊢
    rw [foldl_invalidate_store]
    exact hm ip inst (foldl_invalidate_memo _ h)
  | lookup ip₀ =>
    intro ip inst h
    simp only [step, instanceFromCache] at h ⊢
    split at h
    · next inst₀ hhit =>
      simp only [hhit]
      exact hm ip inst h
    · next hmiss =>
      simp only at h
      rw [lookup_upsert] at h
      show ∃ q, q ∈ podsAt s.store ip ∧ inst = derive cfg q
      by_cases he : ip₀ = ip
      · subst he
        simp only [if_true, Option.some.injEq] at h
        unfold fromInformer at h
        cases hh : (podsAt s.store ip₀).head? with
        | none => simp [hh] at h
        | some q =>
          simp only [hh, Option.map_some, Option.some.injEq] at h
          exact ⟨q, List.mem_of_mem_head? hh, h.symm⟩
      · simp only [he, if_false] at h
        exact hm ip inst h

/-! ### distinct IPs ⇒ the pod indexed at an IP is unique -/

theorem head_filter_holds_of_nodup (l : List Pod) (ip : String)
    (hd : ((l.filter indexable).map (·.ip)).Nodup) {q : Pod} (hq : q ∈ l.filter (holds ip)) :
    l.find? (holds ip) = some q := by
  induction l with
  | nil => simp at hq
  | cons a t ih =>
    by_cases ha : holds ip a = true
    · simp only [List.find?_cons, ha]
      simp only [List.filter_cons, ha, if_true, List.mem_cons] at hq
      rcases hq with hq | hq
      · rw [hq]
      · exfalso
        have hai : indexable a = true ∧ a.ip = ip := by
          have := holds_eq ip a; rw [ha] at this; simpa using this.symm
        have hqi : indexable q = true ∧ q.ip = ip := by
          have h2 := (List.mem_filter.mp hq).2
          have := holds_eq ip q; rw [h2] at this; simpa using this.symm
        simp only [List.filter_cons, hai.1, if_true, List.map_cons, List.nodup_cons] at hd
        apply hd.1
        rw [hai.2, ← hqi.2]
        exact List.mem_map.mpr ⟨q, List.mem_filter.mpr ⟨(List.mem_filter.mp hq).1, hqi.1⟩, rfl⟩
    · have ha' : holds ip a = false := by simpa using ha
      simp only [List.find?_cons, ha']
      simp only [List.filter_cons, ha', Bool.false_eq_true, if_false] at hq
      apply ih _ hq
      by_cases hai : indexable a = true
      · simp only [List.filter_cons, hai, if_true, List.map_cons, List.nodup_cons] at hd
        exact hd.2
      · simpa [List.filter_cons, hai] using hd

theorem specAnswer_of_mem (cfg : Config Pat) {store : Store} (hd : distinctIPs store = true) {ip : String} {q : Pod}
    (hq : q ∈ podsAt store ip) : specAnswer cfg store ip = some (derive cfg q) := by
  unfold specAnswer
  rw [podsAt_eq_filter_holds] at hq
  have hd' : ((List.filter indexable (store.map Prod.snd)).map (·.ip)).Nodup := by
    unfold distinctIPs indexedIPs at hd
    exact of_decide_eq_true hd
  rw [head_filter_holds_of_nodup _ ip hd' hq]
  rfl

theorem fromInformer_eq_spec (cfg : Config Pat) (store : Store) (ip : String) :
    fromInformer cfg store ip = specAnswer cfg store ip := by
  unfold fromInformer specAnswer
  rw [podsAt_eq_filter_holds, List.head?_filter]

/-- in a state satisfying the invariant whose store has distinct IPs, a lookup answers the spec -/
theorem answer_eq_spec (cfg : Config Pat) {s : State} (hinv : Inv cfg s) (hd : distinctIPs s.store = true) (ip : String) :
    (instanceFromCache cfg s ip).2 = specAnswer cfg s.store ip := by
  unfold instanceFromCache
  split
  · next inst hhit =>
    obtain ⟨q, hq, hdq⟩ := hinv.2 ip inst hhit
    rw [specAnswer_of_mem cfg hd hq, hdq]
  · exact fromInformer_eq_spec cfg s.store ip

/-- without the distinctness hypothesis: an answer is derived from *some* pod currently indexed at the IP -/
theorem answer_from_current (cfg : Config Pat) {s : State} (hinv : Inv cfg s) (ip : String) (inst : Inst)
    (h : (instanceFromCache cfg s ip).2 = some inst) : ∃ q, q ∈ podsAt s.store ip ∧ inst = derive cfg q := by
  unfold instanceFromCache at h
  split at h
  · next inst₀ hhit =>
    simp only [Option.some.injEq] at h
    subst h
    exact hinv.2 ip inst₀ hhit
  · simp only at h
    unfold fromInformer at h
    cases hh : (podsAt s.store ip).head? with
    | none => simp [hh] at h
    | some q =>
      simp only [hh, Option.map_some, Option.some.injEq] at h
      exact ⟨q, List.mem_of_mem_head? hh, h.symm⟩

theorem run_append (cfg : Config Pat) (s : State) (a b : List Op) :
    run cfg s (a ++ b) = run cfg s a ++ run cfg (stateAfter cfg s a) b := by
  induction a generalizing s with
  | nil => rfl
  | cons op t ih => simp [run, stateAfter, ih]

theorem run_length (cfg : Config Pat) (s : State) (a : List Op) : (run cfg s a).length = a.length := by
  induction a generalizing s with
  | nil => rfl
  | cons op t ih => simp [run, ih]

theorem stateAfter_store (cfg : Config Pat) (s : State) (ops : List Op) :
    (stateAfter cfg s ops).store = storeAfter s.store ops := by
  induction ops generalizing s with
  | nil => rfl
  | cons op t ih => simp [stateAfter, storeAfter, ih, step_store]

theorem consistent_append {store : Store} {a b : List Op} (h : consistent store (a ++ b) = true) :
    consistent store a = true ∧ consistent (storeAfter store a) b = true := by
  induction a generalizing store with
  | nil => exact ⟨rfl, h⟩
  | cons op t ih =>
    simp only [List.cons_append, consistent, Bool.and_eq_true] at h
    obtain ⟨h1, h2⟩ := ih h.2
    exact ⟨by simp [consistent, h.1, h1], h2⟩

theorem inv_stateAfter (cfg : Config Pat) {s : State} (hinv : Inv cfg s) (ops : List Op)
    (hc : consistent s.store ops = true) : Inv cfg (stateAfter cfg s ops) := by
  induction ops generalizing s with
  | nil => exact hinv
  | cons op t ih =>
    simp only [consistent, Bool.and_eq_true] at hc
    apply ih (inv_step cfg hinv op hc.1)
    rw [step_store]; exact hc.2

theorem valid_consistent {store : Store} {ops : List Op} (h : valid store ops = true) : consistent store ops = true := by
  induction ops generalizing store with
  | nil => rfl
  | cons op t ih =>
    simp only [valid, Bool.and_eq_true] at h
    simp [consistent, h.1.1, ih h.2]

/-- the provider's outputs equal the memo-free specification run, from any state satisfying the invariant -/
theorem run_eq_specRun (cfg : Config Pat) (ops : List Op) :
    ∀ (s : State), Inv cfg s → valid s.store ops = true → run cfg s ops = specRun cfg s.store ops := by
  induction ops with
  | nil => intro s _ _; rfl
  | cons op t ih =>
    intro s hinv hv
    simp only [valid, Bool.and_eq_true] at hv
    obtain ⟨⟨hok, hd⟩, hrest⟩ := hv
    have hinv' := inv_step cfg hinv op hok
    have hrest' : valid (step cfg s op).1.store t = true := by rw [step_store]; exact hrest
    simp only [run, specRun]
    rw [ih (step cfg s op).1 hinv' hrest', step_store]
    congr 1
    cases op with
    | apply p => simp only [step]; split <;> rfl
    | delete p => rfl
    | resync => rfl
    | lookup ip =>
      simp only [step]
      rw [answer_eq_spec cfg hinv (by simpa [storeStep] using hd) ip]

/-! the driver's `xrun` / `xspecRun` / `xops` on histories without racing lookups are `run` / `specRun` / the history -/
theorem xrunG_plain (fixed : Bool) (cfg : Config Pat) (s : State) (ops : List Op) :
    xrunG fixed cfg s (ops.map .plain) = run cfg s ops := by
  induction ops generalizing s with
  | nil => rfl
  | cons op t ih => simp [xrunG, run, xstepG, ih]

theorem xrun_plain (cfg : Config Pat) (s : State) (ops : List Op) : xrun cfg s (ops.map .plain) = run cfg s ops :=
  xrunG_plain _ cfg s ops

theorem xspecRun_plain (cfg : Config Pat) (store : Store) (ops : List Op) :
    xspecRun cfg store (ops.map .plain) = specRun cfg store ops := by
  induction ops generalizing store with
  | nil => rfl
  | cons op t ih => simp [xspecRun, specRun, ih]

theorem xops_plain (ops : List Op) : xops (ops.map .plain) = ops := by
  induction ops with
  | nil => rfl
  | cons op t ih => simpa [xops] using ih

/-! ### racing lookups with the repair (generation counter) -/

theorem podsAt_survives {s : State} (hn : NodupKeys s.store) {ev : Op} (hok : okOp s.store ev = true)
    (hni : eventInvalidates s ev = false) {ip : String} {q : Pod} (hq : q ∈ podsAt s.store ip) :
    q ∈ podsAt (storeStep s.store ev) ip := by
  have hn' := nodup_storeStep hn ev
  rw [mem_podsAt_nodup hn] at hq
  rw [mem_podsAt_nodup hn']
  obtain ⟨⟨k, hk⟩, hidx, hip⟩ := hq
  refine ⟨⟨k, ?_⟩, hidx, hip⟩
  cases ev with
  | apply p =>
    simp only [storeStep]
    rw [lookup_upsert]
    by_cases hkk : p.key = k
    · subst hkk
      simp only [eventInvalidates, hk] at hni
      rw [hni] at hidx; cases hidx
    · simp [hkk, hk]
  | delete p =>
    simp only [storeStep]
    rw [lookup_erase]
    by_cases hkk : p.key = k
    · subst hkk
      simp only [okOp, hk, decide_eq_true_eq] at hok
      subst hok
      simp only [eventInvalidates] at hni
      rw [hni] at hidx; cases hidx
    · simp [hkk, hk]
  | resync => exact hk
  | lookup ip' => exact hk

/-- one racing lookup of the repaired provider: it answers the specification of the store it read,
and leaves a state that satisfies the invariant over the store after the event -/
theorem race_step_fixed (cfg : Config Pat) {s : State} (hinv : Inv cfg s) (hd : distinctIPs s.store = true)
    (ip : String) (ev : Op) (hok : okOp s.store ev = true) :
    (xstepG true cfg s (.race ip ev)).2 = .ans (specAnswer cfg s.store ip) ∧
    Inv cfg (xstepG true cfg s (.race ip ev)).1 ∧
    (xstepG true cfg s (.race ip ev)).1.store = storeStep s.store ev := by
  have hinv' := inv_step cfg hinv ev hok
  have hst := step_store cfg s ev
  simp only [xstepG]
  split
  · next inst hhit =>
    obtain ⟨q, hq, hdq⟩ := hinv.2 ip inst hhit
    refine ⟨?_, hinv', hst⟩
    rw [specAnswer_of_mem cfg hd hq, hdq]
  · next hmiss =>
    have hr : lookupRead cfg s ip = specAnswer cfg s.store ip := fromInformer_eq_spec cfg s.store ip
    by_cases hi : eventInvalidates s ev = true
    · simp only [hi, Bool.and_self, if_true]
      exact ⟨by rw [hr], hinv', hst⟩
    · have hi' : eventInvalidates s ev = false := by simpa using hi
      simp only [hi', Bool.and_false, Bool.false_eq_true, if_false]
      refine ⟨by rw [hr], ⟨?_, ?_⟩, ?_⟩
      · simpa [lookupWrite] using hinv'.1
      · intro ip' inst h
        simp only [lookupWrite] at h ⊢
        rw [lookup_upsert] at h
        by_cases he : ip = ip'
        · subst he
          simp only [if_true, Option.some.injEq] at h
          unfold lookupRead fromInformer at h
          cases hh : (podsAt s.store ip).head? with
          | none => simp [hh] at h
          | some q =>
            simp only [hh, Option.map_some, Option.some.injEq] at h
            refine ⟨q, ?_, h.symm⟩
            rw [hst]
            exact podsAt_survives hinv.1 hok hi' (List.mem_of_mem_head? hh)
        · simp only [he, if_false] at h
          exact hinv'.2 ip' inst h
      · simpa [lookupWrite] using hst

theorem xrunG_fixed_eq_spec (cfg : Config Pat) (l : List XOp) :
    ∀ (s : State), Inv cfg s → valid s.store (xops l) = true → xrunG true cfg s l = xspecRun cfg s.store l := by
  induction l with
  | nil => intro s _ _; rfl
  | cons x t ih =>
    intro s hinv hv
    cases x with
    | plain op =>
      have hx : xops (XOp.plain op :: t) = op :: xops t := by simp [xops]
      rw [hx] at hv
      simp only [valid, Bool.and_eq_true] at hv
      obtain ⟨⟨hok, hd⟩, hrest⟩ := hv
      have hinv' := inv_step cfg hinv op hok
      have hrest' : valid (step cfg s op).1.store (xops t) = true := by rw [step_store]; exact hrest
      simp only [xrunG, xspecRun, xstepG]
      rw [ih (step cfg s op).1 hinv' hrest', step_store]
      congr 1
      cases op with
      | apply p => simp only [step]; split <;> rfl
      | delete p => rfl
      | resync => rfl
      | lookup ip =>
        simp only [step]
        rw [answer_eq_spec cfg hinv (by simpa [storeStep] using hd) ip]
    | race ip ev =>
      have hx : xops (XOp.race ip ev :: t) = Op.lookup ip :: ev :: xops t := by simp [xops]
      rw [hx] at hv
      simp only [valid, Bool.and_eq_true, storeStep] at hv
      obtain ⟨⟨_, hd⟩, ⟨hok, hd'⟩, hrest⟩ := hv
      obtain ⟨hans, hinv', hst⟩ := race_step_fixed cfg hinv hd ip ev hok
      simp only [xrunG, xspecRun]
      rw [ih _ hinv' (by rw [hst]; exact hrest), hst, hans]

end Gsd.K8s
