import Gsd.Proofs.Lemmas.Datagram
/-!
# C05 — lines of a datagram are independent; last gauge wins

Property theorems only (helpers: `Proofs/Lemmas/Datagram.lean`).

Two models of `handleDatagram` are related:
* `handleBuf` — the **array-level** one: the datagram buffer is threaded through, each line is lexed from
  the buffer as the earlier lines have left it (`lexKeySep` rewrites and deletes bytes in place), the next
  `\n` is searched in that same buffer;
* `handle` — the **list-level** one: split the original message into lines, lex each line alone.

`C05_concat` says they give the same items in the same order, for every message, every content of the
rest of the (pooled, 64 KiB) buffer, every capacity, namespace, ignore-host setting, `ParseFloat`.
What a pure model cannot express — that the *strings* of a metric do not alias the buffer — is checked
at run time only (harness: scribble `0xAA` over the buffer after parsing, force GC, re-read the result).
-/
set_option linter.unusedSimpArgs false
set_option linter.unusedVariables false
set_option linter.unusedSectionVars false
namespace Gsd
open Lexer Datagram

/-- **C05_frame.**  Lexing the window `[lo, hi)` of a buffer (the in-place normalisation of `lexKeySep`:
`input[pos-1] = c` and `append(input[0:pos-1], input[pos:]...)`) changes no byte outside `[lo, hi)` and
keeps the buffer's length: a line never shifts bytes into, or out of, its neighbours. -/
theorem C05_frame (buf : Bytes) (lo hi : Nat) (h : hi ≤ buf.length) :
    (lexWindowBuf buf lo hi).length = buf.length ∧
    ∀ k, (k < lo ∨ hi ≤ k) → (lexWindowBuf buf lo hi)[k]? = buf[k]? :=
  lexWindowBuf_frame buf lo hi h

section
variable {F : Type} [FloatLike F]

/-- **C05_concat.**  Parsing a datagram in its (mutable, shared) buffer gives exactly the concatenation of
parsing each of its newline-separated lines alone: same items, same order, whatever the neighbouring lines
contain (valid, invalid, needing in-place normalisation, empty) and whatever follows the message in the
buffer; the bad-line count is the number of lines that are rejected on their own. -/
theorem C05_concat (cfg : Cfg) (pf : Bytes → Option F) (c : Config) (bufCap : Nat) (msg rest : Bytes) (fuel : Nat)
    (hf : msg.length < fuel) :
    (handleBuf cfg pf c bufCap msg.length fuel (msg ++ rest) 0).1 = handle cfg pf c bufCap msg ∧
    handle cfg pf c bufCap msg = (withCaps bufCap 0 (splitLines msg)).map (fun lc => lexAlone cfg pf c lc.1 lc.2) ∧
    badCount (handle cfg pf c bufCap msg) =
      ((withCaps bufCap 0 (splitLines msg)).filter (fun lc => match lexAlone cfg pf c lc.1 lc.2 with | .bad _ => true | _ => false)).length := by
  refine ⟨?_, rfl, ?_⟩
  · rw [handleBuf_eq cfg pf c bufCap msg.length fuel (msg ++ rest) 0 (by simp) (by omega)]
    have : window (msg ++ rest) 0 msg.length = msg := by simp [window]
    rw [this]; rfl
  · simp only [badCount, handle, List.filter_map, List.length_map]
    rfl

/-- **C05_trailing_newline.**  A final newline changes nothing: `msg` and `msg ++ "\n"` give the same
items (for a non-empty `msg` that does not already end in a newline — one more `\n` after a newline *is*
one more, empty, line, and an empty line is a bad line: `C05_empty_line_is_bad`). -/
theorem C05_trailing_newline (cfg : Cfg) (pf : Bytes → Option F) (c : Config) (bufCap : Nat) (msg : Bytes)
    (hne : msg ≠ []) (hlast : msg.getLast? ≠ some 10) :
    handle cfg pf c bufCap (msg ++ [10]) = handle cfg pf c bufCap msg := by
  simp only [handle, splitLines]
  rw [splitLinesAux_trailing msg [] (Or.inr hne) hlast]

/-- **C05_empty_line_is_bad.**  An empty line (two consecutive newlines, or a leading newline) is a line,
and it is counted as a bad line (`lexSpecial` on empty input: `errInvalidType`). -/
theorem C05_empty_line_is_bad (cfg : Cfg) (pf : Bytes → Option F) (c : Config) (cap : Nat) :
    lexAlone cfg pf c [] cap = .bad .type ∧ splitLines [10] = [[]] ∧ splitLines [97, 10, 10, 98] = [[97], [], [98]] ∧
    splitLines [] = [] ∧ splitLines [97, 10] = [[97]] := by
  refine ⟨by simp [lexAlone, run, itemOf], by decide, by decide, by decide, by decide⟩

/-- **C05_source_time.**  Every metric of a datagram carries the datagram's receive time; its source is the
sender address, or — with ignore-host — the value of its first `host:` tag, which is removed from the tags
(the others keep their order), and the empty string when there is none.  Events always carry the sender
address. -/
theorem C05_source_time (c : Config) (m : Metric F) (e : Event) :
    (placeMetric c m).ts = c.now ∧
    (c.ignoreHost = false → (placeMetric c m).source = c.ip ∧ (placeMetric c m).m = m) ∧
    (c.ignoreHost = true → (∀ t ∈ m.tags, isHostTag t = false) →
        (placeMetric c m).source = [] ∧ (placeMetric c m).m = m) ∧
    (c.ignoreHost = true → ∀ pre t post, m.tags = pre ++ t :: post → (∀ x ∈ pre, isHostTag x = false) → isHostTag t = true →
        (placeMetric c m).source = t.drop 5 ∧ (placeMetric c m).m = { m with tags := pre ++ post }) ∧
    (itemOf c (Outcome.event e : Outcome F) = .event { e with host := c.ip }) := by
  refine ⟨?_, ?_, ?_, ?_, rfl⟩
  · unfold placeMetric; split <;> rfl
  · intro h; simp [placeMetric, h]
  · intro h hno
    simp only [placeMetric, h, if_true, stripHost_none m.tags hno]
    exact ⟨by first | rfl | trivial, by first | rfl | trivial⟩
  · intro h pre t post htags hpre ht
    simp only [placeMetric, h, if_true, htags, stripHost_first pre t post hpre ht]
    exact ⟨by first | rfl | trivial, by first | rfl | trivial⟩

/-- every metric item of a datagram has the datagram's time, and (without ignore-host) the sender as source -/
theorem C05_source_time_all (cfg : Cfg) (pf : Bytes → Option F) (c : Config) (bufCap : Nat) (msg : Bytes) :
    ∀ d ∈ metricsOf (handle cfg pf c bufCap msg), d.ts = c.now ∧ (c.ignoreHost = false → d.source = c.ip) := by
  intro d hd
  simp only [metricsOf, handle, List.mem_filterMap, List.mem_map] at hd
  obtain ⟨i, ⟨lc, _, rfl⟩, hi⟩ := hd
  simp only [lexAlone] at hi
  cases hr : run cfg pf c.ns lc.2 lc.1 with
  | metric m =>
    rw [hr] at hi
    simp only [itemOf, Option.some.injEq] at hi
    subst hi
    exact ⟨(C05_source_time c m {}).1, fun h => ((C05_source_time c m {}).2.1 h).1⟩
  | event e => rw [hr] at hi; simp [itemOf] at hi
  | reject e => rw [hr] at hi; simp [itemOf] at hi
  | panic => rw [hr] at hi; simp [itemOf] at hi

end

/-- **C05_name_readback.**  The array-level and the list-level model agree on what the lexer reads after
`lexKeySep`: in the rewritten buffer the line's window begins with the normalised name, the `:` and the
untouched rest of the line (then `|name| − |norm name|` stale bytes up to the old end of the line); bytes
before and after the window are as they were. -/
theorem C05_name_readback (pre nm rest post : Bytes) (h0 : (0 : UInt8) ∉ nm) (h58 : (58 : UInt8) ∉ nm)
    (hh : nm.head? ≠ some 95) :
    ∃ stale : Bytes, stale.length = nm.length - (norm nm).length ∧
      lexWindowBuf (pre ++ (nm ++ 58 :: (rest ++ post))) pre.length (pre.length + (nm.length + 1 + rest.length)) =
        pre ++ (norm nm ++ 58 :: (rest ++ (stale ++ post))) := by
  obtain ⟨stale, hl, e⟩ := keySepArr_readback pre rest post nm h0 h58 [] []
  refine ⟨stale, by simpa using hl, ?_⟩
  simp only [List.nil_append, List.length_nil] at e
  unfold lexWindowBuf
  have hget : (pre ++ (nm ++ 58 :: (rest ++ post)))[pre.length]? = some ((nm ++ 58 :: (rest ++ post)).head (by simp)) := by
    rw [List.getElem?_append_right (Nat.le_refl _)]
    cases nm <;> simp
  rw [hget]
  simp only
  have hb : ¬ (pre.length + (nm.length + 1 + rest.length) ≤ pre.length ∨
      (nm ++ 58 :: (rest ++ post)).head (by simp) = 95 ∨ (nm ++ 58 :: (rest ++ post)).head (by simp) = 0) := by
    intro h
    rcases h with h | h | h
    · omega
    · cases nm with
      | nil => simp at h
      | cons b t => simp at h hh; exact hh h
    · cases nm with
      | nil => simp at h
      | cons b t => simp at h; exact h0 (by simp [h])
  rw [if_neg hb]
  rw [show pre.length + (nm.length + 1 + rest.length) - pre.length = nm.length + 1 + rest.length by omega]
  exact e

/-- **C05_last_gauge_wins** (repaired code, `>=` in `receiveGauge`).  All lines of a datagram share one
timestamp; folding its gauge datapoints into a map with the repaired comparison leaves every series with
the value of its **last** line. -/
theorem C05_last_gauge_wins {κ V : Type} [DecidableEq κ] (now : Int) (dps : List (κ × Int × V))
    (hts : ∀ d ∈ dps, d.2.1 = now) (k : κ) :
    AList.lookup k (gaugeFold true dps) = (lastFor k dps).map (fun v => (now, v)) := by
  unfold gaugeFold
  rw [gaugeFold_aux now k dps [] (by simp) hts]
  cases lastFor k dps <;> simp

/-- **C05_first_gauge_wins_on_pinned_tree** (negative witness, D3).  With the code's `>` the datagram
`g:1|g\ng:2|g` (one timestamp) records 1, not 2; the repaired comparison records 2. -/
theorem C05_first_gauge_wins_on_pinned_tree :
    AList.lookup "g" (gaugeFold false [("g", (1000 : Int), (1 : Nat)), ("g", 1000, 2)]) = some (1000, 1) ∧
    AList.lookup "g" (gaugeFold true [("g", (1000 : Int), (1 : Nat)), ("g", 1000, 2)]) = some (1000, 2) := by
  refine ⟨by decide, by decide⟩

/-- non-vacuity of `C05_last_gauge_wins`: three lines, two series -/
example : lastFor "g" [("g", (7 : Int), (1 : Nat)), ("h", 7, 5), ("g", 7, 2)] = some 2 ∧
    lastFor "h" [("g", (7 : Int), (1 : Nat)), ("h", 7, 5), ("g", 7, 2)] = some 5 := by decide

/-- non-vacuity of `C05_concat` / `C05_frame`: in the buffer `"$a$:1|c\n$b:2|c"` lexing the first line
rewrites bytes 0–6 only (the name `a`, the rest shifted left, the stale tail kept), and the second line is still found and lexed as it was -/
example : lexWindowBuf [36, 97, 36, 58, 49, 124, 99, 10, 36, 98, 58, 50, 124, 99] 0 7 =
    [97, 58, 49, 124, 99, 99, 99, 10, 36, 98, 58, 50, 124, 99] := by decide

end Gsd
