import Gsd.Model.Cache
import Gsd.Proofs.Lemmas.Cache
/-!
# C12 — the instance cache answers every lookup once and never forgets good data on error

Property theorems only (helpers: `Proofs/Lemmas/Cache.lean`).  All statements quantify over **every**
schedule `acts : List (Action σ ι)` of the transition system `Gsd.Cache.step` that is enabled from the
initial state (`run cfg init acts = some st`), hence over every grouping of waiting sources into
batches, every provider outcome (`outcome : σ → Option ι`, with or without error), every interleaving
of client submissions, cache reads, refresh ticks and time stamps, and every configuration.
-/
set_option linter.unusedSimpArgs false
set_option linter.unusedSectionVars false
set_option linter.unusedVariables false
namespace Gsd
open Gsd.AList Gsd.Cache

variable {σ ι : Type} [DecidableEq σ]

/-! ## the cache is a map (used as a hypothesis by the per-step theorems below) -/

theorem C12_cache_is_map (cfg : Config) (acts : List (Action σ ι)) (st : State σ ι)
    (hr : run cfg init acts = some st) : NodupKeys st.cache :=
  (inv_reachable cfg acts st hr).nodup

/-! ## one answer per query -/

/-- **C12_one_answer_per_query.**  In every reachable state and for every source `s`: the number of
answers `doLookup` has sent for `s` equals the number of times `s` was put in a batch — whatever the
grouping, the outcome and the error flag were — and each of these answers is in exactly one place:
waiting for the owner, handled and waiting for the consumer, or delivered. -/
theorem C12_one_answer_per_query (cfg : Config) (acts : List (Action σ ι)) (st : State σ ι)
    (hr : run cfg init acts = some st) (s : σ) :
    st.emitted.countP (fun i => decide (i.ip = s)) = st.queried.count s ∧
    st.emitted.countP (fun i => decide (i.ip = s)) =
      st.answers.countP (fun i => decide (i.ip = s)) + st.toReturn.countP (fun i => decide (i.ip = s)) +
      st.delivered.countP (fun i => decide (i.ip = s)) := by
  have hinv := inv_reachable cfg acts st hr
  exact ⟨hinv.perSource s, hinv.conserve _⟩

/-- **C12_no_answer_lost_or_duplicated.**  The same conservation for every predicate on answers (so for
each individual `(ip, instance)` value): nothing is dropped or duplicated between `doLookup` and the
`InfoSource()` consumer. -/
theorem C12_no_answer_lost_or_duplicated (cfg : Config) (acts : List (Action σ ι)) (st : State σ ι)
    (hr : run cfg init acts = some st) (p : Info σ ι → Bool) :
    st.emitted.countP p = st.answers.countP p + st.toReturn.countP p + st.delivered.countP p :=
  (inv_reachable cfg acts st hr).conserve p

/-- **C12_answers_from_map.**  What a batch does: one answer per element of the batch, in order, each
carrying `instances[ip]` of the returned (possibly partial, possibly nil) map; the error flag changes
nothing; the cache is not touched. -/
theorem C12_answers_from_map (cfg : Config) (st st' : State σ ι) (ss : List σ) (o : σ → Option ι) (e : Bool)
    (h : step cfg st (.batch ss o e) = some st') :
    st'.answers = st.answers ++ ss.map (fun s => ({ ip := s, inst := o s } : Info σ ι)) ∧
    st'.queried = st.queried ++ ss ∧ st'.cache = st.cache ∧
    step cfg st (.batch ss o (!e)) = some st' := by
  simp only [step] at h ⊢
  split at h
  · simp at h
  · split at h
    · simp at h
    · rename_i rest hto
      simp only [Option.some.injEq] at h; subst h
      simp [*]

/-! ## every submission is queried -/

/-- **C12_every_submission_queried.**  With a batch limit ≥ 1, a reachable state in which the component
can do nothing more by itself (no `batch`, `handleInfo`, `deliver` is enabled) has nothing waiting
anywhere, and then for every source: #requests (client submissions + refresh re-queues) = #times put in a
batch = #answers delivered to the consumer.  (Liveness under fairness: as long as something is waiting
an internal action is enabled.) -/
theorem C12_every_submission_queried (cfg : Config) (hmax : 1 ≤ cfg.maxBatch)
    (acts : List (Action σ ι)) (st : State σ ι) (hr : run cfg init acts = some st)
    (hq : Quiescent cfg st) :
    st.pending = [] ∧ st.answers = [] ∧ st.toReturn = [] ∧
    ∀ s : σ, st.requested.count s = st.queried.count s ∧
      st.queried.count s = st.delivered.countP (fun i => decide (i.ip = s)) := by
  have hinv := inv_reachable cfg acts st hr
  have hp : st.pending = [] := by
    cases hpd : st.pending with
    | nil => rfl
    | cons x xs =>
      have := hq (.batch [x] (fun _ => none) false) rfl
      have hlen : ¬ cfg.maxBatch < 1 := by omega
      simp [step, hpd, takeOut, hlen] at this
  have ha : st.answers = [] := by
    cases had : st.answers with
    | nil => rfl
    | cons x xs =>
      have := hq (.handleInfo 0) rfl
      simp [step, had] at this
  have ht : st.toReturn = [] := by
    cases htd : st.toReturn with
    | nil => rfl
    | cons x xs =>
      have := hq (.deliver 0) rfl
      simp [step, htd, extract] at this
  refine ⟨hp, ha, ht, ?_⟩
  intro s
  have h1 := hinv.req s
  have h2 := hinv.perSource s
  have h3 := hinv.conserve (fun i => decide (i.ip = s))
  rw [hp] at h1
  rw [ha, ht] at h3
  simp at h1 h3
  exact ⟨h1, by omega⟩

/-- every client submission and every refresh re-queue is recorded as a request (definitional). -/
theorem C12_submit_is_request (cfg : Config) (st : State σ ι) (s : σ) :
    step cfg st (.submit s) =
      some { st with pending := st.pending ++ [s], requested := st.requested ++ [s] } := rfl

/-! ## once positive, the instance is kept -/

/-- one step keeps "`s` resolves to `v` and every answer in flight for `s` is a failure" as long as
the provider fails for `s` and the entry is not evicted -/
theorem C12_sticky_step (cfg : Config) (s : σ) (v : ι) (st st' : State σ ι) (a : Action σ ι)
    (hn : NodupKeys st.cache)
    (hpos : peekVal st s = some (some v))
    (hq : ∀ i ∈ st.answers, i.ip = s → i.inst = none)
    (hf : a.failsFor s)
    (hstep : step cfg st a = some st')
    (hk : (lookup s st'.cache).isSome = true) :
    peekVal st' s = some (some v) ∧ (∀ i ∈ st'.answers, i.ip = s → i.inst = none) := by
  cases a with
  | submit x =>
    simp only [step, Option.some.injEq] at hstep; subst hstep
    exact ⟨hpos, hq⟩
  | batch ss o e =>
    obtain ⟨h1, _, h3, _⟩ := C12_answers_from_map cfg st st' ss o e hstep
    refine ⟨by simpa [peekVal, h3] using hpos, ?_⟩
    intro i hi his
    rw [h1, List.mem_append] at hi
    rcases hi with hi | hi
    · exact hq i hi his
    · simp only [List.mem_map] at hi
      obtain ⟨x, _, rfl⟩ := hi
      simp only at his ⊢
      subst his
      exact hf
  | handleInfo now =>
    simp only [step] at hstep
    split at hstep
    · simp at hstep
    · rename_i i rest ha
      simp only [Option.some.injEq] at hstep; subst hstep
      obtain ⟨hc, han⟩ := handle_cache cfg now i { st with answers := rest }
      refine ⟨?_, ?_⟩
      · simp only [peekVal, hc, lookup_upsert]
        by_cases his : i.ip = s
        · have hnone : i.inst = none := hq i (by rw [ha]; exact List.mem_cons_self) his
          simp only [peekVal, Option.map_eq_some_iff] at hpos
          obtain ⟨cur, hcur, hci⟩ := hpos
          subst his
          simp [hcur, hnone, newHolder, hci]
        · simpa [his, peekVal] using hpos
      · intro j hj hjs
        rw [han] at hj
        exact hq j (by rw [ha]; exact List.mem_cons_of_mem _ hj) hjs
  | deliver k =>
    simp only [step] at hstep
    split at hstep
    · simp at hstep
    · simp only [Option.some.injEq] at hstep; subst hstep
      exact ⟨hpos, hq⟩
  | peek x now =>
    simp only [step, Option.some.injEq] at hstep; subst hstep
    refine ⟨?_, hq⟩
    simp only [peekVal, touch, lookup_mapVals, Option.map_map] at hpos ⊢
    rw [← hpos]
    congr 1
    funext h
    simp only [Function.comp]
    split <;> rfl
  | tick t =>
    simp only [step, Option.some.injEq] at hstep; subst hstep
    refine ⟨?_, hq⟩
    simp only [tick, lookup_filter _ _ hn] at hk
    simp only [peekVal, tick, lookup_filter _ _ hn] at hpos ⊢
    cases hl : lookup s st.cache with
    | none => simp [hl] at hk
    | some h =>
      rw [hl] at hk hpos
      simp only [Option.filter] at hk ⊢
      split at hk
      · rename_i hkeep; simp [hkeep]; simpa using hpos
      · simp at hk

/-- **C12_sticky_positive.**  Once `Peek(s)` returns the instance `v`, it keeps returning `v` along every
schedule in which the provider never resolves `s` again (it errs, answers nil, or leaves `s` out of its
map — in any batch grouping) for as long as the entry is not evicted; refreshes, re-submissions, reads
and ticks in between change nothing.  (`hq`: the answers already in flight for `s` are failures too — a
positive one would legitimately replace `v`.) -/
theorem C12_sticky_positive (cfg : Config) (s : σ) (v : ι) (st st' : State σ ι) (acts : List (Action σ ι))
    (hn : NodupKeys st.cache)
    (hpos : peekVal st s = some (some v))
    (hq : ∀ i ∈ st.answers, i.ip = s → i.inst = none)
    (hf : ∀ a ∈ acts, Action.failsFor s a)
    (hk : keptAlong cfg s st acts = true)
    (hr : run cfg st acts = some st') :
    peekVal st' s = some (some v) := by
  induction acts generalizing st with
  | nil => simp [run] at hr; subst hr; exact hpos
  | cons a as ih =>
    simp only [run, Option.bind_eq_some_iff] at hr
    obtain ⟨mid, hm, hrest⟩ := hr
    simp only [keptAlong, hm, Bool.and_eq_true] at hk
    have hstep := C12_sticky_step cfg s v st mid a hn hpos hq (hf a List.mem_cons_self) hm hk.1
    have hinv : NodupKeys mid.cache := by
      cases a with
      | submit x => simp only [step, Option.some.injEq] at hm; subst hm; exact hn
      | batch ss o e => rw [(C12_answers_from_map cfg st mid ss o e hm).2.2.1]; exact hn
      | handleInfo now =>
        simp only [step] at hm
        split at hm
        · simp at hm
        · simp only [Option.some.injEq] at hm; subst hm
          rw [(handle_cache cfg now _ _).1]; exact nodupKeys_upsert _ _ hn
      | deliver k =>
        simp only [step] at hm
        split at hm
        · simp at hm
        · simp only [Option.some.injEq] at hm; subst hm; exact hn
      | peek x now => simp only [step, Option.some.injEq] at hm; subst hm; simp only [touch]; exact nodupKeys_mapVals _ hn
      | tick t => simp only [step, Option.some.injEq] at hm; subst hm; exact nodupKeys_filter _ hn
    exact ih mid hinv hstep.1 hstep.2 (fun a ha => hf a (List.mem_cons_of_mem _ ha)) hk.2 hrest

/-- **C12_positive_never_negative.**  Whatever the later outcomes are (failures *or* new data), a positive
entry never turns negative: one step keeps `Peek(s)` a positive hit unless it evicts `s`. -/
theorem C12_positive_never_negative (cfg : Config) (s : σ) (st st' : State σ ι) (a : Action σ ι)
    (hn : NodupKeys st.cache)
    (hpos : ∃ v, peekVal st s = some (some v))
    (hstep : step cfg st a = some st') :
    peekVal st' s = none ∨ ∃ v', peekVal st' s = some (some v') := by
  obtain ⟨v, hv⟩ := hpos
  simp only [peekVal, Option.map_eq_some_iff] at hv
  obtain ⟨cur, hcur, hci⟩ := hv
  cases a with
  | submit x =>
    simp only [step, Option.some.injEq] at hstep; subst hstep
    exact Or.inr ⟨v, by simp [peekVal, hcur, hci]⟩
  | batch ss o e =>
    rw [show peekVal st' s = peekVal st s by simp [peekVal, (C12_answers_from_map cfg st st' ss o e hstep).2.2.1]]
    exact Or.inr ⟨v, by simp [peekVal, hcur, hci]⟩
  | handleInfo now =>
    simp only [step] at hstep
    split at hstep
    · simp at hstep
    · rename_i i rest ha
      simp only [Option.some.injEq] at hstep; subst hstep
      right
      simp only [peekVal, (handle_cache cfg now i _).1, lookup_upsert]
      by_cases his : i.ip = s
      · subst his
        cases hin : i.inst with
        | none => exact ⟨v, by simp [hcur, newHolder, hci]⟩
        | some w => exact ⟨w, by simp [hcur, newHolder]⟩
      · exact ⟨v, by simp [his, hcur, hci]⟩
  | deliver k =>
    simp only [step] at hstep
    split at hstep
    · simp at hstep
    · simp only [Option.some.injEq] at hstep; subst hstep
      exact Or.inr ⟨v, by simp [peekVal, hcur, hci]⟩
  | peek x now =>
    simp only [step, Option.some.injEq] at hstep; subst hstep
    right; refine ⟨v, ?_⟩
    simp only [peekVal, touch, lookup_mapVals, hcur, Option.map_some]
    split <;> simp [hci]
  | tick t =>
    simp only [step, Option.some.injEq] at hstep; subst hstep
    simp only [peekVal, tick, lookup_filter _ _ hn, hcur, Option.filter]
    split
    · exact Or.inr ⟨v, by simp [hci]⟩
    · exact Or.inl rfl

/-! ## eviction and re-query at the refresh tick -/

/-- **C12_evict_idle.**  A refresh tick at `t` removes exactly the entries with
`t - lastAccess > idle` (strictly) and leaves every other entry unchanged. -/
theorem C12_evict_idle (cfg : Config) (t : Int) (st : State σ ι) (hn : NodupKeys st.cache) (s : σ) :
    lookup s (tick cfg t st).cache =
      match lookup s st.cache with
      | none => none
      | some h => if t - h.lastAccess > cfg.idle then none else some h := by
  simp only [tick, lookup_filter _ _ hn]
  cases lookup s st.cache with
  | none => rfl
  | some h =>
    simp only [Option.filter, idleOut]
    by_cases hc : t - h.lastAccess > cfg.idle <;> simp [hc]

/-- **C12_only_tick_evicts.**  No other action removes an entry. -/
theorem C12_only_tick_evicts (cfg : Config) (st st' : State σ ι) (a : Action σ ι) (s : σ)
    (hstep : step cfg st a = some st') (hnt : ∀ t, a ≠ .tick t)
    (hin : (lookup s st.cache).isSome = true) : (lookup s st'.cache).isSome = true := by
  cases a with
  | submit x => simp only [step, Option.some.injEq] at hstep; subst hstep; exact hin
  | batch ss o e => rw [(C12_answers_from_map cfg st st' ss o e hstep).2.2.1]; exact hin
  | handleInfo now =>
    simp only [step] at hstep
    split at hstep
    · simp at hstep
    · simp only [Option.some.injEq] at hstep; subst hstep
      rw [(handle_cache cfg now _ _).1, lookup_upsert]
      split
      · rfl
      · exact hin
  | deliver k =>
    simp only [step] at hstep
    split at hstep
    · simp at hstep
    · simp only [Option.some.injEq] at hstep; subst hstep; exact hin
  | peek x now =>
    simp only [step, Option.some.injEq] at hstep; subst hstep
    simpa [touch, lookup_mapVals] using hin
  | tick t => exact absurd rfl (hnt t)

/-- **C12_requery_expired.**  A refresh tick at `t` asks again for exactly the entries that stay
(`¬ t - lastAccess > idle`) and are past their TTL (`t > expires`, strictly), once each; every such
re-queue is a request in the sense of `C12_every_submission_queried` / `C12_one_answer_per_query`. -/
theorem C12_requery_expired (cfg : Config) (t : Int) (st : State σ ι) (hn : NodupKeys st.cache) (s : σ) :
    let n := match lookup s st.cache with
      | none => 0
      | some h => if ¬ (t - h.lastAccess > cfg.idle) ∧ t > h.expires then 1 else 0
    (tick cfg t st).pending.count s = st.pending.count s + n ∧
    (tick cfg t st).requested.count s = st.requested.count s + n := by
  have hkept : NodupKeys (st.cache.filter (fun e => !idleOut cfg t e.2)) := nodupKeys_filter _ hn
  have hc := count_keys_filter (fun e : σ × Holder ι => expired t e.2) s hkept
  rw [lookup_filter _ _ hn] at hc
  simp only [tick, List.count_append, hc]
  cases lookup s st.cache with
  | none => simp
  | some h =>
    simp only [Option.filter, idleOut, expired]
    by_cases h1 : t - h.lastAccess > cfg.idle <;> by_cases h2 : t > h.expires <;> simp [h1, h2]

/-- **C12_expiry_stamp.**  When the owner handles an answer at time `now`, the entry of that source
expires at `now + negTtl` for a nil answer and `now + ttl` for an instance (the TTL follows the answer,
also when the old instance is kept); the access stamp is `now` for a new entry and untouched otherwise. -/
theorem C12_expiry_stamp (cfg : Config) (now : Int) (st st' : State σ ι) (i : Info σ ι) (rest : List (Info σ ι))
    (ha : st.answers = i :: rest) (hstep : step cfg st (.handleInfo now) = some st') :
    ∃ h, lookup i.ip st'.cache = some h ∧
      h.expires = now + (if i.inst.isNone then cfg.negTtl else cfg.ttl) ∧
      h.lastAccess = (match lookup i.ip st.cache with | none => now | some cur => cur.lastAccess) ∧
      h.inst = (match i.inst, lookup i.ip st.cache with
                | some v, _ => some v
                | none, some cur => cur.inst
                | none, none => none) := by
  simp only [step, ha, Option.some.injEq] at hstep; subst hstep
  refine ⟨newHolder cfg now i.inst (lookup i.ip st.cache), ?_, ?_, ?_, ?_⟩
  · rw [(handle_cache cfg now i _).1, lookup_upsert]; simp
  · cases lookup i.ip st.cache <;> simp [newHolder]
  · cases lookup i.ip st.cache <;> simp [newHolder]
  · cases lookup i.ip st.cache <;> cases i.inst <;> simp [newHolder]

/-! ## gauges -/

/-- **C12_gauges.**  In every reachable state the `cloudprovider.cache_positive` /
`cloudprovider.cache_negative` counters equal the numbers of entries holding an instance / holding nil. -/
theorem C12_gauges (cfg : Config) (acts : List (Action σ ι)) (st : State σ ι)
    (hr : run cfg init acts = some st) :
    st.pos = (st.cache.countP isPos : Nat) ∧ st.neg = (st.cache.countP isNeg : Nat) ∧
    st.pos + st.neg = (st.cache.length : Nat) := by
  have hinv := inv_reachable cfg acts st hr
  refine ⟨hinv.pos_eq, hinv.neg_eq, ?_⟩
  have : st.cache.length = st.cache.countP isPos + st.cache.countP isNeg := by
    generalize st.cache = m
    induction m with
    | nil => rfl
    | cons e t ih =>
      obtain ⟨k, ⟨i, ex, la⟩⟩ := e
      simp only [List.length_cons, List.countP_cons, ih, isPos, isNeg]
      cases i <;> simp <;> omega
  rw [hinv.pos_eq, hinv.neg_eq, this]; simp

/-! ## non-vacuity: concrete schedules -/

section examples

def c12ExCfg : Config := { ttl := 2, negTtl := 1, idle := 3, maxBatch := 2 }

/-- two sources submitted (one twice), batched as [1,2] and [1] with a partial map and an error;
three answers come out, source 1 becomes positive, source 2 negative; a failed refresh at time 3 keeps
the instance; the tick at 4 evicts nothing (4 - 0 > 3 is true → evicted, see the next example) -/
def c12ExActs : List (Action Nat Nat) :=
  [.submit 1, .submit 2, .submit 1,
   .batch [1, 2] (fun s => if s = 1 then some 7 else none) true,
   .batch [1] (fun _ => some 7) false,
   .handleInfo 0, .handleInfo 0, .handleInfo 0, .deliver 0, .deliver 1, .deliver 0,
   .peek 1 1,
   .tick 3,            -- 3 > expires(1)=2: re-queued; 3 - 0 > 3 false for source 2, 3 > 1: re-queued
   .batch [2, 1] (fun _ => none) true,
   .handleInfo 3, .handleInfo 3, .deliver 0, .deliver 0]

example :
    (run c12ExCfg init c12ExActs).map (fun st => (peekVal st 1, peekVal st 2)) = some (some (some 7), some none) ∧
    (run c12ExCfg init c12ExActs).map (fun st => (st.pos, st.neg, st.refPos, st.refNeg)) = some (1, 1, 1, 2) ∧
    (run c12ExCfg init c12ExActs).map (fun st => (st.queried, st.delivered.length, st.pending)) = some ([1, 2, 1, 2, 1], 5, []) ∧
    (run c12ExCfg init c12ExActs).map (fun st => (st.answers.length, st.toReturn.length)) = some (0, 0) :=
  ⟨by decide, by decide, by decide, by decide⟩

/-- boundary of the idle comparison: idle for exactly `idle` is kept, one more is evicted -/
example :
    (run c12ExCfg init ([.submit 1, .batch [1] (fun _ => some 7) false, .handleInfo 0, .deliver 0, .tick 3] : List (Action Nat Nat))).map
      (fun st => (peekVal st 1, st.pos, st.pending)) = some (some (some 7), 1, [1]) ∧
    (run c12ExCfg init ([.submit 1, .batch [1] (fun _ => some 7) false, .handleInfo 0, .deliver 0, .tick 4] : List (Action Nat Nat))).map
      (fun st => (peekVal st 1, st.pos, st.pending)) = some (none, 0, []) := by decide

/-- boundary of the TTL comparison: at `t = expires` nothing is asked again -/
example :
    (run c12ExCfg init ([.submit 1, .batch [1] (fun _ => some 7) false, .handleInfo 0, .deliver 0, .tick 2] : List (Action Nat Nat))).map
      (fun st => st.pending) = some [] := by decide

/-- the hypotheses of `C12_sticky_positive` on a concrete state and schedule -/
example :
    ∃ st : State Nat Nat,
      run c12ExCfg init [.submit 1, .batch [1] (fun _ => some 7) false, .handleInfo 0, .deliver 0] = some st ∧
      NodupKeys st.cache ∧ peekVal st 1 = some (some 7) ∧ (∀ i ∈ st.answers, i.ip = 1 → i.inst = none) ∧
      keptAlong c12ExCfg 1 st [.tick 3, .batch [1] (fun _ => none) true, .handleInfo 3] = true ∧
      (run c12ExCfg st [.tick 3, .batch [1] (fun _ => none) true, .handleInfo 3]).map (fun s => peekVal s 1) = some (some (some 7)) := by
  refine ⟨_, rfl, by decide, by decide, by decide, by decide, by decide⟩

/-- a refresh in flight across an eviction (`tick 2` queues the refresh of source 1, the batch is only
answered after `tick 3` has idle-evicted the entry): the late answer re-inserts the entry, and once it is
past its TTL again (`tick 5`) it is queued again — `C12_requery_expired` does not care what was outstanding
before.  (ttl 1, idle 2.) -/
example :
    (run { ttl := 1, negTtl := 1, idle := 2, maxBatch := 1 } init
      ([.submit 1, .batch [1] (fun _ => some 7) false, .handleInfo 0, .deliver 0,
        .tick 2, .tick 3, .batch [1] (fun _ => some 8) false, .handleInfo 3, .deliver 0,
        .peek 1 3, .tick 5] : List (Action Nat Nat))).map
      (fun st => (peekVal st 1, st.pending, st.queried, st.pos)) = some (some (some 8), [1], [1, 1], 1) := by decide

/-- a quiescent reachable state (hypotheses of `C12_every_submission_queried`) -/
example : Quiescent c12ExCfg (init : State Nat Nat) := by
  intro a ha
  cases a <;> simp [Action.internal] at ha <;> simp [step, init, takeOut, extract]
  rename_i ss o e
  cases ss <;> simp [takeOut]

end examples

end Gsd
