import Gsd.Model.Sender
import Gsd.Proofs.Lemmas.Sender
/-!
# C16 — each backend flush request completes exactly once under any transport fault

Property theorems only (helper lemmas: `Proofs/Lemmas/Sender.lean`).

* **Sender** (`Gsd.Sender`, graphite / statsdaemon): theorems quantify over **all** scripts of the
  twelve atomic actions (`exec cfg init evs = some s`: every action of the script was enabled), i.e.
  over every interleaving of producers, connection outcomes, write outcomes, stream / context
  cancellation, the reconnect timer and the goroutine's own `select` choices, and over every
  `Cfg` (any `maxStreamsPerConnection`, pinned or repaired behaviour).
* **Collector** (`Gsd.Collector`, datadog / influxdb / newrelic): all schedules of `n` posters, the
  collector and `cancel`, for every `n` (0, 1, many).
* otlp / cloudwatch / stdout / null are straight-line: one call by construction.
* **Flusher** (`Gsd.Flusher`): every order of `sendMetricsAsync` calls and callbacks.

Two defects of the pinned sender are part of the model (see `Model/Sender.lean`): D11 (a held stream
overwritten through the stale `sink` variable — its callback is never invoked) and D12 (nil
dereference through the stale `streamCancel` variable).  The theorems below are the true forms:
`exactly_once` excludes streams in the ghost list `lost`; `no_lost_callback_fixed` /
`no_panic_fixed` show that the two added assignments of `handoff/C16-fix-2.patch` remove both; the
`example`s at the end are the negative witnesses on the pinned configuration.  D9 (influxdb) is
`C16_influx_no_panic_fixed` + witness.
-/
set_option linter.unusedSimpArgs false
set_option linter.unusedVariables false
namespace Gsd
open Sender

/-! ## sender -/

/-- **At most once**: on every script, for every configuration, no stream's callback is invoked twice
(a second call would drive the flusher's WaitGroup negative). -/
theorem C16_sender_at_most_once (cfg : Cfg) (evs : List Ev) (s : St) (h : exec cfg init evs = some s) (j : Nat) :
    cbCount s j ≤ 1 := by
  have hp := (inv_exec evs (inv_init cfg) h).count.places j
  simp only [places, cbCount] at hp ⊢
  by_cases hj : j < s.next <;> simp only [hj, if_true, if_false] at hp <;> omega

/-- **Exactly once**: whenever the sender holds no stream and none is queued — after recovery
(`seeClosed`), after a stream cancellation in the reconnect wait, or after shutdown — every stream
ever offered has been called back exactly once, except those overwritten through the stale `sink`
(`lost`, empty on the repaired tree by `C16_sender_no_lost_callback_fixed`).  Shutdown always reaches
such a state (second part), from anywhere (`C16_sender_shutdown_completes`). -/
theorem C16_sender_exactly_once (cfg : Cfg) (evs : List Ev) (s : St) (h : exec cfg init evs = some s) :
    (s.held = none → s.queue = [] → ∀ j, j < s.next → j ∉ s.lost → cbCount s j = 1) ∧
    (s.pc = .stopped → s.held = none ∧ s.queue = []) ∧
    (∀ j, s.next ≤ j → cbCount s j = 0) := by
  have hi := (inv_exec evs (inv_init cfg) h).count
  refine ⟨?_, hi.stopped, ?_⟩
  · intro hh hq j hj hl
    have hp := hi.places j
    have hc : s.lost.count j = 0 := List.count_eq_zero_of_not_mem hl
    simp [places, hh, hq, hj, hc] at hp
    exact hp
  · intro j hj
    have hp := hi.places j
    have : ¬ j < s.next := by omega
    simp only [places, this, if_false] at hp
    simp only [cbCount]; omega

/-- On the repaired tree (`sink = nil` while a stream is held) no stream is ever overwritten, so
`exactly_once` covers every stream. -/
theorem C16_sender_no_lost_callback_fixed (cfg : Cfg) (hf : cfg.fixSink = true) (evs : List Ev) (s : St)
    (h : exec cfg init evs = some s) : s.lost = [] :=
  ((inv_exec evs (inv_init cfg) h).sink hf).1

/-- On the repaired tree (`streamCancel = nil` while no stream is held) the goroutine never panics. -/
theorem C16_sender_no_panic_fixed (cfg : Cfg) (hf : cfg.fixCancel = true) (evs : List Ev) (s : St)
    (h : exec cfg init evs = some s) : s.pc ≠ .panicked :=
  ((inv_exec evs (inv_init cfg) h).cancel hf).1

/-- **Never blocks**: from every reachable state that has not panicked the shutdown script
(`cancelCtx`, the producer closing its `Buf`, a successful dial) is enabled and ends in `stopped`,
where every stream (not lost) has exactly one callback. -/
theorem C16_sender_shutdown_completes (cfg : Cfg) (hmax : 0 < cfg.max) (evs : List Ev) (s : St)
    (h : exec cfg init evs = some s) (hp : s.pc ≠ .panicked) :
    ∃ s', exec cfg init (evs ++ finScript cfg s) = some s' ∧ s'.pc = .stopped ∧
      ∀ j, j < s'.next → j ∉ s'.lost → cbCount s' j = 1 := by
  have hi := inv_exec evs (inv_init cfg) h
  obtain ⟨s', h1, h2⟩ := finScript_stops cfg hmax s hi.count hp
  have h3 : exec cfg init (evs ++ finScript cfg s) = some s' := by
    rw [exec_append, h]; exact h1
  refine ⟨s', h3, h2, ?_⟩
  have hx := C16_sender_exactly_once cfg _ s' h3
  obtain ⟨hh, hq⟩ := hx.2.1 h2
  exact hx.1 hh hq

/-- **Errors are carried**: (1) a write error that happened while stream j was held is in the error
list of j's callback (across any number of reconnects); (2) every callback that is *not* issued
because the stream's buffers were drained — cancellation in the reconnect wait, shutdown, cleanup —
carries a non-empty list.  (Connect errors are only logged by the code; they delay delivery and are
not in `errs`.) -/
theorem C16_sender_error_carried (cfg : Cfg) (evs : List Ev) (s : St) (h : exec cfg init evs = some s) :
    ∀ cb ∈ s.cbs, (cb.stream ∈ s.wfail → Err.write ∈ cb.errs) ∧ (cb.via ≠ .drained → cb.errs ≠ []) := by
  have hi := (inv_exec evs (inv_init cfg) h).errs
  intro cb hcb
  exact ⟨hi.wfailCb cb hcb, hi.viaErr cb hcb⟩

/-! ## collector (datadog, influxdb, newrelic) -/

/-- For every number of batches `n` (0, 1, many) and every schedule of results, poster exits,
cancellation and the collector's own choice: the callback is invoked at most once; it has been
invoked (with the collected list) exactly when the collector is done; before that some action is
always enabled (no deadlock); and every schedule has at most `n + 2` actions — so every maximal
schedule ends with exactly one callback. -/
theorem C16_collector_exactly_once (n : Nat) (evs : List Collector.Ev) (s : Collector.St)
    (h : Collector.exec (Collector.start n n) evs = some s) :
    s.cbs.length ≤ 1 ∧
    (s.done = true → s.cbs = [s.errs]) ∧
    (s.done = false → ∃ e, (Collector.step s e).isSome = true) ∧
    ((∀ e, Collector.step s e = none) → s.cbs.length = 1) ∧
    evs.length ≤ n + 2 := by
  have hi := Collector.cinv_exec evs (Collector.cinv_start n) h
  have hm := Collector.measure_exec evs h
  refine ⟨?_, hi.arg, Collector.progress hi, ?_, ?_⟩
  · rw [hi.once]; split <;> omega
  · intro hall
    cases hd : s.done with
    | true => rw [hi.once]; simp [hd]
    | false =>
      obtain ⟨e, he⟩ := Collector.progress hi hd
      rw [hall e] at he; simp at he
  · have : Collector.measure (Collector.start n n) ≤ n + 2 := by
      unfold Collector.start Collector.measure
      by_cases h0 : n = 0 <;> simp [h0, Collector.finish]
    omega

/-- Every result a poster delivered is in the list passed to the callback's accumulator, and a
cancellation seen by the collector adds the context error. -/
theorem C16_collector_error_carried (n : Nat) (evs : List Collector.Ev) (s : Collector.St)
    (h : Collector.exec (Collector.start n n) evs = some s) :
    (∀ r, Collector.Ev.deliver r ∈ evs → r ∈ s.errs) ∧ (Collector.Ev.seeCancel ∈ evs → Collector.Res.ctx ∈ s.errs) :=
  Collector.deliver_in_errs evs h

/-! ## straight-line backends -/

/-- otlp, cloudwatch (any batch size, any number of data, any outcomes), stdout, null: exactly one
callback; cloudwatch's list has one entry per `PutMetricData` call (⌈length / batch⌉). -/
theorem C16_direct_exactly_once (batches : List Bool) (batch length : Nat) (outcome : Nat → Bool) (hb : 0 < batch) (w : Bool) :
    (Direct.otlp batches).length = 1 ∧
    (Direct.cloudwatch batch length outcome).length = 1 ∧
    (∀ l ∈ Direct.cloudwatch batch length outcome, l.length = (length + batch - 1) / batch) ∧
    (Direct.stdout w).length = 1 ∧ Direct.null.length = 1 := by
  refine ⟨rfl, ?_, ?_, rfl, rfl⟩
  · unfold Direct.cloudwatch; split <;> rfl
  · intro l hl
    unfold Direct.cloudwatch at hl
    split at hl
    · rename_i h0
      have : length = 0 := by omega
      subst this
      simp at hl; subst hl
      simp; exact (Nat.div_eq_of_lt (by omega)).symm
    · simp at hl; subst hl
      have := Direct.cwLoop_length batch length outcome hb length 0 0 [] (by omega) (by omega)
      simpa using this

/-- otlp reports an error exactly when some batch failed. -/
theorem C16_otlp_error_carried (batches : List Bool) :
    ∀ l ∈ Direct.otlp batches, (l ≠ [] ↔ ∃ b ∈ batches, b = false) := by
  intro l hl
  simp only [Direct.otlp, List.mem_singleton] at hl
  subst hl
  by_cases h : batches.all id = true
  · simp only [h, if_true]; simp at h; simpa using h
  · simp only [h, if_false]; simp at h; simpa using h

/-! ## influxdb buffer semaphore (D9) -/

/-- With the nil guard of `handoff/C16-fix-1.patch` `processMetrics` never dereferences a nil buffer,
whatever `getBuffer` returns; without it there is no panic as long as the context is not cancelled
(every `getBuffer` returns a buffer). -/
theorem C16_influx_no_panic_fixed (perBatch series : Nat) (gets : Nat → Bool) :
    Influx.processMetrics true perBatch series gets ≠ .panic ∧
    ((∀ k, gets k = true) → Influx.processMetrics false perBatch series gets ≠ .panic) :=
  ⟨Influx.no_panic_guard perBatch series gets, Influx.no_panic_uncancelled perBatch series gets⟩

/-! ## flusher -/

/-- `flushData`'s wait group: on every order of `sendMetricsAsync` calls and callbacks in which no
(aggregator, backend) pair calls back twice (guaranteed by the `at_most_once` theorems above), the
counter is zero — `sendWg.Wait()` returns — exactly when every backend of every processed aggregator
has called back; and the counter never goes negative. -/
theorem C16_flusher_returns (backends : Nat) (evs : List Flusher.Ev) (s : Flusher.St)
    (h : Flusher.exec backends {} evs = some s) (honce : s.calls.Nodup) :
    ((s.wg = 0 ∧ s.panicked = false) ↔ ∀ a ∈ s.processed, ∀ b, b < backends → (a, b) ∈ s.calls) ∧
    0 ≤ s.wg := by
  have hi := Flusher.finv_exec evs (Flusher.finv_init backends) h
  refine ⟨Flusher.wg_zero_iff hi honce, ?_⟩
  have hsub : s.calls ⊆ Flusher.allPairs backends s.processed := fun p hp => hi.sub p hp
  have hle := (List.subperm_of_subset honce hsub).length_le
  rw [Flusher.length_allPairs] at hle
  have := hi.wg
  omega

/-! ## satisfiability of the hypotheses, and the negative witnesses -/

/-- a non-trivial script: failed dial, stream received during the wait, reconnect, write error,
failed dial, reconnect, drained: one callback carrying the write error -/
def sampleScript : List Ev :=
  [.connFail, .offer, .take, .timer, .connOk, .wrote true, .wrote false, .connFail, .timer, .connOk,
   .wrote true, .closeBuf 0, .seeClosed]

example : (exec codeCfg init sampleScript).map (fun s => (s.cbs, s.held, s.lost)) =
    some ([⟨0, [.write], .drained⟩], none, []) := by decide

example : ∃ s, exec codeCfg init sampleScript = some s ∧ s.held = none ∧ s.queue = [] ∧ cbCount s 0 = 1 := by
  refine ⟨_, rfl, ?_⟩; decide

/-- **D11 witness** (pinned tree): a wait that ends by the timer leaves `sink` armed; a later write
error followed by a failed dial lets a second stream overwrite the held one: stream 0 is never
called back, stream 1 inherits its error. -/
def d11Script : List Ev :=
  [.connFail, .timer, .connOk, .offer, .take, .wrote false, .offer, .connFail, .take, .timer, .connOk,
   .closeBuf 1, .seeClosed, .cancelCtx, .seeCtx]

example : (exec codeCfg init d11Script).map (fun s => (s.pc, s.lost, cbCount s 0, cbCount s 1)) =
    some (.stopped, [0], 0, 1) := by decide
/-- the same script is not even executable on the repaired tree: the second `take` is disabled -/
example : exec fixedCfg init d11Script = none := by decide

/-- **D12 witness**: a stream that survived a reconnect wait leaves its `Done` channel in
`streamCancel`; after the connection is recycled (`max` streams) a failed dial with no held stream
followed by that stream's context being cancelled dereferences the nil `stream`. -/
def d12Script : List Ev :=
  [.connFail, .offer, .take, .timer, .connOk, .closeBuf 0, .seeClosed, .offer, .take, .closeBuf 1, .seeClosed,
   .connFail, .cancelStream 0, .seeStreamCancel]

example : (exec { max := 2 } init d12Script).map (·.pc) = some .panicked := by decide
example : exec { max := 2, fixCancel := true } init d12Script = none := by decide

/-- the same on the pinned configuration (`maxStreamsPerConnection` from `Facts`, 100 streams) -/
def d12ScriptPinned : List Ev :=
  [.connFail, .offer, .take, .timer, .connOk, .closeBuf 0, .seeClosed] ++
  ((List.range (Gsd.Facts.maxStreamsPerConnection - 1)).map (fun i => [Ev.offer, .take, .closeBuf (i + 1), .seeClosed])).flatten ++
  [.connFail, .cancelStream 0, .seeStreamCancel]

set_option maxRecDepth 100000 in
/-- D12 is reachable on the pinned tree -/
theorem C16_sender_D12_witness : (exec codeCfg init d12ScriptPinned).map (·.pc) = some .panicked := by
  decide +kernel

/-- D11 is reachable on the pinned tree: stream 0 is lost, the sender has stopped, 0 callbacks for it -/
theorem C16_sender_D11_witness :
    (exec codeCfg init d11Script).map (fun s => (s.pc, s.lost, cbCount s 0)) = some (.stopped, [0], 0) := by
  decide

/-- collector: three batches, one failure, cancellation after two results -/
example : (Collector.exec (Collector.start 3 3) [.deliver .ok, .deliver .fail, .cancel, .seeCancel, .quit]).map
    (fun s => (s.cbs, s.done)) = some ([[.ok, .fail, .ctx]], true) := by decide
/-- a collector that waits for one result more than there are posters never calls back unless the
context is cancelled (why the loop bound must be the number of posters) -/
example : (Collector.exec (Collector.start 3 2) [.deliver .ok, .deliver .ok]).map
    (fun s => (s.cbs, s.done, [Collector.Ev.deliver .ok, .quit, .seeCancel].map (fun e => (Collector.step s e).isSome))) =
    some ([], false, [false, false, false]) := by decide
/-- zero batches: called back immediately -/
example : (Collector.start 0 0).cbs = [[]] := by decide

/-- **D9 witness**: context already cancelled, `getBuffer` returns nil → `releaseBuffer(nil)` -/
example : Influx.processMetrics false 1 0 (fun _ => false) = .panic := by decide
/-- cancellation between batches: second `getBuffer` returns nil -/
example : Influx.processMetrics false 1 3 (fun k => k == 0) = .panic := by decide
example : Influx.processMetrics true 1 3 (fun k => k == 0) = .batches 1 := by decide

/-- flusher: two aggregators, two backends, callbacks in mixed order -/
example : (Flusher.exec 2 {} [.process 0, .callback 0 1, .process 1, .callback 1 0, .callback 0 0, .callback 1 1]).map
    (fun s => (s.wg, Flusher.returns 2 s)) = some (0, true) := by decide
/-- a second call from one pair hides a missing one (why at-most-once is a hypothesis) -/
example : (Flusher.exec 2 {} [.process 0, .callback 0 1, .callback 0 1]).map (fun s => (s.wg, s.calls.Nodup)) =
    some (0, False) := by
  simp [Flusher.exec, Flusher.step]

end Gsd
