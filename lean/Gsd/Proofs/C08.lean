import Gsd.Proofs.Lemmas.Aggregator
import Gsd.Model.ExactQ
/-!
# C08 — timer statistics and histograms are those of the received multiset

Property theorems only.  `α` is **any** linearly ordered field with a floor function, `sqrt` an
arbitrary function (`HasSqrt`): the theorems say what the formulas of `MetricAggregator.Flush` *mean* in
exact arithmetic, for every list of values, every sampled count, every configuration.  The same
polymorphic definitions run with `Float` in the driver and are compared bit-exactly with the real code.

All statements are for both values of the D4 switch `fx` (the code that exists and the repaired code):
they are about every run that returns (`= .ok out`); that the repaired code always returns is C04.
-/
set_option linter.unusedSimpArgs false
set_option linter.unusedSectionVars false
set_option linter.unusedVariables false
namespace Gsd
section
variable {α : Type} [Field α] [LinearOrder α] [IsStrictOrderedRing α] [FloorRing α] [HasSqrt α]

/-- **C08_sorted.**  `Flush` works on *the* ascending arrangement of the received multiset. -/
theorem C08_sorted (vs : List α) : (isort vs).Perm vs ∧ (isort vs).Pairwise (· ≤ ·) :=
  ⟨isort_perm vs, isort_sorted vs⟩

/-- **C08_basic.**  For a plain timer (no histogram tag) with at least one value, whatever the arrival
order: `Min`/`Max` are the least/greatest received value, `Sum = Σ x`, `SumSquares = Σ x²`,
`Mean = Σ x / n`, `StdDev = sqrt (Σ (x − mean)² / n)` (population deviation), `Median` = the middle element
of the ascending arrangement, or the mean of the two middle elements when `n` is even. -/
theorem C08_basic (fx : Bool) (parse : Bytes → Option α) (cfg : AggCfg) (secs : α) (t out : ATimer α)
    (hh : hasHistogramTag t.tags = false) (hne : t.values ≠ [])
    (h : flushTimerWith fx parse cfg secs t = .ok out) :
    let vs := t.values
    let n : α := (vs.length : α)
    let mean := vs.sum / n
    (out.min ∈ vs ∧ ∀ x ∈ vs, out.min ≤ x) ∧
    (out.max ∈ vs ∧ ∀ x ∈ vs, x ≤ out.max) ∧
    out.sum = vs.sum ∧
    out.sumSquares = (vs.map (fun x => x * x)).sum ∧
    out.mean = mean ∧
    out.stdDev = HasSqrt.sqrt ((vs.map (fun x => (x - mean) * (x - mean))).sum / n) ∧
    out.median = specMedian (isort vs) := by
  dsimp only
  have ho := flushTimerWith_plain fx parse cfg secs t out hh hne h
  have hperm := isort_perm t.values
  have hsorted := isort_sorted t.values
  have hlen : (isort t.values).length = t.values.length := isort_length t.values
  have hpos : 0 < (isort t.values).length := by
    rw [hlen]; exact List.length_pos_iff.mpr hne
  have hl1 : (isort t.values).length - 1 < (isort t.values).length := by omega
  have hsum : (isort t.values).sum = t.values.sum := hperm.sum_eq
  subst ho
  refine ⟨⟨?_, ?_⟩, ⟨?_, ?_⟩, ?_, ?_, ?_, ?_, ?_⟩
  · simp only [specFlush, List.getElem?_eq_getElem hpos, Option.getD_some]
    exact hperm.mem_iff.mp (List.getElem_mem hpos)
  · intro x hx
    simp only [specFlush, List.getElem?_eq_getElem hpos, Option.getD_some]
    obtain ⟨i, hi, rfl⟩ := List.mem_iff_getElem.mp (hperm.mem_iff.mpr hx)
    exact sorted_getElem_le hsorted (Nat.zero_le i) hi
  · simp only [specFlush, List.getElem?_eq_getElem hl1, Option.getD_some]
    exact hperm.mem_iff.mp (List.getElem_mem hl1)
  · intro x hx
    simp only [specFlush, List.getElem?_eq_getElem hl1, Option.getD_some]
    obtain ⟨i, hi, rfl⟩ := List.mem_iff_getElem.mp (hperm.mem_iff.mpr hx)
    exact sorted_getElem_le hsorted (Nat.le_sub_one_of_lt hi) hl1
  · simp only [specFlush]; exact hsum
  · simp only [specFlush]; exact sum_map_perm _ hperm
  · simp only [specFlush, hsum, hlen]
  · simp only [specFlush, hsum, hlen]
    rw [sum_map_perm _ hperm]
  · rfl

/-- **C08_count.**  `Count = ⌊sampled + ½⌋` (the sampled count is `Σ 1/rate`), `PerSecond = sampled / Δ`. -/
theorem C08_count (fx : Bool) (parse : Bytes → Option α) (cfg : AggCfg) (secs : α) (t out : ATimer α)
    (hh : hasHistogramTag t.tags = false) (hne : t.values ≠ [])
    (h : flushTimerWith fx parse cfg secs t = .ok out) :
    out.count = ⌊t.sampledCount + 1 / 2⌋ ∧ out.perSecond = t.sampledCount / secs ∧
      out.sampledCount = t.sampledCount := by
  have ho := flushTimerWith_plain fx parse cfg secs t out hh hne h
  subst ho
  exact ⟨rfl, rfl, rfl⟩

/-- **C08_idle.**  A plain timer without values (a persisted series that received nothing) reports
count 0, sampled count 0, rate 0 and nothing else changes. -/
theorem C08_idle (fx : Bool) (parse : Bytes → Option α) (cfg : AggCfg) (secs : α) (t : ATimer α)
    (hh : hasHistogramTag t.tags = false) (he : t.values = []) :
    flushTimerWith fx parse cfg secs t = .ok { t with count := 0, sampledCount := 0, perSecond := 0 } := by
  simp [flushTimerWith, hh, he]

/-- **C08_rank.**  The rank computed by `int(round(|p|/100 · n))` is `(2·|p|·n + 100) / 200` in natural
numbers, for every integer threshold and every `n` (the code uses `n` itself when `n ≤ 1`: `specRank`). -/
theorem C08_rank (p : Int) (n : Nat) : rank α p n = ((2 * p.natAbs * n + 100) / 200 : Nat) :=
  rank_eq p n

/-- the rank never exceeds `n` for an accepted threshold -/
theorem C08_rank_le (p : Int) (n : Nat) (hp : p.natAbs ≤ 100) : specRank p n ≤ n := by
  unfold specRank; split
  · exact Nat.le_refl _
  · exact natRank_le p n hp

/-- **C08_pct_pos.**  A positive threshold `p`, on the ascending values `s` (`n = |s| ≥ 1`), with
`k = specRank p n`: the threshold is omitted iff `k = 0`; otherwise count, sum, mean, sum of squares are
those of the `k` lowest values `s.take k`, the boundary (`upper_p`) is `s[k-1]`, the greatest of them, and
every one of them is ≤ every remaining value. -/
theorem C08_pct_pos (fx : Bool) (vs : List α) (hne : vs ≠ []) (p : Int) (hp : 0 < p) (hp100 : p.natAbs ≤ 100)
    (minV maxV : α) (r : Option (PctVals α))
    (hmin : (isort vs)[0]? = some minV) (hmax : (isort vs)[(isort vs).length - 1]? = some maxV)
    (h : pctVals fx (isort vs) (cumul (fun x => x) (isort vs)) (cumul sq (isort vs)) minV maxV p = .ok r) :
    let s := isort vs
    let k := specRank p s.length
    (k = 0 → r = none) ∧
    (k ≠ 0 → k ≤ s.length ∧ ∃ v, r = some v ∧ v.k = k ∧ v.sum = (s.take k).sum ∧
      v.mean = (s.take k).sum / (k : α) ∧ v.sumSq = ((s.take k).map (fun x => x * x)).sum ∧
      v.boundary = s[k - 1]?.getD 0 ∧ (∀ x ∈ s.take k, x ≤ v.boundary) ∧
      (∀ x ∈ s.take k, ∀ y ∈ s.drop k, x ≤ y)) := by
  dsimp only
  generalize hs : isort vs = s at *
  generalize hk : specRank p s.length = k
  have hr := pctVals_spec fx s minV maxV p hmin hmax r h
  have hkn : k ≤ s.length := by rw [← hk]; exact C08_rank_le p s.length hp100
  have hsorted : s.Pairwise (· ≤ ·) := by rw [← hs]; exact isort_sorted vs
  constructor
  · intro hk0
    rw [hr]; simp only [specPct]; simp [hk, hk0]
  · intro hk0
    refine ⟨hkn, ?_⟩
    rw [hr]
    simp only [specPct, hk, hk0, if_false]
    refine ⟨_, rfl, ?_⟩
    have hk1 : 1 ≤ k := Nat.one_le_iff_ne_zero.mpr hk0
    have hlt : k - 1 < s.length := by omega
    refine ⟨rfl, by simp [hp], by simp [hp], by simp [hp], by simp [hp], ?_, ?_⟩
    · simp only [hp, if_true, List.getElem?_eq_getElem hlt, Option.getD_some]
      exact sorted_take_le_boundary hsorted k hk1 hkn
    · exact sorted_take_le_drop hsorted k

/-- **C08_pct_neg.**  A negative threshold: the same for the `k` *highest* values `s.drop (n-k)`; the
boundary (`lower_p`) is `s[n-k]`, the least of them, and every one of them is ≥ every remaining value. -/
theorem C08_pct_neg (fx : Bool) (vs : List α) (hne : vs ≠ []) (p : Int) (hp : p < 0) (hp100 : p.natAbs ≤ 100)
    (minV maxV : α) (r : Option (PctVals α))
    (hmin : (isort vs)[0]? = some minV) (hmax : (isort vs)[(isort vs).length - 1]? = some maxV)
    (h : pctVals fx (isort vs) (cumul (fun x => x) (isort vs)) (cumul sq (isort vs)) minV maxV p = .ok r) :
    let s := isort vs
    let n := s.length
    let k := specRank p n
    (k = 0 → r = none) ∧
    (k ≠ 0 → k ≤ n ∧ ∃ v, r = some v ∧ v.k = k ∧ v.sum = (s.drop (n - k)).sum ∧
      v.mean = (s.drop (n - k)).sum / (k : α) ∧ v.sumSq = ((s.drop (n - k)).map (fun x => x * x)).sum ∧
      v.boundary = s[n - k]?.getD 0 ∧ (∀ x ∈ s.drop (n - k), v.boundary ≤ x) ∧
      (∀ x ∈ s.take (n - k), ∀ y ∈ s.drop (n - k), x ≤ y) ∧ (s.drop (n - k)).length = k) := by
  dsimp only
  generalize hs : isort vs = s at *
  generalize hk : specRank p s.length = k
  have hr := pctVals_spec fx s minV maxV p hmin hmax r h
  have hkn : k ≤ s.length := by rw [← hk]; exact C08_rank_le p s.length hp100
  have hsorted : s.Pairwise (· ≤ ·) := by rw [← hs]; exact isort_sorted vs
  have hnp : ¬ p > 0 := by omega
  constructor
  · intro hk0
    rw [hr]; simp only [specPct]; simp [hk, hk0]
  · intro hk0
    refine ⟨hkn, ?_⟩
    rw [hr]
    simp only [specPct, hk, hk0, if_false]
    refine ⟨_, rfl, ?_⟩
    have hk1 : 1 ≤ k := Nat.one_le_iff_ne_zero.mpr hk0
    have hlt : s.length - k < s.length := by omega
    refine ⟨rfl, by simp [hnp], by simp [hnp], by simp [hnp], by simp [hnp], ?_, ?_, ?_⟩
    · simp only [hnp, if_false, List.getElem?_eq_getElem hlt, Option.getD_some]
      exact sorted_boundary_le_drop hsorted (s.length - k) hlt
    · exact sorted_take_le_drop hsorted (s.length - k)
    · simp only [List.length_drop]; omega

/-- **C08_percentiles.**  The percentile table of a flushed plain timer: for each *distinct* configured
threshold (a duplicate in the configuration collapses: the thresholds are the keys of a Go map) the
enabled sub-metrics of `specPct` — `C08_pct_pos` / `C08_pct_neg` say what that is — under the names
`count_<p>`, `mean_<p>`, `sum_<p>`, `sum_squares_<p>`, `upper_<p>` / `lower_<p>`. -/
theorem C08_percentiles (fx : Bool) (parse : Bytes → Option α) (cfg : AggCfg) (secs : α) (t out : ATimer α)
    (hh : hasHistogramTag t.tags = false) (hne : t.values ≠ [])
    (h : flushTimerWith fx parse cfg secs t = .ok out) :
    out.percentiles = t.percentiles ++ (dedupInt cfg.pcts).flatMap (fun p =>
      match specPct (isort t.values) p with
      | none => []
      | some v => pctEntries cfg.mask p v) := by
  have ho := flushTimerWith_plain fx parse cfg secs t out hh hne h
  subst ho
  simp only [specFlush, specPctTable, pctTable, List.flatMap_map]
  congr 2

/-- **C08_perm.**  Permutation invariance: two arrival orders of the same multiset give the same flushed
timer, field by field (statistics, percentile table, sorted values), including the same panic outcome. -/
theorem C08_perm (fx : Bool) (parse : Bytes → Option α) (cfg : AggCfg) (secs : α) (t : ATimer α)
    (vs vs' : List α) (hp : vs.Perm vs') (hh : hasHistogramTag t.tags = false) :
    flushTimerWith fx parse cfg secs { t with values := vs } =
      flushTimerWith fx parse cfg secs { t with values := vs' } := by
  unfold flushTimerWith
  simp only [hh, Bool.false_eq_true, if_false]
  cases vs with
  | nil =>
    have : vs' = [] := List.Perm.eq_nil hp.symm
    subst this; rfl
  | cons x xs =>
    cases vs' with
    | nil => exact absurd (List.Perm.eq_nil hp) (by simp)
    | cons y ys =>
      simp only
      rw [isort_eq_of_perm hp]
      rfl

/-- **C08_mask.**  A disabled percentile sub-metric is absent and nothing else changes: (1) the entries of
one threshold are the full list filtered by the mask; (2) two masks give the same outcome and the same
timer up to the percentile table. -/
theorem C08_mask (m : Mask) (p : Int) (v : PctVals α) :
    pctEntries m p v = ((pctEntriesAll p v).filter (fun e => !m.disabledPct e.1)).map (·.2) :=
  pctEntries_eq_filter m p v

theorem C08_mask_rest (fx : Bool) (parse : Bytes → Option α) (cfg : AggCfg) (m m' : Mask) (secs : α) (t : ATimer α) :
    (flushTimerWith fx parse { cfg with mask := m } secs t).map (fun o => { o with percentiles := [] }) =
      (flushTimerWith fx parse { cfg with mask := m' } secs t).map (fun o => { o with percentiles := [] }) := by
  unfold flushTimerWith
  split
  · rfl
  · split
    · rfl
    · next x xs heq =>
      generalize isort t.values = s
      unfold flushSorted
      cases h0 : idx Site.valuesMin s 0 with
      | panic st => simp [h0, Res.map]
      | ok minV =>
        cases h1 : idx Site.valuesMax s ((s.length : Int) - 1) with
        | panic st => simp [h0, h1, Res.map]
        | ok maxV =>
          simp only [h0, h1, Res.bind_ok]
          cases h2 : pctValsLoop fx s (cumul (fun x => x) s) (cumul sq s) minV maxV (dedupInt cfg.pcts) with
          | panic st => simp [h2, Res.map]
          | ok pv =>
            simp only [h2, Res.bind_ok]
            cases h3 : idx Site.cumulTotal (cumul (fun x => x) s) ((s.length : Int) - 1) with
            | panic st => simp [h3, Res.map]
            | ok sum =>
              cases h4 : idx Site.cumulSqTotal (cumul sq s) ((s.length : Int) - 1) with
              | panic st => simp [h3, h4, Res.map]
              | ok sumSq =>
                simp only [h3, h4, Res.bind_ok]
                split
                · cases h5 : idx Site.median s (((s.length / 2 : Nat) : Int) - 1) with
                  | panic st => simp [h5, Res.map]
                  | ok a =>
                    cases h6 : idx Site.median s ((s.length / 2 : Nat) : Int) with
                    | panic st => simp [h5, h6, Res.map]
                    | ok b => simp [h5, h6, Res.map]
                · cases h6 : idx Site.median s ((s.length / 2 : Nat) : Int) with
                  | panic st => simp [h6, Res.map]
                  | ok b => simp [h6, Res.map]

/-- **C08_hist.**  A timer with a `gsd_histogram:` tag gets bucket counts and none of the summary
statistics (every other field is left as it was): nothing at all when the limit is 0; otherwise, with
`ths` = the first `limit` parsable items of the tag value split on `_` (unparsable items skipped *before*
the limit is applied), one bucket per distinct bound holding the number of values not greater than the
bound, the `+Inf` bucket holding the number of values, and no other bucket. -/
theorem C08_hist (fx : Bool) (parse : Bytes → Option α) (cfg : AggCfg) (secs : α) (t : ATimer α) (tag : Bytes)
    (hh : findTag histPrefix t.tags = some tag) :
    let ths := ((splitOn histSep (tag.drop histPrefix.length)).filterMap parse).take cfg.limit
    ∃ H, flushTimerWith fx parse cfg secs t = .ok { t with histogram := some H } ∧
      (cfg.limit = 0 → H = []) ∧
      (cfg.limit ≠ 0 →
        (histKeys H).Nodup ∧
        histLookup .inf H = some t.values.length ∧
        (∀ b ∈ ths, histLookup (.fin b) H = some (t.values.countP (fun v => decide (v ≤ b)))) ∧
        (∀ b, b ∉ ths → histLookup (.fin b) H = none)) := by
  intro ths
  have hht : hasHistogramTag t.tags = true := by simp [hasHistogramTag, hh]
  by_cases hl : cfg.limit = 0
  · refine ⟨[], ?_, fun _ => rfl, fun h => absurd hl h⟩
    simp [flushTimerWith, hht, hl, latencyHistogram_limit0]
  · obtain ⟨H, hH, h1, h2, h3, h4⟩ := latencyHistogram_buckets parse t.tags t.values cfg.limit hl ths
      (retrieveThresholds_eq parse t.tags cfg.limit tag hh)
    refine ⟨H, ?_, fun h => absurd h hl, fun _ => ⟨h1, h2, h3, h4⟩⟩
    simp [flushTimerWith, hht, hH]

/-- the bucket counts do not depend on the arrival order either -/
theorem C08_hist_perm (parse : Bytes → Option α) (tags : List Bytes) (limit : Nat) (vs vs' : List α) (hp : vs.Perm vs') :
    latencyHistogram parse tags vs limit = latencyHistogram parse tags vs' limit := by
  unfold latencyHistogram
  cases emptyHistogram parse tags limit with
  | none => rfl
  | some h0 =>
    cases h0 with
    | nil => rfl
    | cons e h =>
      simp only [foldl_histCountValue, hp.length_eq]
      congr 2
      apply List.map_congr_left
      intro e' _
      rw [hp.countP_eq]

end

/-! ### the hypotheses are satisfiable (concrete, non-trivial instances) -/

section examples
variable {α : Type} [Field α] [LinearOrder α] [IsStrictOrderedRing α] [FloorRing α] [HasSqrt α]

/-- `C08_basic` / `C08_count` / `C08_percentiles`: a plain timer with five values, positive and negative
thresholds, on the repaired code — the run returns (so the hypothesis `= .ok out` is inhabited) -/
example : ∃ out : ATimer α, hasHistogramTag ([] : List Bytes) = false ∧ ([3, 1, 2, 5, 4] : List α) ≠ [] ∧
    flushTimerWith true (fun _ => none) { pcts := [90, -50, 90] } 10 (ATimer.fresh [] [3, 1, 2, 5, 4] 5) = .ok out := by
  obtain ⟨out, h⟩ := flushTimerWith_total (α := α) (fun _ => none) { pcts := [90, -50, 90] }
    (by intro p hp; simp at hp; rcases hp with rfl | rfl | rfl <;> decide) 10 (ATimer.fresh [] [3, 1, 2, 5, 4] 5)
  exact ⟨out, rfl, by simp, h⟩

/-- the same on the code that exists, evaluated in the kernel with exact fractions: six values,
thresholds 90 and −90 return; `C08_hist`'s hypothesis (a timer carrying a histogram tag) -/
example : (flushTimerWith (α := Q) false (fun _ => none) { pcts := [-90, 90] } 10 (ATimer.fresh [] [1, 2, 3, 4, 5, 6] 6)).isOk = true := by
  decide
example : findTag histPrefix [asciiBytes "a:b", asciiBytes "gsd_histogram:1_x_5"] = some (asciiBytes "gsd_histogram:1_x_5") := by
  decide

end examples
end Gsd
