import Gsd.Proofs.Lemmas.Delivery
import Gsd.Proofs.Lemmas.MetricMap
/-!
# C15 — the forwarder delivers every batch exactly once or reports it dropped

Property theorems only.
* `C15_drain_conservation*` — the consolidator's slot protocol under **every interleaving** of
  dispatchers (`take` / `put`) with the non-atomic `Drain` (`drainOne`), the sink send and `Fill`.
  Content is abstracted to dispatch ids; `C07_slots` / `C07_mergeMaps` say that a slot's content is the
  aggregate of exactly the dispatches merged into it.
* `C15_split_partition*` — `SplitByTags` for every key function, then for `tagsMatch`.
* `C15_retry*` — the retry loop of `post` for every outcome script and every back-off oracle.
* `C15_isolation*` — the unit of serialisation failure is one split map.  On the pinned tree that is
  *not* one client's series (D8): negative witness `C15_D8_witness`.
-/
set_option linter.unusedSimpArgs false
set_option linter.unusedSectionVars false
namespace Gsd
open AList

/-! ## (a) consolidator slots under concurrent drain -/

private theorem occLL_zero_of_all (d : Nat) (l : List (List Nat)) (h : ∀ j : Nat, (l[j]?.getD []).count d = 0) : occLL d l = 0 := by
  induction l with
  | nil => rfl
  | cons x t ih =>
    have h0 := h 0
    simp only [List.getElem?_cons_zero, Option.getD_some] at h0
    have := ih (fun j => by simpa using h (j + 1))
    simp [occLL, h0, this]

private theorem occLL_single (d : Nat) (l : List (List Nat)) (f : Nat)
    (h : ∀ j : Nat, j ≠ f → (l[j]?.getD []).count d = 0) : occLL d l = (l[f]?.getD []).count d := by
  induction l generalizing f with
  | nil => simp [occLL]
  | cons x t ih =>
    cases f with
    | zero =>
      have : occLL d t = 0 := occLL_zero_of_all d t (fun j => by simpa using h (j + 1) (by omega))
      simp [occLL, this]
    | succ f =>
      have h0 := h 0 (by omega)
      simp only [List.getElem?_cons_zero, Option.getD_some] at h0
      have := ih f (fun j hj => by simpa using h (j + 1) (by omega))
      simp [occLL, h0, this]

private theorem exists_of_occLL_pos (d : Nat) (l : List (List Nat)) (h : 0 < occLL d l) : ∃ j : Nat, d ∈ l[j]?.getD [] := by
  induction l with
  | nil => simp [occLL] at h
  | cons x t ih =>
    simp only [occLL] at h
    by_cases hx : 0 < x.count d
    · exact ⟨0, by simpa using List.count_pos_iff.mp hx⟩
    · obtain ⟨j, hj⟩ := ih (by omega)
      exact ⟨j + 1, by simpa using hj⟩

/-- **C15_drain_conservation.**  For every number of slots `k` and **every** schedule of
`take` / `put` / `drainOne` / `send` / `fill` actions that the system can execute from its initial state:

1. *exactly once*: every dispatch id handed out so far occurs exactly once in the whole system —
   in one completed drain, in the drain being collected, in a slot in the channel, in a slot a
   dispatcher holds, or still in the dispatcher's hand — and no other id occurs at all;
2. a dispatch that obtained its slot while `f` drains had completed (i.e. before or *during* drain
   number `f`) and whose drain has completed is contained in the result of drain `f` **exactly once and
   in no other drain** — never in both, never in neither.  In particular a dispatch that returned
   before drain `f` began is in drain `f`; one that runs concurrently with drain `f` either obtains its
   slot before the drain reaches it — then the drain waits for it and it is in drain `f` — or blocks
   until `Fill` and is in drain `f + 1`;
3. a dispatch whose index is the current number of completed drains is still pending (not lost, not
   yet delivered);
4. every id handed out has a log entry, at most the current drain number. -/
theorem C15_drain_conservation (k : Nat) (acts : List CA) (s : CS) (h : crun (cinit k) acts = some s) :
    (∀ d, s.occ d = if d < s.next then 1 else 0) ∧
    (∀ d f : Nat, s.log[d]? = some f → f < s.flushes.length →
        (s.flushes[f]?.getD []).count d = 1 ∧ (∀ j : Nat, j ≠ f → (s.flushes[j]?.getD []).count d = 0) ∧ ¬ s.pending d) ∧
    (∀ d : Nat, s.log[d]? = some s.flushes.length → s.pending d ∧ occLL d s.flushes = 0) ∧
    (∀ d, d < s.next → ∃ f, s.log[d]? = some f ∧ f ≤ s.flushes.length) := by
  have inv := cinv_run _ _ _ (cinv_init k) h
  have notPend : ∀ d, ¬ s.pending d → s.occ d = occLL d s.flushes := by
    intro d hp
    simp only [CS.pending, not_or] at hp
    obtain ⟨h1, h2, h3, h4⟩ := hp
    rw [mem_flatten_iff_occ] at h1 h2 h3
    have h4' : (s.held.map Prod.fst).count d = 0 := List.count_eq_zero.mpr h4
    simp only [CS.occ]; omega
  have pendOcc : ∀ d, s.pending d → d < s.next ∧ occLL d s.flushes = 0 := by
    intro d hp
    have ho := inv.once d
    have hpos : 0 < occLL d s.got + occLL d s.chan + occLL d (s.held.map Prod.snd) + (s.held.map Prod.fst).count d := by
      rcases hp with hp | hp | hp | hp
      · have := (mem_flatten_iff_occ d _).mp hp; omega
      · have := (mem_flatten_iff_occ d _).mp hp; omega
      · have := (mem_flatten_iff_occ d _).mp hp; omega
      · have := List.count_pos_iff.mpr hp; omega
    simp only [CS.occ] at ho
    by_cases hd : d < s.next
    · rw [if_pos hd] at ho; exact ⟨hd, by omega⟩
    · rw [if_neg hd] at ho; omega
  have dlt : ∀ d f, s.log[d]? = some f → d < s.next := by
    intro d f hl
    by_cases hd : d < s.log.length
    · rw [inv.loglen] at hd; exact hd
    · rw [List.getElem?_eq_none (by omega)] at hl; cases hl
  refine ⟨inv.once, ?_, ?_, ?_⟩
  · intro d f hl hf
    have hnp : ¬ s.pending d := by
      intro hp
      have := inv.logPend d hp
      rw [hl] at this
      simp only [Option.some.injEq] at this
      omega
    have hocc := notPend d hnp
    have ho := inv.once d
    rw [if_pos (dlt d f hl)] at ho
    have hothers : ∀ j : Nat, j ≠ f → (s.flushes[j]?.getD []).count d = 0 := by
      intro j hj
      apply List.count_eq_zero.mpr
      intro hm
      have := inv.logDone j d hm
      rw [hl] at this
      simp only [Option.some.injEq] at this
      exact hj this.symm
    refine ⟨?_, hothers, hnp⟩
    rw [← occLL_single d s.flushes f hothers]; omega
  · intro d hl
    have hd := dlt d _ hl
    have ho := inv.once d
    rw [if_pos hd] at ho
    by_cases hp : s.pending d
    · exact ⟨hp, (pendOcc d hp).2⟩
    · exfalso
      have hocc := notPend d hp
      obtain ⟨j, hj⟩ := exists_of_occLL_pos d s.flushes (by omega)
      have hjlt : j < s.flushes.length := by
        by_cases hjl : j < s.flushes.length
        · exact hjl
        · rw [List.getElem?_eq_none (by omega)] at hj; simp at hj
      have := inv.logDone j d hj
      rw [hl] at this
      simp only [Option.some.injEq] at this
      omega
  · intro d hd
    have ho := inv.once d
    rw [if_pos hd] at ho
    by_cases hp : s.pending d
    · exact ⟨_, inv.logPend d hp, Nat.le_refl _⟩
    · have hocc := notPend d hp
      obtain ⟨j, hj⟩ := exists_of_occLL_pos d s.flushes (by omega)
      have hjlt : j < s.flushes.length := by
        by_cases hjl : j < s.flushes.length
        · exact hjl
        · rw [List.getElem?_eq_none (by omega)] at hj; simp at hj
      exact ⟨j, inv.logDone j d hj, by omega⟩

/-- **C15_drain_waits.**  `Drain` cannot complete while a dispatcher holds a slot: whenever the sink
send is enabled, no map is held and none is left in the channel (all `k` are with the flusher); and
between the send and `Fill` a dispatcher can only block.  Also the slot count never changes. -/
theorem C15_drain_waits (k : Nat) (acts : List CA) (s : CS) (h : crun (cinit k) acts = some s) :
    ((cstep s .send).isSome → s.held = [] ∧ s.chan = [] ∧ s.got.length = s.k) ∧
    (s.needFill = true → ∀ i, cstep s (.take i) = none) ∧
    (s.needFill = false → s.chan.length + s.held.length + s.got.length = s.k) ∧ s.k = k := by
  have inv := cinv_run _ _ _ (cinv_init k) h
  have hstep : ∀ (s0 s2 : CS) (a : CA), cstep s0 a = some s2 → s2.k = s0.k := by
    intro s0 s2 a hq
    cases a with
    | take i =>
      simp only [cstep] at hq
      cases hr : removeNth s0.chan i with
      | none => simp [hr] at hq
      | some p => simp only [hr, Option.some.injEq] at hq; subst hq; rfl
    | put j =>
      simp only [cstep] at hq
      cases hr : removeNth s0.held j with
      | none => simp [hr] at hq
      | some p => simp only [hr, Option.some.injEq] at hq; subst hq; rfl
    | drainOne i =>
      simp only [cstep] at hq
      split at hq
      · cases hq
      · cases hr : removeNth s0.chan i with
        | none => simp [hr] at hq
        | some p => simp only [hr, Option.some.injEq] at hq; subst hq; rfl
    | send =>
      simp only [cstep] at hq
      split at hq
      · simp only [Option.some.injEq] at hq; subst hq; rfl
      · cases hq
    | fill =>
      simp only [cstep] at hq
      split at hq
      · simp only [Option.some.injEq] at hq; subst hq; rfl
      · cases hq
  have hk : ∀ (acts : List CA) (s0 s1 : CS), crun s0 acts = some s1 → s1.k = s0.k := by
    intro acts
    induction acts with
    | nil => intro s0 s1 h; simp [crun] at h; subst h; rfl
    | cons a t ih =>
      intro s0 s1 h
      simp only [crun] at h
      cases hq : cstep s0 a with
      | none => simp [hq] at h
      | some s2 =>
        simp only [hq] at h
        rw [ih s2 s1 h, hstep s0 s2 a hq]
  refine ⟨?_, ?_, inv.cnt, by simpa [cinit] using hk acts _ _ h⟩
  · intro hs
    simp only [cstep] at hs
    split at hs
    · rename_i hg
      simp only [Bool.and_eq_true, Bool.not_eq_true', beq_iff_eq] at hg
      have := inv.cnt hg.1
      exact ⟨List.eq_nil_of_length_eq_zero (by omega), List.eq_nil_of_length_eq_zero (by omega), hg.2⟩
    · simp at hs
  · intro hf i
    have := (inv.cnt_fill hf).1
    simp [cstep, this, removeNth]

/-- a schedule in which a dispatcher takes a slot *during* a drain and the drain waits for it: 2 slots;
dispatch 0 completes before the drain; the drain receives one slot; dispatch 1 takes the other slot,
merges and returns it; only then can the drain finish.  Both are in drain 0; a third dispatch after
`fill` is pending for drain 1. -/
example :
    (crun (cinit 2) [.take 0, .put 0, .drainOne 0, .take 0, .put 0, .drainOne 0, .send, .fill, .take 1, .put 0]).map
      (fun s => (s.flushes, s.chan, s.log)) = some ([[0, 1]], [[], [2]], [0, 0, 1]) := by decide

/-- …and the drain really cannot complete early: `send` is not enabled while dispatch 1 holds its slot -/
example : crun (cinit 2) [.take 0, .put 0, .drainOne 0, .take 0, .send] = none := by decide

/-! ## (b) SplitByTags -/

variable {α : Type}

/-- the split map stored under `K` (an absent key = the empty map) -/
def piece (sm : AList String (MM α)) (K : String) : MM α := (lookup K sm).getD {}

private theorem piece_splitMM (kf : Key → String) (m : MM α) (K : String) :
    piece (splitMM kf m) K =
      if K ∈ keys (splitByKey kf m.counters) ++ keys (splitByKey kf m.gauges) ++ keys (splitByKey kf m.timers) ++ keys (splitByKey kf m.sets)
      then { counters := (lookup K (splitByKey kf m.counters)).getD [], gauges := (lookup K (splitByKey kf m.gauges)).getD [],
             timers := (lookup K (splitByKey kf m.timers)).getD [], sets := (lookup K (splitByKey kf m.sets)).getD [] }
      else {} := by
  unfold piece splitMM
  simp only [lookup_map_mk, mem_dedupStr]
  split <;> rfl

private theorem lookup_none_of_key_absent {ν} (kf : Key → String) (m : AList Key ν) (K : String)
    (h : K ∉ keys (splitByKey kf m)) (k : Key) : (if kf k = K then lookup k m else none) = none := by
  by_cases hk : kf k = K
  · simp only [hk, if_true]
    cases hl : lookup k m with
    | none => rfl
    | some v =>
      exfalso; apply h
      exact (keys_splitByKey kf m K).mpr ⟨k, mem_keys_of_lookup_some hl, hk⟩
  · simp [hk]

/-- **C15_split_partition.**  For every key function `kf` (the code uses `tagsMatch tagNames tagsKey`),
every well-formed map `m`, every header key `K` and every series `k`, in all four types: the split map
under `K` holds the entry of `k` exactly when `kf k = K`, unchanged, and nothing otherwise.  Hence each
series is in exactly one split map — the one whose key is derived from its tagsKey — and the union of
the split maps is the input. -/
theorem C15_split_partition (kf : Key → String) (m : MM α) (hm : m.WF) (K : String) (k : Key) :
    lookup k (piece (splitMM kf m) K).counters = (if kf k = K then lookup k m.counters else none) ∧
    lookup k (piece (splitMM kf m) K).gauges   = (if kf k = K then lookup k m.gauges   else none) ∧
    lookup k (piece (splitMM kf m) K).timers   = (if kf k = K then lookup k m.timers   else none) ∧
    lookup k (piece (splitMM kf m) K).sets     = (if kf k = K then lookup k m.sets     else none) := by
  obtain ⟨h1, h2, h3, h4⟩ := hm
  rw [piece_splitMM]
  split
  · exact ⟨lookup_splitByKey kf _ h1 K k, lookup_splitByKey kf _ h3 K k, lookup_splitByKey kf _ h2 K k, lookup_splitByKey kf _ h4 K k⟩
  · rename_i hK
    simp only [List.mem_append, not_or] at hK
    obtain ⟨⟨⟨a, b⟩, c⟩, d⟩ := hK
    refine ⟨?_, ?_, ?_, ?_⟩
    · rw [lookup_none_of_key_absent kf _ K a]; rfl
    · rw [lookup_none_of_key_absent kf _ K b]; rfl
    · rw [lookup_none_of_key_absent kf _ K c]; rfl
    · rw [lookup_none_of_key_absent kf _ K d]; rfl

/-- **C15_split_keys.**  Split maps exist exactly for the header keys of the series present (no request
without series), and every key occurs once. -/
theorem C15_split_keys (kf : Key → String) (m : MM α) (K : String) :
    (K ∈ keys (splitMM kf m) ↔ ∃ k, kf k = K ∧ (k ∈ keys m.counters ∨ k ∈ keys m.gauges ∨ k ∈ keys m.timers ∨ k ∈ keys m.sets)) ∧
    NodupKeys (splitMM kf m) := by
  constructor
  · have hk : keys (splitMM kf m) = dedupStr (keys (splitByKey kf m.counters) ++ keys (splitByKey kf m.gauges) ++
        keys (splitByKey kf m.timers) ++ keys (splitByKey kf m.sets)) := by
      simp [splitMM, keys, List.map_map, Function.comp_def]
    rw [hk, mem_dedupStr]
    simp only [List.mem_append, keys_splitByKey]
    constructor
    · rintro (((⟨k, h, e⟩ | ⟨k, h, e⟩) | ⟨k, h, e⟩) | ⟨k, h, e⟩)
      · exact ⟨k, e, Or.inl h⟩
      · exact ⟨k, e, Or.inr (Or.inl h)⟩
      · exact ⟨k, e, Or.inr (Or.inr (Or.inl h))⟩
      · exact ⟨k, e, Or.inr (Or.inr (Or.inr h))⟩
    · rintro ⟨k, e, h | h | h | h⟩
      · exact Or.inl (Or.inl (Or.inl ⟨k, h, e⟩))
      · exact Or.inl (Or.inl (Or.inr ⟨k, h, e⟩))
      · exact Or.inl (Or.inr ⟨k, h, e⟩)
      · exact Or.inr ⟨k, h, e⟩
  · have hk : keys (splitMM kf m) = dedupStr (keys (splitByKey kf m.counters) ++ keys (splitByKey kf m.gauges) ++
        keys (splitByKey kf m.timers) ++ keys (splitByKey kf m.sets)) := by
      simp [splitMM, keys, List.map_map, Function.comp_def]
    unfold NodupKeys
    rw [hk]
    exact nodup_dedupStr _

private theorem filter_const_false {β} (l : List β) : l.filter (fun _ => false) = [] := by
  induction l <;> simp_all

theorem tagsMatch_nil (tk : String) : tagsMatch [] tk = "" := by
  simp only [tagsMatch, List.map_nil]
  have : matchAny [] = fun _ => false := by funext x; rfl
  rw [this, filter_const_false]
  rfl

/-- **C15_split_by_tags.**  The real `SplitByTags(tagNames)`, both branches (`len(tagNames) == 0` returns
the map itself under `""`): the partition of `C15_split_partition` with `kf k = tagsMatch tagNames k.tagsKey`. -/
theorem C15_split_by_tags (names : List String) (m : MM α) (hm : m.WF) (K : String) (k : Key) :
    lookup k (piece (splitByTags names m) K).counters = (if tagsMatch names k.2 = K then lookup k m.counters else none) ∧
    lookup k (piece (splitByTags names m) K).gauges   = (if tagsMatch names k.2 = K then lookup k m.gauges   else none) ∧
    lookup k (piece (splitByTags names m) K).timers   = (if tagsMatch names k.2 = K then lookup k m.timers   else none) ∧
    lookup k (piece (splitByTags names m) K).sets     = (if tagsMatch names k.2 = K then lookup k m.sets     else none) := by
  unfold splitByTags
  split
  · rename_i hn
    subst hn
    simp only [tagsMatch_nil, piece, lookup_cons, lookup_nil]
    by_cases hK : "" = K
    · subst hK; simp
    · simp [hK]
  · exact C15_split_partition _ m hm K k

/-- non-vacuity: two tag names, three series; the series without any of the tags goes to the request
without dynamic headers (`""`), an empty tag name stops the search -/
example :
    let m : MM Int := { counters := [(("a", "env:p,svc:x"), { value := 1, ts := 0, src := "", tags := [] }),
                                     (("b", "x:1"), { value := 2, ts := 0, src := "", tags := [] })],
                        gauges := [(("g", "env:q,s:h"), { value := 7, ts := 0, src := "h", tags := [] })] }
    m.WF ∧ keys (splitByTags ["env:", "svc:"] m) = ["env:p,svc:x", "", "env:q"] ∧
    tagsMatch ["env:", "", "svc:"] "svc:x,env:p" = "env:p" ∧
    dynHeaders "env_name:p,svc:x:y,plain" = [("env-name", "p"), ("svc", "x:y")] ∧
    dynNamesWithColon ["region"] ["env", "", "region", "svc"] = ["env:", "svc:"] := by
  refine ⟨⟨by decide, by decide, by decide, by decide⟩, by decide, by decide, by decide, by decide⟩

/-! ## (c) the retry loop -/

/-- **C15_retry.**  For every outcome script and every back-off oracle, `post` on a serialisable
message: the attempts are a prefix of the script; every attempt but the last failed (so there is never
an attempt after a success); the run ends by the first success, by `Stop` (or the end of the window),
by cancellation, or is still waiting for the next outcome; `sent = 1 ⇔` ended by a success;
`dropped = 1 ⇔` ended by `Stop`; `retried` = number of failed attempts, minus one when stopped;
`created = 1`, `invalid = 0`; never both sent and dropped. -/
theorem C15_retry (script : List Outcome) (bo : List Backoff) :
    let r := post true script bo
    (∃ rest, script = r.attempts ++ rest) ∧
    (∀ o ∈ r.attempts.dropLast, o = Outcome.fail) ∧
    (r.fin = .success ↔ r.attempts.getLast? = some Outcome.ok) ∧
    (r.c.sent = if r.fin = .success then 1 else 0) ∧
    (r.c.dropped = if r.fin = .stopped then 1 else 0) ∧
    (r.c.retried = r.attempts.count Outcome.fail - (if r.fin = .stopped then 1 else 0)) ∧
    r.c.created = 1 ∧ r.c.invalid = 0 ∧ r.c.sent + r.c.dropped ≤ 1 ∧
    (r.fin = .stopped → bo[r.attempts.length - 1]? = none ∨ bo[r.attempts.length - 1]? = some .stop) ∧
    (∀ i : Nat, i + 1 < r.attempts.length → bo[i]? = some .next) ∧
    (r.fin = .waiting → r.attempts = script) := by
  have hs := retryLoop_shape script bo { c := { created := 1 } } rfl
  simp only [post, if_true]
  obtain ⟨hc, hi, hcase⟩ := hs
  have cnt_rep : ∀ m : Nat, (List.replicate m Outcome.fail).count Outcome.fail = m := by intro m; simp
  rcases hcase with ⟨hf, m, rest, bo', h1, h2, h3, h4, h5, h6⟩ | ⟨hf, m, rest, bo', h1, h2, hb, h3, h4, h5, h6⟩ |
      ⟨hf, m, rest, t, h1, h2, h3, h4, h5, h6⟩ | ⟨hf, m, bo', h1, h2, h3, h4, h5, h6⟩
  · simp only [List.nil_append] at h3
    refine ⟨⟨rest, by rw [h3, h1]; simp⟩, ?_, ?_, ?_, ?_, ?_, hc, hi, ?_, ?_, ?_, ?_⟩
    · rw [h3]; intro o ho; simp [List.dropLast_concat] at ho; exact ho.2
    · rw [h3]; simp [hf]
    · rw [hf, h4]; rfl
    · rw [hf, h5]; rfl
    · rw [hf, h6, h3]; simp [List.count_append, cnt_rep]
    · rw [h4, h5]; simp
    · rw [hf]; intro h; cases h
    · intro i hi'; rw [h3] at hi'; simp at hi'
      rw [h2, List.getElem?_append_left (by simpa using hi')]; simp [hi']
    · rw [hf]; intro h; cases h
  · simp only [List.nil_append] at h3
    refine ⟨⟨rest, by rw [h3, h1]; simp [List.replicate_succ', List.append_assoc]⟩, ?_, ?_, ?_, ?_, ?_, hc, hi, ?_, ?_, ?_, ?_⟩
    · rw [h3]; intro o ho; exact List.eq_of_mem_replicate (List.dropLast_subset _ ho)
    · rw [h3, hf]; simp [List.replicate_succ', List.getLast?_concat]
    · rw [hf, h4]; rfl
    · rw [hf, h5]; rfl
    · rw [hf, h6, h3, cnt_rep]; simp
    · rw [h4, h5]; simp
    · intro _
      rw [h3, h2]; simp only [List.length_replicate, Nat.add_sub_cancel]
      rw [List.getElem?_append_right (by simp)]
      simp only [List.length_replicate, Nat.sub_self]
      rcases hb with rfl | ⟨t, rfl⟩ <;> simp
    · intro i hi'; rw [h3] at hi'; simp at hi'
      rw [h2, List.getElem?_append_left (by simpa using hi')]; simp [hi']
    · rw [hf]; intro h; cases h
  · simp only [List.nil_append] at h3
    refine ⟨⟨rest, by rw [h3, h1]; simp [List.replicate_succ', List.append_assoc]⟩, ?_, ?_, ?_, ?_, ?_, hc, hi, ?_, ?_, ?_, ?_⟩
    · rw [h3]; intro o ho; exact List.eq_of_mem_replicate (List.dropLast_subset _ ho)
    · rw [h3, hf]; simp [List.replicate_succ', List.getLast?_concat]
    · rw [hf, h4]; rfl
    · rw [hf, h5]; rfl
    · rw [hf, h6, h3, cnt_rep]; simp
    · rw [h4, h5]; simp
    · rw [hf]; intro h; cases h
    · intro i hi'; rw [h3] at hi'; simp at hi'
      rw [h2, List.getElem?_append_left (by simpa using hi')]; simp [hi']
    · rw [hf]; intro h; cases h
  · simp only [List.nil_append] at h3
    refine ⟨⟨[], by rw [h3]; simp⟩, ?_, ?_, ?_, ?_, ?_, hc, hi, ?_, ?_, ?_, ?_⟩
    · rw [h3, h1]; intro o ho; exact List.eq_of_mem_replicate (List.dropLast_subset _ ho)
    · rw [h3, hf, h1]
      constructor
      · intro h; cases h
      · intro h
        cases m with
        | zero => simp at h
        | succ n => simp [List.replicate_succ', List.getLast?_concat] at h
    · rw [hf, h4]; rfl
    · rw [hf, h5]; rfl
    · rw [hf, h6, h3, h1, cnt_rep]; simp
    · rw [h4, h5]; simp
    · rw [hf]; intro h; cases h
    · intro i hi'; rw [h3, h1] at hi'; simp at hi'
      have hlt : i < (List.replicate m Backoff.next).length := by rw [List.length_replicate]; omega
      rw [h2, List.getElem?_append_left hlt]
      rw [List.getElem?_replicate]; simp; omega
    · intro _; exact h3

/-- **C15_retry_invalid.**  A message that cannot be serialised is counted `invalid` and nothing else:
no attempt, not created, not sent, **not dropped**. -/
theorem C15_retry_invalid (script : List Outcome) (bo : List Backoff) :
    (post false script bo).attempts = [] ∧ (post false script bo).c = { invalid := 1 } := by
  simp [post]

/-- **C15_retry_disabled.**  `max-request-elapsed-time = -1`: exactly one attempt; sent or dropped. -/
theorem C15_retry_disabled (script : List Outcome) (o : Outcome) :
    (post true (o :: script) retriesDisabledOracle).attempts = [o] ∧
    (post true (o :: script) retriesDisabledOracle).c.retried = 0 ∧
    ((post true (o :: script) retriesDisabledOracle).c.sent = 1 ∧ o = .ok ∨
     (post true (o :: script) retriesDisabledOracle).c.dropped = 1 ∧ o = .fail) := by
  cases o <;> simp [post, retryLoop, retriesDisabledOracle]

/-- two failures, then a success; and the same script when the window ends after the second failure -/
example :
    (post true [.fail, .fail, .ok, .fail] [.next, .next, .next]).c = { created := 1, sent := 1, retried := 2 } ∧
    (post true [.fail, .fail, .ok, .fail] [.next, .next, .next]).attempts = [.fail, .fail, .ok] ∧
    (post true [.fail, .fail, .ok, .fail] [.next, .stop]).c = { created := 1, dropped := 1, retried := 1 } ∧
    (post true [.fail, .fail, .ok, .fail] [.next, .stop]).attempts = [.fail, .fail] := by
  refine ⟨by decide, by decide, by decide, by decide⟩

/-! ## (d) isolation -/

private theorem lookup_filter_nodup {ν} (p : Key × ν → Bool) (m : AList Key ν) (hm : NodupKeys m) (k : Key) :
    lookup k (m.filter p) = match lookup k m with | some v => if p (k, v) then some v else none | none => none := by
  induction m with
  | nil => simp
  | cons e t ih =>
    obtain ⟨k0, v0⟩ := e
    simp only [NodupKeys, keys, List.map_cons, List.nodup_cons] at hm
    have iht := ih hm.2
    by_cases hk : k0 = k
    · subst hk
      have hnone : lookup k0 t = none := lookup_eq_none_of_not_mem_keys hm.1
      simp only [lookup_cons, if_true]
      by_cases hp : p (k0, v0) = true
      · simp [List.filter_cons, hp, lookup_cons]
      · simp [List.filter_cons, hp, iht, hnone]
    · by_cases hp : p (k0, v0) = true
      · simp [List.filter_cons, hp, lookup_cons, hk, iht]
      · simp [List.filter_cons, hp, lookup_cons, hk, iht]

private theorem piece_mem (sm : AList String (MM α)) (K : String) (h : K ∈ keys sm) : (K, piece sm K) ∈ sm := by
  obtain ⟨v, hv⟩ := Option.isSome_iff_exists.mp (lookup_isSome_iff_mem_keys.mpr h)
  have : piece sm K = v := by simp [piece, hv]
  rw [this]; exact mem_of_lookup_some hv

private theorem key_mem_splitByTags (names : List String) (m : MM α) (k : Key) (v : Counter)
    (hk : lookup k m.counters = some v) : tagsMatch names k.2 ∈ keys (splitByTags names m) := by
  unfold splitByTags
  split
  · rename_i hn; subst hn; simp [tagsMatch_nil, keys]
  · exact (C15_split_keys _ m _).1.mpr ⟨k, rfl, Or.inl (mem_keys_of_lookup_some hk)⟩

/-- **C15_isolation.**  Bodies of one flush are built per split map: a counter series `k` of the merged
flush is in a body that is sent whenever *its own split map* serialises — whatever the other split maps
of the same flush contain (the same holds for the other three types by the same argument).  The unit of
failure is the split map `tagsMatch names k.tagsKey`, nothing larger. -/
theorem C15_isolation (valid : String → Bool) (names : List String) (m : MM α) (hm : m.WF) (k : Key) (v : Counter)
    (hk : lookup k m.counters = some v)
    (hok : mmMarshalable valid (piece (splitByTags names m) (tagsMatch names k.2)) = true) :
    counterDelivered (flushBodies false valid names m) k = true := by
  have hmem := piece_mem _ _ (key_mem_splitByTags names m k v hk)
  have hl : lookup k (piece (splitByTags names m) (tagsMatch names k.2)).counters = some v := by
    rw [(C15_split_by_tags names m hm _ k).1]; simp [hk]
  have hne : (piece (splitByTags names m) (tagsMatch names k.2)).isEmpty = false := by
    unfold MMap.isEmpty
    cases hc : (piece (splitByTags names m) (tagsMatch names k.2)).counters with
    | nil => rw [hc] at hl; simp at hl
    | cons _ _ => simp
  simp only [counterDelivered, flushBodies, List.any_eq_true, List.mem_map, List.mem_filter]
  refine ⟨(tagsMatch names k.2, some (piece (splitByTags names m) (tagsMatch names k.2))), ⟨_, ⟨hmem, by simp [hne]⟩, by simp [hok]⟩, ?_⟩
  simp [hl]

/-- **C15_isolation_fixed.**  With the repair of D8 (`d8Fixed`: leave out only the offending series), a
series whose *own* strings are valid UTF-8 is delivered, whatever other clients put into the same flush. -/
theorem C15_isolation_fixed (valid : String → Bool) (names : List String) (m : MM α) (hm : m.WF) (k : Key) (v : Counter)
    (hk : lookup k m.counters = some v) (hown : strsOK valid k v.src v.tags = true) :
    counterDelivered (flushBodies true valid names m) k = true := by
  have hmem := piece_mem _ _ (key_mem_splitByTags names m k v hk)
  have hl : lookup k (piece (splitByTags names m) (tagsMatch names k.2)).counters = some v := by
    rw [(C15_split_by_tags names m hm _ k).1]; simp [hk]
  have hne : (piece (splitByTags names m) (tagsMatch names k.2)).isEmpty = false := by
    unfold MMap.isEmpty
    cases hc : (piece (splitByTags names m) (tagsMatch names k.2)).counters with
    | nil => rw [hc] at hl; simp at hl
    | cons _ _ => simp
  have hwf : NodupKeys (piece (splitByTags names m) (tagsMatch names k.2)).counters := by
    -- every entry of the piece is an entry of `m` (C15_split_by_tags), so keys are unique
    unfold splitByTags
    split
    · rename_i hn; subst hn; simpa [piece, tagsMatch_nil, lookup_cons] using hm.1
    · rw [piece_splitMM]
      split
      · -- inner maps of splitByKey have unique keys
        have : ∀ (acc : AList String (AList Key Counter)), (∀ e ∈ acc, NodupKeys e.2) →
            ∀ (l : AList Key Counter), ∀ e ∈ l.foldl (splitStep (fun k => tagsMatch names k.2)) acc, NodupKeys e.2 := by
          intro acc hacc l
          induction l generalizing acc with
          | nil => simpa using hacc
          | cons x t ih =>
            simp only [List.foldl_cons]
            apply ih
            intro e he
            obtain ⟨K', tm⟩ := e
            by_cases hin : K' ∈ keys acc ∨ True
            · -- characterise through lookup on a possibly non-nodup acc: use membership in upsert directly
              clear hin
              have hmemUp : ∀ (a : AList String (AList Key Counter)), (∀ e ∈ a, NodupKeys e.2) →
                  ∀ e ∈ AList.upsert ((fun k => tagsMatch names k.2) x.1)
                    (fun o => AList.upsert x.1 (fun _ => x.2) (o.getD [])) a, NodupKeys e.2 := by
                intro a
                induction a with
                | nil =>
                  intro _ e he
                  simp only [AList.upsert, List.mem_singleton] at he
                  subst he
                  simp [AList.upsert, NodupKeys, keys]
                | cons y r ihr =>
                  intro ha e he
                  simp only [AList.upsert] at he
                  split at he
                  · simp only [List.mem_cons] at he
                    rcases he with rfl | he
                    · exact nodupKeys_upsert _ _ (ha y (by simp))
                    · exact ha e (by simp [he])
                  · simp only [List.mem_cons] at he
                    rcases he with rfl | he
                    · exact ha _ (by simp)
                    · exact ihr (fun z hz => ha z (by simp [hz])) e he
              exact hmemUp acc hacc (K', tm) he
            · exact absurd (Or.inr trivial) hin
        have hall := this [] (by simp) m.counters
        cases hq : lookup (tagsMatch names k.2) (splitByKey (fun k => tagsMatch names k.2) m.counters) with
        | none => simp [NodupKeys, keys]
        | some tm =>
          simp only [Option.getD_some]
          exact hall (_, tm) (mem_of_lookup_some hq)
      · simp [NodupKeys, keys]
  have hl' : lookup k (dropInvalid valid (piece (splitByTags names m) (tagsMatch names k.2))).counters = some v := by
    simp only [dropInvalid]
    rw [lookup_filter_nodup _ _ hwf, hl]
    simp [hown]
  have hne' : (dropInvalid valid (piece (splitByTags names m) (tagsMatch names k.2))).isEmpty = false := by
    unfold MMap.isEmpty
    cases hc : (dropInvalid valid (piece (splitByTags names m) (tagsMatch names k.2))).counters with
    | nil => rw [hc] at hl'; simp at hl'
    | cons _ _ => simp
  simp only [counterDelivered, flushBodies, List.any_eq_true, List.mem_map, List.mem_filter]
  refine ⟨(tagsMatch names k.2, some (dropInvalid valid (piece (splitByTags names m) (tagsMatch names k.2)))),
    ⟨_, ⟨hmem, by simp [hne]⟩, by simp [hne']⟩, ?_⟩
  simp [hl']

/-- **C15_D8_witness.**  The negation on the pinned tree (`flushBodies false` = what the driver runs while `d8Fixed = false`): without dynamic headers the
split map is the whole merged flush, so one series from one client with a string `proto.Marshal`
refuses (here the tagsKey `"BAD"`, standing for `t\xff`) makes the *other* client's valid series
undelivered — the flush produces no body at all (`invalid`, not even `dropped`); the repaired behaviour
delivers it. -/
theorem C15_D8_witness :
    let valid : String → Bool := fun s => s != "BAD"
    let m : MM Int := { counters := [(("a", ""), { value := 1, ts := 0, src := "10.0.0.1", tags := [] }),
                                     (("b", "BAD"), { value := 1, ts := 0, src := "10.0.0.2", tags := ["BAD"] })] }
    m.WF ∧
    counterDelivered (flushBodies false valid [] m) ("a", "") = false ∧
    (flushBodies false valid [] m).map (fun p => (p.1, p.2.isSome)) = [("", false)] ∧
    counterDelivered (flushBodies true valid [] m) ("a", "") = true := by
  refine ⟨⟨by decide, by decide, by decide, by decide⟩, by decide, by decide, by decide⟩

/-- the byte string behind the witness: `t\xff` is not UTF-8 (and `tü` is) -/
example : utf8Valid [0x74, 0xff] = false ∧ utf8Valid [0x74, 0xc3, 0xbc] = true := by decide

end Gsd
