import Gsd.Model.K8s
import Gsd.Proofs.Lemmas.K8s
/-!
# C13 — Kubernetes lookups reflect the current pod holding an IP

Property theorems only (helpers: `Proofs/Lemmas/K8s.lean`).  Everything is stated for **every**
regex oracle `cfg.reMatch`, every label / annotation regex (or none), and every history of
`apply` (add / update / sync), `delete`, `resync` and `lookup` operations starting from the empty
provider.  Hypotheses on histories (both executable, `Model/K8s.lean`):

* `consistent` — a Deleted event carries the version of the pod that the store holds (what the API
  server sends, and what client-go's tombstone path reconstructs).  Needed because `OnDelete`
  decides from the *event's* object whether and which memo entry to drop;
* `valid` — `consistent`, and at every moment no two indexable pods share an IP (the property's
  "pods with distinct IPs"; with two pods on one IP the code answers `objs[0]` of a Go set).

The lookup/update race inside `instanceFromCache` (informer read and memo write are two critical
sections) is *outside* these theorems; its effect is exhibited at the end of the file.
-/
set_option linter.unusedSimpArgs false
set_option linter.unusedVariables false
namespace Gsd
open Gsd.AList Gsd.K8s

variable {Pat : Type}

/-! ### concrete history used by the `example`s: add, edit labels, delete, reuse the IP -/
namespace C13ex
def reM : ReMatch String := fun re key =>
  if re = "app" then (if key = "app" then some ("app", []) else none)
  else if re = "^g/(?P<tag>.*)$" then
    (if key = "g/team" then some ("g/team", ["team"]) else if key = "g/" then some ("g/", [""]) else none)
  else none
def cfg : Config String := { reMatch := reM, labelRe := some "app", annRe := some "^g/(?P<tag>.*)$" }
def podA : Pod :=
  { ns := "ns", name := "a", ip := "10.0.0.1", hostIP := "10.1.1.1", hostNetwork := false, phase := "Running",
    deleting := false, labels := [("app", "web")], annotations := [("g/team", "core"), ("g/", "x"), ("other", "y")] }
def podA' : Pod := { podA with labels := [("app", "api")] }
def podAdone : Pod := { podA' with phase := "Succeeded" }
def podB : Pod := { podA with name := "b", labels := [], annotations := [] }
def ops : List Op :=
  [.apply podA, .lookup "10.0.0.1", .apply podA', .lookup "10.0.0.1", .apply podAdone, .lookup "10.0.0.1",
   .apply podB, .lookup "10.0.0.1", .delete podAdone, .resync, .lookup "10.0.0.1", .delete podB, .lookup "10.0.0.1"]
end C13ex

/-- **Memo invariant**, over all histories with consistent deletes (no distinctness needed): whatever
the memo holds for an IP was derived from a pod that is *currently* in the store, indexable, and
holds that IP.  (A memoised nil is never served: `instanceFromCache` recomputes it.) -/
theorem C13_memo_inv (cfg : Config Pat) (ops : List Op) (hc : consistent [] ops = true)
    (ip : String) (inst : Inst)
    (hm : lookup ip (stateAfter cfg K8s.init ops).memo = some (some inst)) :
    (stateAfter cfg K8s.init ops).store = storeAfter [] ops ∧
    ∃ k q, lookup k (storeAfter [] ops) = some q ∧ indexable q = true ∧ q.ip = ip ∧ inst = derive cfg q := by
  have hinv := inv_stateAfter cfg (inv_init cfg) ops hc
  have hs := stateAfter_store cfg K8s.init ops
  refine ⟨hs, ?_⟩
  obtain ⟨q, hq, hd⟩ := hinv.2 ip inst hm
  rw [mem_podsAt_nodup hinv.1] at hq
  obtain ⟨⟨k, hk⟩, hi, hip⟩ := hq
  rw [hs] at hk
  exact ⟨k, q, hk, hi, hip, hd⟩

example : consistent [] C13ex.ops = true ∧
    lookup "10.0.0.1" (stateAfter C13ex.cfg K8s.init (C13ex.ops.take 8)).memo = some (some ⟨"ns/b", []⟩) := by decide

/-- **Lookup = specification of the current pod set**: on every valid history the whole output
sequence of the provider equals `specRun`, which carries only the store (no memo) and answers each
lookup with `specAnswer (current store) ip`. -/
theorem C13_lookup_spec (cfg : Config Pat) (ops : List Op) (hv : valid [] ops = true) :
    run cfg K8s.init ops = specRun cfg [] ops := by
  exact run_eq_specRun cfg ops K8s.init (inv_init cfg) hv

example : valid [] C13ex.ops = true ∧
    run C13ex.cfg K8s.init C13ex.ops =
      [.ev, .ans (some ⟨"ns/a", ["app:web", "team:core", "g/:x"]⟩),
       .ev, .ans (some ⟨"ns/a", ["app:api", "team:core", "g/:x"]⟩),
       .ev, .ans none,
       .ev, .ans (some ⟨"ns/b", []⟩),
       .ev, .ev, .ans (some ⟨"ns/b", []⟩), .ev, .ans none] := by decide

/-- **What `specAnswer` means**, independently of list order: with distinct IPs, *any* stored pod that
is running, not host-network and holds `ip` determines the answer (identity `namespace/name` and the
tags of its labels then annotations); if no stored pod does, the answer is nothing. -/
theorem C13_spec_meaning (cfg : Config Pat) (store : Store) (hd : distinctIPs store = true) (ip : String) :
    (∀ k q, (k, q) ∈ store → holds ip q = true →
        specAnswer cfg store ip = some ⟨q.ns ++ "/" ++ q.name,
          tagsOf cfg.reMatch cfg.labelRe q.labels ++ tagsOf cfg.reMatch cfg.annRe q.annotations⟩) ∧
    ((∀ k q, (k, q) ∈ store → holds ip q = false) → specAnswer cfg store ip = none) := by
  constructor
  · intro k q hmem hh
    have hq : q ∈ podsAt store ip := by
      rw [podsAt_eq_filter_holds]
      exact List.mem_filter.mpr ⟨List.mem_map.mpr ⟨(k, q), hmem, rfl⟩, hh⟩
    rw [specAnswer_of_mem cfg hd hq]
    rfl
  · intro hnone
    unfold specAnswer
    have : (store.map Prod.snd).find? (holds ip) = none := by
      rw [List.find?_eq_none]
      intro q hq
      obtain ⟨⟨k, q'⟩, hmem, rfl⟩ := List.mem_map.mp hq
      simp [hnone k q' hmem]
    rw [this]; rfl

example : distinctIPs (storeAfter [] (C13ex.ops.take 7)) = true ∧
    (("ns", "b"), C13ex.podB) ∈ storeAfter [] (C13ex.ops.take 7) ∧ holds "10.0.0.1" C13ex.podB = true ∧
    holds "10.0.0.1" C13ex.podAdone = false := by decide

/-- **Tag-name rule** (`getTagNameFromRegex`), by cases on what the regex library answered:
no match → no tag; the first group named `tag` with non-empty text; otherwise the whole key provided
the overall match is non-empty; a match of the empty string without a tag text gives no tag. -/
theorem C13_tagname (reMatch : ReMatch Pat) (re : Pat) (key : String) :
    (reMatch re key = none → getTagName reMatch re key = "") ∧
    (∀ whole groups g, reMatch re key = some (whole, groups) → groups.find? (fun x => x ≠ "") = some g →
        getTagName reMatch re key = g ∧ g ≠ "" ∧ g ∈ groups) ∧
    (∀ whole groups, reMatch re key = some (whole, groups) → (∀ x ∈ groups, x = "") → whole ≠ "" →
        getTagName reMatch re key = key) ∧
    (∀ groups, reMatch re key = some ("", groups) → (∀ x ∈ groups, x = "") →
        getTagName reMatch re key = "") := by
  refine ⟨?_, ?_, ?_, ?_⟩
  · intro h; simp [getTagName, h]
  · intro whole groups g h hg
    refine ⟨by simp only [getTagName, h, hg], ?_, List.mem_of_find?_eq_some hg⟩
    have := List.find?_some hg
    simpa using this
  · intro whole groups h hall hw
    have hn : groups.find? (fun x => x ≠ "") = none := by
      rw [List.find?_eq_none]; intro x hx; simp [hall x hx]
    simp only [getTagName, h, hn]; simp [hw]
  · intro groups h hall
    have hn : groups.find? (fun x => x ≠ "") = none := by
      rw [List.find?_eq_none]; intro x hx; simp [hall x hx]
    simp only [getTagName, h, hn]; simp

example : getTagName C13ex.reM "^g/(?P<tag>.*)$" "g/team" = "team" ∧ getTagName C13ex.reM "^g/(?P<tag>.*)$" "g/" = "g/" ∧
    getTagName C13ex.reM "app" "app" = "app" ∧ getTagName C13ex.reM "app" "other" = "" := by decide

/-- **Tags of an instance**: exactly one tag `name:value` per label / annotation whose key yields a
non-empty tag name under the respective regex, nothing else; a nil regex yields none. -/
theorem C13_tags (reMatch : ReMatch Pat) (re : Option Pat) (m : AList String String) (t : String) :
    t ∈ tagsOf reMatch re m ↔
      ∃ r, re = some r ∧ ∃ k v, (k, v) ∈ m ∧ getTagName reMatch r k ≠ "" ∧ t = getTagName reMatch r k ++ ":" ++ v := by
  cases re with
  | none => simp [tagsOf]
  | some r =>
    simp only [tagsOf, List.mem_filterMap, Option.some.injEq, exists_eq_left']
    constructor
    · rintro ⟨⟨k, v⟩, hmem, h⟩
      by_cases hn : getTagName reMatch r k = ""
      · simp [hn] at h
      · simp only [ne_eq, hn, not_false_eq_true, if_true, Option.some.injEq] at h
        exact ⟨k, v, hmem, hn, h.symm⟩
    · rintro ⟨k, v, hmem, hn, ht⟩
      exact ⟨(k, v), hmem, by simp [hn, ht]⟩

/-- **Never stale**, for all histories with consistent deletes — even when IPs collide: the answer
of any lookup is derived from a pod version that is in the store *at the moment of the lookup*
(versions that were replaced by an update, or deleted, are no longer in the store: keys are unique),
and that version is running, not host-network and holds the IP.  So an answer can equal the
derivation of a retired version only by coinciding with that of a current one. -/
theorem C13_never_stale (cfg : Config Pat) (pre post : List Op) (ip : String) (inst : Inst)
    (hc : consistent [] (pre ++ Op.lookup ip :: post) = true)
    (hans : (run cfg K8s.init (pre ++ Op.lookup ip :: post))[pre.length]? = some (Out.ans (some inst))) :
    NodupKeys (storeAfter [] pre) ∧
    ∃ k q, lookup k (storeAfter [] pre) = some q ∧ holds ip q = true ∧ inst = derive cfg q := by
  have hn : NodupKeys (storeAfter [] pre) := nodup_storeAfter (by simp [NodupKeys, keys]) pre
  refine ⟨hn, ?_⟩
  have hpre := (consistent_append hc).1
  have hinv := inv_stateAfter cfg (inv_init cfg) pre hpre
  have hs := stateAfter_store cfg K8s.init pre
  rw [run_append] at hans
  have hlen := run_length cfg K8s.init pre
  rw [List.getElem?_append_right (by omega)] at hans
  simp only [hlen, Nat.sub_self, run, step, List.getElem?_cons_zero, Option.some.injEq, Out.ans.injEq] at hans
  obtain ⟨q, hq, hd⟩ := answer_from_current cfg hinv ip inst hans
  rw [mem_podsAt_nodup hinv.1] at hq
  obtain ⟨⟨k, hk⟩, hi, hip⟩ := hq
  rw [hs] at hk
  refine ⟨k, q, hk, ?_, hd⟩
  rw [holds_eq]; simp [hi, hip]

example : consistent [] (C13ex.ops.take 3 ++ Op.lookup "10.0.0.1" :: C13ex.ops.drop 4) = true ∧
    (run C13ex.cfg K8s.init (C13ex.ops.take 3 ++ Op.lookup "10.0.0.1" :: C13ex.ops.drop 4))[3]? =
      some (Out.ans (some ⟨"ns/a", ["app:api", "team:core", "g/:x"]⟩)) := by decide

/-! ### Why the hypotheses are needed, and what lies outside the theorems (machine-checked witnesses) -/

/-- an *inconsistent* delete (the event carries a finished version while the store still holds the
running one, with no Updated event in between) leaves a stale memo entry: the hypothesis is necessary -/
example :
    run C13ex.cfg K8s.init [.apply C13ex.podB, .lookup "10.0.0.1", .delete { C13ex.podB with phase := "Succeeded" }, .lookup "10.0.0.1"]
      = [.ev, .ans (some ⟨"ns/b", []⟩), .ev, .ans (some ⟨"ns/b", []⟩)] ∧
    specRun C13ex.cfg [] [.apply C13ex.podB, .lookup "10.0.0.1", .delete { C13ex.podB with phase := "Succeeded" }, .lookup "10.0.0.1"]
      = [.ev, .ans (some ⟨"ns/b", []⟩), .ev, .ans none] := by decide

/-- the lookup/update race (not a history of atomic lookups): the informer read of a missed lookup
happens, then an Updated event is handled (there is nothing to invalidate yet), then the lookup
writes what it computed.  The memo now holds the *old* version and every later lookup returns it
until the next event for that pod or a resync. -/
example :
    let s1 := (step C13ex.cfg K8s.init (.apply C13ex.podA)).1
    let r := lookupRead C13ex.cfg s1 "10.0.0.1"                 -- first half of the lookup
    let s2 := (step C13ex.cfg s1 (.apply C13ex.podA')).1           -- OnUpdate runs in between
    let s3 := lookupWrite s2 "10.0.0.1" r                        -- second half
    (step C13ex.cfg s3 (.lookup "10.0.0.1")).2 = .ans (some ⟨"ns/a", ["app:web", "team:core", "g/:x"]⟩) ∧
    specAnswer C13ex.cfg s3.store "10.0.0.1" = some ⟨"ns/a", ["app:api", "team:core", "g/:x"]⟩ := by decide

/-- the same witness through the driver's transition function for racing lookups (pinned tree:
`fixed = false`), against the specification that linearises the racing lookup before its event -/
example :
    let l : List XOp := [.plain (.apply C13ex.podA), .race "10.0.0.1" (.apply C13ex.podA'), .plain (.lookup "10.0.0.1")]
    valid [] (xops l) = true ∧
    xrunG false C13ex.cfg K8s.init l ≠ xspecRun C13ex.cfg [] l ∧
    xrunG true C13ex.cfg K8s.init l = xspecRun C13ex.cfg [] l := by decide

/-- **The candidate repair closes the race** (`handoff/C13-fix-1.patch`: a generation counter bumped by
every invalidation; a computed instance is memoised only if the counter did not move meanwhile).
For every valid history in which any lookup may have one event handled between its informer read
and its memo write, the repaired provider answers the specification (racing lookups linearised
before their event).  The pinned tree (`xrunG false`) does not — see the witness above. -/
theorem C13_race_repaired (cfg : Config Pat) (l : List XOp) (hv : valid [] (xops l) = true) :
    xrunG true cfg K8s.init l = xspecRun cfg [] l :=
  xrunG_fixed_eq_spec cfg l K8s.init (inv_init cfg) hv

end Gsd
