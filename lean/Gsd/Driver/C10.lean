import Gsd.Model.Tags
import Gsd.Driver.MMCodec
/-!
Driver for C10 (tag stage).

Case (items separated by ` ; `):
  head  := `S n TAG*n O k (REGEX CAND 0|1)*k`      static tags; regexp oracle table (raw regex text, candidate, answer)
  item  := `f n PAT*n n PAT*n n PAT*n n PAT*n dm dh` one filter: match-metrics, exclude-metrics, match-tags, drop-tags, drop-metric, drop-host
         | `c|g|t|s …`                               one series of the input map (MMCodec entry format)
         | `e SRC n TAG*n`                           one event
Strings are `x`+hex tokens; inside the driver a Go string is the Lean `String` whose characters are its bytes.

Output: `MAP | OUTCOMES | EVENTS | same`   (last part: the handler built through `NewTagHandlerFromViper` and the one
built from `Filter` values hand on the same map; anything else is a failure)
  MAP      := `NONE` (nothing handed on) or the map handed on: entries sorted, timer values sorted, set members
              sorted, a gauge's value `*` when the colliding inputs carry different values at the newest timestamp
              (Go visits the input map in random order: either may win)
  OUTCOMES := per input series (sorted by type, name, input tagsKey): `D` (dropped) or `K ty NAME KEY SRC n TAG*n`
  EVENTS   := per event `SRC n TAG*n` (tags in the order the handler leaves them)
-/
namespace Gsd.Driver.C10
open Gsd Gsd.Proto Gsd.Driver Gsd.Tags

/-! ### strings -/

def decStr (t : String) : Option String :=
  (bytesOfTok t).map (fun bs => String.ofList (bs.map (fun b => Char.ofNat b.toNat)))

def encStr (s : String) : String := tokOfBytes (s.toList.map (fun c => UInt8.ofNat c.toNat))

def pStr : P String := do let t ← tok; match decStr t with | some s => pure s | none => failure
def pBool : P Bool := do let t ← tok; match t with | "1" => pure true | "0" => pure false | _ => failure

/-! ### flat series records -/

structure Ser where
  ty : String
  name : String
  key : String
  src : String := ""
  tags : List String := []
  ts : Int := 0
  cval : Int := 0
  gval : String := ""              -- float token or `*`
  tvals : List Float := []
  sampled : Float := 0.0
  members : List String := []

def pSer : P Ser := do
  let ty ← tok
  let name ← pStr
  let key ← pStr
  match ty with
  | "c" =>
    let v ← pInt; let ts ← pInt; let src ← pStr; let tags ← pList pStr
    pure { ty, name, key, src, tags, ts, cval := v }
  | "g" =>
    let v ← tok
    if v ≠ "*" ∧ (floatOfTok v).isNone then failure
    let ts ← pInt; let src ← pStr; let tags ← pList pStr
    pure { ty, name, key, src, tags, ts, gval := v }
  | "t" =>
    let vs ← pList pFloat; let sc ← pFloat; let ts ← pInt; let src ← pStr; let tags ← pList pStr
    pure { ty, name, key, src, tags, ts, tvals := vs, sampled := sc }
  | "s" =>
    let ms ← pList pStr; let ts ← pInt; let src ← pStr; let tags ← pList pStr
    pure { ty, name, key, src, tags, ts, members := ms }
  | _ => failure

def renderTagsE (tags : List String) : String := unwords (toString tags.length :: tags.map encStr)

def sortFloatToks (l : List Float) : List String := sortStrings (l.map tokOfFloat)

/-- canonical text of one series -/
def Ser.render (s : Ser) : String :=
  match s.ty with
  | "c" => unwords ["c", encStr s.name, encStr s.key, toString s.cval, toString s.ts, encStr s.src, renderTagsE s.tags]
  | "g" => unwords ["g", encStr s.name, encStr s.key, s.gval, toString s.ts, encStr s.src, renderTagsE s.tags]
  | "t" => unwords (["t", encStr s.name, encStr s.key, toString s.tvals.length] ++ sortFloatToks s.tvals ++
                    [tokOfFloat s.sampled, toString s.ts, encStr s.src, renderTagsE s.tags])
  | _ => unwords (["s", encStr s.name, encStr s.key, toString s.members.length] ++ sortStrings (s.members.map encStr) ++
                    [toString s.ts, encStr s.src, renderTagsE s.tags])

def Ser.id (s : Ser) : String := unwords [s.ty, encStr s.name, encStr s.key]

/-! ### case -/

structure Case where
  static : List String
  oracle : List ((String × String) × Bool)
  filters : List FilterText
  series : List Ser                       -- later entries with the same (type, name, key) overwrite earlier ones
  events : List (String × List String)

def pHead : P (List String × List ((String × String) × Bool)) := do
  let s ← tok; if s ≠ "S" then failure
  let st ← pList pStr
  let o ← tok; if o ≠ "O" then failure
  let tbl ← pList (do let r ← pStr; let c ← pStr; let b ← pBool; pure ((r, c), b))
  pure (st, tbl)

def pFilter : P FilterText := do
  let mm ← pList pStr; let xm ← pList pStr; let mt ← pList pStr; let dt ← pList pStr
  let dm ← pBool; let dh ← pBool
  pure { matchMetrics := mm, excludeMetrics := xm, matchTags := mt, dropTags := dt, dropMetric := dm, dropHost := dh }

def runP {β} (p : P β) (toks : List String) : Option β :=
  match (p <* pEnd).run toks with
  | some (b, _) => some b
  | none => none

def parseCase (line : String) : Option Case := do
  match splitBy ";" (tokens line) with
  | [] => none
  | head :: items =>
    let (st, tbl) ← runP pHead head
    let mut c : Case := { static := st, oracle := tbl, filters := [], series := [], events := [] }
    for it in items do
      match it with
      | [] => pure ()
      | "f" :: rest =>
        let f ← runP pFilter rest
        c := { c with filters := c.filters ++ [f] }
      | "e" :: rest =>
        let e ← runP (do let s ← pStr; let t ← pList pStr; pure (s, t)) rest
        c := { c with events := c.events ++ [e] }
      | _ =>
        let s ← runP pSer it
        if s.ty = "g" ∧ s.gval = "*" then none
        c := { c with series := (c.series.filter (fun x => x.id ≠ s.id)) ++ [s] }
    pure c

def sortSeries (l : List Ser) : List Ser :=
  (l.toArray.qsort (fun a b => a.id < b.id)).toList

/-! ### the regexp oracle -/

def oracleFn (tbl : List ((String × String) × Bool)) (r s : String) : Bool :=
  match tbl.lookup (r, s) with
  | some b => b
  | none => false

def candidates (c : Case) : List String := c.series.flatMap (fun s => s.name :: s.tags)

def patternTexts (c : Case) : List String :=
  c.filters.flatMap (fun f => f.matchMetrics ++ f.excludeMetrics ++ f.matchTags ++ f.dropTags)

/-- a (regex, candidate) pair the model can ask about that the table does not answer -/
def oracleMiss (c : Case) : Option (String × String) :=
  let rs := (patternTexts c).filterMap (fun p => (newStringMatch p).regex)
  (rs.flatMap (fun r => (candidates c).map (fun s => (r, s)))).find? (fun q => (c.oracle.lookup q).isNone)

/-! ### model run -/

def mmOf (l : List Ser) : MM Float :=
  { counters := (l.filter (·.ty = "c")).map (fun s => ((s.name, s.key), { value := s.cval, ts := s.ts, src := s.src, tags := s.tags })),
    gauges := (l.filter (·.ty = "g")).map (fun s => ((s.name, s.key),
      { value := (floatOfTok s.gval).getD 0.0, ts := s.ts, src := s.src, tags := s.tags })),
    timers := (l.filter (·.ty = "t")).map (fun s => ((s.name, s.key),
      { values := s.tvals, sampled := s.sampled, ts := s.ts, src := s.src, tags := s.tags })),
    sets := (l.filter (·.ty = "s")).map (fun s => ((s.name, s.key), { members := s.members, ts := s.ts, src := s.src, tags := s.tags })) }

def sersOf (m : MM Float) : List Ser :=
  m.counters.map (fun e => { ty := "c", name := e.1.1, key := e.1.2, src := e.2.src, tags := e.2.tags, ts := e.2.ts, cval := e.2.value }) ++
  m.gauges.map (fun e => { ty := "g", name := e.1.1, key := e.1.2, src := e.2.src, tags := e.2.tags, ts := e.2.ts, gval := tokOfFloat e.2.value }) ++
  m.timers.map (fun e => { ty := "t", name := e.1.1, key := e.1.2, src := e.2.src, tags := e.2.tags, ts := e.2.ts, tvals := e.2.values, sampled := e.2.sampled }) ++
  m.sets.map (fun e => { ty := "s", name := e.1.1, key := e.1.2, src := e.2.src, tags := e.2.tags, ts := e.2.ts, members := e.2.members })

def dedupS (l : List String) : List String := l.foldl (fun acc x => if x ∈ acc then acc else acc ++ [x]) []

/-- the `*` rule: `grp` = values (tokens) of the colliding input gauges that carry the output's timestamp -/
def starGauge (out : Ser) (grp : List String) : Ser :=
  if (dedupS grp).length ≥ 2 ∧ out.gval ∈ grp then { out with gval := "*" } else out

def renderAll (l : List String) : String := if l.isEmpty then "-" else " , ".intercalate l

def runModel (line : String) : String :=
  match parseCase line with
  | none => "BAD_CASE"
  | some c =>
    match oracleMiss c with
    | some (r, s) => s!"ORACLE_MISS {encStr r} {encStr s}"
    | none =>
      let re := oracleFn c.oracle
      let th := newTagHandler 0 c.static (c.filters.map newFilter)
      let inputs := sortSeries c.series
      let retagOf (s : Ser) := th.retag re s.name s.src s.tags
      let mapPart := match th.dispatchMetricMap re (mmOf inputs) with
        | none => "NONE"
        | some out =>
          let outs := (sersOf out).map (fun o =>
            if o.ty = "g" then
              let grp := inputs.filter (fun i => i.ty == "g" && i.name == o.name && i.ts == o.ts &&
                            (match retagOf i with | some (k, _, _) => k == o.key | none => false))
              starGauge o (grp.map (·.gval))
            else o)
          renderAll (sortStrings (outs.map Ser.render))
      let outcomes := renderAll (inputs.map (fun s => match retagOf s with
        | none => "D"
        | some (k, src, tags) => unwords ["K", s.ty, encStr s.name, encStr k, encStr src, renderTagsE tags]))
      let events := renderAll (c.events.map (fun e =>
        let r := th.event e.1 e.2
        -- the order of an event's tags is not fixed by the property: rendered sorted (by their encoded form)
        unwords (encStr r.1 :: toString r.2.length :: sortStrings (r.2.map encStr))))
      mapPart ++ " | " ++ outcomes ++ " | " ++ events ++ " | same"

/-! ### executable specification: the documented rules computed directly from the case -/

namespace Doc

/-- documented meaning of a pattern body (the text after an optional `!`) -/
def body (re : String → String → Bool) (q s : List Char) : Bool :=
  if "regex:".toList.isPrefixOf q then re (String.ofList (q.drop "regex:".length)) (String.ofList s)
  else match q.reverse with
    | '*' :: r => r.reverse.isPrefixOf s
    | _ => q == s

/-- documented meaning of a pattern text -/
def pat (re : String → String → Bool) (p s : String) : Bool :=
  match p.toList with
  | '!' :: q => !(body re q s.toList)
  | q => body re q s.toList

def satisfied (re : String → String → Bool) (f : FilterText) (name : String) (tags : List String) : Bool :=
  (f.matchMetrics.isEmpty || f.matchMetrics.any (fun p => pat re p name)) &&
  !(f.excludeMetrics.any (fun p => pat re p name)) &&
  (f.matchTags.isEmpty || tags.any (fun t => f.matchTags.any (fun p => pat re p t)))

structure Exp where
  dropped : Bool
  src : String
  tags : List String      -- sorted, duplicate-free
  key : String

def joinKey (src : String) (sorted : List String) : String :=
  let t := ",".intercalate sorted
  if src = "" then t else t ++ ",s:" ++ src

/-- the documented outcome of one metric -/
def expect (re : String → String → Bool) (c : Case) (name src : String) (tags : List String) : Exp :=
  let sat := c.filters.filter (fun f => satisfied re f name tags)
  let dropped := sat.any (·.dropMetric)
  let removed := tags.filter (fun t => sat.any (fun f => f.dropTags.any (fun p => pat re p t)))
  let keep := sortStrings (dedupS ((tags ++ c.static).filter (fun t => !(removed.contains t))))
  let src' := if sat.any (·.dropHost) then "" else src
  { dropped, src := src', tags := keep, key := joinKey src' keep }

end Doc

def nodupS (l : List String) : Bool := (dedupS l).length == l.length

def maxInt (l : List Int) : Int := l.foldl (fun m x => if m < x then x else m) (l.headD 0)

def parseSers (s : String) : Option (List Ser) :=
  if s.trimAscii.toString = "-" then some [] else
  ((splitBy "," (tokens s)).filter (· ≠ [])).mapM (runP pSer)

/-- check one output series `o` against the surviving inputs `grp` (with their expectations) filed under its key -/
def checkEntry (o : Ser) (grp : List (Ser × Doc.Exp)) : Option String :=
  match grp with
  | [] => some s!"series {o.id} was handed on but no surviving input has this name and key"
  | (_, e0) :: _ =>
    if !(nodupS o.tags) then some s!"duplicate tag in {o.id}"
    else if !(grp.any (fun g => sortStrings o.tags = g.2.tags)) then some s!"tags of {o.id} are not (tags ∪ static) minus removed"
    else if o.src ≠ e0.src then some s!"source of {o.id} does not follow drop-host"
    else if o.ts ≠ maxInt (grp.map (·.1.ts)) then some s!"timestamp of {o.id} is not the newest of the combined series"
    else match o.ty with
      | "c" => if o.cval ≠ (grp.map (·.1.cval)).foldl (· + ·) 0 then some s!"collision lost data: counter {o.id} is not the sum of the colliding series" else none
      | "t" =>
        if sortFloatToks o.tvals ≠ sortFloatToks (grp.flatMap (·.1.tvals)) then some s!"collision lost data: timer {o.id} values are not those of the colliding series"
        else if tokOfFloat o.sampled ≠ tokOfFloat ((grp.map (·.1.sampled)).foldl (· + ·) 0.0) then some s!"collision lost data: timer {o.id} sampled count is not the sum"
        else none
      | "s" => if sortStrings (dedupS o.members) ≠ sortStrings (dedupS (grp.flatMap (·.1.members))) then some s!"collision lost data: set {o.id} is not the union of the colliding series" else none
      | _ =>
        if o.gval = "*" then none
        else if !(grp.any (fun g => g.1.ts = o.ts ∧ g.1.gval = o.gval)) then some s!"collision: gauge {o.id} does not carry the value of a newest series"
        else none

def spec (caseLine implLine : String) : String :=
  match parseCase caseLine with
  | none => "BAD_CASE"
  | some c =>
    let re := oracleFn c.oracle
    let inputs := sortSeries c.series
    let exps := inputs.map (fun s => (s, Doc.expect re c s.name s.src s.tags))
    let surv := exps.filter (fun p => !p.2.dropped)
    match implLine.splitOn " | " with
    | [mapS, outS, evS, ctor] =>
      -- per-series outcomes
      let outs := if outS.trimAscii.toString = "-" then [] else (splitBy "," (tokens outS)).filter (· ≠ [])
      if outs.length ≠ exps.length then s!"FAIL shape {outs.length} outcomes for {exps.length} series" else
      let bad1 := (exps.zip outs).findSome? (fun (p, o) =>
        match o with
        | ["D"] => if p.2.dropped then none else some s!"dropiff {p.1.id} was dropped but no satisfied filter has drop-metric"
        | "K" :: ty :: rest =>
          match runP (do let n ← pStr; let k ← pStr; let s ← pStr; let t ← pList pStr; pure (n, k, s, t)) rest with
          | none => some s!"shape unparsable outcome for {p.1.id}"
          | some (n, k, s, t) =>
            if p.2.dropped then some s!"dropiff {p.1.id} satisfies a filter with drop-metric but was kept"
            else if ty ≠ p.1.ty ∨ n ≠ p.1.name then some s!"identity type or name of {p.1.id} changed"
            else if !(nodupS t) then some s!"nodup duplicate tag on {p.1.id}"
            else if !(c.static.all (fun x => t.contains x ∨ (p.1.tags.contains x ∧ !(p.2.tags.contains x)))) then
              some s!"static a static tag that is not being removed is missing on {p.1.id}"
            else if sortStrings t ≠ p.2.tags then some s!"tagset tags of {p.1.id} are not (tags ∪ static) minus removed"
            else if s ≠ p.2.src then some s!"host source of {p.1.id} does not follow drop-host"
            else if k ≠ p.2.key then some s!"rekey {p.1.id} is not filed under the key of its new source and tags"
            else none
        | _ => some s!"shape unparsable outcome for {p.1.id}")
      match bad1 with
      | some why => "FAIL " ++ why
      | none =>
      -- the map
      let bad2 : Option String :=
        if mapS.trimAscii.toString = "NONE" then
          (if surv.isEmpty then none else some "lost every series: nothing was handed on although some series survive")
        else match parseSers mapS with
          | none => some "shape unparsable map"
          | some os =>
            if os.isEmpty then some "empty an empty map was handed on" else
            let ids := os.map Ser.id
            if !(nodupS ids) then some "dupkey a series appears twice in the map" else
            match surv.find? (fun p => !(ids.contains (unwords [p.1.ty, encStr p.1.name, encStr p.2.key]))) with
            | some p => some s!"lost {p.1.id} survives the filters but its new key is missing from the map"
            | none =>
              os.findSome? (fun o =>
                if o.key ≠ Doc.joinKey o.src (sortStrings o.tags) then some s!"rekey {o.id} is not filed under the key of its source and tags"
                else (checkEntry o (surv.filter (fun p => p.1.ty = o.ty ∧ p.1.name = o.name ∧ p.2.key = o.key))).map ("content " ++ ·))
      match bad2 with
      | some why => "FAIL " ++ why
      | none =>
      -- events
      let evs := if evS.trimAscii.toString = "-" then [] else (splitBy "," (tokens evS)).filter (· ≠ [])
      if evs.length ≠ c.events.length then s!"FAIL shape {evs.length} events for {c.events.length}" else
      let bad3 := (c.events.zip evs).findSome? (fun (e, o) =>
        match runP (do let s ← pStr; let t ← pList pStr; pure (s, t)) o with
        | none => some "shape unparsable event"
        | some (s, t) =>
          if s ≠ e.1 then some "event source of an event changed"
          else if !(nodupS t) then some "event duplicate tag on an event"
          else if sortStrings t ≠ sortStrings (dedupS (e.2 ++ c.static)) then some "event tags of an event are not tags ∪ static"
          else none)
      match bad3 with
      | some why => "FAIL " ++ why
      | none =>
        if ctor.trimAscii.toString = "same" then "ok"
        else if ctor.trimAscii.toString.startsWith "UNSTABLE" then
          "FAIL content the same map dispatched again was handed on with different contents: " ++ ctor.take 200
        else "FAIL construction the handler built by NewTagHandlerFromViper and the one built from Filter values disagree: " ++ ctor.take 200
    | _ => s!"FAIL shape {implLine.take 80}"

def main (args : List String) : IO UInt32 := do
  match args with
  | ["model"] => mapLines runModel; return 0
  | ["spec"] =>
    mapLines (fun l => match l.splitOn "\t" with
      | [c, i] => spec c i
      | _ => "BAD_LINE")
    return 0
  | _ => IO.eprintln "usage: gsdmodel C10 (model|spec)"; return 2

end Gsd.Driver.C10
