import Gsd.Model.Sender
import Gsd.Driver.Proto
/-!
Driver for C16.  Case kinds (items separated by ` ; `, the first item is the head):

* `snd ; E ; E ; …` — lock-step script for the real `sender.Sender`; events `K` (dial succeeds), `F` (dial
  fails), `T` (reconnect timer fires), `A` (a producer offers the next stream), `W+`/`W-` (a buffer is
  taken from the held stream and written ok / with an error), `C<j>` (stream j's `Buf` is closed),
  `X<j>` (stream j's context is cancelled), `Z` (Run's context is cancelled).
  Output `tr=<control location after each event> pre=<streams> post=<streams> end=<location>`,
  streams as `j:<#callbacks><n|e per callback>`; `post` is after the fixed shutdown sequence
  (`Sender.finalize`).
* `be <backend> <flavor> <no|re|ex> <none|pre|req<k>|post> <reps> ; <batch script> ; …` — one flush of an
  HTTP backend against a scripted server; a batch script is a word over `2 4 5 9 H S` (status 204,
  400, 503, 429, hijack-and-close, slow 204), the last letter repeats.  Output `cb=<n> err=<n|e|*>`.
* `sock <graphite|statsd-tcp|statsd-udp> <up|downup|down-cancel|down-shutdown|precancel|big>` (`big`: one flush
  that renders to about 1500 relay datagrams, more than the relay's channel of packet buffers holds; `edge-down-cancel`:
  nothing listens, the flush renders to exactly one datagram more than that channel holds and is cancelled while the last
  one is being handed over).
* `fl <aggregators> <backends> ; a.b ; …` — order in which the fake backends invoke the callbacks of
  the real `MetricFlusher`.  Output `early=<0|1> ret=<0|1>`.
-/
namespace Gsd.Driver.C16
open Gsd Gsd.Proto Gsd.Sender

/-- the behaviour of the tree the model is reconciled with: flip to `fixedCfg` / `true` when
handoff/C16-fix-2.patch / C16-fix-1.patch are applied -/
def senderCfg : Cfg := fixedCfg   -- the repaired sender (fix commit 003196c); `codeCfg` = the pinned behaviour
def influxGuard : Bool := true   -- nil guard in releaseBuffer (fix commit 5cd9a70)

def items (line : String) : List (List String) := splitBy ";" (tokens line)

/-! ### sender -/

def parseInj (t : String) : Option Inj :=
  match t.toList with
  | ['K'] => some .connOk
  | ['F'] => some .connFail
  | ['T'] => some .timer
  | ['A'] => some .offer
  | ['W', '+'] => some (.wrote true)
  | ['W', '-'] => some (.wrote false)
  | ['Z'] => some .cancelCtx
  | 'C' :: rest => (String.ofList rest).toNat?.map Inj.closeBuf
  | 'X' :: rest => (String.ofList rest).toNat?.map Inj.cancelStream
  | _ => none

def parseScript (its : List (List String)) : Option (List Inj) :=
  its.foldr (fun it acc => match it, acc with
    | [t], some l => (parseInj t).map (· :: l)
    | [], some l => some l
    | _, _ => none) (some [])

def renderStream (s : St) (j : Nat) : String :=
  let cs := s.cbs.filter (fun cb => cb.stream == j)
  s!"{j}:{cs.length}" ++ String.ofList (cs.map (fun cb => if cb.errs.isEmpty then 'n' else 'e'))

def renderStreams (s : St) : String :=
  if s.next = 0 then "-" else ",".intercalate ((List.range s.next).map (renderStream s))

structure SndResult where
  pre : Run
  post : Run

def runSnd (injs : List Inj) : SndResult :=
  let pre := runInj senderCfg {} injs
  { pre := pre, post := finalize senderCfg pre }

def sndModel (its : List (List String)) : String :=
  match parseScript its with
  | none => "BAD_CASE"
  | some injs =>
    let r := runSnd injs
    let tr := if r.pre.trace.isEmpty then "-" else String.ofList r.pre.trace
    -- a racy script (two reactions enabled whose order the runtime chooses) has no single predicted line:
    -- the leading `*` tells the check that the model makes no prediction for this case (the specification alone judges)
    (if r.post.racy then "* RACY " else "") ++
    s!"tr={tr} pre={renderStreams r.pre.st} post={renderStreams r.post.st} end={r.post.st.pc.letter}"

def field (toks : List String) (name : String) : Option String :=
  toks.findSome? (fun t => if t.startsWith (name ++ "=") then some ((t.drop (name.length + 1)).toString) else none)

/-- `j:<n><classes>` → (j, n, classes) -/
def parseStream (t : String) : Option (Nat × Nat × String) :=
  match t.splitOn ":" with
  | [j, rest] =>
    let digits := rest.toList.takeWhile Char.isDigit
    let cls := rest.toList.dropWhile Char.isDigit
    match j.toNat?, (String.ofList digits).toNat? with
    | some j, some n => some (j, n, String.ofList cls)
    | _, _ => none
  | _ => none

def parseStreams (t : String) : Option (List (Nat × Nat × String)) :=
  if t = "-" then some [] else (t.splitOn ",").mapM parseStream

def firstSome (l : List (Option String)) : Option String := l.findSome? id

def sndSpec (its : List (List String)) (impl : String) : String :=
  match parseScript its with
  | none => "BAD_CASE"
  | some injs =>
    let r := runSnd injs
    -- on a racy script the real run may have taken another path than the model's: only the clauses that do not
    -- consult the model's state apply (stopped, no panic, exactly one callback per stream after shutdown)
    let racy := r.post.racy
    let toks := tokens impl
    if impl.startsWith "HANG" then "FAIL hang the sender did not come to rest / stop" else
    match field toks "pre", field toks "post", field toks "end" with
    | some preT, some postT, some endT =>
      match parseStreams preT, parseStreams postT with
      | some pre, some post =>
        if endT = "p" then
          (if r.post.st.pc == .panicked then "FAIL panic-stale-streamcancel the Run goroutine dereferenced a nil stream in the reconnect wait"
           else "FAIL panic the Run goroutine panicked")
        else if endT ≠ "x" then s!"FAIL not-stopped end={endT}"
        else
          let bad := firstSome (post.map (fun (j, n, cls) =>
            if n ≥ 2 then some s!"FAIL double-callback stream {j} called back {n} times"
            else if n = 0 then
              (if !racy ∧ j ∈ r.post.st.lost then some s!"FAIL lost-callback-stale-sink stream {j} was overwritten while held and never called back"
               else some s!"FAIL missing-callback stream {j} never called back")
            else if !racy ∧ j ∈ r.post.st.wfail ∧ ¬ cls.contains 'e' then
              some s!"FAIL error-not-carried stream {j} saw a write error but its callback got no error"
            else none))
          match bad with
          | some b => b
          | none =>
            let settled := !racy && r.pre.st.held.isNone && r.pre.st.queue.isEmpty &&
                           r.pre.st.pc != .panicked
            let bad2 := if settled then firstSome (pre.map (fun (j, n, _) =>
                if n ≠ 1 ∧ j ∉ r.pre.st.lost then
                  some s!"FAIL incomplete-after-recovery stream {j} has {n} callbacks although the sender holds nothing"
                else none)) else none
            match bad2 with
            | some b => b
            | none => if !racy ∧ post.length ≠ r.post.st.next then s!"FAIL stream-count {post.length} != {r.post.st.next}" else "ok"
      | _, _ => "FAIL unparsable " ++ impl
    | _, _, _ => "FAIL unparsable " ++ impl

/-! ### HTTP backends -/

structure BeCase where
  backend : String
  flavor : String
  retry : String
  cancel : String
  reps : Nat
  scripts : List String

def parseBe (its : List (List String)) : Option BeCase :=
  match its with
  | ["be", b, f, r, c, reps] :: rest =>
    reps.toNat?.map (fun n => { backend := b, flavor := f, retry := r, cancel := c, reps := n,
                                 scripts := rest.filterMap (fun it => match it with | [w] => some w | _ => none) })
  | _ => none

def okLetter (c : Char) : Bool := c == '2' || c == 'S'

/-- final result of one batch under the backend's retry loop: `no` = no retry (the first attempt
decides), `re`/`ex` = retry until success or until the window ends (the repeating last letter
decides).  cloudwatch runs with one SDK attempt (AWS_MAX_ATTEMPTS=1): the first attempt decides. -/
def batchOk (c : BeCase) (w : String) : Bool :=
  match w.toList with
  | [] => true
  | first :: rest =>
    if c.retry = "no" || c.backend = "cloudwatch" then okLetter first
    else okLetter ((first :: rest).getLast?.getD first)

def cancelled (c : BeCase) : Bool := c.cancel = "pre" || c.cancel.startsWith "req"

def beClass (c : BeCase) (oks : List Bool) : String :=
  if cancelled c then "*" else if oks.all id then "n" else "e"

def beModel (c : BeCase) : String :=
  let oks := c.scripts.map (batchOk c)
  match c.backend with
  | "datadog" | "newrelic" | "influxdb" =>
    if c.backend = "influxdb" && c.cancel = "pre" &&
       Influx.processMetrics influxGuard 1 c.scripts.length (fun _ => false) == .panic then "PANIC nil-pointer"
    else
      let res := oks.map (fun b => if b then Collector.Res.ok else Collector.Res.fail)
      let cancelAfter : Option Nat := if c.cancel = "pre" then some 0
        else if c.cancel.startsWith "req" then some ((c.cancel.drop 3).toString.toNat?.getD 0) else none
      match Collector.eager res cancelAfter with
      | some s => s!"cb={s.cbs.length} err={beClass c oks}"
      | none => "MODEL_STUCK"
  | "otlp" =>
    let oks' := if oks.isEmpty then [true] else oks
    s!"cb={(Direct.otlp oks').length} err={beClass c oks'}"
  | "cloudwatch" =>
    let r := Direct.cloudwatch 20 (20 * oks.length) (fun k => oks[k]?.getD true)
    s!"cb={r.length} err={beClass c oks}"
  | "stdout" => s!"cb={(Direct.stdout true).length} err=n"
  | "null" => s!"cb={Direct.null.length} err=n"
  | _ => "BAD_CASE"

def cbSpec (impl : String) (mustErr : Bool) : String :=
  let toks := tokens impl
  match field toks "cb", field toks "err" with
  | some n, some cls =>
    match n.toNat? with
    | some 1 => if mustErr && cls ≠ "e" then "FAIL error-not-carried delivery was prevented but the callback got no error" else "ok"
    | some 0 => "FAIL missing-callback no callback"
    | some k => s!"FAIL double-callback {k} callbacks for one flush"
    | none => "FAIL unparsable " ++ impl
  | _, _ => "FAIL unparsable " ++ impl

def beSpec (c : BeCase) (impl : String) : String :=
  if impl.startsWith "PANIC" then
    (if c.backend = "influxdb" && cancelled c && impl = "PANIC nil-pointer" then
      "FAIL panic-influx-nil-buffer SendMetricsAsync with a cancelled context dereferenced the nil buffer"
     else "FAIL panic " ++ impl)
  else if impl.startsWith "HANG" then "FAIL missing-callback no callback within the deadline"
  else
    let oks := c.scripts.map (batchOk c)
    cbSpec impl (!cancelled c && !oks.all id)

/-! ### socket backends over real listeners -/

def sockModel (scenario : String) : String :=
  match scenario with
  | "up" | "downup" | "big" => "cb=1 err=n"
  | "down-cancel" | "down-shutdown" | "edge-down-cancel" => "cb=1 err=e"
  | "precancel" => "cb=1 err=*"
  | _ => "BAD_CASE"

def sockSpec (scenario impl : String) : String :=
  if impl.startsWith "PANIC" then "FAIL panic " ++ impl
  else if impl.startsWith "HANG" then "FAIL missing-callback no callback within the deadline"
  else cbSpec (impl.replace "err=*" "err=e") (scenario = "down-cancel" || scenario = "down-shutdown" || scenario = "edge-down-cancel")

/-! ### flusher -/

def parsePair (t : String) : Option (Nat × Nat) :=
  match t.splitOn "." with
  | [a, b] => match a.toNat?, b.toNat? with
    | some a, some b => some (a, b)
    | _, _ => none
  | _ => none

def parseFl (its : List (List String)) : Option (Nat × Nat × List (Nat × Nat)) :=
  match its with
  | ["fl", a, b] :: rest =>
    match a.toNat?, b.toNat?, (rest.filter (· ≠ [])).mapM (fun it => match it with | [t] => parsePair t | _ => none) with
    | some a, some b, some ps => some (a, b, ps)
    | _, _, _ => none
  | _ => none

def flModel (a b : Nat) (ps : List (Nat × Nat)) : String :=
  let evs := (List.range a).map Flusher.Ev.process ++ ps.map (fun p => Flusher.Ev.callback p.1 p.2)
  let before := Flusher.exec b {} (evs.dropLast)
  let after := Flusher.exec b {} evs
  match before, after with
  | some s0, some s1 =>
    let early := !ps.isEmpty && Flusher.returns a s0
    s!"early={if early then 1 else 0} ret={if Flusher.returns a s1 then 1 else 0}"
  | _, _ => "MODEL_STUCK"

def flSpec (a b : Nat) (ps : List (Nat × Nat)) (impl : String) : String :=
  if impl.startsWith "PANIC" then "FAIL panic " ++ impl
  else if impl.startsWith "HANG" then "FAIL flusher-blocked the flush did not return"
  else
    let all := (List.range a).flatMap (fun x => (List.range b).map (fun y => (x, y)))
    let complete := all.all (fun p => ps.count p == 1) && ps.all (fun p => all.contains p)
    let toks := tokens impl
    match field toks "early", field toks "ret" with
    | some e, some r =>
      if e ≠ "0" then "FAIL returned-before-all-callbacks flushData returned while a callback was outstanding"
      else if complete && r ≠ "1" then "FAIL flusher-blocked every backend called back once but the flush did not return"
      else if !complete && ps.eraseDups.length == ps.length && ps.length < all.length && r ≠ "0" then
        "FAIL returned-before-all-callbacks flushData returned although callbacks are missing"
      else "ok"
    | _, _ => "FAIL unparsable " ++ impl

/-! ### dispatch -/

def runModel (line : String) : String :=
  let its := items line
  match its with
  | ["snd"] :: rest => sndModel rest
  | ("be" :: _) :: _ => match parseBe its with | some c => beModel c | none => "BAD_CASE"
  | ["sock", _, sc] :: _ => sockModel sc
  | ("fl" :: _) :: _ => match parseFl its with | some (a, b, ps) => flModel a b ps | none => "BAD_CASE"
  | ["flx", a, b, _, _] :: _ =>
    -- the flusher's context is cancelled while backend j is being handed aggregator i's map: every (aggregator,
    -- backend) pair is still handed the map and, once all have called back, the flusher returns
    (match a.toNat?, b.toNat? with
     | some a, some b => s!"reg={a * b}/{a * b} returned=1"
     | _, _ => "BAD_CASE")
  | _ => "BAD_CASE"

def spec (caseLine impl : String) : String :=
  let its := items caseLine
  match its with
  | ["snd"] :: rest => sndSpec rest impl
  | ("be" :: _) :: _ => match parseBe its with | some c => beSpec c impl | none => "BAD_CASE"
  | ["sock", _, sc] :: _ => sockSpec sc impl
  | ("fl" :: _) :: _ => match parseFl its with | some (a, b, ps) => flSpec a b ps impl | none => "BAD_CASE"
  | ["flx", a, b, _, _] :: _ =>
    (match a.toNat?, b.toNat? with
     | some a, some b =>
       if impl = s!"reg={a * b}/{a * b} returned=1" then "ok"
       else "FAIL flusher-blocked after a cancellation in mid-flush not every backend was asked, or the flusher never returned: " ++ impl
     | _, _ => "BAD_CASE")
  | _ => "BAD_CASE"

def main (args : List String) : IO UInt32 := do
  match args with
  | ["model"] => mapLines runModel; return 0
  | ["spec"] =>
    mapLines (fun l => match l.splitOn "\t" with
      | [c, i] => spec c i
      | _ => "BAD_LINE")
    return 0
  | _ => IO.eprintln "usage: gsdmodel C16 (model|spec)"; return 2

end Gsd.Driver.C16
