import Gsd.Model.Pipeline
import Gsd.Driver.MMCodec
/-!
Driver for C01.  Case:
  `n mode [NAME TKEY H]* ; a dp , dp … ; f * ; f i j … ; …`
`mode` = `p` (series persist: nothing expires) or `x` (every series expires at every flush);
the head carries the routing oracle (real `Bucket(name, tagsKey, n)` per series);
`a` = one parsed batch fully dispatched and merged (arrive, enqueue each piece, deliver each piece);
`f` = flush of all (`*`) or of the listed shards.
Output: per flush op (joined by ` | `) the views `shard=MAP` (joined by ` ; `), timer values sorted.
The harness always ends a case with `f *`, so the spec can check the quiescent ledger on the
implementation's views directly against the datapoints of the case.
-/
namespace Gsd.Driver.C01
open Gsd Gsd.Proto Gsd.Driver Gsd.Pipeline

inductive Item where
  | free (parsers qsize : Nat)             -- free-running mode marker (first item)
  | arrive (ds : List (Dp Float))
  | flush (shards : Option (List Nat))     -- none = all

structure Case where
  n : Nat
  expireAll : Bool
  h : AList Key Nat
  items : List Item

def parseOracle : List String → Option (AList Key Nat)
  | [] => some []
  | name :: tk :: hv :: rest => do
    let hn ← hv.toNat?
    let t ← parseOracle rest
    pure (((name, tk), hn) :: t)
  | _ => none

def parseItem (toks : List String) : Option Item :=
  match toks with
  | ["r", p, q] => do pure (Item.free (← p.toNat?) (← q.toNat?))
  | "a" :: rest => (parseDps rest).map Item.arrive
  | ["f", "*"] => some (.flush none)
  | "f" :: rest => (rest.mapM String.toNat?).map (fun l => Item.flush (some l.eraseDups))
  | _ => none

def parseCase (line : String) : Option Case := do
  match splitBy ";" (tokens line) with
  | (n :: mode :: oracle) :: items =>
    let n ← n.toNat?
    if n = 0 then none
    let ex ← (match mode with | "p" => some false | "x" => some true | _ => none)
    let h ← parseOracle oracle
    let items ← (items.filter (· ≠ [])).mapM parseItem
    pure { n := n, expireAll := ex, h := h, items := items }
  | _ => none

def dedupS (l : List String) : List String := l.foldl (fun acc x => if x ∈ acc then acc else acc ++ [x]) []

def insertSorted (x : Float) : List Float → List Float
  | [] => [x]
  | y :: t => if x < y then x :: y :: t else y :: insertSorted x t

def sortFloats (l : List Float) : List Float := l.foldr insertSorted []

def viewOf (m : MM Float) : MM Float :=
  { m with timers := m.timers.map (fun e => (e.1, { e.2 with values := sortFloats e.2.values })) }

def oracle (c : Case) (k : Key) : Nat := (AList.lookup k c.h).getD 0

def actionsOf (c : Case) (it : Item) : List (Action Float) :=
  match it with
  | .arrive ds =>
    let mm := MM.receiveAll floatOps MM.empty ds
    let pieces := MMap.dispatch (oracle c) c.n mm
    [Action.arrive ds] ++ pieces.map (fun _ => Action.enqueue 0) ++ pieces.map (fun p => Action.deliver p.1)
  | .flush sel =>
    let shards := match sel with | none => List.range c.n | some l => l
    shards.map (fun i => Action.flushShard i (fun _ => c.expireAll))
  | .free _ _ => []

def isFree (c : Case) : Bool := match c.items.head? with | some (.free _ _) => true | _ => false

/-- totals per series over a list of maps (the free-running mode's canonical output) -/
def totalsOf (ms : List (MM Float)) : String :=
  let ckeys := dedupS (ms.flatMap (fun m => m.counters.map (fun e => e.1.1 ++ " " ++ e.1.2)))
  let tkeys := dedupS (ms.flatMap (fun m => m.timers.map (fun e => e.1.1 ++ " " ++ e.1.2)))
  let skeys := dedupS (ms.flatMap (fun m => m.sets.map (fun e => e.1.1 ++ " " ++ e.1.2)))
  let cs := ckeys.map (fun ks =>
    let tot := (ms.flatMap (fun m => (m.counters.filter (fun e => e.1.1 ++ " " ++ e.1.2 == ks)).map (·.2.value))).foldl (· + ·) 0
    s!"c {ks} {tot}")
  let ts := tkeys.map (fun ks =>
    let vals := sortStrings (ms.flatMap (fun m => (m.timers.filter (fun e => e.1.1 ++ " " ++ e.1.2 == ks)).flatMap (fun e => e.2.values.map tokOfFloat)))
    let samp := (ms.flatMap (fun m => (m.timers.filter (fun e => e.1.1 ++ " " ++ e.1.2 == ks)).map (·.2.sampled))).foldl (· + ·) 0.0
    s!"t {ks} {vals.length} {unwords vals} {tokOfFloat samp}")
  let ss := skeys.map (fun ks =>
    let mem := sortStrings (dedupS (ms.flatMap (fun m => (m.sets.filter (fun e => e.1.1 ++ " " ++ e.1.2 == ks)).flatMap (·.2.members))))
    s!"s {ks} {mem.length} {unwords mem}")
  let all := sortStrings (cs ++ ts ++ ss)
  if all.isEmpty then "TOTALS -" else "TOTALS " ++ " , ".intercalate all

def runModel (line : String) : String :=
  match parseCase line with
  | none => "BAD_CASE"
  | some c =>
    if isFree c then
      -- C01_quiescent: whatever the interleaving, the flushed totals are the arrived totals
      let s := run floatOps (oracle c) c.n (init c.n) (c.items.flatMap (fun it => match it with | .arrive ds => [Action.arrive ds] | _ => []))
      totalsOf s.arrived
    else
    let (_, outs) := c.items.foldl (fun (acc : State Float × List String) it =>
      let s := acc.1
      let s' := run floatOps (oracle c) c.n s (actionsOf c it)
      match it with
      | .arrive _ => (s', acc.2)
      | .free _ _ => (s', acc.2)
      | .flush _ =>
        let newViews := s'.flushed.drop s.flushed.length
        let rendered := sortStrings (newViews.map (fun p => s!"{p.1}={renderMap (viewOf p.2)}"))
        (s', acc.2 ++ [" ; ".intercalate rendered])) (init c.n, [])
    if outs.isEmpty then "-" else " | ".intercalate outs

/-! specification on the implementation's views -/

def parseView (s : String) : Option (Nat × MM Float) :=
  match s.splitOn "=" with
  | [i, m] => do
    let i ← i.trimAscii.toString.toNat?
    let mm ← (if m.trimAscii.toString = "-" then some {} else parseMap (tokens m))
    pure (i, mm)
  | _ => none

def dedup (l : List String) : List String := l.foldl (fun acc x => if x ∈ acc then acc else acc ++ [x]) []

def keyStr (k : Key) : String := k.1 ++ " " ++ k.2

def spec (caseLine implLine : String) : String :=
  match parseCase caseLine with
  | none => "BAD_CASE"
  | some c =>
    if implLine.startsWith "PANIC" || implLine.startsWith "HANG" then s!"FAIL crashed-or-hung {implLine.take 80}" else
    if isFree c then
      -- expected totals computed from the datapoints directly (not through Receive/Merge)
      let dps := c.items.flatMap (fun it => match it with | .arrive ds => ds | _ => [])
      let singles := dps.map (fun d => MM.single floatOps d)
      if implLine = totalsOf singles then "ok"
      else "FAIL free-running totals over all flushes differ from what was sent (lost, duplicated or phantom data)"
    else
    let flushOps := if implLine = "-" then [] else implLine.splitOn " | "
    let nFlush := (c.items.filter (fun it => match it with | .flush _ => true | _ => false)).length
    if flushOps.length ≠ nFlush then s!"FAIL flush-count got {flushOps.length} flush outputs for {nFlush} flushes" else
    match flushOps.mapM (fun f => (f.splitOn " ; ").mapM parseView) with
    | none => "FAIL unparsable views"
    | some views =>
      -- (1) no series reported twice within one flush
      let dupFlush := views.find? (fun vs =>
        let ks := vs.flatMap (fun v => v.2.counters.map (fun e => "c " ++ keyStr e.1) ++ v.2.timers.map (fun e => "t " ++ keyStr e.1) ++
                                       v.2.gauges.map (fun e => "g " ++ keyStr e.1) ++ v.2.sets.map (fun e => "s " ++ keyStr e.1))
        (dedup ks).length ≠ ks.length)
      if dupFlush.isSome then "FAIL series-twice-in-one-flush" else
      -- all datapoints of the case
      let dps := c.items.flatMap (fun it => match it with | .arrive ds => ds | _ => [])
      let all := views.flatten.map (·.2)
      -- (2) nothing reported for a series never sent
      let sent (ty : MType) (k : Key) := dps.any (fun d => d.ty == ty && d.name == k.1 && d.tagsKey == k.2)
      let phantom := all.any (fun v => v.counters.any (fun e => !sent .counter e.1) || v.timers.any (fun e => !sent .timer e.1) ||
                                       v.gauges.any (fun e => !sent .gauge e.1) || v.sets.any (fun e => !sent .set e.1))
      if phantom then "FAIL phantom-series reported but never sent" else
      -- (2b) a series is reported to the backends under the tags and source its value carries: they must be the ones
      -- of a datapoint that was sent under the series' key (otherwise data appears under an identity never sent)
      let identOK (ty : MType) (k : Key) (src : String) (tags : List String) := dps.any (fun d =>
        d.ty == ty && d.name == k.1 && d.tagsKey == k.2 && d.src == src && sortStrings d.tags == sortStrings tags)
      let misId := all.any (fun v =>
        v.counters.any (fun e => !identOK .counter e.1 e.2.src e.2.tags) || v.timers.any (fun e => !identOK .timer e.1 e.2.src e.2.tags) ||
        v.gauges.any (fun e => !identOK .gauge e.1 e.2.src e.2.tags) || v.sets.any (fun e => !identOK .set e.1 e.2.src e.2.tags))
      if misId then "FAIL identity-mismatch a series is reported with tags or a source that no datapoint of that series carried" else
      -- (3) the quiescent ledger (the case ends with a flush of all shards)
      let endsQuiescent := match c.items.getLast? with | some (.flush none) => true | _ => false
      if !endsQuiescent then "ok" else
      let keysOf (ty : MType) := dedup ((dps.filter (·.ty == ty)).map (fun d => d.name ++ " " ++ d.tagsKey))
      let dpsOf (ty : MType) (ks : String) := dps.filter (fun d => d.ty == ty && d.name ++ " " ++ d.tagsKey == ks)
      let badC := (keysOf .counter).find? (fun ks =>
        let want := ((dpsOf .counter ks).map (fun d => floatOps.toCount d.value d.rate)).foldl (· + ·) 0
        let got := (all.flatMap (fun v => (v.counters.filter (fun e => keyStr e.1 == ks)).map (·.2.value))).foldl (· + ·) 0
        want ≠ got)
      let badT := (keysOf .timer).find? (fun ks =>
        let wantV := sortStrings ((dpsOf .timer ks).map (fun d => tokOfFloat d.value))
        let gotV := sortStrings (all.flatMap (fun v => (v.timers.filter (fun e => keyStr e.1 == ks)).flatMap (fun e => e.2.values.map tokOfFloat)))
        let wantS := ((dpsOf .timer ks).map (fun d => floatOps.invRate d.rate)).foldl (· + ·) 0.0
        let gotS := (all.flatMap (fun v => (v.timers.filter (fun e => keyStr e.1 == ks)).map (·.2.sampled))).foldl (· + ·) 0.0
        wantV ≠ gotV || tokOfFloat wantS ≠ tokOfFloat gotS)
      let badS := (keysOf .set).find? (fun ks =>
        let want := sortStrings (dedup ((dpsOf .set ks).map (·.sval)))
        let got := sortStrings (dedup (all.flatMap (fun v => (v.sets.filter (fun e => keyStr e.1 == ks)).flatMap (·.2.members))))
        want ≠ got)
      match badC, badT, badS with
      | some k, _, _ => s!"FAIL counter-total of {k} over all flushes differs from the sum of trunc(value/rate) sent"
      | _, some k, _ => s!"FAIL timer-values of {k} over all flushes are not the multiset / sampled count sent"
      | _, _, some k => s!"FAIL set-members of {k} over all flushes are not the members sent"
      | _, _, _ => "ok"

def main (args : List String) : IO UInt32 := do
  match args with
  | ["model"] => mapLines runModel; return 0
  | ["spec"] =>
    mapLines (fun l => match l.splitOn "\t" with
      | [c, i] => spec c i
      | _ => "BAD_LINE")
    return 0
  | _ => IO.eprintln "usage: gsdmodel C01 (model|spec)"; return 2

end Gsd.Driver.C01
