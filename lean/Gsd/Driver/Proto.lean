/-!
Line-protocol helpers for the model driver (core-only).
Strings travel as `x` + lower-case hex of their bytes (so the empty string is `x`), float64 as 16 hex
digits of the IEEE bits, integers in decimal.  Tokens are separated by single blanks; `;` and `|`
are separator tokens.
-/
namespace Gsd.Proto

def tokens (s : String) : List String := (s.splitOn " ").filter (· ≠ "")

/-- split a token list on a separator token -/
def splitBy (sep : String) (ts : List String) : List (List String) :=
  let rec go (cur : List String) (acc : List (List String)) : List String → List (List String)
    | [] => (cur.reverse :: acc).reverse
    | t :: rest => if t = sep then go [] (cur.reverse :: acc) rest else go (t :: cur) acc rest
  go [] [] ts

def sortStrings (l : List String) : List String := (l.toArray.qsort (· < ·)).toList

def unwords (l : List String) : String := " ".intercalate l

def hexDigit (c : Char) : Option Nat :=
  if '0' ≤ c ∧ c ≤ '9' then some (c.toNat - '0'.toNat)
  else if 'a' ≤ c ∧ c ≤ 'f' then some (c.toNat - 'a'.toNat + 10)
  else none

def hexToNat? (s : String) : Option Nat :=
  s.toList.foldl (fun acc c => match acc, hexDigit c with
    | some a, some d => some (a * 16 + d)
    | _, _ => none) (some 0)

/-- `xHEX` → bytes -/
def bytesOfTok (s : String) : Option (List UInt8) :=
  match s.toList with
  | 'x' :: rest =>
    let rec go : List Char → List UInt8 → Option (List UInt8)
      | [], acc => some acc.reverse
      | [_], _ => none
      | a :: b :: t, acc => match hexDigit a, hexDigit b with
        | some x, some y => go t (UInt8.ofNat (x * 16 + y) :: acc)
        | _, _ => none
    go rest []
  | _ => none

def hexChar (n : Nat) : Char := if n < 10 then Char.ofNat (48 + n) else Char.ofNat (87 + n)

def tokOfBytes (bs : List UInt8) : String :=
  String.ofList ('x' :: bs.flatMap (fun b => [hexChar (b.toNat / 16), hexChar (b.toNat % 16)]))

def floatOfTok (s : String) : Option Float :=
  if s.length ≠ 16 then none else (hexToNat? s).map (fun n => Float.ofBits (UInt64.ofNat n))

def tokOfFloat (f : Float) : String :=
  let n := f.toBits.toNat
  String.ofList ((List.range 16).map (fun i => hexChar ((n >>> (4 * (15 - i))) % 16)))

def intOfTok (s : String) : Option Int := s.toInt?
def natOfTok (s : String) : Option Nat := s.toNat?

/-- read stdin line by line, write `f line` per line -/
partial def mapLines (f : String → String) : IO Unit := do
  let stdin ← IO.getStdin
  let stdout ← IO.getStdout
  let rec loop : IO Unit := do
    let line ← stdin.getLine
    if line.isEmpty then return ()
    let l := (line.dropEndWhile (fun c => c == '\n' || c == '\r')).toString
    stdout.putStrLn (f l)
    loop
  loop
  stdout.flush

end Gsd.Proto
