import Gsd.Model.Lambda
import Gsd.Driver.Proto
/-!
Driver for C20.

Case (items separated by ` ; `):
  `cfg INIT`                                    INIT ok | fail (the statsd server exits inside the start-up window)
  `inv NDP OUTCOME LATMS PRE POST NB NA LATE`   one invocation: NDP datapoints acknowledged before the runtimeDone
        record; upstream OUTCOME ok|slow|fail1|fail with LATMS per attempt; the runtimeDone record sits in a batch
        after PRE and before POST other records; NB / NA batches without runtimeDone before the datapoints / after
        the runtimeDone batch; LATE datapoints sent after the following `/next` arrived and before it is answered;
        an optional tenth number MID: datapoints sent while this invocation's flush is being delivered upstream (no
        predicted log for such a case, see `early`).
  `early K`                                     (optional, after `cfg ok`) K datapoints are sent as soon as the extension has
        subscribed to telemetry, i.e. inside the start-up window; one that is acknowledged provably before the window
        can have ended is logged `E<id>`, a later one `A<id>`.  Which it is depends on timing, so the model makes no
        prediction for such a case (its line begins with `*`); the specification judges the real log.
  After the last invocation the runtime answers SHUTDOWN.

Log (harness output, and `model` output): one global sequence of
  `reg` `sub` `ierr` `xerr`      requests to the runtime API (register, telemetry subscription, init error, exit error)
  `N<k>`                         k-th `GET /event/next` arrived
  `R<k>i` `R<k>s`                it is answered INVOKE / SHUTDOWN
  `A<id>`                        datapoint `id` acknowledged (202) by the extension's ingestion endpoint
  `E<id>`                        … acknowledged before the start-up window can have ended (so before the initial flush)
  `D<k>`                         the telemetry batch carrying invocation k's runtimeDone record is being posted
  `U+<ids>`                      first upstream attempt of the body holding datapoints `ids` (comma separated) arrived
  `U-<ids>:<status>:<attempts>`  last upstream attempt of that body answered (`*` attempts when not determined)
  `!hang`                        the harness gave up waiting
-/
namespace Gsd.Driver.C20
open Gsd Gsd.Proto Gsd.Lambda

structure InvCase where
  ndp : Nat
  outcome : String
  lat : Nat
  pre : Nat
  post : Nat
  nb : Nat
  na : Nat
  late : Nat
  mid : Nat := 0

structure Case where
  initOk : Bool
  early : Nat := 0
  invs : List InvCase

def parseCase (line : String) : Option Case := do
  match splitBy ";" (tokens line) with
  | ["cfg", i] :: items =>
    let early := (items.filterMap (fun it => match it with | ["early", k] => k.toNat? | _ => none)).sum
    let items := items.filter (fun it => match it with | ["early", _] => false | _ => true)
    let invs ← (items.filter (· ≠ [])).mapM (fun it => match it with
      | ["inv", ndp, outcome, lat, pre, post, nb, na, late] => do
        pure { ndp := ← ndp.toNat?, outcome := outcome, lat := ← lat.toNat?, pre := ← pre.toNat?, post := ← post.toNat?,
               nb := ← nb.toNat?, na := ← na.toNat?, late := ← late.toNat? : InvCase }
      | ["inv", ndp, outcome, lat, pre, post, nb, na, late, mid] => do
        pure { ndp := ← ndp.toNat?, outcome := outcome, lat := ← lat.toNat?, pre := ← pre.toNat?, post := ← post.toNat?,
               nb := ← nb.toNat?, na := ← na.toNat?, late := ← late.toNat?, mid := ← mid.toNat? : InvCase }
      | _ => none)
    pure { initOk := i == "ok", early := early, invs := invs }
  | _ => none

def idsTok (ids : List Nat) : String := ",".intercalate (ids.map toString)

/-! ### model: the scripted history through `Gsd.Lambda.step` -/

structure Sim where
  st : St
  out : List String := []
  nextId : Nat := 1
  stuck : Option String := none

def Sim.act (m : Sim) (a : Act) (tok : Option String := none) : Sim :=
  if m.stuck.isSome then m else
  match step m.st a with
  | some s => if envOK s then { m with st := s, out := match tok with | some t => m.out ++ [t] | none => m.out }
              else { m with stuck := some s!"environment hypothesis violated at {repr a}" }
  | none => { m with stuck := some s!"{repr a} not enabled" }

def Sim.rep (m : Sim) (n : Nat) (a : Act) : Sim := (List.range n).foldl (fun m _ => m.act a) m

def Sim.accepts (m : Sim) (n : Nat) : Sim :=
  (List.range n).foldl (fun m _ => { (m.act (.accept m.nextId) (some s!"A{m.nextId}")) with nextId := m.nextId + 1 }) m

def statusOf (outcome : String) : String :=
  if outcome == "fail" then "503:*" else if outcome == "fail1" then "200:2" else "200:1"

/-- complete one flush `j` the way the forwarder does -/
def Sim.flush (m : Sim) (j : Nat) (outcome : String) : Sim :=
  match m.st.flushes[j]? with
  | none => { m with stuck := some s!"flush {j} missing" }
  | some f =>
    if f.body.isEmpty then (m.act (.skip j)).act (.notify j)
    else ((m.act (.postBegin j) (some s!"U+{idsTok f.body}")).act (.postEnd j) (some s!"U-{idsTok f.body}:{statusOf outcome}")).act (.notify j)

def simulate (c : Case) : Sim :=
  let m : Sim := { st := init codeCap }
  let m := (m.act .register (some "reg")).act .subscribe (some "sub")
  if !c.initOk then (m.act .serverFail).act .initError (some "ierr") else
  let m := ((m.act .windowElapsed).act .hbInitFlush).flush 0 "ok"
  let m := (m.act .hbWait).act .hbNext (some "N1")
  let m := c.invs.zipIdx.foldl (fun m (iv, i) =>
    let k := i + 1
    let m := m.act .rtInvoke (some s!"R{k}i")
    let m := m.rep iv.nb .otherRecord
    let m := m.accepts iv.ndp
    let m := m.rep iv.pre .otherRecord
    let m := m.act .rtDone (some s!"D{k}")
    let m := m.rep iv.post .otherRecord
    let m := m.act .teleFlush
    let m := m.flush k iv.outcome
    let m := m.rep iv.na .otherRecord
    let m := (m.act .hbWait).act .hbNext (some s!"N{k + 1}")
    m.accepts iv.late) m
  m.act .rtShutdown (some s!"R{c.invs.length + 1}s")

def runModel (line : String) : String :=
  match parseCase line with
  | none => "BAD_CASE"
  | some c =>
    let m := simulate c
    if c.early > 0 then "* the order of the start-up datapoints and the initial flush is left to timing" else
    if c.invs.any (fun iv => iv.mid > 0) then "* datapoints sent while a flush is being delivered: their order relative to the end of the delivery is left to timing" else
    match m.stuck with
    | some e => "MODEL_STUCK " ++ e
    | none => unwords m.out

/-! ### specification on the implementation's log -/

inductive Tok
  | reg | sub | ierr | xerr | hang
  | n (k : Nat)
  | r (k : Nat) (shutdown : Bool)
  | a (id : Nat)
  | e (id : Nat)
  | d (k : Nat)
  | up (ids : List Nat)
  | um (ids : List Nat) (status : String)
deriving BEq, Repr

def parseIds (s : String) : Option (List Nat) :=
  if s.isEmpty then some [] else (s.splitOn ",").mapM (·.toNat?)

def parseTok (t : String) : Option Tok :=
  if t == "reg" then some .reg else if t == "sub" then some .sub else if t == "ierr" then some .ierr
  else if t == "xerr" then some .xerr else if t == "!hang" then some .hang else
  match t.toList with
  | 'N' :: r => (String.ofList r).toNat?.map .n
  | 'R' :: r =>
    let body := String.ofList r
    if body.endsWith "i" then (body.dropEnd 1).toString.toNat?.map (.r · false)
    else if body.endsWith "s" then (body.dropEnd 1).toString.toNat?.map (.r · true)
    else none
  | 'A' :: r => (String.ofList r).toNat?.map .a
  | 'E' :: r => (String.ofList r).toNat?.map .e
  | 'D' :: r => (String.ofList r).toNat?.map .d
  | 'U' :: '+' :: r => (parseIds (String.ofList r)).map .up
  | 'U' :: '-' :: r =>
    match (String.ofList r).splitOn ":" with
    | ids :: rest => (parseIds ids).map (.um · (":".intercalate rest))
    | [] => none
  | _ => none

def sameSet (a b : List Nat) : Bool := a.all (b.contains ·) && b.all (a.contains ·)

/-- hidden actions available in a state -/
def taus (s : St) : List Act :=
  [.serverFail, .windowElapsed, .hbInitFlush, .hbWait, .teleFlush] ++
  (List.range s.flushes.length).flatMap (fun j => [.skip j, .notify j])

def insertNew (acc : List St) (s : St) : List St := if acc.contains s then acc else acc ++ [s]

/-- τ-closure by bounded breadth-first search (every hidden action moves a counter forward, so the closure is finite) -/
def closure (fuel : Nat) (front acc : List St) : List St :=
  match fuel with
  | 0 => acc
  | fuel + 1 =>
    let next := front.flatMap (fun s => (taus s).filterMap (fun a => match step s a with
      | some s' => if envOK s' then some s' else none
      | none => none))
    let fresh := next.foldl (fun (fr : List St) s => if acc.contains s || fr.contains s then fr else fr ++ [s]) []
    if fresh.isEmpty then acc else closure fuel fresh (acc ++ fresh)

def stepAll (ss : List St) (acts : St → List Act) : List St :=
  let next := ss.flatMap (fun s => (acts s).filterMap (fun a => match step s a with
    | some s' => if envOK s' then some s' else none
    | none => none))
  let next := next.foldl insertNew []
  closure 64 next next

/-- the model actions an observed token may stand for -/
def actsOf (t : Tok) (s : St) : List Act :=
  match t with
  | .reg => [.register]
  | .sub => [.subscribe]
  | .ierr => [.initError]
  | .n _ => [.hbNext]
  | .r _ false => [.rtInvoke]
  | .r _ true => [.rtShutdown]
  | .a id => [.accept id]
  | .e id => [.accept id]
  | .d _ => [.rtDone]
  | .up ids => (List.range s.flushes.length).filterMap (fun j => match s.flushes[j]? with
      | some f => if f.st == .created && sameSet f.body ids then some (.postBegin j) else none
      | none => none)
  | .um ids _ => (List.range s.flushes.length).filterMap (fun j => match s.flushes[j]? with
      | some f => if f.st == .posting && sameSet f.body ids then some (.postEnd j) else none
      | none => none)
  | .xerr | .hang => []

/-- trace inclusion: is the log the observable projection of a run of the model? -/
def traceCheck (log : List Tok) : Option String :=
  let s0 := init codeCap
  let start := closure 64 [s0] [s0]
  let rec go (i : Nat) (ss : List St) : List Tok → Option String
    | [] => none
    | .xerr :: rest => go (i + 1) ss rest
    | .hang :: rest => go (i + 1) ss rest
    | t :: rest =>
      let ss' := stepAll ss (actsOf t)
      if ss'.isEmpty then some s!"token {i} ({repr t}) is not enabled in any model state reachable on the log so far"
      else go (i + 1) ss' rest
  go 0 start log

def posOf (log : List Tok) (p : Tok → Bool) : Option Nat := log.findIdx? p

/-- the ordering predicate of the property, evaluated directly on the log -/
def orderCheck (c : Case) (log : List Tok) : Option String :=
  let n := c.invs.length
  if !c.initOk then
    if log.any (fun t => match t with | .n _ => true | _ => false) then some "next-after-init-failure a /next request was made although the server failed during start-up"
    else if !log.contains .ierr then some "init-error-missing the start-up failure was not reported to /init/error"
    else none
  else
  if log.contains .ierr then some "unexpected-init-error" else
  if log.contains .hang then some "hang the extension stopped making progress (no /next request within the deadline)" else
  -- every /next present and in order
  match (List.range (n + 1)).findSome? (fun i =>
      let k := i + 1
      match posOf log (· == .n k) with
      | none => some s!"next-missing /next number {k} was never requested"
      | some pn =>
        if k == 1 then
          (match posOf log (· == .reg) with
           | some pr =>
             if pr ≥ pn then some "next-before-register" else
             -- the initial flush: every datapoint accepted inside the start-up window is in a body whose last
             -- attempt was answered before the first /next (theorem C20_startup_data)
             let early := (log.take pn).filterMap (fun t => match t with | .e id => some id | _ => none)
             let attempted := (log.take pn).flatMap (fun t => match t with | .um ids _ => ids | _ => [])
             (match early.find? (fun id => !attempted.contains id) with
              | some id => some s!"initial-flush-missing the first /next was requested before datapoint {id}, accepted during start-up, had been through a delivery attempt"
              | none => none)
           | none => some "register-missing")
        else
          let j := k - 1   -- the invocation whose flush must be over
          match posOf log (· == .d j), posOf log (· == .r j false) with
          | some pd, some pr =>
            if pn < pr then some s!"next-before-flush /next {k} was requested before invocation {j} was even handed out" else
            if pn < pd then some s!"next-before-flush /next {k} was requested before invocation {j}'s runtimeDone (WaitForFlush skipped or stale notification)" else
            -- every datapoint acknowledged before D_j is in a body whose last attempt was answered before N_k
            let acked := (log.take pd).filterMap (fun t => match t with | .a id => some id | .e id => some id | _ => none)
            let attempted := (log.take pn).flatMap (fun t => match t with | .um ids _ => ids | _ => [])
            match acked.find? (fun id => !attempted.contains id) with
            | some id => some s!"next-before-flush /next {k} was requested before the delivery attempt of datapoint {id} (accepted before runtimeDone {j}) had completed"
            | none => none
          | _, _ => some s!"log-incomplete invocation {j}") with
  | some e => some e
  | none =>
    -- no datapoint in two bodies, no extra /next
    let all := log.flatMap (fun t => match t with | .up ids => ids | _ => [])
    if all.length ≠ all.eraseDups.length then some "datapoint-duplicated a datapoint was sent upstream in two different bodies"
    else if log.any (fun t => match t with | .n k => k > n + 1 | _ => false) then some "unexpected-next"
    else none

def spec (caseLine implLine : String) : String :=
  match parseCase caseLine with
  | none => "BAD_CASE"
  | some c =>
    if implLine.startsWith "PANIC" then "FAIL panic " ++ implLine else
    if implLine.startsWith "HANG" then "FAIL hang " ++ implLine else
    match (tokens implLine).mapM parseTok with
    | none => "FAIL unparsable-log " ++ implLine
    | some log =>
      match orderCheck c log with
      | some e => "FAIL " ++ e
      | none =>
        match traceCheck log with
        | some e => "FAIL trace-not-in-model " ++ e
        | none => "ok"

def main (args : List String) : IO UInt32 := do
  match args with
  | ["model"] => mapLines runModel; return 0
  | ["spec"] =>
    mapLines (fun l => match l.splitOn "\t" with
      | [c, i] => spec c i
      | _ => "BAD_LINE")
    return 0
  | _ => IO.eprintln "usage: gsdmodel C20 (model|spec)"; return 2

end Gsd.Driver.C20
