import Gsd.Model.Expiry
import Gsd.Generated.Facts
import Gsd.Driver.Proto
/-!
Driver for C09.  Case line:

    IC IT IG IS ; d TY KEY T NUM MEM ; D TY KEY T NUM MEM ; f T ; …

`IC IT IG IS` = expiry intervals (ns) of counters, timers, gauges, sets; `d`/`D` = a datapoint of type
`TY ∈ {c,t,g,s}` for series `KEY` stamped `T` (`D`: the harness puts it into the same `ReceiveMap`
batch as the previous one — no difference for the model); `NUM` = counter increment / number of
timer values / gauge value; `MEM` = `-` or comma-separated set members; `f T` = flush with the
aggregator clock at `T`.

Output: one view per flush, separated by ` | `; a view is `-` or its items, sorted, separated by
` ; `: `c KEY value ratezero`, `t KEY count haspct statszero`, `g KEY value`, `s KEY members`.
No flush at all: `.`.
-/
namespace Gsd.Driver.C09
open Gsd Gsd.Proto Gsd.Expiry

def tyOfTok : String → Option MType
  | "c" => some .counter | "t" => some .timer | "g" => some .gauge | "s" => some .set | _ => none

def tokOfTy : MType → String
  | .counter => "c" | .timer => "t" | .gauge => "g" | .set => "s"

def parseMem (s : String) : Option (List Nat) :=
  if s = "-" then some [] else (s.splitOn ",").mapM natOfTok

def parseOp : List String → Option Op
  | [dd, ty, k, t, n, m] =>
    if dd = "d" ∨ dd = "D" then do
      let ty ← tyOfTok ty
      let t ← intOfTok t
      let n ← intOfTok n
      let m ← parseMem m
      some (Op.dp ty k t { num := n, mem := m })
    else none
  | ["f", t] => do some (Op.flush (← intOfTok t))
  | _ => none

structure Case where
  cfg : Config
  ops : List Op

def parseCase (line : String) : Option Case := do
  match splitBy ";" (tokens line) with
  | [ic, it, ig, is] :: rest =>
    let ic ← intOfTok ic
    let it ← intOfTok it
    let ig ← intOfTok ig
    let is ← intOfTok is
    let ops ← (rest.filter (fun l => !l.isEmpty)).mapM parseOp
    some { cfg := fun ty => match ty with | .counter => ic | .timer => it | .gauge => ig | .set => is, ops := ops }
  | ["cfg", m, c, t, g, sS] :: rest =>
    -- start-up configuration: main interval and per-type overrides (`-` = not given); resolved as documented
    let opt (x : String) : Option (Option Int) := if x = "-" then some none else (intOfTok x).map some
    let m ← opt m
    let c ← opt c
    let t ← opt t
    let g ← opt g
    let sS ← opt sS
    let d : Int := Gsd.Facts.defaultExpiryIntervalNs
    let ops ← (rest.filter (fun l => !l.isEmpty)).mapM parseOp
    some { cfg := fun ty => match ty with
             | .counter => resolveInterval d m c | .timer => resolveInterval d m t
             | .gauge => resolveInterval d m g | .set => resolveInterval d m sS, ops := ops }
  | _ => none

def b01 (b : Bool) : String := if b then "1" else "0"

def sortNats (l : List Nat) : List Nat := (l.toArray.qsort (· < ·)).toList

def renderMem (l : List Nat) : String :=
  if l.isEmpty then "-" else ",".intercalate ((sortNats l).map toString)

def renderItem (ty : MType) (k : Key) (v : ViewVal) : String :=
  match ty with
  | .counter => s!"c {k} {v.num} {b01 (v.num == 0)}"
  | .timer   => s!"t {k} {v.num} {b01 v.pct} {b01 (v.num == 0)}"
  | .gauge   => s!"g {k} {v.num}"
  | .set     => s!"s {k} {renderMem v.mem}"

def allTypes : List MType := [.counter, .timer, .gauge, .set]

def renderView (v : View) : String :=
  let items := allTypes.flatMap (fun ty => (v ty).map (fun e => renderItem ty e.1 e.2))
  if items.isEmpty then "-" else " ; ".intercalate (sortStrings items)

def runModel (line : String) : String :=
  match parseCase line with
  | none => "BAD_CASE"
  | some c =>
    let vs := views c.cfg c.ops
    if vs.isEmpty then "." else " | ".intercalate (vs.map renderView)

/-! ### executable specification on the implementation's views -/

structure Item where
  ty : MType
  key : Key
  fields : List String

def parseItem (s : String) : Option Item :=
  match tokens s with
  | t :: k :: fs => (tyOfTok t).map (fun ty => { ty := ty, key := k, fields := fs })
  | _ => none

def parseView (s : String) : Option (List Item) :=
  if s.trimAscii.toString = "-" then some [] else (s.splitOn " ; ").mapM parseItem

/-- prefixes of the history before each flush, oldest flush first -/
def flushPrefixes (ops : List Op) : List (List Op) :=
  let rec go (pre : List Op) : List Op → List (List Op)
    | [] => []
    | .flush t :: rest => pre.reverse :: go (.flush t :: pre) rest
    | op :: rest => go (op :: pre) rest
  go [] ops

def seriesOf (ops : List Op) : List (MType × Key) :=
  ops.foldl (fun acc op => match op with
    | .dp ty k _ _ => if acc.contains (ty, k) then acc else acc ++ [(ty, k)]
    | .flush _ => acc) []

/-- values a gauge may show: those of its datapoints that carry its newest timestamp -/
def gaugeCandidates (k : Key) (h : List Op) : List Int :=
  match lastDp .gauge k h with
  | none => []
  | some (T, _, _) => h.filterMap (fun op => match op with
    | .dp .gauge k' t d => if k' = k ∧ t = T then some d.num else none
    | _ => none)

def checkView (cfg : Config) (univ : List (MType × Key)) (j : Nat) (pre : List Op) (items : List Item) : Option String :=
  let u := items.foldl (fun acc it => if acc.contains (it.ty, it.key) then acc else acc ++ [(it.ty, it.key)]) univ
  let dup := items.any (fun it => (items.filter (fun o => o.ty == it.ty && o.key == it.key)).length > 1)
  if dup then some s!"duplicate-series flush {j}" else
  u.foldl (fun (res : Option String) (s : MType × Key) =>
    match res with
    | some r => some r
    | none =>
      let (ty, k) := s
      let want := specReported (cfg ty) ty k pre
      match items.find? (fun it => it.ty == ty && it.key == k), want with
      | none, false => none
      | none, true => some s!"missing-series flush {j}: {tokOfTy ty} {k} must still be reported"
      | some _, false => some s!"reported-after-expiry flush {j}: {tokOfTy ty} {k} must not be reported"
      | some it, true =>
        if specPersisted ty k pre then
          match ty, it.fields with
          | .counter, [v, rz] => if v = "0" ∧ rz = "1" then none else some s!"persisted-value flush {j}: counter {k} reports {v} ratezero={rz}"
          | .timer, [c, p, sz] => if c = "0" ∧ p = "0" ∧ sz = "1" then none else some s!"persisted-value flush {j}: timer {k} reports count={c} pct={p} statszero={sz}"
          | .set, [m] => if m = "-" then none else some s!"persisted-value flush {j}: set {k} reports {m}"
          | .gauge, [v] =>
            if (gaugeCandidates k pre).any (fun c => toString c = v) then none
            else some s!"persisted-value flush {j}: gauge {k} reports {v}, not its last value"
          | _, _ => some s!"malformed-item flush {j}"
        else
          match ty, it.fields with
          | .gauge, [v] =>
            if (gaugeCandidates k pre).any (fun c => toString c = v) then none
            else some s!"gauge-value flush {j}: gauge {k} reports {v}, not its last value"
          | _, _ => none) none

def spec (caseLine implLine : String) : String :=
  match parseCase caseLine with
  | none => "BAD_CASE"
  | some c =>
    if implLine.startsWith "PANIC" then s!"FAIL panic {implLine}" else
    if implLine.startsWith "HANG" then "FAIL hang" else
    if implLine.startsWith "CRASH" then s!"FAIL crash {implLine}" else
    let pres := flushPrefixes c.ops
    let views := if implLine.trimAscii.toString = "." then [] else implLine.splitOn " | "
    if views.length ≠ pres.length then s!"FAIL view-count {views.length} views for {pres.length} flushes" else
    let univ := seriesOf c.ops
    let rec go (j : Nat) : List (List Op) → List String → String
      | pre :: ps, v :: vs =>
        match parseView v with
        | none => s!"FAIL malformed-view flush {j}"
        | some items =>
          match checkView c.cfg univ j pre items with
          | some r => "FAIL " ++ r
          | none => go (j + 1) ps vs
      | _, _ => "ok"
    go 0 pres views

def main (args : List String) : IO UInt32 := do
  match args with
  | ["model"] => mapLines runModel; return 0
  | ["spec"] =>
    mapLines (fun l => match l.splitOn "\t" with
      | [c, i] => spec c i
      | _ => "BAD_LINE")
    return 0
  | _ => IO.eprintln "usage: gsdmodel C09 (model|spec)"; return 2

end Gsd.Driver.C09
