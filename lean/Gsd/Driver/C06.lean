import Gsd.Model.Split
import Gsd.Driver.Proto
/-!
Driver for C06.  Case line:  `n ; c NAME TAGS H VAL ; g NAME TAGS H VAL ; …`
(`H` = what the real `gostatsd.Bucket(name, tagsKey, n)` answered — the routing oracle; `VAL` is an
opaque canonical token of the stored value).  Output: the `n` pieces separated by ` | `, each a
sorted `;`-separated list of `type NAME TAGS VAL` (or `-` when empty).
-/
namespace Gsd.Driver.C06
open Gsd Gsd.Proto

abbrev Key := String × String
abbrev M := MMap Key String String String String

structure Case where
  n : Nat
  m : M
  h : AList Key Nat     -- routing oracle

def parseCase (line : String) : Option Case := do
  let parts := splitBy ";" (tokens line)
  match parts with
  | [ntok] :: entries =>
    let n ← natOfTok ntok
    let mut c : Case := { n := n, m := {}, h := [] }
    for e in entries do
      match e with
      | [ty, name, tags, h, val] =>
        let hv ← natOfTok h
        let k : Key := (name, tags)
        let m := c.m
        let m' ← (match ty with
          | "c" => some { m with counters := m.counters ++ [(k, val)] }
          | "t" => some { m with timers := m.timers ++ [(k, val)] }
          | "g" => some { m with gauges := m.gauges ++ [(k, val)] }
          | "s" => some { m with sets := m.sets ++ [(k, val)] }
          | _ => none)
        c := { c with m := m', h := c.h ++ [(k, hv)] }
      | [] => pure ()
      | _ => none
    return c
  | _ => none

def renderPiece (p : M) : String :=
  let es := p.counters.map (fun e => s!"c {e.1.1} {e.1.2} {e.2}") ++
            p.timers.map (fun e => s!"t {e.1.1} {e.1.2} {e.2}") ++
            p.gauges.map (fun e => s!"g {e.1.1} {e.1.2} {e.2}") ++
            p.sets.map (fun e => s!"s {e.1.1} {e.1.2} {e.2}")
  if es.isEmpty then "-" else " ; ".intercalate (sortStrings es)

def oracle (c : Case) (k : Key) : Nat := (AList.lookup k c.h).getD 0

def entryStrings (p : M) : List String :=
  p.counters.map (fun e => s!"c {e.1.1} {e.1.2} {e.2}") ++ p.timers.map (fun e => s!"t {e.1.1} {e.1.2} {e.2}") ++
  p.gauges.map (fun e => s!"g {e.1.1} {e.1.2} {e.2}") ++ p.sets.map (fun e => s!"s {e.1.1} {e.1.2} {e.2}")

/-- the one-series batches of `m`, in the order of the case line (`order` = keys with type tags) -/
def singles (m : M) : List M :=
  m.counters.map (fun e => ({ counters := [e] } : M)) ++ m.timers.map (fun e => ({ timers := [e] } : M)) ++
  m.gauges.map (fun e => ({ gauges := [e] } : M)) ++ m.sets.map (fun e => ({ sets := [e] } : M))

def seriesCount (m : M) : Nat := m.counters.length + m.timers.length + m.gauges.length + m.sets.length

/-- what each worker is handed by `DispatchMetricMap` for the batch and then for every series alone -/
def dispatchOut (c : Case) : String :=
  if c.n > 16 || seriesCount c.m > 30 then "D -" else
  let sent := (c.m :: singles c.m).flatMap (fun b => MMap.dispatch (oracle c) c.n b)
  let perWorker := (List.range c.n).map (fun w =>
    let es := sortStrings ((sent.filter (fun p => p.1 == w)).flatMap (fun p => entryStrings p.2))
    if es.isEmpty then "-" else " ; ".intercalate es)
  "D " ++ " | ".intercalate perWorker

def runModel (line : String) : String :=
  match parseCase line with
  | none => "BAD_CASE"
  | some c => " | ".intercalate ((c.m.split (oracle c) c.n).map renderPiece) ++ " || " ++ dispatchOut c

/-- Executable specification evaluated on the *implementation's* output: every series of the batch is
in piece `h k` and only there, with its value; no piece holds anything else; `n` pieces. -/
def spec (caseLine implLine : String) : String :=
  match parseCase caseLine with
  | none => "BAD_CASE"
  | some c =>
    if implLine.startsWith "HANG" then "FAIL hang the dispatch of a batch did not return" else
    if implLine.startsWith "PANIC" || implLine.startsWith "CRASH" then "FAIL panic " ++ (implLine.take 160).toString else
    let halves := implLine.splitOn " || "
    let pieces := ((halves.headD "").splitOn " | ")
    let dpart := halves.getD 1 ""
    -- dispatch half: worker w must have been handed exactly the series routed to w (each twice:
    -- once in the batch, once alone), and nothing else
    let dispatchOk : Bool :=
      if dpart = "D -" then true else
      let ws := (dpart.drop 2).toString.splitOn " | "
      ws.length == c.n && (List.range c.n).all (fun w =>
        let pick (ty : String) (l : AList Key String) :=
          (l.filter (fun e => oracle c e.1 % c.n == w)).map (fun e => s!"{ty} {e.1.1} {e.1.2} {e.2}")
        let once := pick "c" c.m.counters ++ pick "t" c.m.timers ++ pick "g" c.m.gauges ++ pick "s" c.m.sets
        let want := sortStrings (once ++ once)
        ws[w]! == (if want.isEmpty then "-" else " ; ".intercalate want))
    -- dispatch under cancellation (third part, `X …`, not predicted by the model): which shards still get through is the
    -- runtime's choice, but whatever worker w is handed must be routed to w, at most once
    let xpart := halves.getD 2 ""
    let cancelledOk : Bool :=
      if !xpart.startsWith "X " then true else
      let ws := (xpart.drop 2).toString.splitOn " | "
      ws.length == c.n && (List.range c.n).all (fun w =>
        let pick (ty : String) (l : AList Key String) :=
          (l.filter (fun e => oracle c e.1 % c.n == w)).map (fun e => s!"{ty} {e.1.1} {e.1.2} {e.2}")
        let allowed := pick "c" c.m.counters ++ pick "t" c.m.timers ++ pick "g" c.m.gauges ++ pick "s" c.m.sets
        let got := if ws[w]! == "-" then [] else ws[w]!.splitOn " ; "
        got.all (fun e => allowed.contains e) && got.eraseDups.length == got.length)
    -- dispatch across a flush (`F …`, not predicted by the model): three batches before the flush, every series alone
    -- after it; worker w must have been handed exactly the series routed to w, four times each
    let fpart := (halves.find? (fun h => h.startsWith "F ")).getD "F -"
    let acrossFlushOk : Bool :=
      if fpart = "F -" then true else
      let ws := (fpart.drop 2).toString.splitOn " | "
      ws.length == c.n && (List.range c.n).all (fun w =>
        let pick (ty : String) (l : AList Key String) :=
          (l.filter (fun e => oracle c e.1 % c.n == w)).map (fun e => s!"{ty} {e.1.1} {e.1.2} {e.2}")
        let once := pick "c" c.m.counters ++ pick "t" c.m.timers ++ pick "g" c.m.gauges ++ pick "s" c.m.sets
        let want := sortStrings (once ++ once ++ once ++ once)
        ws[w]! == (if want.isEmpty then "-" else " ; ".intercalate want))
    if halves.any (fun h => h.startsWith "K ") then "FAIL key-not-a-function-of-identity the two ways of computing a series key from tags and source disagree, so one series can be routed to two shards" else
    if !dispatchOk then "FAIL dispatch a worker was handed a series that is not routed to it (or missed one)" else
    if !cancelledOk then "FAIL dispatch-cancelled while the dispatch was being cancelled a worker was handed a series that is not routed to it (or one twice)" else
    if !acrossFlushOk then "FAIL dispatch-after-flush after a flush that arrived while one worker was busy, a worker was handed a series that is not routed to it (or missed one)" else
    if pieces.length ≠ c.n then s!"FAIL piece-count {pieces.length} != {c.n}" else
    let expected (i : Nat) : List String :=
      let pick (ty : String) (l : AList Key String) :=
        (l.filter (fun e => oracle c e.1 % c.n == i)).map (fun e => s!"{ty} {e.1.1} {e.1.2} {e.2}")
      sortStrings (pick "c" c.m.counters ++ pick "t" c.m.timers ++ pick "g" c.m.gauges ++ pick "s" c.m.sets)
    let bad := (List.range c.n).filter (fun i =>
      let want := expected i
      let got := pieces[i]!
      got ≠ (if want.isEmpty then "-" else " ; ".intercalate want))
    match bad with
    | [] => "ok"
    | i :: _ => s!"FAIL piece {i} is not the set of series routed to it"

def main (args : List String) : IO UInt32 := do
  match args with
  | ["model"] => mapLines runModel; return 0
  | ["spec"] =>
    mapLines (fun l => match l.splitOn "\t" with
      | [c, i] => spec c i
      | _ => "BAD_LINE")
    return 0
  | _ => IO.eprintln "usage: gsdmodel C06 (model|spec)"; return 2

end Gsd.Driver.C06
