import Gsd.Model.Events
import Gsd.Driver.Proto
/-!
Driver for C19.

Case (items separated by ` ; `):
  `cfg MODE NB C SND CLOUD SYNC UP`      MODE sa|fw, NB backends, C max-concurrent-events, SND senders,
                                          CLOUD 0|1, SYNC free|sat|gate|late|gl, UP ok|r1 (forwarder: first attempt 503)
  `st TAG…`                               static tags
  `ih`                                    the parser runs with ignore-host (no effect on events: they keep every tag and the sender as source)
  `ip IP KIND ID TAG…`                    KIND hit|hitnil|miss|missnil : what the scripted CachedInstances does
  `ev ROUTE IP TITLE TEXT ATTR…`          ROUTE udp|http; ATTR = dN | hX | kX | pN | sX | tN | #X,X,… | o
Strings are `x`+hex.  Event index = position among the `ev` items.

Output of `model` (and of the harness):
  `B0 REC , REC … | B1 … // W ok // T ok`     (`none` instead of the B-part when NB = 0)
  REC = `IDX TITLE TEXT DATE KEY SRCTYPE PRIO ALERT SOURCE w1 TAG…` (tags sorted, DATE = `NOW` for the receive time,
  `w1` = the backend call finished before `WaitForEvents` returned).

`trace` sub-command: stdin `case<TAB>log` → `ok` | `FAIL …`: replays the harness's log of the real run
(`T+i T-i` top of the pipeline call/return, `H+i H-i` / `M+i M-i` call/return of the last stage's
`DispatchEvent` on the hit / parked path, `Si.b Fi.b` backend call/return, `Xi` failed upstream attempt,
`W+ W-` `WaitForEvents`) through `Gsd.Events.step`, hidden actions placed canonically: counters are
incremented as late and decremented as early as the log allows, which is complete for guards that are
upper bounds (semaphore ≤ capacity, wait groups = 0).
-/
namespace Gsd.Driver.C19
open Gsd Gsd.Proto Gsd.Events

structure Cfg where
  mode : String
  nb : Nat
  c : Nat
  snd : Nat
  cloud : Bool
  sync : String
  up : String

structure IpScript where
  ip : Bytes
  kind : String
  inst : Instance

structure EvCase where
  route : String
  ip : Bytes
  line : EventLine

structure Case where
  cfg : Cfg
  static : List Bytes
  ips : List IpScript
  evs : List EvCase

def parseAttr (tok : String) : Option Attr :=
  match tok.toList with
  | 'd' :: r => (String.ofList r).toNat?.map Attr.date
  | 'h' :: r => (bytesOfTok (String.ofList r)).map Attr.host
  | 'k' :: r => (bytesOfTok (String.ofList r)).map Attr.key
  | 's' :: r => (bytesOfTok (String.ofList r)).map Attr.srcType
  | 'p' :: r => (String.ofList r).toNat?.map Attr.prio
  | 't' :: r => (String.ofList r).toNat?.map Attr.alert
  | '#' :: r =>
    if r.isEmpty then some (.tags []) else
    (((String.ofList r).splitOn ",").mapM bytesOfTok).map Attr.tags
  | ['o'] => some .other
  | _ => none

def parseItem (c : Case) (toks : List String) : Option Case :=
  match toks with
  | [] => some c
  | ["ih"] => some c   -- the parser runs with ignore-host: that setting concerns metrics, an event keeps its tags and its sender
  | "st" :: tags => do
    let ts ← tags.mapM bytesOfTok
    pure { c with static := c.static ++ ts }
  | "ip" :: ip :: kind :: id :: tags => do
    let ipb ← bytesOfTok ip
    let idb ← bytesOfTok id
    let ts ← tags.mapM bytesOfTok
    pure { c with ips := c.ips ++ [{ ip := ipb, kind := kind, inst := ⟨idb, ts⟩ }] }
  | "ev" :: route :: ip :: title :: text :: attrs => do
    let ipb ← bytesOfTok ip
    let t ← bytesOfTok title
    let x ← bytesOfTok text
    let as ← attrs.mapM parseAttr
    pure { c with evs := c.evs ++ [{ route := route, ip := ipb, line := { title := t, text := x, attrs := as } }] }
  | _ => none

def parseCase (line : String) : Option Case := do
  match splitBy ";" (tokens line) with
  | ["cfg", mode, nb, c, snd, cloud, sync, up] :: items =>
    let nb ← nb.toNat?
    let cc ← c.toNat?
    let snd ← snd.toNat?
    let base : Case := { cfg := { mode := mode, nb := nb, c := cc, snd := snd, cloud := cloud == "1", sync := sync, up := up },
                         static := [], ips := [], evs := [] }
    items.foldlM parseItem base
  | _ => none

/-- what the scripted cache finally answers for a source -/
def resolve (c : Case) (ip : Bytes) : Option Instance :=
  if !c.cfg.cloud || ip.isEmpty then none else
  match c.ips.find? (fun s => s.ip == ip) with
  | some s => if s.kind == "hit" || s.kind == "miss" then some s.inst else none
  | none => none

/-- the protobuf message the harness posts for an `http` event (harness-side encoding, not code under test) -/
def pbOf (e : EvCase) : PBEvent :=
  e.line.attrs.foldl (fun m a => match a with
    | .date n => { m with date := n }
    | .key s => { m with key := s }
    | .srcType s => { m with srcType := s }
    | .prio p => { m with prio := p }
    | .alert a => { m with typ := a }
    | .tags ts => { m with tags := m.tags ++ ts }
    | _ => m) { title := e.line.title, text := e.line.text, hostname := e.ip }

/-- receive time placeholder (declared dates are ≥ 0) -/
def nowSentinel : Int := -1

def backendsOf (c : Case) : Nat := if c.cfg.mode == "fw" then 1 else c.cfg.nb

/-- the model: composition of the stage functions -/
def expected (c : Case) (e : EvCase) : Event :=
  let look := resolve c e.ip
  let ev := if e.route == "http" then pipelineHTTP c.static look (pbOf e)
            else pipelineUDP nowSentinel e.ip c.static look e.line
  if c.cfg.mode == "fw" then forwarded ev else ev

structure Rec where
  idx : String
  title : String
  text : String
  date : String
  key : String
  srcType : String
  prio : String
  alert : String
  source : String
  w : String
  tags : List String
deriving BEq

def renderDate (d : Int) : String := if d == nowSentinel then "NOW" else toString d

def recOf (idx : Nat) (ev : Event) : Rec :=
  { idx := toString idx, title := tokOfBytes ev.title, text := tokOfBytes ev.text, date := renderDate ev.date,
    key := tokOfBytes ev.key, srcType := tokOfBytes ev.srcType, prio := toString ev.prio, alert := toString ev.alert,
    source := tokOfBytes ev.source, w := "w1", tags := sortStrings (ev.tags.map tokOfBytes) }

def renderRec (r : Rec) : String :=
  unwords ([r.idx, r.title, r.text, r.date, r.key, r.srcType, r.prio, r.alert, r.source, r.w] ++ r.tags)

def renderBackends (nb : Nat) (recs : Nat → List Rec) : String :=
  if nb = 0 then "none" else
  " | ".intercalate ((List.range nb).map (fun b =>
    let rs := recs b
    s!"B{b} " ++ (if rs.isEmpty then "-" else " , ".intercalate (rs.map renderRec))))

def runModel (line : String) : String :=
  match parseCase line with
  | none => "BAD_CASE"
  | some c =>
    let recs := c.evs.zipIdx.map (fun (e, i) => recOf i (expected c e))
    renderBackends (backendsOf c) (fun _ => recs) ++ " // W ok // T ok"

/-! ### specification evaluated on the implementation's output -/

def parseRec (toks : List String) : Option Rec :=
  match toks with
  | idx :: title :: text :: date :: key :: srcType :: prio :: alert :: source :: w :: tags =>
    some { idx, title, text, date, key, srcType, prio, alert, source, w, tags }
  | _ => none

/-- `B0 rec , rec | B1 …` → per backend the records -/
def parseBackends (s : String) : Option (List (List Rec)) :=
  if s == "none" then some [] else
  (s.splitOn " | ").mapM (fun part =>
    match tokens part with
    | _ :: ["-"] => some []
    | _ :: rest => (splitBy "," rest).mapM parseRec
    | [] => none)

def dedupStrings (l : List String) : List String :=
  l.foldl (fun acc x => if acc.contains x then acc else acc ++ [x]) []

/-- the property's expectation for one event, written with the declarative vocabulary of `C19_fields`
(last declared field from the right, set of tags), not with the stage functions -/
def specRec (c : Case) (idx : Nat) (e : EvCase) : Rec :=
  let look := resolve c e.ip
  let lookTags := match look with | some i => i.tags | none => []
  let source := match look with | some i => i.id | none => e.ip
  if e.route == "http" then
    let m := pbOf e
    { idx := toString idx, title := tokOfBytes m.title, text := tokOfBytes m.text, date := toString m.date,
      key := tokOfBytes m.key, srcType := tokOfBytes m.srcType,
      prio := if m.prio == 1 then "1" else "0",
      alert := if m.typ == 1 || m.typ == 2 || m.typ == 3 then toString m.typ else "0",
      source := tokOfBytes source, w := "w1",
      tags := sortStrings (dedupStrings ((m.tags ++ lookTags ++ c.static).map tokOfBytes)) }
  else
    let as := e.line.attrs
    { idx := toString idx, title := tokOfBytes e.line.title, text := tokOfBytes e.line.text,
      date := (match lastOf dateOf as with
               | some d => if d == 0 then "NOW" else toString d
               | none => "NOW"),
      key := tokOfBytes ((lastOf keyOf as).getD []), srcType := tokOfBytes ((lastOf srcTypeOf as).getD []),
      prio := if as.contains (Attr.prio 1) then "1" else "0",
      alert := toString ((lastOf alertOf as).getD 0),
      source := tokOfBytes source, w := "w1",
      tags := sortStrings (dedupStrings ((lineTags as ++ lookTags ++ c.static).map tokOfBytes)) }

def firstDiff (want got : Rec) : String :=
  if want.title != got.title then "title" else
  if want.text != got.text then "text" else
  if want.date != got.date then "time" else
  if want.key != got.key then "aggregation-key" else
  if want.srcType != got.srcType then "source-type" else
  if want.prio != got.prio then "priority" else
  if want.alert != got.alert then "alert-type" else
  if want.source != got.source then "source" else
  if want.tags != got.tags then "tags" else
  if want.w != got.w then "wait" else ""

def checkBackend (c : Case) (b : Nat) (recs : List Rec) : Option String :=
  -- unexpected records first
  match recs.find? (fun r => r.idx.toNat?.isNone || (r.idx.toNat?.getD 0) ≥ c.evs.length) with
  | some r => some s!"FAIL unexpected-event backend {b} got {renderRec r}"
  | none =>
    (c.evs.zipIdx.findSome? (fun (e, i) =>
      let mine := recs.filter (fun r => r.idx == toString i)
      match mine with
      | [] =>
        if c.cfg.mode == "fw" && e.route == "http" then some s!"FAIL event-lost-forwarder-http event {i} never reached the upstream server"
        else some s!"FAIL event-lost event {i} backend {b}"
      | [r] =>
        let want := specRec c i e
        let d := firstDiff want r
        if d == "" then none
        else if d == "wait" then some s!"FAIL wait-early WaitForEvents returned before event {i} was handed to backend {b}"
        else some s!"FAIL field-mismatch {d} event {i} backend {b} want {renderRec want} got {renderRec r}"
      | _ => some s!"FAIL event-duplicated event {i} backend {b} {mine.length} times"))

def spec (caseLine implLine : String) : String :=
  match parseCase caseLine with
  | none => "BAD_CASE"
  | some c =>
    if implLine.startsWith "PANIC" then "FAIL panic " ++ implLine else
    if implLine.startsWith "HANG" then "FAIL hang " ++ implLine else
    match implLine.splitOn " // " with
    | [bpart, wpart, tpart] =>
      match parseBackends bpart with
      | none => "FAIL unparsable-output"
      | some bs =>
        let nb := backendsOf c
        if bs.length ≠ nb then s!"FAIL backend-count {bs.length} != {nb}" else
        match (bs.zipIdx.findSome? (fun (recs, b) => checkBackend c b recs)) with
        | some f => f
        | none =>
          if wpart != "W ok" then "FAIL wait-" ++ (wpart.drop 2).toString else
          if tpart != "T ok" then "FAIL trace-not-in-model " ++ tpart else "ok"
    | _ => "FAIL unparsable-output"

/-! ### trace replay through `Gsd.Events.step` -/

inductive Tok
  | tp (i : Nat) | tm (i : Nat)            -- T+ T-
  | hp (i : Nat) | hm (i : Nat)            -- H+ H-   last stage's DispatchEvent on the caller's goroutine
  | mp (i : Nat) | mm (i : Nat)            -- M+ M-   … from the cloud stage after a lookup
  | s (i b : Nat) | f (i b : Nat)          -- backend call / return
  | x (i : Nat)
  | wp | wm
deriving BEq, Repr

def parsePair (s : String) : Option (Nat × Nat) :=
  match s.splitOn "." with
  | [a, b] => do pure (← a.toNat?, ← b.toNat?)
  | _ => none

def parseTok (t : String) : Option Tok :=
  if t == "W+" then some .wp else if t == "W-" then some .wm else
  match t.toList with
  | 'T' :: '+' :: r => (String.ofList r).toNat?.map .tp
  | 'T' :: '-' :: r => (String.ofList r).toNat?.map .tm
  | 'H' :: '+' :: r => (String.ofList r).toNat?.map .hp
  | 'H' :: '-' :: r => (String.ofList r).toNat?.map .hm
  | 'M' :: '+' :: r => (String.ofList r).toNat?.map .mp
  | 'M' :: '-' :: r => (String.ofList r).toNat?.map .mm
  | 'S' :: r => (parsePair (String.ofList r)).map (fun p => .s p.1 p.2)
  | 'F' :: r => (parsePair (String.ofList r)).map (fun p => .f p.1 p.2)
  | 'X' :: r => (String.ofList r).toNat?.map .x
  | _ => none

/-- replay state: model state, harness-index → model-index, events whose entry into the last stage has been
seen but not yet replayed (`true` = parked path), whether `W+` was seen -/
structure RS where
  st : St
  idx : List (Nat × Nat) := []
  pend : List (Nat × Bool) := []
  waiting : Bool := false

def RS.find (r : RS) (i : Nat) : Option Nat := (r.idx.find? (·.1 == i)).map (·.2)

def act (r : RS) (a : Act) (what : String) : Except String RS :=
  match step r.st a with
  | some s => .ok { r with st := s }
  | none => .error s!"model action {repr a} not enabled at {what}"

def arrive (r : RS) (i : Nat) (miss : Bool) (what : String) : Except String RS := do
  let n := r.st.evs.length
  let r ← act r (if miss then .arriveMiss else .arriveHit) what
  pure { r with idx := r.idx ++ [(i, n)] }

/-- make sure event `i` has entered the last stage's `DispatchEvent` (wait group incremented) -/
def enter (r : RS) (i : Nat) (what : String) : Except String RS := do
  match r.pend.find? (·.1 == i) with
  | none => pure r
  | some (_, miss) =>
    let r := { r with pend := r.pend.filter (·.1 != i) }
    if miss then
      match r.find i with
      | some e => act r (.ev e .lookup) what
      | none => .error s!"parked event {i} unknown at {what}"
    else arrive r i false what

/-- acquire tokens for backends `cursor … upto-1` of model event `e` -/
def acquireUpTo (r : RS) (e upto : Nat) (what : String) : Except String RS := do
  let mut r := r
  for _ in List.range upto do
    match r.st.evs[e]? with
    | some ev => if ev.cursor < upto ∧ ev.stage == .dispatching then r ← act r (.ev e .acquire) what
    | none => pure ()
  pure r

def tryWaits (r : RS) : RS :=
  if !r.waiting then r else
  let r := match step r.st .waitCloud with
    | some s => { r with st := s }
    | none => r
  match step r.st .waitBackend with
  | some s => { r with st := s }
  | none => r

def hasS (log : List Tok) (i b : Nat) : Bool := log.contains (.s i b)

def leave (r : RS) (log : List Tok) (i : Nat) (parkedPath : Bool) (what : String) : Except String RS := do
  let r ← enter r i what
  match r.find i with
  | none => .error s!"event {i} unknown at {what}"
  | some e =>
    let r ← acquireUpTo r e r.st.nb what
    let r ← act r (.ev e .ret) what
    let r ← if parkedPath then act r (.ev e .cloudDone) what else pure r
    -- un-detached delivery context: goroutines that never reach the backend are aborted (eager decrement)
    let mut r := r
    if !r.st.det then
      for b in List.range r.st.nb do
        if !hasS log i b then r ← act r (.ev e (.abort b)) what
    pure r

def stepTok (log : List Tok) (r : RS) (t : Tok) : Except String RS := do
  let what := repr t |>.pretty
  let r ← (match t with
    | .tp _ => pure r
    | .x _ => pure r
    | .tm i =>
      -- back from the top of the pipeline without having entered the last stage: the event is parked
      if (r.find i).isSome || (r.pend.find? (·.1 == i)).isSome then pure r else arrive r i true what
    | .hp i => pure { r with pend := r.pend ++ [(i, false)] }
    | .mp i => do
      let r ← (if (r.find i).isSome then pure r else arrive r i true what)
      pure { r with pend := r.pend ++ [(i, true)] }
    | .hm i => leave r log i false what
    | .mm i => leave r log i true what
    | .s i b => do
      let r ← enter r i what
      match r.find i with
      | none => .error s!"backend call for unknown event at {what}"
      | some e =>
        let r ← acquireUpTo r e (b + 1) what
        act r (.ev e (.start b)) what
    | .f i b =>
      match r.find i with
      | none => .error s!"backend return for unknown event at {what}"
      | some e => do
        let r ← act r (.ev e (.finish b)) what
        let r ← act r (.ev e (.release b)) what
        act r (.ev e (.done b)) what
    | .wp => pure { r with waiting := true }
    | .wm => do
      let r := tryWaits r
      if r.st.waiter == .returned then pure r
      else .error s!"WaitForEvents returned while the model's wait groups are eventWg={r.st.wg} cloudWg={r.st.cwg}")
  pure (tryWaits r)

def detOf (c : Case) : Bool := if c.cfg.mode == "fw" then forwarderDetached else backendHandlerDetached

def trace (caseLine logLine : String) : String :=
  match parseCase caseLine with
  | none => "BAD_CASE"
  | some c =>
    match (tokens logLine).mapM parseTok with
    | none => "FAIL unparsable-log"
    | some log =>
      let nb := backendsOf c
      let cap := if c.cfg.mode == "fw" then 1000000 else c.cfg.c
      let r0 : RS := { st := init nb cap (detOf c) }
      match log.foldlM (stepTok log) r0 with
      | .error e => "FAIL " ++ e
      | .ok r =>
        -- every pair the model says was delivered appears once (the log is the model's delivery history)
        if r.st.dl.length ≠ (log.filter (fun t => match t with | .s _ _ => true | _ => false)).length then "FAIL delivery-history"
        else "ok"

def main (args : List String) : IO UInt32 := do
  match args with
  | ["model"] => mapLines runModel; return 0
  | ["spec"] =>
    mapLines (fun l => match l.splitOn "\t" with
      | [c, i] => spec c i
      | _ => "BAD_LINE")
    return 0
  | ["trace"] =>
    mapLines (fun l => match l.splitOn "\t" with
      | [c, i] => trace c i
      | _ => "BAD_LINE")
    return 0
  | _ => IO.eprintln "usage: gsdmodel C19 (model|spec|trace)"; return 2

end Gsd.Driver.C19
