import Gsd.Driver.AggCommon
/-!
Driver for C08.  Case line: `HEAD ; item ; item ; …` (HEAD: see `AggCommon`), items for the one series:
  `d VAL RATE`  a timer datapoint is received into the current batch (`MetricMap.Receive`)
  `m`           the current batch (if any) is handed to `ReceiveMap`
  `r`           like `m`, then `Flush` + `Reset` (the series is now a persisted empty timer)
At the end of the line the current batch is handed over, `Flush(I)` runs and the series is read
through `Process`.  Output: `absent` | `PANIC flush` | the rendered timer (`AggCommon.renderTimer`).
-/
namespace Gsd.Driver.C08
open Gsd Gsd.Proto Gsd.Driver.AggSt

inductive Item
  | dp (v r : Float)
  | m
  | r

structure Case where
  head : Head
  items : List Item

def parseItem : List String → Option Item
  | ["d", v, r] => do pure (.dp (← floatOfTok v) (← floatOfTok r))
  | ["m"] => some .m
  | ["r"] => some .r
  | _ => none

def parseCase (line : String) : Option Case := do
  match splitBy ";" (tokens line) with
  | h :: items =>
    let head ← parseHead h
    let its ← (items.filter (fun i => !i.isEmpty)).mapM parseItem
    pure { head := head, items := its }
  | [] => none

/-- the history as model operations: batches of (values, rates) with the flush/reset points -/
def toOps (c : Case) : List (Op Float) :=
  let secs := c.head.secs
  let hand (vals rates : List Float) : List (Op Float) :=
    if vals.isEmpty then [] else [Op.merge [("t", c.head.tags, vals.reverse, batchSampled rates.reverse)]]
  let rec go (vals rates : List Float) : List Item → List (Op Float)
    | [] => hand vals rates
    | .dp v r :: rest => go (v :: vals) (r :: rates) rest
    | .m :: rest => hand vals rates ++ go [] [] rest
    | .r :: rest => hand vals rates ++ [Op.flush secs []] ++ go [] [] rest
  go [] [] c.items

def runModel (line : String) : String :=
  match parseCase line with
  | none => "BAD_CASE"
  | some c =>
    if !c.head.oracleComplete then "ORACLE_MISS" else
    match AggSt.runWith Switch.d4Fixed c.head.parse c.head.cfg [] (toOps c) with
    | .panic _ => "PANIC flush"
    | .ok (s, _) =>
      match AggSt.flushWith Switch.d4Fixed c.head.parse c.head.cfg c.head.secs s with
      | .panic _ => "PANIC flush"
      | .ok view =>
        match AList.lookup "t" view with
        | none => "absent"
        | some t => renderTimer t

/-! ## the property's executable specification, evaluated on the implementation's output

Independent of the model's method: values are sorted with `Array.qsort`, partial sums are taken
directly over `take k` / `drop (n-k)`.  Order-sensitive quantities (sums, means, deviation) are checked
exactly only where double arithmetic is exact (integer-valued inputs; the deviation only when the mean
is an integer as well), see DESIGN 4.2; everything else is checked on every case. -/

structure Obs where
  count : Int
  f : String → Option Float
  pct : List (String × Float)
  hist : Option (List (String × Nat))    -- none = nil

def parseObs (line : String) : Option Obs := do
  let toks := tokens line
  let count ← intOfTok (← kv toks "count")
  let fl := fun k => (kv toks k).bind floatOfTok
  let pctS ← kv toks "pct"
  let inner := ((pctS.drop 1).dropEnd 1).toString
  let pct ← (listOf inner).mapM (fun e => match e.splitOn ":" with
    | [n, v] => do pure (n, ← floatOfTok v)
    | _ => none)
  let histS ← kv toks "hist"
  let hist ← (if histS = "nil" then pure none else do
    let inner := ((histS.drop 1).dropEnd 1).toString
    let es ← (listOf inner).mapM (fun e => match e.splitOn ":" with
      | [b, c] => do pure (b, ← natOfTok c)
      | _ => none)
    pure (some es))
  pure { count := count, f := fl, pct := pct, hist := hist }

def sortFloats (l : List Float) : List Float := (l.toArray.qsort (· < ·)).toList

def sumR (l : List Float) : Float := l.foldr (· + ·) 0

def isIntVal (x : Float) : Bool := x.floor == x && x.abs ≤ 1048576.0

def fbits (x : Float) : String := tokOfFloat x
/-- bit equality, with `-0` identified with `+0` (sums of the same integers may differ in the sign of zero) -/
def same (a b : Float) : Bool := fbits (a + 0.0) == fbits (b + 0.0) || fbits a == fbits b

def dedup (l : List Int) : List Int := l.foldl (fun acc p => if acc.contains p then acc else acc ++ [p]) []

/-- what is in the aggregate when the final flush runs: values, per-batch sampled counts (arrival order),
and whether the series exists -/
def current (c : Case) : Bool × List Float × List Float :=
  let close (vals rates : List Float) (acc : Bool × List Float × List Float) : Bool × List Float × List Float :=
    if vals.isEmpty then acc else (true, acc.2.1 ++ vals.reverse, acc.2.2 ++ [batchSampled rates.reverse])
  let rec go (vals rates : List Float) (acc : Bool × List Float × List Float) : List Item → Bool × List Float × List Float
    | [] => close vals rates acc
    | .dp v r :: rest => go (v :: vals) (r :: rates) acc rest
    | .m :: rest => go [] [] (close vals rates acc) rest
    | .r :: rest =>
      let a := close vals rates acc
      go [] [] (a.1, [], []) rest
  go [] [] (false, [], []) c.items

def expectField (o : Obs) (name : String) (want : Float) : Option String :=
  match o.f name with
  | none => some s!"field-missing {name}"
  | some got => if same got want then none else some s!"{name} got {fbits got} want {fbits want}"

def firstSome (l : List (Option String)) : Option String := l.findSome? id

def specTimer (c : Case) (o : Obs) : Option String :=
  let (_, vals, batches) := current c
  let secs := c.head.secs
  let n := vals.length
  let sc : Float := match batches with | [] => 0 | b :: rest => rest.foldl (· + ·) b
  let zeroStats (names : List String) := firstSome (names.map (fun k => expectField o k 0))
  if hasHistogramTag c.head.tags then
    -- bucket counts, none of the summary statistics
    let wantHist : Option (List String) :=
      if c.head.cfg.limit = 0 then some [] else
      match findTag histPrefix c.head.tags with
      | none => none
      | some tag =>
        let items := splitOn histSep (tag.drop histPrefix.length)
        let parsed := (items.filterMap c.head.parse).take c.head.cfg.limit
        let bounds := parsed.foldl (fun acc b => if b.isInf && b > 0 then acc else if acc.any (· == b) then acc else acc ++ [b]) []
        some (sortStrings (("7ff0000000000000:" ++ toString n) ::
          bounds.map (fun b => fbits (b + 0.0) ++ ":" ++ toString (vals.countP (· ≤ b)))))
    let gotHist := o.hist.map (fun h => sortStrings (h.map (fun e =>
      (match floatOfTok e.1 with | some b => fbits (b + 0.0) | none => e.1) ++ ":" ++ toString e.2)))
    firstSome [
      (if gotHist == wantHist then none else some s!"hist got {gotHist} want {wantHist}"),
      (if o.count = 0 then none else some "hist-stats count"),
      (if o.pct.isEmpty then none else some "hist-stats percentiles"),
      zeroStats ["ps", "mean", "median", "min", "max", "std", "sum", "sumsq"],
      expectField o "sc" sc ]
  else if n = 0 then
    firstSome [
      (if o.count = 0 then none else some "idle count"),
      (if o.pct.isEmpty then none else some "idle percentiles"),
      (if o.hist.isNone then none else some "idle hist"),
      zeroStats ["sc", "ps", "mean", "median", "min", "max", "std", "sum", "sumsq"] ]
  else
    let sorted := sortFloats vals
    let nF := Float.ofNat n
    let intSafe := vals.all isIntVal
    let total := sumR sorted
    let mean := total / nF
    let medianW := if n % 2 = 0 then (sorted[n / 2 - 1]! + sorted[n / 2]!) / 2 else sorted[n / 2]!
    let basic := [
      (if o.hist.isNone then none else some "hist on a plain timer"),
      expectField o "min" sorted[0]!,
      expectField o "max" sorted[n - 1]!,
      expectField o "median" medianW,
      expectField o "sc" sc,
      expectField o "ps" (sc / secs),
      (if o.count = (Float.floor (sc + 0.5)).toInt64.toInt then none else some s!"count got {o.count}") ]
    let exact := if intSafe then [
      expectField o "sum" total,
      expectField o "sumsq" (sumR (sorted.map (fun x => x * x))),
      expectField o "mean" mean,
      (if mean.floor == mean then
        expectField o "std" (Float.sqrt (sumR (sorted.map (fun x => (x - mean) * (x - mean))) / nF))
       else none) ] else []
    -- the population standard deviation, for arbitrary (not only integer-valued) data: a reference computed on
    -- offsets from the first value (no cancellation when the data are clustered), and an error budget that
    -- covers every correctly rounded two-pass evaluation: |sd − ref| ≤ 64·n·2⁻⁵²·(ref + max|x|)
    let x0 := sorted[0]!
    let ds := sorted.map (fun x => x - x0)
    let md := sumR ds / nF
    let varRef := sumR (ds.map (fun d => (d - md) * (d - md))) / nF
    let sdRef := Float.sqrt varRef
    let maxAbs := sorted.foldl (fun a x => if Float.abs x > a then Float.abs x else a) 0
    let budget := 64 * nF * 2.220446049250313e-16 * (sdRef + maxAbs)
    let sdGot := o.f "std"
    let accurate : List (Option String) := [
      match sdGot with
      | some g => if Float.abs (g - sdRef) ≤ budget then none
                  else some s!"stddev-inaccurate got {g} want {sdRef} (budget {budget})"
      | none => none ]
    -- percentiles: the expected table
    let m := c.head.cfg.mask
    let perP (p : Int) : List (String × Option Float) :=
      let k : Nat := if n ≤ 1 then n else (Float.floor (Float.abs (Float.ofInt p) / 100 * nF + 0.5)).toInt64.toInt.toNat
      if k = 0 then [] else
      let part := if p > 0 then sorted.take k else sorted.drop (n - k)
      let s := sumR part
      let s2 := sumR (part.map (fun x => x * x))
      let ps := toString p
      let opt (x : Float) : Option Float := if intSafe then some x else none
      (if !m.countPct then [("count_" ++ ps, some (Float.ofNat k))] else []) ++
      (if !m.meanPct then [("mean_" ++ ps, opt (s / Float.ofNat k))] else []) ++
      (if !m.sumPct then [("sum_" ++ ps, opt s)] else []) ++
      (if !m.sumSquaresPct then [("sum_squares_" ++ ps, opt s2)] else []) ++
      (if p > 0 then (if !m.upperPct then [("upper_" ++ ps, some (sorted[k - 1]!))] else [])
       else (if !m.lowerPct then [("lower_" ++ ps, some (sorted[n - k]!))] else []))
    let want := (dedup c.head.cfg.pcts).flatMap perP
    let wantNames := sortStrings (want.map (·.1))
    let gotNames := sortStrings (o.pct.map (·.1))
    let pctChecks :=
      (if gotNames == wantNames then none else some s!"percentile-names got {gotNames} want {wantNames}") ::
      want.map (fun w => match w.2 with
        | none => none
        | some x => match o.pct.find? (fun e => e.1 == w.1) with
          | none => none
          | some e => if same e.2 x then none else some s!"{w.1} got {fbits e.2} want {fbits x}")
    firstSome (basic ++ exact ++ accurate ++ pctChecks)

def spec (caseLine implLine : String) : String :=
  match parseCase caseLine with
  | none => "BAD_CASE"
  | some c =>
    if implLine.startsWith "PANIC" then "FAIL flush-panic the flush crashed" else
    let (ex, _, _) := current c
    if implLine = "absent" then (if ex then "FAIL series-missing" else "ok") else
    if !ex then "FAIL series-invented" else
    match parseObs implLine with
    | none => "FAIL unparsable " ++ implLine
    | some o => match specTimer c o with
      | none => "ok"
      | some why => "FAIL stat " ++ why

def main (args : List String) : IO UInt32 := do
  match args with
  | ["model"] => mapLines runModel; return 0
  | ["spec"] =>
    mapLines (fun l => match l.splitOn "\t" with
      | [c, i] => spec c i
      | _ => "BAD_LINE")
    return 0
  | _ => IO.eprintln "usage: gsdmodel C08 (model|spec)"; return 2

end Gsd.Driver.C08
