import Gsd.Model.MetricMap
import Gsd.Driver.Proto
/-!
Token codec for metric maps and datapoints over `Float` (shared by the drivers of C01, C07, …).

entry  := `c NAME TKEY value ts SRC n TAG*n`
        | `g NAME TKEY valuebits ts SRC n TAG*n`
        | `t NAME TKEY nv VALbits*nv sampledbits ts SRC n TAG*n`
        | `s NAME TKEY nm MEM*nm ts SRC n TAG*n`
dp     := `TY NAME TKEY valuebits ratebits SVAL ts SRC n TAG*n`   (TY ∈ c t g s)
Strings stay as their `x…` hex tokens inside the model (an injective encoding), so sorting by token
equals sorting by bytes.
-/
namespace Gsd.Driver
open Gsd Gsd.Proto

abbrev P := StateT (List String) Option

def tok : P String := do
  match (← get) with
  | [] => failure
  | t :: rest => set rest; pure t

def pNat : P Nat := do let t ← tok; match t.toNat? with | some n => pure n | none => failure
def pInt : P Int := do let t ← tok; match t.toInt? with | some n => pure n | none => failure
def pFloat : P Float := do let t ← tok; match floatOfTok t with | some f => pure f | none => failure
def pMany {β} (n : Nat) (p : P β) : P (List β) := do
  let mut acc := []
  for _ in [0:n] do
    acc := (← p) :: acc
  pure acc.reverse
def pList {β} (p : P β) : P (List β) := do let n ← pNat; pMany n p
def pEnd : P Unit := do match (← get) with | [] => pure () | _ => failure

def floatOps : NumOps Float where
  toCount v r := (v / r).toInt64.toInt
  invRate r := 1.0 / r

/-- one map entry appended to the map (entries of one map have distinct keys by construction) -/
def pEntry (m : MM Float) : P (MM Float) := do
  let ty ← tok
  let name ← tok
  let tk ← tok
  let k : Key := (name, tk)
  match ty with
  | "c" =>
    let v ← pInt; let ts ← pInt; let src ← tok; let tags ← pList tok
    pure { m with counters := m.counters ++ [(k, { value := v, ts := ts, src := src, tags := tags })] }
  | "g" =>
    let v ← pFloat; let ts ← pInt; let src ← tok; let tags ← pList tok
    pure { m with gauges := m.gauges ++ [(k, { value := v, ts := ts, src := src, tags := tags })] }
  | "t" =>
    let vs ← pList pFloat; let sc ← pFloat; let ts ← pInt; let src ← tok; let tags ← pList tok
    pure { m with timers := m.timers ++ [(k, { values := vs, sampled := sc, ts := ts, src := src, tags := tags })] }
  | "s" =>
    let ms ← pList tok; let ts ← pInt; let src ← tok; let tags ← pList tok
    pure { m with sets := m.sets ++ [(k, { members := ms, ts := ts, src := src, tags := tags })] }
  | _ => failure

def pDp : P (Dp Float) := do
  let ty ← tok
  let ty' ← (match ty with
    | "c" => pure MType.counter | "t" => pure MType.timer | "g" => pure MType.gauge | "s" => pure MType.set
    | _ => failure : P MType)
  let name ← tok; let tk ← tok; let v ← pFloat; let r ← pFloat; let sv ← tok
  let ts ← pInt; let src ← tok; let tags ← pList tok
  pure { name := name, tagsKey := tk, ty := ty', value := v, rate := r, sval := sv, ts := ts, src := src, tags := tags }

/-- parse `,`-separated groups with `p` -/
def parseGroups {β} (toks : List String) (p : P β) : Option (List β) :=
  (splitBy "," toks).filter (· ≠ []) |>.mapM (fun g => match (p <* pEnd).run g with
    | some (b, _) => some b
    | none => none)

def parseMap (toks : List String) : Option (MM Float) :=
  ((splitBy "," toks).filter (· ≠ [])).foldlM (fun m g => match (pEntry m <* pEnd).run g with
    | some (m', _) => some m'
    | none => none) {}

def parseDps (toks : List String) : Option (List (Dp Float)) := parseGroups toks pDp

def renderTags (tags : List String) : String := unwords (toString tags.length :: tags)

/-- canonical rendering: entries sorted by (type, name, tagsKey); set members sorted (Go map order is
arbitrary); everything else verbatim -/
def renderMap (m : MM Float) : String :=
  let cs := m.counters.map (fun e => unwords ["c", e.1.1, e.1.2, toString e.2.value, toString e.2.ts, e.2.src, renderTags e.2.tags])
  let gs := m.gauges.map (fun e => unwords ["g", e.1.1, e.1.2, tokOfFloat e.2.value, toString e.2.ts, e.2.src, renderTags e.2.tags])
  let ts := m.timers.map (fun e => unwords (["t", e.1.1, e.1.2, toString e.2.values.length] ++ e.2.values.map tokOfFloat ++
              [tokOfFloat e.2.sampled, toString e.2.ts, e.2.src, renderTags e.2.tags]))
  let ss := m.sets.map (fun e => unwords (["s", e.1.1, e.1.2, toString e.2.members.length] ++ sortStrings e.2.members ++
              [toString e.2.ts, e.2.src, renderTags e.2.tags]))
  let all := sortStrings (cs ++ gs ++ ts ++ ss)
  if all.isEmpty then "-" else " , ".intercalate all

end Gsd.Driver
