import Gsd.Model.Cache
import Gsd.Driver.Proto
/-!
Driver for C12 (instance cache).

Case line (`;`-separated items, the first is the configuration):

    cfg TTL NEG IDLE MAX ; op ; op ; …

    op ::= sub SRC=OUT SRC=OUT …     client submissions (duplicates allowed, same OUT per source)
         | peek SRC                   Peek(SRC)
         | age D                      D units of time pass
         | tick SRC=OUT …             one refresh tick; the table says what the provider answers for the
                                      re-queries it triggers (unlisted source = `m`)
         | hold                       from now on every provider call blocks (the single lookup dispatcher
                                      sits in `Instance()`; nothing is answered)
         | release SRC=OUT …          the blocked call and everything that queued up behind it are answered
                                      from this table
    OUT ::= vN   the map holds instance N            fN  the map holds instance N and the call errs
          | m    not in the map                      e   not in the map and the call errs
          | n    the map holds a nil pointer

While the provider is held the component keeps running: `sub` only queues (client sends block on the
unbuffered `IpSink` until the dispatcher is back at its `select`; the owner's refresh re-queues wait in
`toLookupIPs`), `tick` evicts and re-queues — an expired entry is queued again on every tick, the code
does not de-duplicate — `peek` and `age` work as usual, and the tables of `sub`/`tick` are not used.
In the model this is: `submit` / `tick` happen at their op, the `batch … handleInfo … deliver` actions for
everything pending happen at `release` (answers are stamped with the time of the release).  A case that
ends held gets an implicit final `release` with an empty table.  `hold` when held and `release` when not
held change nothing.

Every other op is a *quiescent step*: the harness waits until all answers it causes have come out.  All
lookups of one source within one step get the same outcome, so the grouping into batches cannot matter.
Times are whole units; an answer handled or a `Peek` done in a step is stamped with the time of that step.

Output: one item per op, `<res> g=POS,NEG,REFPOS,REFNEG c=NPOS,NNEG` with
`<res>` = `q[sorted sources asked] a[sorted SRC=val answers]` (sub, tick) | `hit:N` | `hit:nil` | `miss` | `ok`,
`g` the four gauges, `c` the numbers of positive / negative entries; last item `end q=N a=M late=K b=ok`
(`late` = answers that arrived after the last step was complete).
-/
namespace Gsd.Driver.C12
open Gsd Gsd.Proto Gsd.Cache

abbrev St := State String Nat
abbrev Act := Action String Nat

inductive Out where
  | inst (n : Nat) (err : Bool)   -- vN / fN
  | none (err : Bool)             -- m, n / e
  deriving Repr

def Out.val : Out → Option Nat
  | .inst n _ => some n
  | .none _ => Option.none
def Out.err : Out → Bool
  | .inst _ e => e
  | .none e => e

inductive Op where
  | sub (l : List (String × Out))
  | peek (s : String)
  | age (d : Nat)
  | tick (l : List (String × Out))
  | hold
  | release (l : List (String × Out))

structure Case where
  cfg : Config
  ops : List Op

def parseOut (t : String) : Option Out :=
  match t.toList with
  | ['m'] => some (.none false)
  | ['n'] => some (.none false)
  | ['e'] => some (.none true)
  | 'v' :: r => (String.ofList r).toNat?.map (fun n => .inst n false)
  | 'f' :: r => (String.ofList r).toNat?.map (fun n => .inst n true)
  | _ => Option.none

def parsePair (t : String) : Option (String × Out) :=
  match t.splitOn "=" with
  | [s, o] => if s.isEmpty then Option.none else (parseOut o).map (fun x => (s, x))
  | _ => Option.none

def parseOp (ts : List String) : Option Op :=
  match ts with
  | "sub" :: rest => (rest.mapM parsePair).map Op.sub
  | ["peek", s] => some (.peek s)
  | ["age", d] => d.toNat?.map Op.age
  | "tick" :: rest => (rest.mapM parsePair).map Op.tick
  | ["hold"] => some .hold
  | "release" :: rest => (rest.mapM parsePair).map Op.release
  | _ => Option.none

/-- a case that ends with the provider held gets a final `release` with an empty table -/
def closeHold (ops : List Op) : List Op :=
  let held := ops.foldl (fun h op => match op with | .hold => true | .release _ => false | _ => h) false
  if held then ops ++ [.release []] else ops

def parseCase (line : String) : Option Case := do
  match splitBy ";" (tokens line) with
  | ["cfg", ttl, neg, idle, mx] :: ops =>
    let cfg : Config := { ttl := (← ttl.toNat?), negTtl := (← neg.toNat?), idle := (← idle.toNat?), maxBatch := (← mx.toNat?) }
    let ops ← (ops.filter (fun o => !o.isEmpty)).mapM parseOp
    return { cfg := cfg, ops := closeHold ops }
  | _ => Option.none

def table (l : List (String × Out)) (s : String) : Out :=
  match l.find? (fun e => e.1 == s) with
  | some e => e.2
  | Option.none => .none false

def chunks {α : Type} (n : Nat) (l : List α) : List (List α) :=
  let n := if n == 0 then 1 else n
  let rec go (fuel : Nat) (l : List α) (acc : List (List α)) : List (List α) :=
    match fuel, l with
    | _, [] => acc.reverse
    | 0, _ => acc.reverse
    | f + 1, l => go f (l.drop n) (l.take n :: acc)
  go l.length l []

def showVal : Option Nat → String
  | some n => toString n
  | Option.none => "nil"

def showInfo (i : Info String Nat) : String := s!"{i.ip}={showVal i.inst}"

def gauges (st : St) : String :=
  s!"g={st.pos},{st.neg},{st.refPos},{st.refNeg} c={st.cache.countP isPos},{st.cache.countP isNeg}"

/-- run the component to quiescence with one canonical schedule (the theorems say the schedule does not
matter for what is observed): batches of `maxBatch` in arrival order, then every answer handled at
time `now`, then every answer delivered. -/
def quiesce (cfg : Config) (now : Int) (tbl : String → Out) (st : St) : Option (St × String) := do
  let groups := chunks cfg.maxBatch st.pending
  let d0 := st.delivered.length
  let mut s := st
  for g in groups do
    s ← step cfg s (.batch g (fun x => (tbl x).val) (g.any (fun x => (tbl x).err)))
  for _ in List.range s.answers.length do
    s ← step cfg s (.handleInfo now)
  for _ in List.range s.toReturn.length do
    s ← step cfg s (.deliver 0)
  let asked := sortStrings (groups.flatten)
  let got := sortStrings ((s.delivered.drop d0).map showInfo)
  return (s, s!"q[{unwords asked}] a[{unwords got}]")

def runModel (line : String) : String :=
  match parseCase line with
  | Option.none => "BAD_CASE"
  | some c =>
    let r : Option (St × Int × List String × Bool) :=
      c.ops.foldlM (init := ((init : St), (0 : Int), ([] : List String), false))
      (fun (acc : St × Int × List String × Bool) op => do
        let (st, now, outs, held) := acc
        match op with
        | .sub l =>
          let st1 ← l.foldlM (fun s e => step c.cfg s (.submit e.1)) st
          if held then pure (st1, now, outs ++ [s!"q[] a[] {gauges st1}"], held) else
          let (st2, res) ← quiesce c.cfg now (table l) st1
          pure (st2, now, outs ++ [s!"{res} {gauges st2}"], held)
        | .peek s =>
          let res := match peekVal st s with
            | Option.none => "miss"
            | some v => s!"hit:{showVal v}"
          let st1 ← step c.cfg st (.peek s now)
          pure (st1, now, outs ++ [s!"{res} {gauges st1}"], held)
        | .age d => pure (st, now + d, outs ++ [s!"ok {gauges st}"], held)
        | .tick l =>
          let st1 ← step c.cfg st (.tick now)
          if held then pure (st1, now, outs ++ [s!"q[] a[] {gauges st1}"], held) else
          let (st2, res) ← quiesce c.cfg now (table l) st1
          pure (st2, now, outs ++ [s!"{res} {gauges st2}"], held)
        | .hold => pure (st, now, outs ++ [s!"ok {gauges st}"], true)
        | .release l =>
          let (st2, res) ← quiesce c.cfg now (table l) st
          pure (st2, now, outs ++ [s!"{res} {gauges st2}"], false))
    match r with
    | Option.none => "MODEL_DISABLED"
    | some (st, _, outs, _) =>
      " ; ".intercalate (outs ++ [s!"end q={st.queried.length} a={st.delivered.length} late=0 b=ok"])

/-! ### the executable specification, evaluated on the implementation's output

Written from the property statement over the op history, with its own per-source bookkeeping driven by
the answers the *implementation* produced; it does not use `Gsd.Cache.step`. -/

/-- `expLo ≤ expHi`: the property does not say which TTL applies when a failed refresh keeps the old
instance (the code uses the negative TTL); the specification accepts both. -/
structure Ent where
  src : String
  inst : Option Nat
  la : Int
  expLo : Int
  expHi : Int

structure Obs where
  res : List String     -- tokens before g=
  g : List Int
  c : List Int

def parseInts (s : String) : Option (List Int) := (s.splitOn ",").mapM (fun t => t.toInt?)

def parseObs (item : List String) : Option Obs :=
  match item.reverse with
  | c :: g :: r =>
    if g.startsWith "g=" && c.startsWith "c=" then do
      let gs ← parseInts (g.drop 2).toString
      let cs ← parseInts (c.drop 2).toString
      if gs.length == 4 && cs.length == 2 then some { res := r.reverse, g := gs, c := cs } else Option.none
    else Option.none
  | _ => Option.none

/-- `q[a b] a[a=1 b=nil]` → (asked, answers) -/
def parseQA (ts : List String) : Option (List String × List (String × Option Nat)) :=
  let s := unwords ts
  match s.splitOn "] a[" with
  | [q, a] =>
    if q.startsWith "q[" && a.endsWith "]" then
      let qs := tokens (q.drop 2).toString
      let as := tokens (a.dropEnd 1).toString
      (as.mapM (fun (t : String) => match t.splitOn "=" with
        | [s, "nil"] => some (s, Option.none)
        | [s, n] => n.toNat?.map (fun k => (s, some k))
        | _ => Option.none)).map (fun l => (qs, l))
    else Option.none
  | _ => Option.none

def findEnt (es : List Ent) (s : String) : Option Ent := es.find? (fun e => e.src == s)

/-- what the property says an answer does to the entry of its source -/
def applyAnswer (cfg : Config) (now : Int) (es : List Ent) (a : String × Option Nat) : List Ent :=
  let ttl := match a.2 with | Option.none => cfg.negTtl | some _ => cfg.ttl
  match findEnt es a.1 with
  | Option.none => es ++ [{ src := a.1, inst := a.2, la := now, expLo := now + ttl, expHi := now + ttl }]
  | some _ => es.map (fun e => if e.src == a.1 then
      match a.2, e.inst with
      | Option.none, some _ =>   -- failed refresh, instance kept: either TTL
        { e with expLo := now + min cfg.negTtl cfg.ttl, expHi := now + max cfg.negTtl cfg.ttl }
      | Option.none, Option.none => { e with expLo := now + ttl, expHi := now + ttl }
      | some v, _ => { e with inst := some v, expLo := now + ttl, expHi := now + ttl }
      else e)

def checkGauges (es : List Ent) (o : Obs) : Option String :=
  let np : Int := (es.filter (fun e => e.inst.isSome)).length
  let nn : Int := (es.filter (fun e => e.inst.isNone)).length
  let gp := o.g[0]!; let gn := o.g[1]!; let cp := o.c[0]!; let cn := o.c[1]!
  if cp != np || cn != nn then some s!"entries the cache holds {cp}/{cn} positive/negative entries, the history implies {np}/{nn}"
  else if gp != cp || gn != cn then some s!"gauge positive/negative gauges {gp}/{gn} but the cache holds {cp}/{cn} such entries"
  else Option.none

/-- `must ≤ asked ≤ may` as multisets; answers for exactly the asked sources, with the table's values -/
def checkLookups (what : String) (tbl : String → Out) (must may : List String)
    (qs : List String) (as : List (String × Option Nat)) : Option String :=
  let gq := sortStrings qs
  let bad : Option String :=
    match (must ++ may ++ gq).find? (fun s => gq.count s < must.count s || gq.count s > may.count s) with
    | Option.none => Option.none
    | some s =>
      if gq.count s < must.count s then
        some s!"{what} the provider was asked for {s} {gq.count s} time(s), at least {must.count s} needed (asked [{unwords gq}])"
      else
        some s!"{what} the provider was asked for {s} {gq.count s} time(s), at most {may.count s} due (asked [{unwords gq}])"
  if bad.isSome then bad
  else if sortStrings (as.map (·.1)) != gq then
    some s!"answers sources asked [{unwords gq}] but answers came for [{unwords (sortStrings (as.map (·.1)))}]"
  else match as.find? (fun a => a.2 != (tbl a.1).val) with
    | some a => some s!"value answer for {a.1} is {showVal a.2}, the provider said {showVal (tbl a.1).val}"
    | Option.none => Option.none

def checkEnd (items : List (List String)) (k : Nat) : String :=
  match items with
  | [["end", q, a, late, b]] =>
    if (q.drop 2).toString != (a.drop 2).toString then s!"FAIL answers totals {q} {a}"
    else if late != "late=0" then s!"FAIL requery answers nobody was waiting for arrived after the last step ({late})"
    else if b != "b=ok" then s!"FAIL batch a provider call exceeded MaxInstancesBatch or was empty ({b})"
    else "ok"
  | _ => s!"FAIL shape op {k}: expected the end item"

/-- bookkeeping of the specification: time, entries, whether the provider is held, and the lookups that
are outstanding while it is held — `oMust` those the property demands (every submission; an entry past
its TTL at a tick *unless a lookup of that source is already outstanding*: the property does not demand
a second query for it), `oMay` those it permits (the code queues an expired entry at every tick). -/
structure SpecSt where
  now : Int := 0
  es : List Ent := []
  held : Bool := false
  oMust : List String := []
  oMay : List String := []

def specGo (cfg : Config) : List Op → List (List String) → SpecSt → Nat → String
  | [], items, _, k => checkEnd items k
  | _ :: _, [], _, k => s!"FAIL shape output ends before op {k}"
  | op :: ops, item :: items, σ, k =>
    -- the harness stops a history after two steps with missing answers
    if item == ["cut"] then checkEnd items k else
    match parseObs item with
    | Option.none => s!"FAIL shape op {k}: {unwords item}"
    | some o =>
      let now := σ.now
      let es := σ.es
      let fin (σ' : SpecSt) : String :=
        match checkGauges σ'.es o with
        | some m => s!"FAIL {m} (op {k})"
        | Option.none => specGo cfg ops items σ' (k + 1)
      let nothing (what : String) (cont : Unit → String) : String :=
        match parseQA o.res with
        | some ([], []) => cont ()
        | some (qs, as) => s!"FAIL answers {what} while every provider call is held: asked [{unwords qs}], {as.length} answers (op {k})"
        | Option.none => s!"FAIL shape op {k}: {unwords o.res}"
      match op with
      | .age d => if o.res != ["ok"] then s!"FAIL shape op {k}" else fin { σ with now := now + d }
      | .hold => if o.res != ["ok"] then s!"FAIL shape op {k}" else fin { σ with held := true }
      | .peek s =>
        let want := match findEnt es s with
          | Option.none => "miss"
          | some e => s!"hit:{showVal e.inst}"
        let got := unwords o.res
        if got != want then
          let cls := match findEnt es s with
            | Option.none => "evict"
            | some e => if got == "miss" then "evict" else if e.inst.isSome then "sticky" else "peek"
          s!"FAIL {cls} Peek({s}) returned {got}, the history implies {want} (op {k})"
        else fin { σ with es := es.map (fun e => if e.src == s then { e with la := now } else e) }
      | .sub l =>
        if σ.held then
          nothing "sub" (fun _ => fin { σ with oMust := σ.oMust ++ l.map (·.1), oMay := σ.oMay ++ l.map (·.1) })
        else
        match parseQA o.res with
        | Option.none => s!"FAIL shape op {k}: {unwords o.res}"
        | some (qs, as) =>
          match checkLookups "unqueried" (table l) (l.map (·.1)) (l.map (·.1)) qs as with
          | some m => s!"FAIL {m} (op {k})"
          | Option.none => fin { σ with es := as.foldl (applyAnswer cfg now) es }
      | .tick l =>
        let kept := es.filter (fun e => !(decide (now - e.la > cfg.idle)))
        let must := (kept.filter (fun e => decide (now > e.expHi) && !σ.oMay.contains e.src)).map (·.src)
        let may := (kept.filter (fun e => decide (now > e.expLo))).map (·.src)
        if σ.held then
          nothing "tick" (fun _ => fin { σ with es := kept, oMust := σ.oMust ++ must, oMay := σ.oMay ++ may })
        else
        match parseQA o.res with
        | Option.none => s!"FAIL shape op {k}: {unwords o.res}"
        | some (qs, as) =>
          match checkLookups "requery" (table l) must may qs as with
          | some m => s!"FAIL {m} (op {k})"
          | Option.none => fin { σ with es := as.foldl (applyAnswer cfg now) kept }
      | .release l =>
        match parseQA o.res with
        | Option.none => s!"FAIL shape op {k}: {unwords o.res}"
        | some (qs, as) =>
          match checkLookups "requery" (table l) σ.oMust σ.oMay qs as with
          | some m => s!"FAIL {m} (op {k})"
          | Option.none => fin { σ with es := as.foldl (applyAnswer cfg now) es, held := false, oMust := [], oMay := [] }

def spec (caseLine implLine : String) : String :=
  match parseCase caseLine with
  | Option.none => "BAD_CASE"
  | some c =>
    if implLine.startsWith "HANG" then s!"FAIL hang {implLine}"
    else if implLine.startsWith "PANIC" then s!"FAIL panic {implLine}"
    else if implLine.startsWith "CRASH" then s!"FAIL crash {implLine}"
    else specGo c.cfg c.ops (splitBy ";" (tokens implLine)) {} 0

def main (args : List String) : IO UInt32 := do
  match args with
  | ["model"] => mapLines runModel; return 0
  | ["spec"] =>
    mapLines (fun l => match l.splitOn "\t" with
      | [c, i] => spec c i
      | _ => "BAD_LINE")
    return 0
  | _ => IO.eprintln "usage: gsdmodel C12 (model|spec)"; return 2

end Gsd.Driver.C12
