import Gsd.Model.Cloud
import Gsd.Driver.MMCodec
import Gsd.Driver.C07
/-!
Driver for C11.  Case:  `c11 ; op ; op ; …` with

  op := `M PEEK , entry , entry …`        metric batch (entries as in MMCodec) under cache view PEEK
      | `V PEEK , SRC ntags TAG* nbody BODY*`   event under cache view PEEK
      | `L`                                 the sink is read until nothing is pending (all `sendLookup`s)
      | `I SRC z` | `I SRC i ID ntags TAG*`  lookup completion: nil | instance
      | `E`                                 stats emission
      | `B` | `U`                           the downstream handler blocks in / resumes returning from its
                                            Dispatch… calls.  While blocked: what lookup completions release is
                                            handed over but stuck, and is observed — in the order it was
                                            produced — in the `U` segment.  An arrival with a cache hit (or an
                                            empty source) would block its CALLER inside the stage before the
                                            missed part reaches the owner loop; such an op (they only arise
                                            when a case is shrunk) first unblocks, and its segment shows both.
                                            A case that ends blocked gets a final `U` (one more segment).
  PEEK := `n (SRC m | SRC z | SRC i ID ntags TAG*)*n`   (sources not listed: miss)

Output: one segment per op, ` | `-separated:
  `M dlv*` `V dlv*` `I dlv*`  with dlv := `@m <map>` | `@e SRC ntags TAG* nbody BODY*`
                               (metric deliveries of one op first, then its events in order;
                                maps rendered canonically with timer values sorted)
  `L SRC*` (sorted)            `E hit miss hostsM hostsE itemsE` (the three gauges as float64 bits, as emitted)
  `B`                          `U dlv*`   (in every segment: maps first, sorted by their text, then events in order)

Inside the model strings are real strings (each byte one character), because `FormatTagsKey` sorts and
joins them; they are hex tokens only on the wire.
-/
namespace Gsd.Driver.C11
open Gsd Gsd.Proto Gsd.Driver Gsd.Cloud

def decStr (t : String) : String :=
  match bytesOfTok t with
  | some bs => String.ofList (bs.map (fun b => Char.ofNat b.toNat))
  | none => t

def encStr (s : String) : String := tokOfBytes (s.toList.map (fun c => UInt8.ofNat c.toNat))

def mapStrMM (f : String → String) (m : MM Float) : MM Float :=
  { counters := m.counters.map (fun e => ((f e.1.1, f e.1.2), { e.2 with src := f e.2.src, tags := e.2.tags.map f })),
    gauges := m.gauges.map (fun e => ((f e.1.1, f e.1.2), { e.2 with src := f e.2.src, tags := e.2.tags.map f })),
    timers := m.timers.map (fun e => ((f e.1.1, f e.1.2), { e.2 with src := f e.2.src, tags := e.2.tags.map f })),
    sets := m.sets.map (fun e => ((f e.1.1, f e.1.2), { e.2 with src := f e.2.src, tags := e.2.tags.map f, members := e.2.members.map f })) }

def sortFloats (l : List Float) : List Float := (l.toArray.qsort (fun a b => tokOfFloat a < tokOfFloat b)).toList

def canonMM (m : MM Float) : MM Float :=
  { m with timers := m.timers.map (fun e => (e.1, { e.2 with values := sortFloats e.2.values })) }

def renderMM (m : MM Float) : String := renderMap (mapStrMM encStr (canonMM m))

def renderEvent (e : Event) : String :=
  unwords ([encStr e.src, toString e.tags.length] ++ e.tags.map encStr ++ [toString e.body.length] ++ e.body)

def renderDelivery : Delivery Float → String
  | .metrics m => "@m " ++ renderMM m
  | .event e => "@e " ++ renderEvent e

/-! ### parsing -/

def pStr : P String := do let t ← tok; pure (decStr t)

def pInst : P Inst := do
  let id ← pStr; let tags ← pList pStr
  pure { id := id, tags := tags }

def pResult : P (Option Inst) := do
  let k ← tok
  match k with
  | "z" => pure none
  | "i" => do let i ← pInst; pure (some i)
  | _ => failure

def pPeekRec : P (String × Option (Option Inst)) := do
  let s ← pStr
  let k ← tok
  match k with
  | "m" => pure (s, none)
  | "z" => pure (s, some none)
  | "i" => do let i ← pInst; pure (s, some (some i))
  | _ => failure

def peekOf (l : List (String × Option (Option Inst))) : Peek := fun s => (AList.lookup s l).getD none

def pPeek : P Peek := do let l ← pList pPeekRec; pure (peekOf l)

def pEvent : P Event := do
  let s ← pStr; let tags ← pList pStr; let body ← pList tok
  pure { body := body, tags := tags, src := s }

def runP {β} (p : P β) (ts : List String) : Option β :=
  match (p <* pEnd).run ts with
  | some (b, _) => some b
  | none => none

inductive Op where
  | act (a : Action Float)
  | drain

def parseOp (ts : List String) : Option Op :=
  match ts with
  | "M" :: rest =>
    match splitBy "," rest with
    | pk :: groups => do
      let pk ← runP pPeek pk
      let m ← (groups.filter (· ≠ [])).foldlM (fun m g => runP (pEntry m) g) ({} : MM Float)
      pure (.act (.arriveMetrics (mapStrMM decStr m) pk))
    | [] => none
  | "V" :: rest =>
    match splitBy "," rest with
    | [pk, ev] => do
      let pk ← runP pPeek pk
      let e ← runP pEvent ev
      pure (.act (.arriveEvent e pk))
    | _ => none
  | ["L"] => some .drain
  | "I" :: s :: rest => do
    let r ← runP pResult rest
    pure (.act (.info (decStr s) r))
  | ["E"] => some (.act .emit)
  | ["B"] => some (.act .block)
  | ["U"] => some (.act .unblock)
  | _ => none

/-- does the op call downstream synchronously from the caller's goroutine (some entry / the event is a hit)? -/
def callsDownstream : Op → Bool
  | .act (.arriveMetrics b pk) => (entries b).any (fun e => isHit pk e.src)
  | .act (.arriveEvent e pk) => isHit pk e.src
  | _ => false

/-- is downstream blocked after these ops (an op that calls downstream unblocks first)? -/
def endsBlocked (ops : List Op) : Bool :=
  ops.foldl (fun b o => match o with
    | .act .block => true
    | .act .unblock => false
    | o => if callsDownstream o then false else b) false

def parseCase (line : String) : Option (List Op) :=
  match splitBy ";" (tokens line) with
  | ["c11"] :: ops => do
    let ops ← (ops.filter (· ≠ [])).mapM parseOp
    pure (if endsBlocked ops then ops ++ [.act .unblock] else ops)
  | _ => none

/-! ### model run -/

def gaugeTok (g : Int) : String :=
  -- the code keeps a uint64 and emits float64(uint64)
  tokOfFloat (Float.ofNat (g % (2 ^ 64 : Int)).toNat)

def opLetter : Op → String
  | .act (.arriveMetrics _ _) => "M"
  | .act (.arriveEvent _ _) => "V"
  | .act .sendLookup => "L"
  | .act (.info _ _) => "I"
  | .act .emit => "E"
  | .act .block => "B"
  | .act .unblock => "U"
  | .drain => "L"

def applyOp (st : St Float) (o : Op) : St Float :=
  match o with
  | .act a =>
    let st := if st.blocked && callsDownstream o then step d7Fixed st .unblock else st
    step d7Fixed st a
  | .drain => (List.range st.toLookup.length).foldl (fun s _ => step d7Fixed s .sendLookup) st

def segment (o : Op) (st st' : St Float) : String :=
  match o with
  | .act .emit =>
    match st'.emitted.getLast? with
    | some (h, m, a, b, c) => unwords ["E", toString h, toString m, gaugeTok a, gaugeTok b, gaugeTok c]
    | none => "E"
  | .drain | .act .sendLookup => unwords ("L" :: sortStrings ((st'.sent.drop st.sent.length).map encStr))
  | _ =>
    let ds := st'.delivered.drop st.delivered.length
    let ms := sortStrings (ds.filterMap (fun d => match d with | .metrics _ => some (renderDelivery d) | _ => none))
    let es := ds.filterMap (fun d => match d with | .event _ => some (renderDelivery d) | _ => none)
    unwords (opLetter o :: (ms ++ es))

def runModel (line : String) : String :=
  match parseCase line with
  | none => "BAD_CASE"
  | some ops =>
    let (_, segs) := ops.foldl (fun (acc : St Float × List String) o =>
      let st' := applyOp acc.1 o
      (st', segment o acc.1 st' :: acc.2)) (Cloud.init, [])
    " | ".intercalate segs.reverse

/-! ### executable specification, evaluated on the implementation's output

It restates the property from the op history alone (it does not use `step`): every entry / event is
delivered exactly once — in the same op when its source is a cache hit or empty, otherwise in the op
that completes the lookup of its source, never earlier or later; delivered content is the aggregate
(C07) of the entries after enrichment; tags / source are those of the instance iff there is one;
every source with parked data has exactly one outstanding lookup; gauges equal the true counts. -/

structure SS where
  parkedM : AList String (List (Ent Float)) := []
  parkedE : AList String (List Event) := []
  needL : List String := []        -- requested, not yet read from the sink
  inflight : List String := []
  envOK : Bool := true
  blocked : Bool := false
  /-- released while downstream is blocked: due when it is unblocked (one entry list per released map) -/
  dueMaps : List (List (Ent Float)) := []
  dueEvents : List Event := []

def splitDeliveries (ts : List String) : List (String × List String) :=
  let (cur, acc) := ts.foldl (fun (st : Option (String × List String) × List (String × List String)) t =>
    if t = "@m" ∨ t = "@e" then
      match st.1 with
      | some g => (some (t, []), (g.1, g.2.reverse) :: st.2)
      | none => (some (t, []), st.2)
    else match st.1 with
      | some g => (some (g.1, t :: g.2), st.2)
      | none => (some ("?", [t]), st.2)) (none, [])
  (match cur with | some g => (g.1, g.2.reverse) :: acc | none => acc).reverse

def parseRenderedMap (ts : List String) : Option (MM Float) :=
  if ts = ["-"] then some {} else (parseMap ts).map (mapStrMM decStr)

def entKeyStr (e : Ent Float) : String :=
  let ty := match e with | .c _ _ => "c" | .g _ _ => "g" | .s _ _ => "s" | .t _ _ => "t"
  ty ++ " " ++ encStr e.key.1 ++ " " ++ encStr e.key.2

/-- the delivered map `r` against the enriched entries `leaves` it has to account for -/
def checkDelivered (r : MM Float) (leaves : List (Ent Float)) : Option String :=
  let got := entries r
  -- tagging: every delivered entry carries source and (sorted) tags of an enriched entry with its key
  let badTag := got.find? (fun g => !(leaves.any (fun l => entKeyStr l == entKeyStr g && l.src == g.src && l.tags == g.tags)))
  let missing := leaves.find? (fun l => !(got.any (fun g => entKeyStr l == entKeyStr g)))
  match missing, badTag with
  | some l, _ =>
    let tyName (e : Ent Float) := (entKeyStr e).splitOn " " |>.take 2
    if got.any (fun g => tyName g == tyName l && !(leaves.any (fun l' => entKeyStr l' == entKeyStr g))) then
      some s!"tagging series {entKeyStr l} was delivered under another key (tags/source are not those its lookup result prescribes)"
    else some s!"exactly-once series {entKeyStr l} is missing from the delivered map"
  | _, some g =>
    if leaves.any (fun l => entKeyStr l == entKeyStr g) then some s!"tagging series {entKeyStr g} does not carry the tags/source its lookup result prescribes"
    else some s!"exactly-once series {entKeyStr g} was delivered but never sent (or under a wrong key: tagging)"
  | none, none =>
    match C07.checkMap r (leaves.map Ent.single) with
    | some why => some s!"exactly-once {why}"
    | none => none

def hostsLowOrHigh (got : String) (want : Nat) : String :=
  -- `low`: what an unsigned counter decremented too often (or incremented too rarely) shows
  match floatOfTok got with
  | some f => if f < Float.ofNat want then "low" else if f ≥ 9.0e18 then "low" else "high"
  | none => "unparsable"

def specOp (ss : SS) (o : Op) (seg : List String) : Except String SS := do
  let (letter, rest) ← (match seg with | l :: r => pure (l, r) | [] => throw "shape empty segment")
  if letter ≠ opLetter o then throw s!"shape segment {letter} for op {opLetter o}"
  let isD (t : String) : Bool := t == "@m" || t == "@e"
  let dl := splitDeliveries (rest.dropWhile (fun t => !isD t))
  let rest := rest.takeWhile (fun t => !isD t)
  let ms := dl.filter (·.1 = "@m")
  let es := dl.filter (·.1 = "@e")
  let checkEvents (cls : String) (want : List Event) : Except String Unit := do
    let got := es.map (fun g => unwords g.2)
    let wantR := want.map renderEvent
    if got.length < wantR.length then throw s!"{cls} {wantR.length - got.length} event(s) not delivered when due"
    if got.length > wantR.length then throw s!"exactly-once {got.length - wantR.length} event(s) delivered that were not due (duplicate or early)"
    if got ≠ wantR then
      -- same events modulo tags/source?
      let strip (e : Event) := unwords e.body
      let gotBodies := es.map (fun g => match runP pEvent g.2 with | some e => strip e | none => "?")
      if gotBodies = want.map strip then throw "tagging a delivered event does not carry the tags/source its lookup result prescribes"
      else throw "exactly-once delivered events are not the due events in order"
  let checkMaps (cls : String) (dues : List (List (Ent Float))) : Except String Unit := do
    let dues := dues.filter (fun l => !l.isEmpty)
    if ms.length > dues.length then throw "exactly-once a metric map was delivered although nothing was due (duplicate or early)"
    if ms.length < dues.length then throw s!"{cls} metrics due in this step were not delivered"
    let parsed ← ms.mapM (fun g => match parseRenderedMap g.2 with
      | some r => pure r
      | none => throw "shape unparsable delivered map")
    -- every due map must be one of the delivered maps (each delivered map used once)
    let _ ← dues.foldlM (fun (left : List (MM Float)) leaves =>
      match left.findIdx? (fun r => (checkDelivered r leaves).isNone) with
      | some i => pure (left.eraseIdx i)
      | none => match left with
        | r :: _ => throw ((checkDelivered r leaves).getD "exactly-once delivered map does not match")
        | [] => throw s!"{cls} metrics due in this step were not delivered") parsed
  let request (ss : SS) (s : String) : SS :=
    -- data was parked for s: a lookup has to be outstanding; it is requested iff none is
    if (AList.lookup s ss.parkedM).isSome ∨ (AList.lookup s ss.parkedE).isSome ∨ s ∈ ss.needL ∨ s ∈ ss.inflight then ss
    else { ss with needL := ss.needL ++ [s] }
  -- an op that calls downstream from the caller's goroutine first unblocks: everything held is due with it
  let flush := ss.blocked && callsDownstream o
  let heldMaps := if flush then ss.dueMaps else []
  let heldEvents := if flush then ss.dueEvents else []
  let ss := if flush then { ss with blocked := false, dueMaps := [], dueEvents := [] } else ss
  match o with
  | .act (.arriveMetrics b pk) =>
    let all := entries b
    let hits := all.filter (fun e => isHit pk e.src)
    let misses := all.filter (fun e => !isHit pk e.src)
    if rest ≠ [] then throw "shape stray tokens"
    checkMaps "immediate" (heldMaps ++ [hits.map (fun e => e.rekey (instOf pk e.src))])
    checkEvents "immediate" heldEvents
    pure (misses.foldl (fun ss e =>
      let ss := request ss e.src
      { ss with parkedM := AList.upsert e.src (fun o => o.getD [] ++ [e]) ss.parkedM }) ss)
  | .act (.arriveEvent e pk) =>
    checkMaps "immediate" heldMaps
    if isHit pk e.src then
      checkEvents "immediate" (heldEvents ++ [enrichEvent (instOf pk e.src) e])
      pure ss
    else
      checkEvents "immediate" []
      let ss := request ss e.src
      pure { ss with parkedE := AList.upsert e.src (fun o => o.getD [] ++ [e]) ss.parkedE }
  | .act .block =>
    if dl ≠ [] then throw "exactly-once a delivery although nothing was due (duplicate or late)"
    pure { ss with blocked := true }
  | .act .unblock =>
    if rest ≠ [] then throw "shape stray tokens"
    checkMaps "release" ss.dueMaps
    checkEvents "release" ss.dueEvents
    pure { ss with blocked := false, dueMaps := [], dueEvents := [] }
  | .drain | .act .sendLookup =>
    if dl ≠ [] then throw "exactly-once a delivery although nothing was due (duplicate or late)"
    if ss.envOK then
      let want := sortStrings (ss.needL.map encStr)
      if rest ≠ want then
        let dup := rest.any (fun s => decStr s ∈ ss.inflight) || rest.eraseDups.length ≠ rest.length
        if dup then throw "lookup a second lookup was requested for a source whose lookup is outstanding"
        else throw "lookup the requested lookups are not those of the sources with newly parked data"
    pure { ss with inflight := ss.inflight ++ ss.needL, needL := [] }
  | .act (.info s r) =>
    let envOK := ss.envOK && decide (s ∈ ss.inflight)
    let dueM := ((AList.lookup s ss.parkedM).getD []).map (fun e => e.rekey r)
    let dueE := ((AList.lookup s ss.parkedE).getD []).map (enrichEvent r)
    let ss := { ss with parkedM := AList.erase s ss.parkedM, parkedE := AList.erase s ss.parkedE,
                        inflight := ss.inflight.erase s, envOK := envOK }
    if ss.blocked then
      -- downstream does not take anything now: due when it is unblocked
      if dl ≠ [] then throw "exactly-once a delivery although downstream is blocked"
      pure { ss with dueMaps := ss.dueMaps ++ [dueM], dueEvents := ss.dueEvents ++ dueE }
    else
      checkMaps "release" [dueM]
      checkEvents "release" dueE
      pure ss
  | .act .emit =>
    if dl ≠ [] then throw "exactly-once a delivery although nothing was due (duplicate or late)"
    match rest with
    | [_, _, hm, he, ie] =>
      let wantHM := ss.parkedM.length
      let wantHE := ss.parkedE.length
      let wantIE := (ss.parkedE.map (·.2.length)).foldl (· + ·) 0
      let tokN (n : Nat) := tokOfFloat (Float.ofNat n)
      if hm ≠ tokN wantHM then throw s!"gauges-hosts-{hostsLowOrHigh hm wantHM} hosts_queued type:metric is not the number of sources with parked metrics ({wantHM})"
      if he ≠ tokN wantHE then throw s!"gauges-hosts-{hostsLowOrHigh he wantHE} hosts_queued type:event is not the number of sources with parked events ({wantHE})"
      if ie ≠ tokN wantIE then throw s!"gauges-items items_queued is not the number of parked events ({wantIE})"
      pure ss
    | _ => throw "shape emit segment"

def spec (caseLine implLine : String) : String :=
  match parseCase caseLine with
  | none => "BAD_CASE"
  | some ops =>
    if implLine.startsWith "PANIC" || implLine.startsWith "CRASH" then "FAIL panic " ++ implLine else
    if implLine.startsWith "HANG" then "FAIL hang " ++ implLine else
    let segs := if tokens implLine = [] then [] else (implLine.splitOn " | ").map tokens
    if segs.length ≠ ops.length then s!"FAIL shape {segs.length} segments for {ops.length} ops" else
    let rec go (i : Nat) (ss : SS) : List (Op × List String) → String
      | [] => "ok"
      | (o, seg) :: rest =>
        match specOp ss o seg with
        | .ok ss' => go (i + 1) ss' rest
        | .error why => s!"FAIL {why} (op {i})"
    go 1 {} (ops.zip segs)

def main (args : List String) : IO UInt32 := do
  match args with
  | ["model"] => mapLines runModel; return 0
  | ["spec"] =>
    mapLines (fun l => match l.splitOn "\t" with
      | [c, i] => spec c i
      | _ => "BAD_LINE")
    return 0
  | _ => IO.eprintln "usage: gsdmodel C11 (model|spec)"; return 2

end Gsd.Driver.C11
