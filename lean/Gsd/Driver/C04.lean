import Gsd.Driver.AggCommon
import Gsd.Model.BackendPanics
/-!
Driver for C04.  Case line: `HEAD ; item ; item ; …`.

HEAD = the `K=V` tokens of `AggCommon` (`P M L I O`; `T` unused) plus
  `B=<backend>`  graphite | datadog | influxdb | statsdaemon | stdout | cloudwatch | newrelic | otlp
  `V=<variant>`  newrelic: metrics | infra | insights; otlp: gauge | histogram; others: harness-only
                 (graphite mode, influxdb api version, statsdaemon transport) — ignored by the model
  `N=<n>`        metrics per batch (harness-only)
  `S=<sid>:<xTAG+xTAG…|->,<sid>:…`  the series and their (sorted) tags
Items: `d SID VAL RATE` (datapoint into the current batch) | `m` (hand the batch to `ReceiveMap`) |
`f` (like `m`, then `Flush`, the backend's `SendMetricsAsync` on the view, `Reset`).  The line ends with an
implicit `f`.

Output: `PANIC flush` | `PANIC <backend>` (the first panic in time order) | `ok | VIEW | VIEW …` where a VIEW
is the `;`-separated list of `SID:<rendered timer>` of one flush, sorted by SID (`-` when empty).
-/
namespace Gsd.Driver.C04
open Gsd Gsd.Proto Gsd.Driver.AggSt

inductive Item
  | dp (sid : String) (v r : Float)
  | m
  | f

structure Case where
  head : Head
  backend : Backend
  bname : String
  series : List (String × List Bytes)
  items : List Item

/-- `D sid n base step`: n datapoints `base + i*step` (small integers: exact in floating point), rate 1 — a compact way
to write the large timers that internal scratch buffers are sized for -/
def parseItem : List String → Option (List Item)
  | ["d", sid, v, r] => do pure [.dp sid (← floatOfTok v) (← floatOfTok r)]
  | ["D", sid, n, base, step] => do
    let n ← n.toNat?
    let b ← base.toNat?
    let st ← step.toNat?
    pure ((List.range n).map (fun i => .dp sid (b + i * st).toFloat 1.0))
  | ["m"] => some [.m]
  | ["f"] => some [.f]
  | _ => none

def parseBackend (b v : String) : Option Backend :=
  match b with
  | "graphite" => some .graphite
  | "datadog" => some .datadog
  | "influxdb" => some .influxdb
  | "statsdaemon" => some .statsdaemon
  | "stdout" => some .stdout
  | "cloudwatch" => some .cloudwatch
  | "newrelic" => some (.newrelic (v == "metrics"))
  | "otlp" => some (.otlp (v != "histogram"))
  | _ => none

def parseSeries (s : String) : Option (List (String × List Bytes)) :=
  (listOf s).mapM (fun e => match e.splitOn ":" with
    | [sid, tags] => do
      let ts ← (if tags = "-" || tags = "" then pure [] else (tags.splitOn "+").mapM bytesOfTok)
      pure (sid, ts)
    | _ => none)

def parseCase (line : String) : Option Case := do
  match splitBy ";" (tokens line) with
  | h :: items =>
    let head ← parseHead (h.filter (fun t => !(t.startsWith "B=" || t.startsWith "V=" || t.startsWith "N=" || t.startsWith "S=")) ++ ["T=-"])
    let b ← kv h "B"
    let v := (kv h "V").getD ""
    let backend ← parseBackend b v
    let series ← parseSeries (← kv h "S")
    let its ← (items.filter (fun i => !i.isEmpty)).mapM parseItem
    pure { head := head, backend := backend, bname := b, series := series, items := its.flatten }
  | [] => none

/-- per series the datapoints of the current batch, newest first -/
abbrev Batch := List (String × List Float × List Float)

def Batch.add (b : Batch) (sid : String) (v r : Float) : Batch :=
  match b.find? (fun e => e.1 == sid) with
  | some _ => b.map (fun e => if e.1 == sid then (e.1, v :: e.2.1, r :: e.2.2) else e)
  | none => b ++ [(sid, [v], [r])]

def toOps (c : Case) : List (Op Float) :=
  let secs := c.head.secs
  let tagsOf (sid : String) : List Bytes := ((c.series.find? (fun e => e.1 == sid)).map (·.2)).getD []
  let hand (b : Batch) : List (Op Float) :=
    if b.isEmpty then [] else
      [Op.merge (b.map (fun e => (e.1, tagsOf e.1, e.2.1.reverse, batchSampled e.2.2.reverse)))]
  let rec go (b : Batch) : List Item → List (Op Float)
    | [] => hand b ++ [Op.flush secs []]
    | .dp sid v r :: rest => go (b.add sid v r) rest
    | .m :: rest => hand b ++ go [] rest
    | .f :: rest => hand b ++ [Op.flush secs []] ++ go [] rest
  go [] c.items

/-- the oracle must know every item of every series' tags -/
def oracleComplete (c : Case) : Bool :=
  c.series.all (fun s => ({ c.head with tags := s.2 } : Head).oracleComplete)

def renderView (v : AggSt Float) : String :=
  if v.isEmpty then "-" else " ; ".intercalate (sortStrings (v.map (fun e => e.1 ++ ":" ++ renderTimer e.2)))

def siteIsBackend : Site → Bool
  | .influxHistBuf | .influxBaseBuf | .otlpValuesFirst | .otlpValuesLast | .otlpMakeBounds | .otlpBoundsIdx
  | .newrelicPctName => true
  | _ => false

/-- `Gsd.pipeline` (the definition the theorems are about); the site of the first panic says where -/
def runPipeline (c : Case) : String :=
  match pipeline c.head.parse c.head.cfg c.backend (toOps c) with
  | .panic site => if siteIsBackend site then "PANIC " ++ c.bname else "PANIC flush"
  | .ok views => " | ".intercalate ("ok" :: views.map renderView)

def runModel (line : String) : String :=
  match parseCase line with
  | none => "BAD_CASE"
  | some c => if !oracleComplete c then "ORACLE_MISS" else runPipeline c

/-- the property, on the implementation's output: no panic, anywhere -/
def spec (caseLine implLine : String) : String :=
  match parseCase caseLine with
  | none => "BAD_CASE"
  | some c =>
    if implLine.startsWith "PANIC flush" then "FAIL flush-panic MetricAggregator.Flush panicked"
    else if implLine.startsWith "PANIC " then
      let v := (kv (tokens caseLine) "V").getD ""
      s!"FAIL {c.bname}-panic payload building of backend {c.bname} ({v}) panicked"
    else if implLine.startsWith "HANG" then "FAIL hang the flush did not complete"
    else if implLine.startsWith "ok" then "ok"
    else "FAIL unparsable " ++ implLine

def main (args : List String) : IO UInt32 := do
  match args with
  | ["model"] => mapLines runModel; return 0
  | ["spec"] =>
    mapLines (fun l => match l.splitOn "\t" with
      | [c, i] => spec c i
      | _ => "BAD_LINE")
    return 0
  | _ => IO.eprintln "usage: gsdmodel C04 (model|spec)"; return 2

end Gsd.Driver.C04
