import Gsd.Model.Forward
import Gsd.Driver.Proto
/-!
Driver for C14.  Float values travel as opaque 16-hex-digit tokens (`α := String`): nothing is
computed on the way, and Lean's `Float.toBits` would canonicalise NaN payloads.

Cases (`CT` ∈ off none zlib lz4 dflt, `LVL` 0..9):
  `m CT LVL , entry , entry …`        a map through forwarder → receiver (entries as in MMCodec)
  `n CT LVL`                          the forwarder's start-up "nop" post (an empty message)
  `e CT LVL ; TITLE TEXT DATE AGG STYPE SOURCE PRI ALERT n TAG*n`   an event through both halves
  `b ROUTE ENC READ BODY | I um | Z dec um | L dec um`   a body posted directly to `/v2/ROUTE`
       ROUTE ∈ raw event; ENC = Content-Encoding header (`-` = absent); READ ∈ ok fail;
       the oracle columns are what the real libraries answer on BODY: `I` = unmarshal of the bytes,
       `Z` = zlib-decompress then unmarshal, `L` = lz4-decompress then unmarshal;
       dec := T | F ; um := F | T msg ; msg := pb entries `;`-separated (raw) or event fields (event)
Output: `STATUS ENC NDISPATCH | payload` or `NOSEND`.
-/
namespace Gsd.Driver.C14
open Gsd Gsd.Proto

abbrev V := String
abbrev P := StateT (List String) Option

def tok : P String := do
  match (← get) with
  | [] => failure
  | t :: rest => set rest; pure t
def pNat : P Nat := do let t ← tok; match t.toNat? with | some n => pure n | none => failure
def pInt : P Int := do let t ← tok; match t.toInt? with | some n => pure n | none => failure
def pMany {β} (n : Nat) (p : P β) : P (List β) := do
  let mut acc := []
  for _ in [0:n] do
    acc := (← p) :: acc
  pure acc.reverse
def pList {β} (p : P β) : P (List β) := do let n ← pNat; pMany n p
def pEnd : P Unit := do match (← get) with | [] => pure () | _ => failure

/-- one MMCodec entry appended to a map over opaque value tokens -/
def pEntry (m : MM V) : P (MM V) := do
  let ty ← tok; let name ← tok; let tk ← tok
  let k : Key := (name, tk)
  match ty with
  | "c" =>
    let v ← pInt; let ts ← pInt; let src ← tok; let tags ← pList tok
    pure { m with counters := m.counters ++ [(k, { value := v, ts := ts, src := src, tags := tags })] }
  | "g" =>
    let v ← tok; let ts ← pInt; let src ← tok; let tags ← pList tok
    pure { m with gauges := m.gauges ++ [(k, { value := v, ts := ts, src := src, tags := tags })] }
  | "t" =>
    let vs ← pList tok; let sc ← tok; let ts ← pInt; let src ← tok; let tags ← pList tok
    pure { m with timers := m.timers ++ [(k, { values := vs, sampled := sc, ts := ts, src := src, tags := tags })] }
  | "s" =>
    let ms ← pList tok; let ts ← pInt; let src ← tok; let tags ← pList tok
    pure { m with sets := m.sets ++ [(k, { members := ms, ts := ts, src := src, tags := tags })] }
  | _ => failure

def parseMap (groups : List (List String)) : Option (MM V) :=
  (groups.filter (· ≠ [])).foldlM (fun m g => match (pEntry m <* pEnd).run g with
    | some (m', _) => some m'
    | none => none) {}

def renderTags (tags : List String) : String := unwords (toString tags.length :: tags)

def renderMap (m : MM V) : String :=
  let cs := m.counters.map (fun e => unwords ["c", e.1.1, e.1.2, toString e.2.value, toString e.2.ts, e.2.src, renderTags e.2.tags])
  let gs := m.gauges.map (fun e => unwords ["g", e.1.1, e.1.2, e.2.value, toString e.2.ts, e.2.src, renderTags e.2.tags])
  let ts := m.timers.map (fun e => unwords (["t", e.1.1, e.1.2, toString e.2.values.length] ++ e.2.values ++
              [e.2.sampled, toString e.2.ts, e.2.src, renderTags e.2.tags]))
  let ss := m.sets.map (fun e => unwords (["s", e.1.1, e.1.2, toString e.2.members.length] ++ sortStrings e.2.members ++
              [toString e.2.ts, e.2.src, renderTags e.2.tags]))
  let all := sortStrings (cs ++ gs ++ ts ++ ss)
  if all.isEmpty then "-" else " , ".intercalate all

/-- a decoded `RawMessageV2` as the harness prints it: same entry shapes, the timestamp slot is `0` -/
def pPBEntry (p : PBMap V) : P (PBMap V) := do
  let ty ← tok; let name ← tok; let tk ← tok
  let ins {ν} (r : ν) (n : Nested ν) : Nested ν :=
    AList.upsert name (fun o => AList.upsert tk (fun _ => r) (o.getD [])) n
  match ty with
  | "c" =>
    let v ← pInt; let _ ← pInt; let host ← tok; let tags ← pList tok
    pure { p with counters := ins { tags := tags, hostname := host, value := v } p.counters }
  | "g" =>
    let v ← tok; let _ ← pInt; let host ← tok; let tags ← pList tok
    pure { p with gauges := ins { tags := tags, hostname := host, value := v } p.gauges }
  | "t" =>
    let vs ← pList tok; let sc ← tok; let _ ← pInt; let host ← tok; let tags ← pList tok
    pure { p with timers := ins { tags := tags, hostname := host, sampleCount := sc, values := vs } p.timers }
  | "s" =>
    let ms ← pList tok; let _ ← pInt; let host ← tok; let tags ← pList tok
    pure { p with sets := ins { tags := tags, hostname := host, values := ms } p.sets }
  | _ => failure

def parsePB (groups : List (List String)) : Option (PBMap V) :=
  (groups.filter (· ≠ [])).foldlM (fun m g => match (pPBEntry m <* pEnd).run g with
    | some (m', _) => some m'
    | none => none) {}

def pEvent : P Event := do
  let title ← tok; let text ← tok; let date ← pInt; let agg ← tok; let st ← tok; let src ← tok
  let pri ← pNat; let al ← pNat; let tags ← pList tok
  pure { title := title, text := text, date := date, aggKey := agg, srcType := st, tags := tags, source := src,
         priority := pri, alert := al }

/-- a decoded `EventV2`: TITLE TEXT DATE HOST AGG STYPE SOURCEIP PRI TYPE n TAG*n -/
def pPBEvent : P PBEvent := do
  let title ← tok; let text ← tok; let date ← pInt; let host ← tok; let agg ← tok; let st ← tok; let sip ← tok
  let pri ← pInt; let ty ← pInt; let tags ← pList tok
  pure { title := title, text := text, date := date, hostname := host, aggKey := agg, srcType := st, tags := tags,
         sourceIP := sip, priority := pri, type := ty }

def renderEvent (e : Event) : String :=
  unwords (["E", e.title, e.text, toString e.date, e.aggKey, e.srcType, e.source, toString e.priority, toString e.alert] ++
    [renderTags e.tags])

/-! ### configuration and the symbolic library -/

def parseCfg (ct lvl : String) : Option FwdCfg := do
  let l ← lvl.toNat?
  match ct with
  | "off" => some { compress := false, ctype := .zlib, level := l }
  | "none" => some { compress := true, ctype := .none, level := l }
  | "zlib" => some { compress := true, ctype := .zlib, level := l }
  | "dflt" => some { compress := true, ctype := .zlib, level := l }
  | "lz4" => some { compress := true, ctype := .lz4, level := l }
  | _ => none

def tokValid (t : String) : Bool := match bytesOfTok t with | some b => utf8Valid b | none => false

def pbStrings (p : PBMap V) : List String :=
  let f {ν} (n : Nested ν) (g : ν → List String) : List String :=
    n.flatMap (fun e => e.1 :: e.2.flatMap (fun r => r.1 :: g r.2))
  f p.counters (fun r => r.hostname :: r.tags) ++ f p.gauges (fun r => r.hostname :: r.tags) ++
  f p.sets (fun r => r.hostname :: (r.tags ++ r.values)) ++ f p.timers (fun r => r.hostname :: r.tags)

def evStrings (p : PBEvent) : List String := [p.title, p.text, p.hostname, p.aggKey, p.srcType, p.sourceIP] ++ p.tags

/-- a library whose codec is the identity on one message: `[0]` is its serialisation, `[1]` / `[2]` the
zlib / lz4 compressed forms (the hypotheses of `C14_end_to_end_partial` hold by construction);
`proto.Marshal` refuses strings that are not UTF-8 -/
def idLib {Msg} (msg : Msg) (valid : Bool) : Lib Msg where
  marshal := fun _ => if valid then some [0] else none
  unmarshal := fun b => if b = [0] then some msg else none
  deflate := fun _ b => if b = [0] then some [1] else none
  inflate := fun b => if b = [1] then some [0] else none
  lz4c := fun _ b => if b = [0] then some [2] else none
  lz4d := fun b => if b = [2] then some [0] else none

def outLine {Out} (render : Out → String) (enc : String) (r : Nat × List Out) : String :=
  let payload := match r.2 with
    | [] => "-"
    | xs => " & ".intercalate (xs.map render)
  s!"{r.1} {enc} {r.2.length} | {payload}"

/-! ### direct posts with oracle columns -/

structure Oracle (Msg : Type) where
  um : Option Msg            -- unmarshal of the bytes as they are
  zdec : Bool
  zum : Option Msg
  ldec : Bool
  lum : Option Msg

/-- the library as the oracle columns describe it: body `[0]`, inflated `[1]`, un-lz4'd `[2]` -/
def oracleLib {Msg} (o : Oracle Msg) : Lib Msg where
  marshal := fun _ => none
  unmarshal := fun b => if b = [0] then o.um else if b = [1] then o.zum else if b = [2] then o.lum else none
  deflate := fun _ _ => none
  inflate := fun b => if b = [0] ∧ o.zdec then some [1] else none
  lz4c := fun _ _ => none
  lz4d := fun b => if b = [0] ∧ o.ldec then some [2] else none

def parseUm {Msg} (pm : List String → Option Msg) : List String → Option (Option Msg)
  | ["F"] => some none
  | "T" :: rest => (pm rest).map some
  | _ => none

def parseOracle {Msg} (pm : List String → Option Msg) (secs : List (List String)) : Option (Oracle Msg) :=
  match secs with
  | [("I" :: i), ("Z" :: zd :: z), ("L" :: ld :: l)] => do
    let um ← parseUm pm i
    let zum ← parseUm pm z
    let lum ← parseUm pm l
    pure { um := um, zdec := zd = "T", zum := zum, ldec := ld = "T", lum := lum }
  | _ => none

def parseRawMsg (toks : List String) : Option (PBMap V) := parsePB (splitBy ";" toks)
def parseEvMsg (toks : List String) : Option PBEvent :=
  match (pPBEvent <* pEnd).run toks with | some (e, _) => some e | none => none

def decodeEnc (t : String) : Option String :=
  if t = "-" then some "" else (bytesOfTok t).map (fun bs => String.ofList (bs.map (fun b => Char.ofNat b.toNat)))

structure BCase (Msg : Type) where
  rq : Request
  o : Oracle Msg

def parseB {Msg} (pm : List String → Option Msg) (head : List String) (secs : List (List String)) : Option (BCase Msg) :=
  match head with
  | [_, _, enc, rd, _] => do
    let e ← decodeEnc enc
    let o ← parseOracle pm secs
    pure { rq := { body := if rd = "ok" then some [0] else none, encoding := e }, o := o }
  | _ => none

/-! ### model -/

inductive Case where
  | m (cfg : FwdCfg) (mm : MM V)
  | n (cfg : FwdCfg)
  | e (cfg : FwdCfg) (ev : Event)
  | braw (c : BCase (PBMap V))
  | bev (c : BCase PBEvent)

def parseCase (line : String) : Option Case :=
  let toks := tokens line
  match toks with
  | "m" :: ct :: lvl :: rest => do
    let cfg ← parseCfg ct lvl
    let mm ← parseMap (splitBy "," rest)
    pure (.m cfg mm)
  | ["n", ct, lvl] => do pure (.n (← parseCfg ct lvl))
  | "e" :: ct :: lvl :: ";" :: rest => do
    let cfg ← parseCfg ct lvl
    match (pEvent <* pEnd).run rest with
    | some (ev, _) => pure (.e cfg ev)
    | none => none
  | "b" :: _ =>
    match splitBy "|" toks with
    | head :: secs =>
      match head with
      | [_, "raw", _, _, _] => (parseB parseRawMsg head secs).map .braw
      | [_, "event", _, _, _] => (parseB parseEvMsg head secs).map .bev
      | _ => none
    | _ => none
  | _ => none

def mask (m : MM V) : MM V :=
  { counters := m.counters.map (fun e => (e.1, { e.2 with ts := 0 })),
    gauges := m.gauges.map (fun e => (e.1, { e.2 with ts := 0 })),
    timers := m.timers.map (fun e => (e.1, { e.2 with ts := 0 })),
    sets := m.sets.map (fun e => (e.1, { e.2 with ts := 0 })) }

def throughHop {Msg Out} (lib : Lib Msg) (post : Option (String × Bytes)) (tr : Msg → Out) (render : Out → String) : String :=
  match post with
  | none => "NOSEND"
  | some (enc, body) => outLine render enc (ingest lib tr { body := some body, encoding := enc })

def runModel (line : String) : String :=
  match parseCase line with
  | none => "BAD_CASE"
  | some (.m cfg mm) =>
    let pb := toPB mm
    let lib := idLib pb ((pbStrings pb).all tokValid)
    throughHop lib (forwardMap lib cfg mm) (fromPB 0) renderMap
  | some (.n cfg) =>
    let pb : PBMap V := toPB MM.empty
    let lib := idLib pb true
    throughHop lib (constructPost lib cfg pb) (fromPB 0) renderMap
  | some (.e cfg ev) =>
    let pb := eventToPB ev
    let lib := idLib pb ((evStrings pb).all tokValid)
    throughHop lib (constructPost lib cfg pb) eventFromPB renderEvent
  | some (.braw c) => outLine renderMap "-" (ingest (oracleLib c.o) (fromPB 0) c.rq)
  | some (.bev c) => outLine renderEvent "-" (ingest (oracleLib c.o) eventFromPB c.rq)

/-! ### executable specification, evaluated on the implementation's output -/

structure ImplOut where
  status : Nat
  nd : Nat
  payload : String

def parseImpl (s : String) : Option ImplOut :=
  match s.splitOn " | " with
  | [h, p] => match tokens h with
    | [st, _, nd] => do pure { status := ← st.toNat?, nd := ← nd.toNat?, payload := p }
    | _ => none
  | _ => none

def is2xx (n : Nat) : Bool := 200 ≤ n && n < 300
def isErr (n : Nat) : Bool := 400 ≤ n && n < 600

def specDecodes {Msg} (c : BCase Msg) (o : ImplOut) : String :=
  match decodes (oracleLib c.o) c.rq with
  | none =>
    if !isErr o.status then s!"FAIL bad-body-status an undecodable body was answered with {o.status}"
    else if o.nd ≠ 0 then s!"FAIL bad-body-dispatch an undecodable body was dispatched ({o.nd})"
    else "ok"
  | some _ =>
    if !is2xx o.status then s!"FAIL good-body-status a decodable body was answered with {o.status}"
    else if o.nd ≠ 1 then s!"FAIL good-body-dispatch a decodable body was dispatched {o.nd} times"
    else "ok"

def spec (caseLine implLine : String) : String :=
  match parseCase caseLine with
  | none => "BAD_CASE"
  | some c =>
    if implLine.startsWith "PANIC" then "FAIL panic " ++ (implLine.take 80).toString
    else if implLine.startsWith "HANG" then "FAIL hang"
    else if implLine.startsWith "CONNERR" then "FAIL connection the server closed the connection without an answer"
    else if implLine.startsWith "BADTS" then "FAIL timestamp dispatched series do not carry one timestamp taken while the request was served"
    else
    match c with
    | .m _ mm =>
      let valid := (pbStrings (toPB mm)).all tokValid
      if !valid then "ok"     -- outside the property's quantifier (C15 / D8 covers it)
      else if implLine = "NOSEND" then (if mm.isEmpty then "ok" else "FAIL lost the batch never reached the pipeline of the ingesting server")
      else match parseImpl implLine with
        | none => "FAIL shape " ++ (implLine.take 60).toString
        | some o =>
          if !is2xx o.status then s!"FAIL status {o.status}"
          else if o.nd ≠ 1 then s!"FAIL dispatch-count {o.nd}"
          else if o.payload ≠ renderMap (mask mm) then "FAIL content the dispatched map differs from what the forwarder was given"
          else "ok"
    | .n _ =>
      match parseImpl implLine with
      | none => "FAIL shape " ++ (implLine.take 60).toString
      | some o => if is2xx o.status && o.nd = 1 && o.payload = "-" then "ok" else "FAIL nop the start-up post is not an empty, accepted message"
    | .e _ ev =>
      if !(evStrings (eventToPB ev)).all tokValid then "ok" else
      match parseImpl implLine with
      | none => "FAIL shape " ++ (implLine.take 60).toString
      | some o =>
        if !is2xx o.status then s!"FAIL status {o.status}"
        else if o.nd ≠ 1 then s!"FAIL dispatch-count {o.nd}"
        else match (pEvent <* pEnd).run ((tokens o.payload).drop 1) with
          | none => "FAIL shape event"
          | some (got, _) =>
            let sameFields := got.title = ev.title ∧ got.text = ev.text ∧ got.date = ev.date ∧ got.aggKey = ev.aggKey ∧
              got.srcType = ev.srcType ∧ got.tags = ev.tags ∧ got.source = ev.source
            let priOk := if ev.priority ≤ 1 then got.priority = ev.priority else got.priority ≤ 1
            let alOk := if ev.alert ≤ 3 then got.alert = ev.alert else got.alert ≤ 3
            if !decide sameFields then "FAIL event-field an event field changed on the way"
            else if !(decide priOk && decide alOk) then "FAIL event-enum priority / alert type changed on the way"
            else "ok"
    | .braw b => match parseImpl implLine with
      | none => "FAIL shape " ++ (implLine.take 60).toString
      | some o => specDecodes b o
    | .bev b => match parseImpl implLine with
      | none => "FAIL shape " ++ (implLine.take 60).toString
      | some o => specDecodes b o

def main (args : List String) : IO UInt32 := do
  match args with
  | ["model"] => mapLines runModel; return 0
  | ["spec"] =>
    mapLines (fun l => match l.splitOn "\t" with
      | [c, i] => spec c i
      | _ => "BAD_LINE")
    return 0
  | _ => IO.eprintln "usage: gsdmodel C14 (model|spec)"; return 2

end Gsd.Driver.C14
