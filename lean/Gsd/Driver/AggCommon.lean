import Gsd.Model.Aggregator
import Gsd.Driver.Proto
/-!
Shared by the C08 and C04 drivers: the executable `Float` instance of `Num` (the same IEEE operations,
in the same order, as the Go code), and the parsing / rendering of the case head and of a flushed timer.

Case head (blank-separated `K=V` tokens):
  `P=<p,p,…|->`   percentile thresholds (integers)
  `M=<0..32767>`  TimerSubtypes mask, bit i = field i of the struct in source order (1 = disabled)
  `L=<nat>`       timer-histogram-limit
  `I=<ns>`        flush interval in nanoseconds
  `T=<xHEX,…|->`  tags of the series
  `O=<xITEM:FLOAT|xITEM:-,…|->`  what `strconv.ParseFloat(item, 64)` answered (oracle)
-/
namespace Gsd.Driver.AggSt
open Gsd Gsd.Proto

instance : Num Float where
  add a b := a + b
  sub a b := a - b
  mul a b := a * b
  div a b := a / b
  ofNat n := Float.ofNat n
  ofInt i := Float.ofInt i
  lt a b := a < b
  le a b := a ≤ b
  beq a b := a == b
  floor := Float.floor
  toInt x := x.toInt64.toInt
  sqrt := Float.sqrt
  abs := Float.abs
  isNaN := Float.isNaN
  isPosInf x := x.isInf && x > 0

structure Head where
  cfg : AggCfg
  intervalNs : Int
  tags : List Bytes
  oracle : List (Bytes × Option Float)

def kv (toks : List String) (k : String) : Option String :=
  toks.findSome? (fun t => if t.startsWith (k ++ "=") then some ((t.drop (k.length + 1)).toString) else none)

def listOf (s : String) : List String := if s = "-" || s = "" then [] else s.splitOn ","

def maskOfNat (m : Nat) : Mask :=
  let b (i : Nat) : Bool := (m >>> i) % 2 == 1
  { lower := b 0, lowerPct := b 1, upper := b 2, upperPct := b 3, count := b 4, countPct := b 5,
    countPerSecond := b 6, mean := b 7, meanPct := b 8, median := b 9, stdDev := b 10, sum := b 11,
    sumPct := b 12, sumSquares := b 13, sumSquaresPct := b 14 }

def parseHead (toks : List String) : Option Head := do
  let ps ← (listOf (← kv toks "P")).mapM intOfTok
  let m ← natOfTok (← kv toks "M")
  let l ← natOfTok (← kv toks "L")
  let i ← intOfTok (← kv toks "I")
  let tags ← (listOf (← kv toks "T")).mapM bytesOfTok
  let orc ← (listOf (← kv toks "O")).mapM (fun e => match e.splitOn ":" with
    | [k, v] => do
      let kb ← bytesOfTok k
      if v = "-" then pure (kb, none) else do
        let f ← floatOfTok v
        pure (kb, some f)
    | _ => none)
  pure { cfg := { pcts := ps, mask := maskOfNat m, limit := l }, intervalNs := i, tags := tags, oracle := orc }

def Head.parse (h : Head) (item : Bytes) : Option Float :=
  match h.oracle.find? (fun e => e.1 == item) with
  | some (_, r) => r
  | none => none

/-- every item the model can ask `ParseFloat` about must be in the oracle table -/
def Head.oracleComplete (h : Head) : Bool :=
  match findTag histPrefix h.tags with
  | none => true
  | some tag => (splitOn histSep (tag.drop histPrefix.length)).all (fun it => h.oracle.any (fun e => e.1 == it))

/-- `float64(flushInterval) / float64(time.Second)` -/
def Head.secs (h : Head) : Float := Float.ofInt h.intervalNs / Float.ofInt 1000000000

def boundBits (b : Bound Float) : String :=
  match b with
  | .fin x => tokOfFloat x
  | .inf => "7ff0000000000000"

def renderPcts (ps : List (List Char × Float)) : String :=
  let es := ps.map (fun e => String.ofList e.1 ++ ":" ++ tokOfFloat e.2)
  "[" ++ ",".intercalate (sortStrings es) ++ "]"

def renderHist (h : Option (Hist Float)) : String :=
  match h with
  | none => "nil"
  | some h => "[" ++ ",".intercalate (sortStrings (h.map (fun e => boundBits e.1 ++ ":" ++ toString e.2))) ++ "]"

/-- canonical rendering of the observed fields of a flushed timer -/
def renderTimer (t : ATimer Float) : String :=
  s!"count={t.count} sc={tokOfFloat t.sampledCount} ps={tokOfFloat t.perSecond} mean={tokOfFloat t.mean} " ++
  s!"median={tokOfFloat t.median} min={tokOfFloat t.min} max={tokOfFloat t.max} std={tokOfFloat t.stdDev} " ++
  s!"sum={tokOfFloat t.sum} sumsq={tokOfFloat t.sumSquares} pct={renderPcts t.percentiles} hist={renderHist t.histogram}"

/-- `SampledCount` of one received batch: `1.0/rate`, then `+= 1.0/rate` in arrival order (receiveTimer) -/
def batchSampled : List Float → Float
  | [] => 0
  | r :: rs => rs.foldl (fun acc r => acc + 1.0 / r) (1.0 / r)

end Gsd.Driver.AggSt
