import Gsd.Model.Backends
import Gsd.Driver.Proto
/-!
Driver for C17.

Case line (items separated by ` ; `):
  item 0   `<backend> B=<n> m=<9 bits> det=<0|1> z=<0|1> gm=<mode> gp= gc= gt= gg= gs= gx= nr=<mode> oh=<0|1> rk=<x,x> nt=<0|1> tcp=<0|1>`
  item k   one flushed series:
     `c NAME SRC TAGSKEY ntags TAG* V(value) V(rate)`
     `g NAME SRC TAGSKEY ntags TAG* V(value)`
     `s NAME SRC TAGSKEY ntags TAG* V(cardinality) nmem MEMBER*`
     `t NAME SRC TAGSKEY ntags TAG* hist nb (LE thrbits inf V(count))* V×10(count rate min max mean median std sum sumsq nvals) np (PNAME V)* nv V*`
  `V` = three tokens: float64 bits, bits after `%f`, hex of the printed text (formatter oracle).
  `event ; e TITLE TEXT date HOST AGGKEY SRCTYPE pri alert ntags TAG*` for the relay's events.

Output line: `R <record>* | B <size>* | O <bytes/lines>* | E <n>` — everything order-free (sorted):
the records parsed back from all payloads of the flush, the payload sizes where the case determines
them, the over-size relay datagrams, and the number of payloads with a syntax error.
-/
namespace Gsd.Driver.C17
open Gsd Gsd.Proto Gsd.Backends

abbrev P := StateT (List String) Option

def tok : P String := do
  match (← get) with
  | [] => failure
  | t :: r => set r; pure t

def strTok : P String := do
  let t ← tok
  match bytesOfTok t with
  | some bs => pure (String.fromUTF8! (ByteArray.mk bs.toArray))
  | none => failure

def natTok : P Nat := do
  match (← tok).toNat? with
  | some n => pure n
  | none => failure

def vTok : P V := do
  let e ← tok
  let f ← tok
  let ft ← strTok
  pure { e, f, ft }

def many {α : Type} (n : Nat) (p : P α) : P (List α) := do
  let mut out := []
  for _ in [0:n] do
    out := out ++ [← p]
  pure out

def headP (k : Kind) : P Series := do
  let name ← strTok
  let source ← strTok
  let tagsKey ← strTok
  let tags ← many (← natTok) strTok
  pure { kind := k, name, source, tagsKey, tags }

def seriesP : P Series := do
  match (← tok) with
  | "c" =>
    let s ← headP .counter
    let value ← vTok
    let rate ← vTok
    pure { s with value, rate }
  | "g" =>
    let s ← headP .gauge
    let value ← vTok
    pure { s with value }
  | "s" =>
    let s ← headP .set
    let value ← vTok
    let members ← many (← natTok) strTok
    pure { s with value, members }
  | "t" =>
    let s ← headP .timer
    let isHist ← natTok
    let bs ← many (← natTok) (do
      let le ← strTok
      let _thr ← tok
      let inf ← natTok
      let count ← vTok
      pure ({ le, inf := inf == 1, count } : Bucket))
    let count ← vTok
    let rate ← vTok
    let min ← vTok
    let max ← vTok
    let mean ← vTok
    let median ← vTok
    let std ← vTok
    let sum ← vTok
    let sumSquares ← vTok
    let nvals ← vTok
    let pcts ← many (← natTok) (do
      let name ← strTok
      let v ← vTok
      pure ({ name, v } : Pct))
    let values ← many (← natTok) vTok
    pure { s with hist := if isHist == 1 then some bs else none, count, rate, min, max, mean, median, std, sum,
                  sumSquares, nvals, pcts, values }
  | _ => failure

def eventP : P Event := do
  let "e" ← tok | failure
  let title ← strTok
  let text ← strTok
  let date ← natTok
  let host ← strTok
  let aggKey ← strTok
  let srcType ← strTok
  let pri ← natTok
  let alert ← natTok
  let tags ← many (← natTok) strTok
  pure { title := title.toList, text := text.toList, date, host := host.toList, aggKey := aggKey.toList,
         srcType := srcType.toList, pri, alert, tags := tags.map String.toList }

def bit (s : String) (i : Nat) : Bool := (s.toList[i]?.getD '0') == '1'

def cfgOf (toks : List String) : Option (Cfg × Bool) := do
  let b ← toks.head?
  let backend ← (match b with
    | "datadog" => some Backend.datadog | "influxdb" => some .influxdb | "graphite" => some .graphite
    | "newrelic" => some .newrelic | "otlp" => some .otlp | "cloudwatch" => some .cloudwatch
    | "statsdaemon" => some .statsdaemon | "stdout" => some .stdout | _ => none)
  let kv (k : String) : Option String :=
    (toks.find? (fun t => t.startsWith (k ++ "="))).map (fun t => (t.drop (k.length + 1)).toString)
  let str (k : String) : Option String := do
    let t ← kv k
    let bs ← bytesOfTok t
    pure (String.fromUTF8! (ByteArray.mk bs.toArray))
  let m ← kv "m"
  let mask : Mask := { lower := bit m 0, upper := bit m 1, count := bit m 2, countPs := bit m 3, mean := bit m 4,
                       median := bit m 5, std := bit m 6, sum := bit m 7, sumSquares := bit m 8 }
  let batch ← (← kv "B").toNat?
  let gmode ← (match (← kv "gm") with
    | "legacy" => some GMode.legacy | "basic" => some .basic | "tags" => some .tags | _ => none)
  let nrMode ← (match (← kv "nr") with
    | "infra" => some NRMode.infra | "insights" => some .insights | "metrics" => some .metrics | _ => none)
  let rkTok ← kv "rk"
  let rks ← (if rkTok = "-" then some [] else (rkTok.splitOn ",").mapM (fun t => do
    let bs ← bytesOfTok t
    pure (String.fromUTF8! (ByteArray.mk bs.toArray))))
  let tcp := (kv "tcp") == some "1"
  let c : Cfg := {
    backend, mask, batch, gmode, nrMode,
    gPrefix := ← str "gp", gCounter := ← str "gc", gTimer := ← str "gt", gGauge := ← str "gg", gSet := ← str "gs",
    gSuffix := ← str "gx",
    otlpHist := (kv "oh") == some "1", resourceKeys := rks, noTags := (kv "nt") == some "1",
    packet := if tcp then Gsd.Facts.maxTCPPacketSize else Gsd.Facts.maxUDPPacketSize }
  pure (c, (kv "det") == some "1")

structure Case where
  cfg : Cfg
  det : Bool
  view : List Series

inductive AnyCase
  | metrics (c : Case)
  | event (e : Event)
  | noEvent            -- `event` without its item (what the shrinker produces): nothing is sent

def parseCase (line : String) : Option AnyCase := do
  let items := splitBy ";" (tokens line)
  match items with
  | [["event"]] => pure .noEvent
  | ["event"] :: [ev] => do
    let (e, rest) ← eventP.run ev
    if rest ≠ [] then none else pure (.event e)
  | head :: rest => do
    let (cfg, det) ← cfgOf head
    let view ← rest.mapM (fun it => do
      if it.isEmpty then none else
      let (s, r) ← seriesP.run it
      if r ≠ [] then none else pure s)
    pure (.metrics { cfg, det, view })
  | [] => none

def hexS (s : String) : String := tokOfBytes s.toUTF8.toList

def recTok (r : Record) : String :=
  hexS r.name ++ ":" ++ hexS r.kind ++ ":" ++ hexS r.value ++ ":" ++
  (if r.tags.isEmpty then "-" else ",".intercalate (r.tags.map hexS)) ++ ":" ++ hexS r.host

def natSort (l : List Nat) : List Nat := (l.toArray.qsort (· < ·)).toList

/-- payload sizes (in records; influxdb: in lines) the model predicts, where the case determines them -/
def sizes (c : Case) : Option (List Nat) :=
  let gs := unitGroups c.cfg c.view
  match c.cfg.backend with
  | .influxdb => some ((countBatches c.cfg.batch gs.flatten []).map List.length)
  | .otlp => some ((otlpBatches c.cfg.batch gs.flatten []).map List.length)
  | .cloudwatch => some ((cwChunks gs.flatten).map List.length)
  | .datadog =>
    if c.det then some ((slackBatches flushSlack c.cfg.batch gs []).map List.length) else none
  | .newrelic =>
    if c.det then some ((slackBatches nrFlushSlack c.cfg.batch gs []).map List.length) else none
  | .statsdaemon =>
    if c.det && c.cfg.packet == Gsd.Facts.maxUDPPacketSize then some ((relayDatagrams c.cfg c.view).map List.length) else none
  | _ => none

/-- over-size relay datagrams `bytes/lines` (UDP only) -/
def oversize (c : Case) : List String :=
  match c.cfg.backend with
  | .statsdaemon =>
    if c.cfg.packet == Gsd.Facts.maxUDPPacketSize then
      sortStrings (((relayDatagrams c.cfg c.view).filter (fun d => totalLen List.length d > c.cfg.packet)).map
        (fun d => s!"{totalLen List.length d}/{d.length}"))
    else []
  | _ => []

def decL (n : Nat) : Line := (toString n).toList

def eventOutLen (e : Event) (len : Nat) : String :=
  let h (l : Line) := hexS (String.ofList l)
  s!"EV {h e.title} {h e.text} {e.date} {h e.host} {h e.aggKey} {h e.srcType} {e.pri} {e.alert} " ++
    (if e.tags.isEmpty then "-" else ",".intercalate (e.tags.map h)) ++ s!" len={len}"

/-- what the property expects the receiver to read: the event itself -/
def eventOut (e : Event) : String := eventOutLen e (eventMessage decL e).length

/-- what the *model* of the lexer reads from the *model* of the relay's message -/
def eventModel (e : Event) : String :=
  let msg := eventMessage decL e
  match parseEvent msg with
  | some e' => eventOutLen e' msg.length
  | none => "EV_MODEL_REJECTS"

/-- statsd relay: the records the *model of the lexer* (`parseLine`) reads from the *model of the relay's
lines* (`relayLines`); printed numbers are mapped back to value tokens through the case's formatter oracle.
By `C17_relay_roundtrip` this is `relayEmit`; running it ties `parseLine` to the real lexer on every case. -/
def relayRecords (c : Cfg) (s : Series) : List Record :=
  let table : List (String × String) := match s.kind with
    | .counter => [(s.value.ft, s.value.e)]
    | .gauge => [(s.value.ft, s.value.f)]
    | .timer => s.values.map (fun v => (v.ft, v.f))
    | .set => []
  (relayLines c s).map (fun l =>
    match parseLine l.dropLast with
    | none => { key := s.key, sub := .value, name := "MODEL_LEXER_REJECTS", kind := "", value := String.ofList l, tags := [], host := "" }
    | some p =>
      let txt := String.ofList p.value
      let kind := match p.ty with | .c => "c" | .g => "g" | .ms => "ms" | .s => "s"
      let value := if p.ty = .s then txt else ((table.find? (fun e => e.1 = txt)).map (·.2)).getD "ORACLE_MISS"
      { key := s.key, sub := .value, name := String.ofList p.name, kind, value,
        tags := sortStr (p.tags.map String.ofList), host := "" })

def modelRecords (c : Case) : List Record :=
  match c.cfg.backend with
  | .statsdaemon => (order .statsdaemon).flatMap (fun k => (c.view.filter (fun s => s.kind = k)).flatMap (relayRecords c.cfg))
  | _ => expand c.cfg c.view

def renderModel (c : Case) : String :=
  let rs := sortStrings ((modelRecords c).map recTok)
  let b := match sizes c with
    | some l => " ".intercalate ((natSort l).map toString)
    | none => "-"
  "R " ++ " ".intercalate rs ++ " | B " ++ b ++ " | O " ++ " ".intercalate (oversize c) ++ " | E 0"

def runModel (line : String) : String :=
  match parseCase line with
  | none => "BAD_CASE"
  | some (.event e) => eventModel e
  | some .noEvent => "EV_NONE"
  | some (.metrics c) => renderModel c

/-- first element of `a` (sorted) that is missing from `b` (sorted), counting multiplicity -/
def firstMissing : List String → List String → Option String
  | [], _ => none
  | x :: _, [] => some x
  | x :: xs, y :: ys => if x = y then firstMissing xs ys else if x < y then some x else firstMissing (x :: xs) ys
termination_by a b => a.length + b.length

def showRec (t : String) : String :=
  let parts := t.splitOn ":"
  let un (p : String) : String := match bytesOfTok p with
    | some bs => String.fromUTF8! (ByteArray.mk bs.toArray)
    | none => p
  " ".intercalate (parts.map (fun p => if p = "-" then "-" else ",".intercalate ((p.splitOn ",").map un)))

/-- The property's executable specification on the implementation's output. -/
def spec (caseLine implLine : String) : String :=
  match parseCase caseLine with
  | none => "BAD_CASE"
  | some .noEvent => if implLine = "EV_NONE" then "ok" else s!"FAIL event-roundtrip got {implLine}"
  | some (.event e) =>
    if implLine = eventOut e then "ok" else s!"FAIL event-roundtrip got {implLine.take 300}"
  | some (.metrics c) =>
    if implLine.startsWith "PANIC" || implLine.startsWith "HANG" || implLine.startsWith "CRASH" then s!"FAIL crash {implLine}" else
    match (implLine.splitOn " | ").map tokens with
    | ["R" :: recs, "B" :: bs, "O" :: os, ["E", e]] =>
      if e ≠ "0" then s!"FAIL syntax {e} payload(s) did not parse" else
      let want := sortStrings ((expand c.cfg c.view).map recTok)
      let got := sortStrings recs
      match firstMissing want got with
      | some r => s!"FAIL exactly-once missing-or-altered {showRec r}"
      | none =>
      match firstMissing got want with
      | some r => s!"FAIL exactly-once extra-or-repeated {showRec r}"
      | none =>
      -- every expected record must carry a value
      match (expand c.cfg c.view).find? (fun r => r.value = noValue) with
      | some r => s!"FAIL value-missing {r.name} {r.kind}"
      | none =>
      let sz := bs.filterMap String.toNat?
      let limit : Option Nat := match c.cfg.backend with
        | .influxdb | .otlp => some c.cfg.batch
        | .cloudwatch => some 20   -- the property's hard limit, not the code's constant
        | _ => none
      match limit, sz.find? (fun n => match limit with | some l => n > l | none => false) with
      | some l, some n => s!"FAIL limit payload of {n} > {l}"
      | _, _ =>
      match os.find? (fun o => !(o.endsWith "/1")) with
      | some o => s!"FAIL limit datagram {o} exceeds the packet size with more than one line"
      | none => "ok"
    | _ => s!"FAIL malformed-output {implLine.take 80}"

def main (args : List String) : IO UInt32 := do
  match args with
  | ["model"] => mapLines runModel; return 0
  | ["spec"] =>
    mapLines (fun l => match l.splitOn "\t" with
      | [c, i] => spec c i
      | _ => "BAD_LINE")
    return 0
  | _ => IO.eprintln "usage: gsdmodel C17 (model|spec)"; return 2

end Gsd.Driver.C17
