import Gsd.Model.Forward
import Gsd.Driver.Proto
/-!
Driver for C15.  Case (items separated by ` ; `):

  `cfg S D CM MR ME F nH H*nH nX X*nX`   slots, dispatcher goroutines, concurrent-merge, max-requests,
                                          max-request-elapsed-time in ms (−1 = retries disabled), flush mode
                                          (`manual` | `ticker`), dynamic header names, static (custom) header names
  `s IDX TY NAME TKEY SRC n TAG*n`        a series (TY ∈ c t g s); strings as hex tokens (arbitrary bytes)
  `r SCRIPT* | d W id:ser … | c W id:ser …`   one round: the upstream's per-attempt outcome script for every body
                                          of this round, then dispatches: `d` returns before the flush is triggered,
                                          `c` races with it; W = dispatcher goroutine

Datapoint `id` (unique in the case, < 60) of series `ser`: counter value 2^id, timer value id, gauge value id,
set member `m<id>`; timestamp id+1.  A datapoint naming an undefined series is ignored.

Output (sections separated by ` | `):
  `nop=N`
  bodies carrying pre-flush datapoints, sorted by smallest id, ` ; `-separated (or `-`):
     `B hv=V,… pre=ids g=ids att=collapsed-outcomes fin=sent|gaveup one=ok|BAD|na early=ok|BAD|na`
  `race n=N once=… place=… hdr=… att=…`      verdicts about racing datapoints (computed by the harness)
  `ctr created=… sent=… dropped=… retried=… invalid=N`
  `lost=ids dup=ids junk=N resend=ok|BAD`
-/
namespace Gsd.Driver.C15
open Gsd Gsd.Proto

/-- byte strings as Lean strings: one char per byte (injective; `,` `:` `_` keep their codes) -/
def unTok (t : String) : Option String := (bytesOfTok t).map (fun bs => String.ofList (bs.map (fun b => Char.ofNat b.toNat)))
def toTok (s : String) : String := tokOfBytes (s.toList.map (fun c => UInt8.ofNat c.toNat))
def validStr (s : String) : Bool := utf8Valid (s.toList.map (fun c => UInt8.ofNat c.toNat))

structure Cfg where
  slots : Nat
  disp : Nat
  cm : Nat
  mr : Nat
  me : Int
  mode : String
  dyn : List String
  static : List String

structure Series where
  idx : Nat
  ty : String
  name : String
  tkey : String
  src : String
  tags : List String

structure Dispatch where
  racing : Bool
  worker : Nat
  dps : List (Nat × Nat)      -- (id, series index)

structure Round where
  script : List String
  ds : List Dispatch

structure Case where
  cfg : Cfg
  series : List Series
  rounds : List Round

def parseDp (t : String) : Option (Nat × Nat) :=
  match t.splitOn ":" with
  | [a, b] => do pure (← a.toNat?, ← b.toNat?)
  | _ => none

def parseDispatch (toks : List String) : Option Dispatch :=
  match toks with
  | k :: w :: rest =>
    if k = "d" ∨ k = "c" then do
      let w ← w.toNat?
      let dps ← rest.mapM parseDp
      pure { racing := k = "c", worker := w, dps := dps }
    else none
  | _ => none

def takeN (n : Nat) (l : List String) : Option (List String × List String) :=
  if l.length < n then none else some (l.take n, l.drop n)

def parseCfg (toks : List String) : Option Cfg :=
  match toks with
  | s :: d :: cm :: mr :: me :: f :: nh :: rest => do
    let nh ← nh.toNat?
    let (hs, rest) ← takeN nh rest
    match rest with
    | nx :: rest => do
      let nx ← nx.toNat?
      let (xs, rest) ← takeN nx rest
      if rest ≠ [] then none
      pure { slots := ← s.toNat?, disp := ← d.toNat?, cm := ← cm.toNat?, mr := ← mr.toNat?, me := ← me.toInt?, mode := f,
             dyn := ← hs.mapM unTok, static := ← xs.mapM unTok }
    | _ => none
  | _ => none

def parseCase (line : String) : Option Case := do
  let items := splitBy ";" (tokens line)
  match items with
  | ("cfg" :: c) :: rest =>
    let cfg ← parseCfg c
    let mut series : List Series := []
    let mut rounds : List Round := []
    for it in rest do
      match it with
      | "s" :: idx :: ty :: name :: tk :: src :: n :: tags =>
        let n ← n.toNat?
        if tags.length ≠ n then none
        series := series ++ [{ idx := ← idx.toNat?, ty := ty, name := ← unTok name, tkey := ← unTok tk, src := ← unTok src,
                               tags := ← tags.mapM unTok }]
      | "r" :: body =>
        match splitBy "|" body with
        | script :: ds =>
          let ds ← ds.mapM parseDispatch
          rounds := rounds ++ [{ script := script, ds := ds }]
        | [] => none
      | [] => pure ()
      | _ => none
    pure { cfg := cfg, series := series, rounds := rounds }
  | _ => none

def findSeries (c : Case) (i : Nat) : Option Series := c.series.find? (fun s => s.idx == i)

/-! ### the model of one flush -/

abbrev M := MM Int

def single (s : Series) (id : Nat) : M :=
  let k : Key := (s.name, s.tkey)
  let ts : Int := id + 1
  if s.ty = "c" then { counters := [(k, { value := (2 ^ id : Nat), ts := ts, src := s.src, tags := s.tags })] }
  else if s.ty = "t" then { timers := [(k, { values := [(id : Int)], sampled := 1, ts := ts, src := s.src, tags := s.tags })] }
  else if s.ty = "g" then { gauges := [(k, { value := (id : Int), ts := ts, src := s.src, tags := s.tags })] }
  else { sets := [(k, { members := [s!"m{id}"], ts := ts, src := s.src, tags := s.tags })] }

def dispatchMap (c : Case) (d : Dispatch) : M :=
  MM.mergeMaps (d.dps.filterMap (fun p => (findSeries c p.2).map (fun s => single s p.1)))

def bitsOf (v : Int) : List Nat := (List.range 62).filter (fun i => v.toNat.testBit i)

def memberId (m : String) : Option Nat := if m.startsWith "m" then (m.drop 1).toString.toNat? else none

/-- the ids a body carries: (counter bits, timer values, set members) and the gauge values -/
def bodyIds (b : M) : List Nat × List Nat :=
  let cs := b.counters.flatMap (fun e => bitsOf e.2.value)
  let ts := b.timers.flatMap (fun e => e.2.values.map Int.toNat)
  let ss := b.sets.flatMap (fun e => e.2.members.filterMap memberId)
  (cs ++ ts ++ ss, b.gauges.map (fun e => e.2.value.toNat))

def sortNat (l : List Nat) : List Nat := (l.toArray.qsort (· < ·)).toList

def idsStr (l : List Nat) : String := if l.isEmpty then "-" else ",".intercalate ((sortNat l).map toString)

def okKind (t : String) : Bool := t = "200" || t = "202" || t = "d200" || t = "t200"

def collapse : List String → List String
  | a :: b :: t => if a = b then collapse (b :: t) else a :: collapse (b :: t)
  | l => l

/-- the attempts the model predicts: retries disabled → the first outcome only; otherwise up to the first
success (the generator keeps all-failure scripts to one repeated kind, so the collapsed form does not
depend on how many attempts fit into the window) -/
def predictAtt (me : Int) (script : List String) : List String :=
  if me < 0 then script.take 1
  else
    let rec upto : List String → List String
      | [] => []
      | a :: t => if okKind a then [a] else a :: upto t
    collapse (upto script)

def names (c : Case) : List String := dynNamesWithColon c.cfg.static c.cfg.dyn

def hdrName (h : String) : String := String.ofList (h.toList.map (fun ch => if ch = '_' then '-' else ch))

/-- the value the upstream must see for every configured (non-empty) dynamic header name -/
def expectedHv (c : Case) (K : String) : List String :=
  (c.cfg.dyn.filter (· ≠ "")).map (fun h =>
    if c.cfg.static.contains h then toTok "static"
    else match ((dynHeaders K).filter (fun p => p.1 = hdrName h)).getLast? with
      | some p => toTok p.2
      | none => "-")

structure BodyLine where
  hv : List String
  pre : List Nat
  g : List Nat
  att : List String
  fin : String
  one : String
  early : String := "na"

def renderBody (b : BodyLine) : String :=
  s!"B hv={if b.hv.isEmpty then "none" else ",".intercalate b.hv} pre={idsStr b.pre} g={idsStr b.g} att={",".intercalate b.att} fin={b.fin} one={b.one} early={b.early}"

def minId (b : BodyLine) : Nat := (sortNat (b.pre ++ b.g)).headD 0

/-- (body lines, lost ids, number of invalid messages) of one round's pre-flush dispatches -/
def roundModel (c : Case) (r : Round) : List BodyLine × List Nat × Nat :=
  let merged := MM.mergeMaps ((r.ds.filter (fun d => !d.racing)).map (dispatchMap c))
  let bodies := flushBodies d8Fixed validStr (names c) merged
  let pieces := (splitByTags (names c) merged).filter (fun p => !p.2.isEmpty)
  bodies.foldl (fun (acc : List BodyLine × List Nat × Nat) p =>
    match p.2 with
    | some b =>
      let ids := bodyIds b
      -- with the repair, the offending series are left out of the body: their ids are lost
      let full := match AList.lookup p.1 pieces with | some m => bodyIds m | none => ids
      let lostHere := (full.1 ++ full.2).filter (fun i => !(ids.1 ++ ids.2).contains i)
      let att := predictAtt c.cfg.me r.script
      let fin := if att.getLast?.map okKind = some true then "sent" else "gaveup"
      (acc.1 ++ [{ hv := expectedHv c p.1, pre := ids.1, g := ids.2, att := att, fin := fin,
                   one := if c.cfg.me < 0 then "ok" else "na",
                   early := if fin = "gaveup" ∧ c.cfg.me ≥ 5000 then "ok" else "na" }], acc.2.1 ++ lostHere, acc.2.2)
    | none =>
      let full := match AList.lookup p.1 pieces with | some m => bodyIds m | none => ([], [])
      (acc.1, acc.2.1 ++ full.1 ++ full.2, acc.2.2 + 1)) ([], [], 0)

def racingCount (c : Case) : Nat :=
  (c.rounds.flatMap (fun r => (r.ds.filter (·.racing)).flatMap (fun d => d.dps.filter (fun p => (findSeries c p.2).isSome)))).length

def runModel (line : String) : String :=
  match parseCase line with
  | none => "BAD_CASE"
  | some c =>
    let rs := c.rounds.map (roundModel c)
    let bodies := (rs.flatMap (·.1)).filter (fun b => !(b.pre ++ b.g).isEmpty)
    let sorted := (bodies.toArray.qsort (fun a b => minId a < minId b)).toList
    let lost := rs.flatMap (·.2.1)
    let invalid := (rs.map (·.2.2)).foldl (· + ·) 0
    let bs := if sorted.isEmpty then "-" else " ; ".intercalate (sorted.map renderBody)
    s!"nop=1 | {bs} | race n={racingCount c} once=ok place=ok hdr=ok att=ok | ctr created=ok sent=ok dropped=ok retried=ok invalid={invalid} | lost={idsStr lost} dup=- junk=0 resend=ok"

/-! ### executable specification on the implementation's output -/

def kv (tok key : String) : Option String := if tok.startsWith (key ++ "=") then some (tok.drop (key.length + 1)).toString else none

def parseIds (s : String) : Option (List Nat) := if s = "-" then some [] else (s.splitOn ",").mapM String.toNat?

def parseBody (toks : List String) : Option BodyLine :=
  match toks with
  | ["B", hv, pre, g, att, fin, one, early] => do
    let hv ← kv hv "hv"; let pre ← kv pre "pre"; let g ← kv g "g"; let att ← kv att "att"; let fin ← kv fin "fin"; let one ← kv one "one"
    let early ← kv early "early"
    pure { hv := if hv = "none" then [] else hv.splitOn ",", pre := ← parseIds pre, g := ← parseIds g,
           att := att.splitOn ",", fin := fin, one := one, early := early }
  | _ => none

/-- is `obs` (collapsed) a legal run on `script`: a prefix of the collapsed script cut at its first success -/
def legalAtt (me : Int) (script obs : List String) (fin : String) : Bool :=
  let rec upto : List String → List String
    | [] => []
    | a :: t => if okKind a then [a] else a :: upto t
  -- beyond the end of the script the last outcome repeats
  let full := collapse (upto script)
  let isPrefix := obs.isPrefixOf full
  let lastOk := obs.getLast?.map okKind = some true
  let noEarlyOk := (obs.dropLast.all (fun a => !okKind a))
  !obs.isEmpty && isPrefix && noEarlyOk && (if fin = "sent" then lastOk else fin = "gaveup" && !lastOk) &&
  (if me < 0 then obs.length = 1 else true)

/-- the series of datapoint `id` -/
def seriesOfId (c : Case) (id : Nat) : Option Series :=
  (c.rounds.flatMap (fun r => r.ds.flatMap (·.dps))).find? (fun p => p.1 == id) |>.bind (fun p => findSeries c p.2)

def seriesValid (s : Series) : Bool := validStr s.name && validStr s.tkey && validStr s.src && s.tags.all validStr

def spec (caseLine implLine : String) : String :=
  match parseCase caseLine with
  | none => "BAD_CASE"
  | some c =>
    if implLine.startsWith "PANIC" then "FAIL panic " ++ (implLine.take 100).toString
    else if implLine.startsWith "HANG" then "FAIL hang the forwarder did not become quiescent"
    else if implLine.startsWith "SKIPPED" then "ok"      -- not evaluated: another case of the run hung (reported there)
    else
    match implLine.splitOn " | " with
    | [nop, bodies, race, ctr, tail] =>
      if nop ≠ "nop=1" then s!"FAIL nop {nop}" else
      let blines := if bodies = "-" then some [] else (bodies.splitOn " ; ").mapM (fun b => parseBody (tokens b))
      match blines with
      | none => "FAIL shape bodies"
      | some bl =>
        -- expected partition of the pre-flush datapoints: by round and by the header key of the series
        let exp := c.rounds.map (fun r =>
          let merged := MM.mergeMaps ((r.ds.filter (fun d => !d.racing)).map (dispatchMap c))
          ((splitByTags (names c) merged).filter (fun p => !p.2.isEmpty)).map (fun p => (p.1, bodyIds p.2, r.script)))
        let expAll := exp.flatMap id
        -- a body is one expected group; the only datapoints that may be missing from it are those of series the
        -- wire format cannot carry (they are then reported in `lost`)
        let invalidId (i : Nat) : Bool := match seriesOfId c i with | some s => !seriesValid s | none => false
        let isGroup (e : List Nat × List Nat) (b : BodyLine) : Bool :=
          b.pre.all (e.1.contains ·) && b.g.all (e.2.contains ·) &&
          (e.1.filter (fun i => !b.pre.contains i)).all invalidId && (e.2.filter (fun i => !b.g.contains i)).all invalidId &&
          !(b.pre ++ b.g).isEmpty
        -- every observed body is one expected group
        let badBody := bl.find? (fun b =>
          !(expAll.any (fun e => isGroup e.2.1 b)))
        let badHdr := bl.find? (fun b => match expAll.find? (fun e => isGroup e.2.1 b) with
          | some e => expectedHv c e.1 != b.hv
          | none => false)
        let badAtt := bl.find? (fun b => match expAll.find? (fun e => isGroup e.2.1 b) with
          | some e => !legalAtt c.cfg.me e.2.2 b.att b.fin || (c.cfg.me < 0 && b.one ≠ "ok")
          | none => false)
        let tailT := tokens tail
        let lost := (tailT.findSome? (kv · "lost")).bind parseIds
        let dup := tailT.findSome? (kv · "dup")
        let junk := tailT.findSome? (kv · "junk")
        let resend := tailT.findSome? (kv · "resend")
        let ctrT := tokens ctr
        let raceT := tokens race
        let bad (ts : List String) (ks : List String) : Option String :=
          ks.findSome? (fun k => match ts.findSome? (kv · k) with
            | some "ok" => none
            | some v => some s!"{k}={v}"
            | none => some s!"{k} missing")
        match lost with
        | none => "FAIL shape lost"
        | some lost =>
          -- a lost datapoint of a series whose own strings are fine: isolation (D8) when some *other* series of the
          -- same flush and header key is unserialisable, plain loss otherwise
          let lostValid := lost.filter (fun i => match seriesOfId c i with | some s => seriesValid s | none => true)
          let invalidPresent := c.series.any (fun s => !seriesValid s)
          if !lostValid.isEmpty then
            (if invalidPresent then s!"FAIL isolation datapoints {idsStr lostValid} of valid series were lost with another series' unserialisable string"
             else s!"FAIL lost datapoints {idsStr lostValid} are in no request body")
          else if dup ≠ some "-" then s!"FAIL duplicate datapoints in more than one distinct body: {dup.getD "?"}"
          else if junk ≠ some "0" then s!"FAIL junk bodies carried data that was never dispatched ({junk.getD "?"})"
          else if resend ≠ some "ok" then "FAIL resend a body was sent again after a successful attempt"
          else if let some b := bl.find? (fun b => b.early.startsWith "BAD") then
            s!"FAIL early-abandon body pre={idsStr b.pre} was given up after {b.early} although the retry window is {c.cfg.me} ms"
          else match badBody, badHdr, badAtt with
          | some b, _, _ => s!"FAIL partition body pre={idsStr b.pre} g={idsStr b.g} is not the set of one flush's series with one header key"
          | _, some b, _ => s!"FAIL header body pre={idsStr b.pre} carries {",".intercalate b.hv}"
          | _, _, some b => s!"FAIL attempts body pre={idsStr b.pre} att={",".intercalate b.att} fin={b.fin}"
          | none, none, none =>
            match bad raceT ["once", "place", "hdr", "att"], bad ctrT ["created", "sent", "dropped", "retried"] with
            | some w, _ => s!"FAIL race {w}"
            | _, some w => s!"FAIL counters {w}"
            | none, none =>
              -- every expected group that is serialisable must have been seen (its ids are not lost: checked above)
              "ok"
    | _ => "FAIL shape " ++ (implLine.take 80).toString

def main (args : List String) : IO UInt32 := do
  match args with
  | ["model"] => mapLines runModel; return 0
  | ["spec"] =>
    mapLines (fun l => match l.splitOn "\t" with
      | [c, i] => spec c i
      | _ => "BAD_LINE")
    return 0
  | _ => IO.eprintln "usage: gsdmodel C15 (model|spec)"; return 2

end Gsd.Driver.C15
