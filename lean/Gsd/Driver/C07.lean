import Gsd.Driver.MMCodec
/-!
Driver for C07.  Case:  `k k2 ; m SLOT entry , entry … ; d SLOT dp , dp … ; …`
The program is run three ways (all on the same received items):
  R1 = consolidator with `k` slots, ops in the given order and slots          (`Consolidator.drainMerged`)
  R2 = consolidator with `k2` slots, ops reversed, slot of op i = 7·i+3        (another order & grouping)
  R3 = balanced pairwise `Merge` tree over the per-op leaf maps               (another bracketing)
Output `R1 | R2 | R3`.  The spec checks each `Ri` produced by the implementation against the
order-free aggregate of the received items (counters add, timer multiset, sampled sum, set union,
newest timestamp, gauge = a value carrying the newest timestamp).
-/
namespace Gsd.Driver.C07
open Gsd Gsd.Proto Gsd.Driver

structure Case where
  k : Nat
  k2 : Nat
  prog : List (COp Float)

def parseOp (toks : List String) : Option (COp Float) :=
  match toks with
  | "m" :: slot :: rest => do
    let i ← slot.toNat?
    let m ← parseMap rest
    pure (.map i m)
  | "d" :: slot :: rest => do
    let i ← slot.toNat?
    let ds ← parseDps rest
    pure (.dps i ds)
  | _ => none

def parseCase (line : String) : Option Case := do
  match splitBy ";" (tokens line) with
  | [k, k2] :: ops =>
    let k ← k.toNat?
    let k2 ← k2.toNat?
    if k = 0 ∨ k2 = 0 then none
    let prog ← (ops.filter (· ≠ [])).mapM parseOp
    pure { k := k, k2 := k2, prog := prog }
  | _ => none

def reslot (prog : List (COp Float)) : List (COp Float) :=
  (prog.reverse.zipIdx).map (fun (op, i) => match op with
    | .map _ m => .map (7 * i + 3) m
    | .dps _ ds => .dps (7 * i + 3) ds)

def leafOf (op : COp Float) : MM Float :=
  match op with
  | .map _ m => m
  | .dps _ ds => MM.receiveAll floatOps MM.empty ds

def pairUp : List (MTree Float) → List (MTree Float)
  | a :: b :: rest => .node a b :: pairUp rest
  | l => l

def balanced (fuel : Nat) (l : List (MTree Float)) : MTree Float :=
  match fuel, l with
  | _, [] => .leaf MM.empty
  | _, [t] => t
  | 0, t :: _ => t
  | fuel + 1, l => balanced fuel (pairUp l)

def results (c : Case) : List (MM Float) :=
  [ Consolidator.drainMerged floatOps c.k c.prog,
    Consolidator.drainMerged floatOps c.k2 (reslot c.prog),
    (balanced (c.prog.length + 1) (c.prog.map (fun op => .leaf (leafOf op)))).eval ]

/-- schedule-free normal form (what a concurrent, scheduler-decided run must also produce): tags sorted,
timer values sorted, gauge value `*` when the received items carry two different values at the newest
timestamp -/
def normOf (r : MM Float) (leaves : List (MM Float)) : String :=
  let lg := leaves.map (·.gauges)
  let cs := r.counters.map (fun e => unwords ["c", e.1.1, e.1.2, toString e.2.value, toString e.2.ts, e.2.src, renderTags (sortStrings e.2.tags)])
  let gs := r.gauges.map (fun e =>
    let cands := ((lg.filterMap (AList.lookup e.1)).filter (fun l => l.ts == e.2.ts)).map (fun l => tokOfFloat l.value)
    let distinct := cands.foldl (fun acc x => if x ∈ acc then acc else acc ++ [x]) []
    let v := if distinct.length ≥ 2 then "*" else tokOfFloat e.2.value
    unwords ["g", e.1.1, e.1.2, v, toString e.2.ts, e.2.src, renderTags (sortStrings e.2.tags)])
  let ts := r.timers.map (fun e => unwords (["t", e.1.1, e.1.2, toString e.2.values.length] ++ sortStrings (e.2.values.map tokOfFloat) ++
              [tokOfFloat e.2.sampled, toString e.2.ts, e.2.src, renderTags (sortStrings e.2.tags)]))
  let ss := r.sets.map (fun e => unwords (["s", e.1.1, e.1.2, toString e.2.members.length] ++ sortStrings e.2.members ++
              [toString e.2.ts, e.2.src, renderTags (sortStrings e.2.tags)]))
  let all := sortStrings (cs ++ gs ++ ts ++ ss)
  if all.isEmpty then "-" else " , ".intercalate all

def runModel (line : String) : String :=
  match parseCase line with
  | none => "BAD_CASE"
  | some c =>
    let rs := results c
    let leaves := c.prog.map leafOf
    " | ".intercalate (rs.map renderMap ++ [normOf (rs.headD {}) leaves])

/-! executable specification -/

def maxOf (l : List Int) : Option Int := l.foldl (fun acc x => match acc with | none => some x | some m => some (if m < x then x else m)) none

def sortF (l : List Float) : List String := sortStrings (l.map tokOfFloat)

def dedup (l : List String) : List String := l.foldl (fun acc x => if x ∈ acc then acc else acc ++ [x]) []

def keysOf {ν} (ls : List (AList Key ν)) : List String :=
  sortStrings (dedup ((ls.flatMap (fun m => m.map (fun e => e.1.1 ++ " " ++ e.1.2)))))

def checkMap (r : MM Float) (leaves : List (MM Float)) : Option String :=
  let lc := leaves.map (·.counters); let lt := leaves.map (·.timers)
  let lg := leaves.map (·.gauges); let ls := leaves.map (·.sets)
  if keysOf [r.counters] ≠ keysOf lc ∨ keysOf [r.timers] ≠ keysOf lt ∨ keysOf [r.gauges] ≠ keysOf lg ∨ keysOf [r.sets] ≠ keysOf ls
  then some "keys a series is missing or was never sent"
  else
  let badC := r.counters.find? (fun e =>
    let vs := lc.filterMap (AList.lookup e.1)
    e.2.value ≠ (vs.map (·.value)).foldl (· + ·) 0 || some e.2.ts ≠ maxOf (vs.map (·.ts)))
  let badT := r.timers.find? (fun e =>
    let vs := lt.filterMap (AList.lookup e.1)
    sortF e.2.values ≠ sortF (vs.flatMap (·.values)) ||
    tokOfFloat e.2.sampled ≠ tokOfFloat ((vs.map (·.sampled)).foldl (· + ·) 0.0) || some e.2.ts ≠ maxOf (vs.map (·.ts)))
  let badS := r.sets.find? (fun e =>
    let vs := ls.filterMap (AList.lookup e.1)
    sortStrings e.2.members ≠ sortStrings (dedup (vs.flatMap (·.members))) || some e.2.ts ≠ maxOf (vs.map (·.ts)))
  let badG := r.gauges.find? (fun e =>
    let vs := lg.filterMap (AList.lookup e.1)
    some e.2.ts ≠ maxOf (vs.map (·.ts)) ||
    !(vs.any (fun l => l.ts == e.2.ts && tokOfFloat l.value == tokOfFloat e.2.value)))
  match badC, badT, badS, badG with
  | some e, _, _, _ => some s!"counter {e.1.1} {e.1.2} is not the sum / newest timestamp of what was received"
  | _, some e, _, _ => some s!"timer {e.1.1} {e.1.2} is not the multiset / sampled sum / newest timestamp of what was received"
  | _, _, some e, _ => some s!"set {e.1.1} {e.1.2} is not the union / newest timestamp of what was received"
  | _, _, _, some e => some s!"gauge {e.1.1} {e.1.2} does not carry a value with the newest timestamp"
  | _, _, _, _ => none

def parseRendered (s : String) : Option (MM Float) :=
  if s.trimAscii.toString = "-" then some {} else parseMap (tokens s)

def spec (caseLine implLine : String) : String :=
  match parseCase caseLine with
  | none => "BAD_CASE"
  | some c =>
    let leaves := c.prog.flatMap (Consolidator.leavesOf floatOps)
    let parts := implLine.splitOn " | "
    if parts.length ≠ 4 then s!"FAIL shape {implLine.take 60}" else
    let opLeaves := c.prog.map leafOf
    let rec go (i : Nat) : List String → String
      | [] => "ok"
      | [n4] =>
        -- the concurrent run: must equal the normal form of a (checked) sequential result
        match parseRendered (parts.headD "-") with
        | none => "FAIL unparsable result 1"
        | some r1 => if n4 = normOf r1 opLeaves then "ok" else "FAIL concurrent consolidator run lost, duplicated or altered data"
      | p :: rest => match parseRendered p with
        | none => s!"FAIL unparsable result {i}"
        | some r => match checkMap r leaves with
          | some why => s!"FAIL {why} (evaluation {i})"
          | none => go (i + 1) rest
    go 1 parts

def main (args : List String) : IO UInt32 := do
  match args with
  | ["model"] => mapLines runModel; return 0
  | ["spec"] =>
    mapLines (fun l => match l.splitOn "\t" with
      | [c, i] => spec c i
      | _ => "BAD_LINE")
    return 0
  | _ => IO.eprintln "usage: gsdmodel C07 (model|spec)"; return 2

end Gsd.Driver.C07
