import Gsd.Driver.LexCommon
import Gsd.Model.Datagram
import Gsd.Model.Ingest
/-!
Driver for C03.  Cases (first token): `L` lexer line, `D` datagram, `H` HTTP request — see
harness/cmd/c03/main.go.  `model`: `Lexer.run Cfg.current` / `Datagram.handle` counts / `Ingest.handler`.
`spec`: no panic, no hang; every line of a datagram accounted for exactly once; every request answered
with one of 202 / 400 / 500 and dispatched iff 202.
-/
namespace Gsd.Driver.C03
open Gsd Gsd.Proto Gsd.Lexer Gsd.Driver.LexCommon Gsd.Datagram

structure DCase where
  ns : Bytes
  ignoreHost : Bool
  extra : Nat
  table : Table
  dg : Bytes

def parseDCase (toks : List String) : Option DCase :=
  match toks with
  | nsT :: ih :: ex :: rest =>
    match rest.reverse with
    | dgT :: midRev => do
      let ns ← bytesOfTok nsT
      let dg ← bytesOfTok dgT
      let extra ← natOfTok ex
      let table ← parseTable midRev.reverse
      return { ns := ns, ignoreHost := ih = "1", extra := extra, table := table, dg := dg }
    | [] => none
  | _ => none

def dMissing (c : DCase) : Bool := (splitOnByte 10 c.dg).any (fun l => missing c.table l)

def dItems (c : DCase) : List (Item UInt64) :=
  handle Cfg.current (pfOf c.table) { ns := c.ns, ignoreHost := c.ignoreHost, ip := [], now := 0 } (c.dg.length + c.extra) c.dg

def runD (c : DCase) : String :=
  if dMissing c then "ORACLE_MISS" else
  let items := dItems c
  if panicked items then "PANIC"
  else s!"OK metrics={(metricsOf items).length} events={(eventsOf items).length} bad={badCount items}"

open Ingest in
def runH (toks : List String) : String :=
  match toks with
  | [_path, encT, rd, z, l, i, _body] =>
    match bytesOfTok encT, natOfTok z, natOfTok l, natOfTok i with
    | some encB, some z, some l, some i =>
      -- a header value that is not valid UTF-8 is none of the known names
      let enc : Enc := match String.fromUTF8? (ByteArray.mk encB.toArray) with
        | some hdr => encOfHeader hdr
        | none => .other
      let libs : Libs Nat Nat :=
        { readAll := if rd = "1" then some 0 else none
          zlib := fun _ => if z ≥ 1 then some 1 else none
          lz4 := fun _ => if l ≥ 1 then some 2 else none
          unmarshal := fun b => if (b = 0 ∧ i = 1) ∨ (b = 1 ∧ z = 2) ∨ (b = 2 ∧ l = 2) then some 0 else none }
      let r := handler libs enc
      s!"S {r.1} dispatched={if r.2.isSome then 1 else 0}"
    | _, _, _, _ => "BAD_CASE"
  | _ => "BAD_CASE"

def runModel (line : String) : String :=
  match tokens line with
  | "L" :: rest => (match parseLexCase rest with | some c => runLexCase c | none => "BAD_CASE")
  | "D" :: rest => (match parseDCase rest with | some c => runD c | none => "BAD_CASE")
  | "H" :: rest => runH rest
  | _ => "BAD_CASE"

def natAfter (pfx : String) (tok : String) : Option Nat :=
  if tok.startsWith pfx then (tok.drop pfx.length).toNat? else none

def spec (caseLine implLine : String) : String :=
  if implLine = "ORACLE_MISS" then "ok" else
  match tokens caseLine with
  | "L" :: _ =>
    if implLine.startsWith "PANIC" then "FAIL panic-lexer the lexer indexed or sliced out of bounds"
    else if implLine.startsWith "HANG" then "FAIL hang-lexer"
    else if implLine.startsWith "M " || implLine.startsWith "E " || implLine.startsWith "R " then "ok"
    else "FAIL unreadable-output " ++ implLine
  | "D" :: rest =>
    if implLine.startsWith "PANIC" then "FAIL panic-datagram the parser goroutine panicked (gostatsd would exit)"
    else if implLine.startsWith "HANG" then "FAIL hang-datagram"
    else match parseDCase rest, tokens implLine with
      | some c, ["OK", m, e, b] =>
        match natAfter "metrics=" m, natAfter "events=" e, natAfter "bad=" b with
        | some m, some e, some b =>
          let n := (splitLines c.dg).length
          if m + e + b = n then "ok" else s!"FAIL line-accounting {m} metrics + {e} events + {b} bad lines for {n} lines"
        | _, _, _ => "FAIL unreadable-output " ++ implLine
      | _, _ => "FAIL unreadable-output " ++ implLine
  | "H" :: hToks =>
    if implLine.startsWith "PANIC" then "FAIL panic-http a handler panicked"
    else if implLine.startsWith "HANG" then "FAIL hang-http a request was not answered"
    else if (runH hToks).startsWith "S 202" && !(implLine.startsWith "S 202 dispatched=1") && (tokens implLine).head? = some "S" then
      -- a body that the libraries read, decompress and decode is refused or not handed on (C14's half of the endpoint's contract)
      "FAIL valid-refused a body that can be read, decompressed and decoded was not accepted and dispatched: " ++ (implLine.take 60).toString
    else match tokens implLine with
      | ["S", st, d] =>
        match st.toNat?, natAfter "dispatched=" d with
        | some st, some d =>
          -- C03 asks for an HTTP status on every request (which one is C14's business, and the model's: the
          -- comparison with `Ingest.handler` is made by the check on status classes); nothing may be dispatched twice,
          -- and nothing at all by a request that is refused
          if st < 100 || st ≥ 600 then s!"FAIL http-status {st} is not an HTTP status"
          else if d > 1 then "FAIL http-dispatch dispatched more than once"
          else if d = 1 && st ≥ 400 then s!"FAIL http-dispatch status {st} but dispatched={d}"
          else "ok"
        | _, _ => "FAIL unreadable-output " ++ implLine
      | _ => "FAIL unreadable-output " ++ implLine
  | _ => "BAD_CASE"

def main (args : List String) : IO UInt32 := do
  match args with
  | ["model"] => mapLines runModel; return 0
  | ["spec"] =>
    mapLines (fun l => match l.splitOn "\t" with
      | [c, i] => spec c i
      | _ => "BAD_LINE")
    return 0
  | _ => IO.eprintln "usage: gsdmodel C03 (model|spec)"; return 2

end Gsd.Driver.C03
