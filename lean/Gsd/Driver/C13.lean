import Gsd.Model.K8s
import Gsd.Driver.Proto
/-!
Driver for C13.  All strings are `x`+hex of their UTF-8 bytes.  Case line:

    cfg|cfgi LABRE ANNRE [o RE KEY n | o RE KEY m WHOLE TAGGROUP*]* ; OP ; OP ; …

`LABRE`/`ANNRE` = the regex source or `-` for a nil regex; the `o` records are the regex oracle
(what the real `regexp` answered for every (regex, key) of the case: `n` = `FindStringSubmatch`
returned nil, `m` = it matched, with `match[0]` and the texts of the groups named `tag`).
Ops: `a POD` / `u POD` (Added / Updated delta), `d POD` (Deleted), `t POD` (Deleted delivered as a
`DeletedFinalStateUnknown` tombstone), `r` (resync), `l IP` (lookup),
`x IP a|u|d|t POD` / `x IP r` (a lookup racing with an event; never generated, replay only).
`POD` = `NS NAME IP HOSTIP HOSTNET(0|1) PHASE DELETING(0|1) L (K V)* A (K V)*`.

Output: the answers of the lookups in order, joined by ` | ` (`-` when there is none): `none`,
`i ID TAG*` with tags sorted, or `AMBIG` when more than one stored pod is indexed at that IP (the
real answer is then `objs[0]` of a Go set — not compared).
-/
namespace Gsd.Driver.C13
open Gsd Gsd.Proto Gsd.K8s

def strOfTok (t : String) : Option String :=
  (bytesOfTok t).bind (fun bs => String.fromUTF8? (ByteArray.mk bs.toArray))

def tokOfStr (s : String) : String := tokOfBytes s.toUTF8.toList

def boolOfTok : String → Option Bool
  | "0" => some false
  | "1" => some true
  | _ => none

def pairsOf : List String → Option (AList String String)
  | [] => some []
  | [_] => none
  | k :: v :: rest => do
    let k' ← strOfTok k
    let v' ← strOfTok v
    let r ← pairsOf rest
    return (k', v') :: r

def parsePod (ts : List String) : Option Pod :=
  match ts with
  | ns :: name :: ip :: hip :: hn :: phase :: del :: "L" :: rest => do
    let ls := rest.takeWhile (· ≠ "A")
    let as := (rest.dropWhile (· ≠ "A")).drop 1
    if (rest.dropWhile (· ≠ "A")).isEmpty then none else
    return { ns := ← strOfTok ns, name := ← strOfTok name, ip := ← strOfTok ip, hostIP := ← strOfTok hip,
             hostNetwork := ← boolOfTok hn, phase := ← strOfTok phase, deleting := ← boolOfTok del,
             labels := ← pairsOf ls, annotations := ← pairsOf as }
  | _ => none

def parseEvent : List String → Option Op
  | ["r"] => some .resync
  | "a" :: pod => (parsePod pod).map .apply
  | "u" :: pod => (parsePod pod).map .apply
  | "d" :: pod => (parsePod pod).map .delete
  | "t" :: pod => (parsePod pod).map .delete
  | _ => none

def parseOp : List String → Option XOp
  | ["l", ip] => (strOfTok ip).map (fun i => .plain (.lookup i))
  | "x" :: ip :: ev => do
    let i ← strOfTok ip
    let e ← parseEvent ev
    return .race i e
  | ts => (parseEvent ts).map .plain

abbrev Oracle := AList (String × String) (Option (String × List String))

structure Case where
  cfg : Config String
  oracle : Oracle
  ops : List XOp

def parseRe (t : String) : Option (Option String) :=
  if t = "-" then some none else (strOfTok t).map some

def parseOracleEntry : List String → Option ((String × String) × Option (String × List String))
  | [re, key, "n"] => do return ((← strOfTok re, ← strOfTok key), none)
  | re :: key :: "m" :: whole :: groups => do
    let gs ← groups.mapM strOfTok
    return ((← strOfTok re, ← strOfTok key), some (← strOfTok whole, gs))
  | _ => none

def parseHead (ts : List String) : Option (Option String × Option String × Oracle) :=
  match splitBy "o" ts with
  | [mode, l, a] :: entries => do
    if mode ≠ "cfg" && mode ≠ "cfgi" then none else
    let lab ← parseRe l
    let ann ← parseRe a
    let es ← entries.mapM parseOracleEntry
    return (lab, ann, es)
  | _ => none

/-- the oracle as a function; a miss is detected separately (`missing`) and reported, never defaulted -/
def oracleFn (o : Oracle) : ReMatch String := fun re key => (AList.lookup (re, key) o).getD none

def parseCase (line : String) : Option Case := do
  match splitBy ";" (tokens line) with
  | head :: ops =>
    let (lab, ann, o) ← parseHead head
    let xs ← (ops.filter (fun l => !l.isEmpty)).mapM parseOp
    return { cfg := { reMatch := oracleFn o, labelRe := lab, annRe := ann }, oracle := o, ops := xs }
  | [] => none

def podsOfEvent : Op → List Pod
  | .apply p => [p]
  | .delete p => [p]
  | _ => []

def podsOf : XOp → List Pod
  | .plain op => podsOfEvent op
  | .race _ ev => podsOfEvent ev

/-- every (regex, key) the model can ask about must be in the oracle table -/
def missing (c : Case) : Bool :=
  let pods := c.ops.flatMap podsOf
  let need (re : Option String) (keys : List String) : Bool :=
    match re with
    | none => false
    | some r => keys.any (fun k => (AList.lookup (r, k) c.oracle).isNone)
  pods.any (fun p => need c.cfg.labelRe (p.labels.map Prod.fst) || need c.cfg.annRe (p.annotations.map Prod.fst))

def renderInst (i : Inst) : String :=
  unwords ("i" :: tokOfStr i.id :: sortStrings (i.tags.map tokOfStr))

def renderAns : Option Inst → String
  | none => "none"
  | some i => renderInst i

/-- the lookups of a history with the store they see: (ip, store before the op) -/
def lookupViews (store : Store) : List XOp → List (String × Store)
  | [] => []
  | .plain (.lookup ip) :: rest => (ip, store) :: lookupViews store rest
  | .plain op :: rest => lookupViews (storeStep store op) rest
  | .race ip ev :: rest => (ip, store) :: lookupViews (storeStep store ev) rest

/-- for a racing lookup (an event handled while the lookup is in progress) the answer may also be the one computed
after the event: the lookup overlaps the event, either order is a correct account of it -/
def lateAnswers {Pat : Type} (cfg : Config Pat) (store : Store) : List XOp → List (Option (Option Inst))
  | [] => []
  | .plain (.lookup _) :: rest => none :: lateAnswers cfg store rest
  | .plain op :: rest => lateAnswers cfg (storeStep store op) rest
  | .race ip ev :: rest => some (specAnswer cfg (storeStep store ev) ip) :: lateAnswers cfg (storeStep store ev) rest

def answersOf (outs : List Out) : List (Option Inst) :=
  outs.filterMap (fun o => match o with | .ans r => some r | .ev => none)

def joinAns (l : List String) : String := if l.isEmpty then "-" else " | ".intercalate l

def runModel (line : String) : String :=
  match parseCase line with
  | none => "BAD_CASE"
  | some c =>
    if missing c then "ORACLE_MISS" else
    let answers := answersOf (xrun c.cfg K8s.init c.ops)
    let views := lookupViews [] c.ops
    -- a racing lookup whose answer differs before and after the racing event may be answered either way: no
    -- prediction for such a history (the specification accepts both and still judges every later lookup)
    let early := answersOf (xspecRun c.cfg [] c.ops)
    let late := lateAnswers c.cfg [] c.ops
    let open_ := (List.range early.length).any (fun i =>
      match late[i]?, early[i]? with | some (some a), some e => renderAns a != renderAns e | _, _ => false)
    (if open_ then "* " else "") ++
    joinAns ((answers.zip views).map (fun (a, (ip, store)) =>
      if (podsAt store ip).length > 1 then "AMBIG" else renderAns a))

/-- all pod versions a history has mentioned before position `n` -/
def versionsBefore (ops : List XOp) (n : Nat) : List Pod := (ops.take n).flatMap podsOf

def hasRace (ops : List XOp) : Bool := ops.any (fun o => match o with | .race _ _ => true | _ => false)

/-- position (in the op list) of the k-th lookup -/
def lookupPositions (ops : List XOp) : List Nat :=
  (ops.zipIdx.filter (fun (o, _) => match o with | .plain (.lookup _) => true | .race _ _ => true | _ => false)).map (·.2)

/-- Executable specification on the **implementation's** output: on a valid history every answer is
`specAnswer (current store) ip` — computed from the pod set the events have produced so far, with
no memo.  Histories outside the hypotheses (colliding IPs, inconsistent deletes) are not judged. -/
def spec (caseLine implLine : String) : String :=
  match parseCase caseLine with
  | none => "BAD_CASE"
  | some c =>
    if missing c then "ORACLE_MISS" else
    if implLine.startsWith "PANIC" || implLine.startsWith "HANG" || implLine.startsWith "CRASH" then
      s!"FAIL panic {implLine.take 120}" else
    if !valid [] (xops c.ops) then "ok" else
    let views := lookupViews [] c.ops
    let got := if implLine = "-" then [] else implLine.splitOn " | "
    if got.length ≠ views.length then s!"FAIL count {got.length} answers for {views.length} lookups" else
    let want := answersOf (xspecRun c.cfg [] c.ops)
    if want.length ≠ views.length then "BAD_CASE" else
    let pos := lookupPositions c.ops
    let late := lateAnswers c.cfg [] c.ops
    let bad := (List.range got.length).filter (fun i =>
      got[i]! ≠ renderAns (want[i]!) &&
      (match late[i]? with | some (some a) => got[i]! ≠ renderAns a | _ => true))
    match bad with
    | [] => "ok"
    | i :: _ =>
      let g := got[i]!
      let olds := versionsBefore c.ops (pos[i]!)
      let stale := olds.any (fun p => renderInst (derive c.cfg p) = g)
      let cls :=
        if stale && hasRace c.ops then "stale-after-race"
        else if stale then "stale"
        else if g = "none" then "missing"
        else if want[i]! = none then "ghost"
        else "wrong-answer"
      s!"FAIL {cls} lookup #{i}: got [{g}] want [{renderAns (want[i]!)}]"

def main (args : List String) : IO UInt32 := do
  match args with
  | ["model"] => mapLines runModel; return 0
  | ["spec"] =>
    mapLines (fun l => match l.splitOn "\t" with
      | [c, i] => spec c i
      | _ => "BAD_LINE")
    return 0
  | _ => IO.eprintln "usage: gsdmodel C13 (model|spec)"; return 2

end Gsd.Driver.C13
