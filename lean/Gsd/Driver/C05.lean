import Gsd.Driver.LexCommon
import Gsd.Model.Datagram
/-!
Driver for C05.  Case: `xNS IGNOREHOST EXTRACAP xIP TS [xQUERY ANSWER]* xDATAGRAM`.

Output (model and implementation alike):
  `OK bad=B mrecv=M erecv=E | <event> … || <series> ; … ### <line alone> ; <line alone> …`
The part before `###` is derived from the per-line outcomes by `Datagram.placeMetric` (source, time,
ignore-host), event source, bad-line counting and the `Receive` fold (`Datagram.receiveGauge gaugeGe` for
gauges; counters, timers, sets accumulated as metric_map.go does).

`spec` (on the implementation's line): the dispatched result must be the one derived from the
implementation's *own* per-line-alone results (C05_concat, C05_source_time, bad-line accounting on the
real code); every gauge must hold the value of the last line for its series (C05_last_gauge_wins — false on
the pinned tree, D3); no `ALIASING` mark; no panic.
-/
namespace Gsd.Driver.C05
open Gsd Gsd.Proto Gsd.Lexer Gsd.Driver.LexCommon Gsd.Datagram

structure Case5 where
  ns : Bytes
  ignoreHost : Bool
  extra : Nat
  ip : Bytes
  ts : Int
  table : Table
  dg : Bytes

def parseCase5 (toks : List String) : Option Case5 :=
  match toks with
  | nsT :: ih :: ex :: ipT :: tsT :: rest =>
    match rest.reverse with
    | dgT :: midRev => do
      let ns ← bytesOfTok nsT
      let ip ← bytesOfTok ipT
      let dg ← bytesOfTok dgT
      let extra ← natOfTok ex
      let ts ← intOfTok tsT
      let table ← parseTable midRev.reverse
      return { ns := ns, ignoreHost := ih = "1", extra := extra, ip := ip, ts := ts, table := table, dg := dg }
    | [] => none
  | _ => none

def config (c : Case5) : Config := { ns := c.ns, ignoreHost := c.ignoreHost, ip := c.ip, now := c.ts }

/-- lexicographic order on byte strings (Go's string `<`) -/
def bytesLe : Bytes → Bytes → Bool
  | [], _ => true
  | _ :: _, [] => false
  | a :: s, b :: t => if a < b then true else if b < a then false else bytesLe s t

def sortTags (ts : List Bytes) : List Bytes := ts.mergeSort bytesLe

/-- `FormatTagsKey(source, tags)` on sorted tags -/
def tagsKey (src : Bytes) (sorted : List Bytes) : Bytes :=
  let t := (sorted.intersperse [44]).flatten
  if src.isEmpty then t else t ++ [44, 115, 58] ++ src

structure Entry where
  kind : String
  name : Bytes
  key : Bytes
  src : Bytes
  tags : List Bytes
  cval : Int := 0
  notNice : Bool := false
  tvals : List UInt64 := []      -- reversed
  tsc : Float := 0
  smem : List Bytes := []
  deriving Inhabited

def f64 (b : UInt64) : Float := Float.ofBits b

def niceRate (r : UInt64) : Bool := FloatLike.rateOk r

/-- `mm.Receive(m)` for counters, timers and sets (gauges: `Datagram.receiveGauge`) -/
def receiveOther (es : List Entry) (d : DMetric UInt64) : List Entry :=
  let sorted := sortTags d.m.tags
  let key := tagsKey d.source sorted
  let kind := typeName d.m.type
  let v := d.m.value.getD 0
  let q := f64 v / f64 d.m.rate
  let qNice := niceRate d.m.rate && !q.isNaN && q.abs < 4611686018427387904.0
  let upd (e : Entry) (fresh : Bool) : Entry :=
    match d.m.type with
    | .counter => { e with cval := e.cval + (if qNice then q.toInt64.toInt else 0), notNice := e.notNice || !qNice }
    | .timer => { e with tvals := v :: e.tvals, tsc := (if fresh then 1.0 / f64 d.m.rate else e.tsc + 1.0 / f64 d.m.rate),
                         notNice := e.notNice || !niceRate d.m.rate }
    | .set => { e with smem := if e.smem.contains d.m.svalue then e.smem else d.m.svalue :: e.smem }
    | .gauge => e
  let rec go : List Entry → List Entry
    | [] => [upd { kind := kind, name := d.m.name, key := key, src := d.source, tags := sorted } true]
    | e :: t => if e.kind = kind && e.name = d.m.name && e.key = key then upd e false :: t else e :: go t
  go es

def tagToks (ts : List Bytes) : String := String.join (ts.map (fun t => " " ++ tokOfBytes t))

def renderEntry (ts : Int) (e : Entry) : String :=
  let head := s!"{e.kind.take 1} {tokOfBytes e.name} {tokOfBytes e.key} "
  let tail := s!" {ts} {tokOfBytes e.src}{tagToks e.tags}"
  match e.kind with
  | "c" => head ++ (if e.notNice then "?" else toString e.cval) ++ tail
  | "ms" => "t" ++ (head.drop 1).toString ++ (if e.notNice then "?" else hex64 e.tsc.toBits) ++ " [" ++ ",".intercalate (e.tvals.reverse.map hex64) ++ "]" ++ tail
  | _ => head ++ "[" ++ ",".intercalate (sortStrings (e.smem.map tokOfBytes)) ++ "]" ++ tail

/-- one line alone, as the harness renders it -/
inductive Alone
  | metric (m : Metric UInt64)
  | event (toks : List String)
  | bad
  | panic

def typeOfName (s : String) : Option MType :=
  if s = "c" then some .counter else if s = "ms" then some .timer else if s = "g" then some .gauge else if s = "s" then some .set else none

def parseAlone (s : String) : Option Alone :=
  match tokens s with
  | "M" :: name :: ty :: v :: sv :: r :: tags => do
    let n ← bytesOfTok name
    let t ← typeOfName ty
    let svb ← bytesOfTok sv
    let rate ← (parseAnswer r).join
    let ts ← tags.mapM bytesOfTok
    let val ← (if v = "-" then some none else (parseAnswer v).join.map some)
    return .metric { name := n, type := t, value := val, svalue := svb, rate := rate, tags := ts }
  | "E" :: rest => some (.event ("E" :: rest))
  | ["R", _] => some .bad
  | ["PANIC"] => some .panic
  | _ => none

/-- the gauge datapoints of a datagram, keyed as the map keys them -/
def gaugePoints (c : Case5) (items : List Alone) : List ((Bytes × Bytes) × Int × (UInt64 × Bytes × List Bytes)) :=
  items.filterMap (fun a => match a with
    | .metric m =>
      if m.type = .gauge then
        let d := placeMetric (config c) m
        let sorted := sortTags d.m.tags
        some ((d.m.name, tagsKey d.source sorted), d.ts, (d.m.value.getD 0, d.source, sorted))
      else none
    | _ => none)

/-- what `DatagramParser` dispatches for a one-datagram batch whose lines alone give `items` -/
def expected (c : Case5) (items : List Alone) : String :=
  if items.any (fun a => match a with | .panic => true | _ => false) then "PANIC" else
  let metrics := items.filterMap (fun a => match a with | .metric m => some (placeMetric (config c) m) | _ => none)
  let events := items.filterMap (fun a => match a with | .event t => some t | _ => none)
  let bad := (items.filter (fun a => match a with | .bad => true | _ => false)).length
  let evStr := String.join (events.map (fun t =>
    -- `event.Source = ip`; `DateHappened = time.Now()` when the line gave none
    let t := t.set 6 (tokOfBytes c.ip)
    let t := if t[3]? = some "0" then t.set 3 "NOW" else t
    " | " ++ unwords t))
  let others := metrics.foldl (fun es d => if d.m.type = .gauge then es else receiveOther es d) []
  -- gauges: the fold of `receiveGauge` with the comparison of the modelled tree (`gaugeGe`).  The first
  -- datapoint of a series fixes its source and tags, later ones only value and timestamp.
  let gpts := gaugePoints c items
  let gmap := gaugeFold gaugeGe (gpts.map (fun p => (p.1, p.2.1, p.2.2.1)))
  let gStrs := gmap.map (fun e =>
    let info := (gpts.find? (fun p => p.1 = e.1)).map (fun p => p.2.2.2)
    let (src, tags) := info.getD ([], [])
    s!"g {tokOfBytes e.1.1} {tokOfBytes e.1.2} {hex64 e.2.2} {e.2.1} {tokOfBytes src}{tagToks tags}")
  let all := sortStrings (gStrs ++ others.map (renderEntry c.ts))
  let mapStr := if all.isEmpty then "-" else " ; ".intercalate all
  s!"OK bad={bad} mrecv={metrics.length} erecv={events.length}{evStr} || {mapStr}"

def linesOf (c : Case5) : List (Bytes × Nat) := withCaps (c.dg.length + c.extra) 0 (splitLines c.dg)

def runModel (line : String) : String :=
  match parseCase5 (tokens line) with
  | none => "BAD_CASE"
  | some c =>
    if (splitOnByte 10 c.dg).any (fun l => missing c.table l) then "ORACLE_MISS" else
    -- each line alone, on a private copy (capacity = length), as the harness does
    let alone := (splitLines c.dg).map (fun l => renderOutcome (run Cfg.current (pfOf c.table) c.ns l.length l))
    -- the datagram itself: `Datagram.handle` (capacities reach to the end of the buffer)
    let items := handle Cfg.current (pfOf c.table) (config c) (c.dg.length + c.extra) c.dg
    if panicked items then "PANIC" else
    let inDg := (linesOf c).map (fun lc => renderOutcome (run Cfg.current (pfOf c.table) c.ns lc.2 lc.1))
    match inDg.mapM parseAlone with
    | none => "MODEL_RENDER_ERROR"
    | some its => expected c its ++ " ### " ++ " ; ".intercalate alone

def spec (caseLine implLine : String) : String :=
  if implLine = "ORACLE_MISS" then "ok" else
  match parseCase5 (tokens caseLine) with
  | none => "BAD_CASE"
  | some c =>
    if implLine.startsWith "PANIC" then "FAIL panic-datagram the parser goroutine panicked (gostatsd would exit)" else
    if implLine.startsWith "HANG" then "FAIL hang-datagram" else
    if (implLine.splitOn " RCVHANG").length > 1 then
      "FAIL receiver-stalled the real receiver did not hand on the datagrams of this run within the time limit" else
    if (implLine.splitOn " RCVADDR ").length > 1 then
      "FAIL source-address the real receiver attributed a datagram to another sender than the one it came from: " ++ ((implLine.splitOn " RCVADDR ").getD 1 "") else
    if (implLine.splitOn " RCVALIAS ").length > 1 then
      "FAIL aliasing-receiver a datagram held between the real receiver and the parser was overwritten by later reads (its buffer was released or reused too early)" else
    match implLine.splitOn " ### " with
    | [left, right] =>
      let (aloneStr, alias) := match right.splitOn " ALIASING " with
        | [a, w] => (a, some w)
        | _ => (right, none)
      match alias with
      | some w => "FAIL aliasing " ++ w
      | none =>
        let aloneStrs := if aloneStr.trimAscii.toString = "" then [] else aloneStr.splitOn " ; "
        if aloneStrs.length ≠ (splitLines c.dg).length then
          s!"FAIL line-count {aloneStrs.length} lines reported for a datagram of {(splitLines c.dg).length} lines" else
        match aloneStrs.mapM parseAlone with
        | none => "FAIL unreadable-output " ++ aloneStr
        | some its =>
          let want := expected c its
          if left ≠ want then s!"FAIL concat the datagram must give what its lines give alone: {want}" else
          -- last gauge wins: every gauge series holds the value of the last line for it
          let gpts := gaugePoints c its
          let bad := gpts.filter (fun p =>
            let lastV := (Datagram.gaugeFold true (gpts.map (fun q => (q.1, q.2.1, q.2.2.1)))).lookup p.1
            let tok := s!"g {tokOfBytes p.1.1} {tokOfBytes p.1.2} "
            match lastV with
            | some (_, v) => decide ((left.splitOn (tok ++ hex64 v ++ " ")).length < 2)
            | none => false)
          match bad with
          | [] => "ok"
          | p :: _ => s!"FAIL last-gauge series {tokOfBytes p.1.1} {tokOfBytes p.1.2} does not hold the value of the last line of the datagram for it"
    | _ => "FAIL unreadable-output " ++ implLine

def main (args : List String) : IO UInt32 := do
  match args with
  | ["model"] => mapLines runModel; return 0
  | ["spec"] =>
    mapLines (fun l => match l.splitOn "\t" with
      | [c, i] => spec c i
      | _ => "BAD_LINE")
    return 0
  | _ => IO.eprintln "usage: gsdmodel C05 (model|spec)"; return 2

end Gsd.Driver.C05
