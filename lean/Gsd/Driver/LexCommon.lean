import Gsd.Model.Lexer
import Gsd.Model.Grammar
import Gsd.Driver.Proto
/-!
Shared by the C02 / C03 / C05 drivers: the lexer case format, the `ParseFloat` oracle table and the
canonical rendering of an outcome.

Lexer case:  `xNS CAP [xQUERY ANSWER]* xLINE`   (the line is the last token so that `check`'s
`hexbytes` shrinker works on it).  `CAP` is `=` (capacity = length) or a decimal capacity.
`ANSWER` is what the real `strconv.ParseFloat(query, 64)` said: 16 hex digits of the bits, or `err`.
-/
namespace Gsd.Driver.LexCommon
open Gsd Gsd.Proto Gsd.Lexer

abbrev Table := List (Bytes × Option UInt64)

def lookupTable (t : Table) (q : Bytes) : Option (Option UInt64) :=
  match t with
  | [] => none
  | (k, v) :: r => if k = q then some v else lookupTable r q

/-- the model's `pf`: a miss is answered `none`; misses are detected beforehand by `missing` -/
def pfOf (t : Table) (q : Bytes) : Option UInt64 := (lookupTable t q).getD none

def splitOnByte (c : UInt8) (l : Bytes) : List Bytes :=
  let rec go (cur : Bytes) (acc : List Bytes) : Bytes → List Bytes
    | [] => (cur.reverse :: acc).reverse
    | b :: t => if b = c then go [] (cur.reverse :: acc) t else go (b :: cur) acc t
  go [] [] l

def afterFirst (c : UInt8) : Bytes → Option Bytes
  | [] => none
  | b :: t => if b = c then some t else afterFirst c t

def beforeFirst (c : UInt8) (l : Bytes) : Bytes := l.takeWhile (· ≠ c)

/-- Every text the lexer can hand to `ParseFloat` for this line, computed naively (not by running the
model): the text after the first `:` up to the next `|`, and the remainder of every `|`-separated
segment that starts with `@`. -/
def candidates (line : Bytes) : List Bytes :=
  let v := match afterFirst 58 line with
    | none => []
    | some t => [beforeFirst 124 t]
  let rs := (splitOnByte 124 line).filterMap (fun s => match s with
    | 64 :: r => some r
    | _ => none)
  v ++ rs

def missing (t : Table) (line : Bytes) : Bool :=
  (candidates line).any (fun q => (lookupTable t q).isNone)

structure LexCase where
  ns : Bytes
  cap : Nat
  table : Table
  line : Bytes

def parseAnswer (s : String) : Option (Option UInt64) :=
  if s = "err" then some none
  else if s.length ≠ 16 then none
  else (hexToNat? s).map (fun n => some (UInt64.ofNat n))

def parseTable : List String → Option Table
  | [] => some []
  | q :: a :: rest => do
    let qb ← bytesOfTok q
    let av ← parseAnswer a
    let r ← parseTable rest
    return (qb, av) :: r
  | _ => none

def parseLexCase (toks : List String) : Option LexCase :=
  match toks with
  | nsT :: capT :: rest =>
    match rest.reverse with
    | lineT :: midRev => do
      let ns ← bytesOfTok nsT
      let line ← bytesOfTok lineT
      let cap ← (if capT = "=" then some line.length else natOfTok capT)
      let table ← parseTable midRev.reverse
      return { ns := ns, cap := cap, table := table, line := line }
    | [] => none
  | _ => none

def hex64 (n : UInt64) : String :=
  String.ofList ((List.range 16).map (fun i => hexChar ((n.toNat >>> (4 * (15 - i))) % 16)))

def errName : Err → String
  | .keysep => "ERR_KEYSEP" | .emptyKey => "ERR_EMPTYKEY" | .valuesep => "ERR_VALUESEP"
  | .type => "ERR_TYPE" | .format => "ERR_FORMAT" | .attributes => "ERR_ATTRS"
  | .overflow => "ERR_OVERFLOW" | .notEnough => "ERR_NOTENOUGH" | .nan => "ERR_NAN"
  | .num => "ERR_NUM" | .rate => "ERR_RATE"

def typeName : MType → String
  | .counter => "c" | .timer => "ms" | .gauge => "g" | .set => "s"

def prioName : Prio → String
  | .normal => "normal" | .low => "low"
def alertName : Alert → String
  | .info => "info" | .warning => "warning" | .error => "error" | .success => "success"

def renderMetric (m : Metric UInt64) : String :=
  unwords (["M", tokOfBytes m.name, typeName m.type,
    (match m.value with | some v => hex64 v | none => "-"), tokOfBytes m.svalue, hex64 m.rate]
    ++ m.tags.map tokOfBytes)

def renderEvent (e : Event) : String :=
  unwords (["E", tokOfBytes e.title, tokOfBytes e.text, toString e.date.toNat, prioName e.prio, alertName e.alert,
    tokOfBytes e.host, tokOfBytes e.aggKey, tokOfBytes e.srcType] ++ e.tags.map tokOfBytes)

def renderOutcome : Outcome UInt64 → String
  | .metric m => renderMetric m
  | .event e => renderEvent e
  | .reject e => "R " ++ errName e
  | .panic => "PANIC"

/-- the model on one lexer case, with the pinned-tree switches `Cfg.current` -/
def runLexCase (c : LexCase) : String :=
  if missing c.table c.line then "ORACLE_MISS"
  else renderOutcome (run Cfg.current (pfOf c.table) c.ns c.cap c.line)

/-! parsing an implementation output line back (for the specifications) -/

inductive ImplOut
  | metric (name : Bytes) (ty : String) (value : Option UInt64) (svalue : Bytes) (rate : UInt64) (tags : List Bytes)
  | event (title text : Bytes) (tags : List Bytes)
  | reject (e : String)
  | panic (msg : String)
  | hang
  | other (s : String)

def parseImpl (line : String) : ImplOut :=
  match tokens line with
  | "M" :: name :: ty :: v :: sv :: r :: tags =>
    match bytesOfTok name, bytesOfTok sv, parseAnswer r, tags.mapM bytesOfTok with
    | some n, some s, some (some rate), some ts =>
      if v = "-" then .metric n ty none s rate ts
      else match parseAnswer v with
        | some (some vb) => .metric n ty (some vb) s rate ts
        | _ => .other line
    | _, _, _, _ => .other line
  | "E" :: title :: text :: _date :: _p :: _a :: _h :: _k :: _s :: tags =>
    match bytesOfTok title, bytesOfTok text, tags.mapM bytesOfTok with
    | some t, some x, some ts => .event t x ts
    | _, _, _ => .other line
  | ["R", e] => .reject e
  | "PANIC" :: _ => .panic line
  | "HANG" :: _ => .hang
  | _ => .other line

def tagOk (t : Bytes) : Bool := !t.isEmpty && !t.contains 44 && !t.contains 124

/-! ## reading a line as a sentence of the documented grammar (for the specification)

Naive splitting only: first `:`, next `|`, the type spelling, then `|`-separated fields.  Returns a
`MetricLine` exactly when the line is `MetricLine.render` of it and it is `MetricLine.WF` for the
oracle `pf` (checked below, decidably); `C02_accepts_grammar` then says what the lexer must return. -/

def splitComma (l : Bytes) : List Bytes := splitOnByte 44 l

def fieldOfSegment (s : Bytes) : Option Field :=
  match s with
  | [] => none
  | 64 :: r => some (.rate r)
  | 35 :: r => some (.tags (if r.isEmpty then [] else splitComma r))
  | _ => some (.other s)

def typeOfBytes (r : Bytes) : Option (TypeSp × Bytes) :=
  match r with
  | 99 :: t => some (.c, t)
  | 103 :: t => some (.g, t)
  | 109 :: 115 :: t => some (.ms, t)
  | 104 :: t => some (.h, t)
  | 115 :: t => some (.s, t)
  | _ => none

def fieldWF (cfg : Cfg) (pf : Bytes → Option UInt64) : Field → Bool
  | .rate t => match pf t with
    | some v => !cfg.checkRate || FloatLike.rateOk v
    | none => false
  | .tags ts => ts.all (fun t => !t.contains 0)
  | .other _ => true

def readMetricLine (cfg : Cfg) (pf : Bytes → Option UInt64) (line : Bytes) : Option MetricLine := do
  if line.contains 0 then none
  let afterColon ← afterFirst 58 line
  let name := beforeFirst 58 line
  if name.head? = some 95 || (norm name).isEmpty then none
  let afterBar ← afterFirst 124 afterColon
  let value := beforeFirst 124 afterColon
  let (sp, r3) ← typeOfBytes afterBar
  let fields ← (match r3 with
    | [] => some []
    | 124 :: r4 => (splitOnByte 124 r4).mapM fieldOfSegment
    | _ => none)
  if sp ≠ .s && (match pf value with | some v => FloatLike.isNaN v | none => true) then none
  if !(fields.all (fieldWF cfg pf)) then none
  let ml : MetricLine := { name := name, value := value, ty := sp, fields := fields }
  if ml.render = line then some ml else none

def takeDigits (l : Bytes) : Bytes × Bytes := (l.takeWhile isDigit, l.dropWhile isDigit)

def efieldOfSegment (s : Bytes) : Option EField :=
  match s with
  | [] => none
  | 35 :: r => some (.tags (if r.isEmpty then [] else splitComma r))
  | 100 :: 58 :: ds => if !ds.isEmpty && ds.all isDigit && digitsVal ds ≤ 9223372036854775807 then some (.date ds) else none
  | 104 :: 58 :: t => some (.host t)
  | 107 :: 58 :: t => some (.aggKey t)
  | 112 :: 58 :: t => if t = bLow then some (.prio .low) else if t = bNormal then some (.prio .normal) else none
  | 115 :: 58 :: t => some (.srcType t)
  | 116 :: 58 :: t =>
    if t = bInfo then some (.alert .info) else if t = bWarning then some (.alert .warning)
    else if t = bError then some (.alert .error) else if t = bSuccess then some (.alert .success) else none
  | b :: _ => if b = 100 || isDataKey b then none else some (.other s)

def readEventLine (line : Bytes) : Option EventLine := do
  match line with
  | 95 :: 101 :: 123 :: r =>
    let (td, r1) := takeDigits r
    match r1 with
    | 44 :: r2 =>
      let (xd, r3) := takeDigits r2
      match r3 with
      | 125 :: 58 :: body =>
        if td.isEmpty || xd.isEmpty then none
        let tl := digitsVal td
        let xl := digitsVal xd
        if body.length < tl + 1 + xl then none
        let title := body.take tl
        let text := (body.drop (tl + 1)).take xl
        let rest := body.drop (tl + 1 + xl)
        let fields ← (match rest with
          | [] => some []
          | 124 :: r4 => (splitOnByte 124 r4).mapM efieldOfSegment
          | _ => none)
        if !(fields.all (fun f => match f with | .tags ts => ts.all (fun t => !t.contains 0) | _ => true)) then none
        let el : EventLine := { titleDigits := td, textDigits := xd, title := title, text := text, fields := fields }
        if el.render = line then some el else none
      | _ => none
    | _ => none
  | _ => none

end Gsd.Driver.LexCommon
