import Gsd.Driver.LexCommon
/-!
Driver for C02.  Case: see `LexCommon` (lines contain no NUL; C03 covers NUL).
`model`: canonical outcome of `Lexer.run Cfg.current`.
`spec`: the property evaluated on the implementation's outcome:
  * whatever is accepted has a non-empty name, a non-NaN value (string value for sets), a finite
    strictly positive sample rate, tags that are non-empty and contain neither `,` nor `|`;
  * an accepted line has the name separator, the value separator, a known type spelling followed by
    `|` or the end, a value `ParseFloat` accepts (other than for sets), and its name is the
    namespace-prefixed normalisation of the text before the first `:`;
  * no panic.
-/
namespace Gsd.Driver.C02
open Gsd Gsd.Proto Gsd.Lexer Gsd.Driver.LexCommon

def runModel (line : String) : String :=
  match parseLexCase (tokens line) with
  | none => "BAD_CASE"
  | some c => runLexCase c

def typeSpellingOk (ty : String) (afterBar : Bytes) : Bool :=
  let endOk (r : Bytes) : Bool := match r with
    | [] => true
    | b :: _ => b = 124 || b = 0
  match afterBar with
  | 99 :: r => ty = "c" && endOk r
  | 103 :: r => ty = "g" && endOk r
  | 109 :: 115 :: r => ty = "ms" && endOk r
  | 104 :: r => ty = "ms" && endOk r
  | 115 :: r => ty = "s" && endOk r
  | _ => false

def specMetric (c : LexCase) (name : Bytes) (ty : String) (value : Option UInt64) (svalue : Bytes) (rate : UInt64)
    (tags : List Bytes) : String :=
  -- well-formedness of whatever is accepted
  if name.isEmpty then "FAIL empty-name accepted" else
  if ty ≠ "s" && (match value with | some v => FloatLike.isNaN v | none => true) then "FAIL nan-value accepted with NaN or without value" else
  if !(FloatLike.rateOk rate) then s!"FAIL rate-not-positive-finite accepted with sample rate bits {hex64 rate}" else
  if !(tags.all tagOk) then "FAIL bad-tag accepted with an empty tag or a tag containing ',' or '|'" else
  -- accepted ⇒ grammar
  if c.line.contains 0 then "ok" else
  match afterFirst 58 c.line with
  | none => "FAIL accepted-without-keysep"
  | some afterColon =>
    let raw := beforeFirst 58 c.line
    if name ≠ withNs c.ns (norm raw) then "FAIL name-not-normalised name is not namespace + normalised text before ':'" else
    match afterFirst 124 afterColon with
    | none => "FAIL accepted-without-valuesep"
    | some afterBar =>
      let vtext := beforeFirst 124 afterColon
      if !typeSpellingOk ty afterBar then "FAIL bad-type accepted although the type field is not one of c g ms h s" else
      if ty = "s" then (if svalue = vtext && value.isNone then "ok" else "FAIL set-value string value of a set is not the value text")
      else match lookupTable c.table vtext with
        | none => "ok"     -- oracle gone stale (shrinking): no verdict
        | some none => "FAIL bad-number accepted although ParseFloat rejects the value"
        | some (some vb) => if value = some vb then "ok" else "FAIL value-mismatch value is not ParseFloat of the value text"

/-- `C02_accepts_grammar` / `C02_accepts_event_grammar` on the implementation: a line that reads as a
well-formed sentence of the grammar must come back with exactly the fields the grammar specifies -/
def specGrammar (c : LexCase) (implLine : String) : String :=
  match readMetricLine Cfg.current (pfOf c.table) c.line with
  | some ml =>
    let want := renderMetric (ml.spec (pfOf c.table) c.ns)
    if implLine = want then "ok" else s!"FAIL grammar-metric a well-formed line must yield {want}"
  | none =>
    match readEventLine c.line with
    | some el =>
      let want := renderEvent el.spec
      if implLine = want then "ok" else s!"FAIL grammar-event a well-formed event must yield {want}"
    | none => "ok"

def specWF (c : LexCase) (implLine : String) : String :=
    match parseImpl implLine with
    | .metric n ty v sv r ts => specMetric c n ty v sv r ts
    | .event _ _ ts =>
      if !(ts.all tagOk) then "FAIL bad-tag event accepted with an empty tag or a tag containing ',' or '|'"
      else if !(c.line.take 3 = [95, 101, 123]) then "FAIL event-without-header" else "ok"
    | .reject _ => "ok"
    | .panic m => "FAIL panic " ++ m
    | .hang => "FAIL hang"
    | .other s => "FAIL unreadable-output " ++ s

def spec (caseLine implLine : String) : String :=
  match parseLexCase (tokens caseLine) with
  | none => "BAD_CASE"
  | some c =>
    if missing c.table c.line then "ok" else     -- stale oracle (only while shrinking): model and harness print ORACLE_MISS
    if implLine = "ORACLE_MISS" then "ok" else
    -- the harness also sends every accepted metric line through the parser's per-datagram routine (with and without
    -- ignore-host) and marks a metric that does not carry the lexer's fields, its tags in order (minus the first host: tag
    -- under ignore-host), the source and the receive time
    match implLine.splitOn " PARSER-DIFF " with
    | [_, d] => "FAIL parser-fields the parser's per-datagram routine hands back another metric than the lexer produced: " ++ d
    | _ =>
    match specWF c implLine with
    | "ok" => specGrammar c implLine
    | bad => bad

def main (args : List String) : IO UInt32 := do
  match args with
  | ["model"] => mapLines runModel; return 0
  | ["spec"] =>
    mapLines (fun l => match l.splitOn "\t" with
      | [c, i] => spec c i
      | _ => "BAD_LINE")
    return 0
  | _ => IO.eprintln "usage: gsdmodel C02 (model|spec)"; return 2

end Gsd.Driver.C02
