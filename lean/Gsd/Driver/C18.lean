import Gsd.Model.Ticker
import Gsd.Driver.Proto
/-!
Driver for C18.  Case line:

    MODE SEC NSEC I OFF ; a D ; n ; r ; …

`MODE` = `T` (the harness itself consumes the aligned ticker's channel) or `F` (the real `MetricFlusher`
in aligned mode consumes it and calls a recording `AggregateProcesser` that blocks until released);
start instant = `SEC` seconds + `NSEC` ns after Go's zero time; `I`, `OFF` in ns; `a D` = `mock.Add(D)`,
`n` = `mock.AddNext()`, `r` = consumer receive (T) / release the blocked `Process` call (F).

Output tokens: `tr=<start.Truncate(I)>`, then in order of occurrence `w<d>` (what `AddNext` advanced by),
`v<value>` / `e` (T: result of a receive), `f<clock>,<delta>` (F: a flush: clock reading inside `Process` and
the interval handed to `Aggregator.Flush`; the first delta is printed `FIRST` (the property constrains the later ones only) because it is measured from
`time.Now()`), and in mode T finally `left=<value still in the channel or ->`.
-/
namespace Gsd.Driver.C18
open Gsd Gsd.Proto Gsd.Ticker

structure Case where
  flusher : Bool
  start : Int
  i : Int
  off : Int
  script : List SOp

def parseOp : List String → Option SOp
  | ["a", d] => (intOfTok d).map SOp.add
  | ["n"] => some .next
  | ["r"] => some .recv
  | _ => none

def parseCase (line : String) : Option Case := do
  match splitBy ";" (tokens line) with
  | [mode, sec, nsec, i, off] :: rest =>
    let fl ← (match mode with | "T" => some false | "F" => some true | _ => none)
    let sec ← intOfTok sec
    let nsec ← intOfTok nsec
    let i ← intOfTok i
    let off ← intOfTok off
    let script ← (rest.filter (fun l => !l.isEmpty)).mapM parseOp
    if i ≤ 0 then none else
    some { flusher := fl, start := sec * 1000000000 + nsec, i := i, off := off, script := script }
  | _ => none

def runModel (line : String) : String :=
  match parseCase line with
  | none => "BAD_CASE"
  | some c =>
    let s := Sim.run c.start c.off c.i c.flusher c.script
    let ds := deltas s.ch.recvd
    let rec render (evs : List Ev) (k : Nat) : List String :=
      match evs with
      | [] => []
      | .adv d :: r => s!"w{d}" :: render r k
      | .got v :: r => s!"v{v}" :: render r k
      | .empty :: r => "e" :: render r k
      | .flush c _ :: r =>
        (if k = 0 then s!"f{c},FIRST" else s!"f{c},{ds[k - 1]?.getD 0}") :: render r (k + 1)
    let tail := if c.flusher then [] else [match s.ch.chan with | some v => s!"left={v}" | none => "left=-"]
    unwords ([s!"tr={trunc c.start c.i}"] ++ render s.evs 0 ++ tail)

/-! ### executable specification on the implementation's output -/

def stripPrefix (p s : String) : Option String :=
  if s.startsWith p then some (s.drop p.length).toString else none

structure SpecSt where
  now : Int
  moved : Bool := false          -- has the clock been moved yet
  last : Option Int := none      -- last received value
  err : Option String := none

def checkValue (c : Case) (st : SpecSt) (x : Int) (what : String) : SpecSt :=
  if (x - c.off) % c.i ≠ 0 then { st with err := some s!"misaligned {what} {x}: ({x} - {c.off}) mod {c.i} = {(x - c.off) % c.i}" }
  else if x > st.now then { st with err := some s!"future {what} {x} while the clock reads {st.now}" }
  else match st.last with
    | none =>
      if x - c.start ≤ 0 then { st with err := some s!"first-tick-early first value {x} is not after start {c.start}" }
      else if x - c.start > c.i then { st with err := some s!"first-tick-late first value {x} is more than one interval after start {c.start}" }
      else { st with last := some x }
    | some p =>
      if x ≤ p then { st with err := some s!"not-monotone {what} {x} after {p}" }
      else if (x - p) % c.i ≠ 0 then { st with err := some s!"delta-not-multiple {x} - {p}" }
      else { st with last := some x }

/-- ticker mode -/
def specT (c : Case) (toks : List String) : String :=
  let rec go (ops : List SOp) (toks : List String) (st : SpecSt) : String :=
    match st.err with
    | some e => "FAIL " ++ e
    | none =>
      match ops with
      | [] =>
        match toks with
        | [l] =>
          match stripPrefix "left=" l with
          | some "-" => "ok"
          | some v =>
            match intOfTok v with
            | some x => match (checkValue c st x "left").err with | some e => "FAIL " ++ e | none => "ok"
            | none => "FAIL malformed-output bad left"
          | none => "FAIL malformed-output missing left"
        | _ => "FAIL malformed-output token count"
      | .add d :: ops => go ops toks { st with now := st.now + d, moved := st.moved || decide (d ≠ 0) }
      | .next :: ops =>
        match toks with
        | t :: toks =>
          match (stripPrefix "w" t).bind intOfTok with
          | some d =>
            let now' := st.now + d
            if !st.moved && st.last.isNone && !(0 < d ∧ d ≤ c.i ∧ (now' - c.off) % c.i = 0) then
              s!"FAIL initial-wait {d} from start {c.start} (interval {c.i}, offset {c.off})"
            else go ops toks { st with now := now', moved := true }
          | none => "FAIL malformed-output expected w"
        | [] => "FAIL malformed-output short"
      | .recv :: ops =>
        match toks with
        | "e" :: toks =>
          if st.last.isNone && st.now ≥ c.start + c.i then
            s!"FAIL first-tick-missing nothing to receive although the clock reads {st.now} >= start + interval"
          else go ops toks st
        | t :: toks =>
          match (stripPrefix "v" t).bind intOfTok with
          | some x => go ops toks (checkValue c st x "value")
          | none => "FAIL malformed-output expected v or e"
        | [] => "FAIL malformed-output short"
  go c.script toks { now := c.start }

/-- flusher mode -/
def specF (c : Case) (toks : List String) : String :=
  -- final clock from the script and the `w` tokens
  let ws := toks.filterMap (fun t => (stripPrefix "w" t).bind intOfTok)
  let nNext := (c.script.filter (· == .next)).length
  if ws.length ≠ nNext then "FAIL malformed-output w count" else
  let final := c.start + (c.script.foldl (fun acc op => match op with | .add d => acc + d | _ => acc) 0) + ws.foldl (· + ·) 0
  let fs := toks.filterMap (fun t => stripPrefix "f" t)
  let rec go (fs : List String) (k : Nat) (sum : Int) (lastClock : Int) : String :=
    match fs with
    | [] => if k = 0 && final ≥ c.start + c.i then s!"FAIL first-flush-missing no flush although the clock reads {final} >= start + interval" else "ok"
    | f :: rest =>
      match f.splitOn "," with
      | [cl, d] =>
        match intOfTok cl with
        | none => "FAIL malformed-output flush clock"
        | some cl =>
          if cl < lastClock then s!"FAIL clock-backwards flush {k}" else
          if k = 0 then
            if d = "FIRST" then go rest 1 0 cl else s!"FAIL first-delta {d}"
          else
            match intOfTok d with
            | none => s!"FAIL delta-not-measured-on-the-flush-clock flush {k}: {d}"
            | some d =>
              if d ≤ 0 then s!"FAIL delta-not-positive flush {k}: {d}"
              else if d % c.i ≠ 0 then s!"FAIL delta-not-multiple flush {k}: {d} is not a multiple of {c.i}"
              else if c.start + sum + d ≥ cl then s!"FAIL future flush {k}: first flush after {c.start} plus deltas {sum + d} is not before the clock reading {cl}"
              else go rest (k + 1) (sum + d) cl
      | _ => "FAIL malformed-output flush token"
  go fs 0 0 c.start

def spec (caseLine implLine : String) : String :=
  match parseCase caseLine with
  | none => "BAD_CASE"
  | some c =>
    if implLine.startsWith "PANIC" then s!"FAIL panic {implLine}" else
    if implLine.startsWith "HANG" then s!"FAIL hang {implLine}" else
    if implLine.startsWith "CRASH" then s!"FAIL crash {implLine}" else
    if (implLine.splitOn " after-cancel=").length > 1 then
      "FAIL tick-after-cancel the ticker's channel yielded a value after its context had ended although the clock had not moved (a consumer takes it for a tick)" else
    match tokens implLine with
    | tr :: rest =>
      match (stripPrefix "tr=" tr).bind intOfTok with
      | none => "FAIL malformed-output tr"
      | some x =>
        if !(x ≤ c.start ∧ c.start < x + c.i ∧ x % c.i = 0) then s!"FAIL truncate {x} is not the floor of {c.start} to a multiple of {c.i}"
        else if c.flusher then specF c rest else specT c rest
    | [] => "FAIL malformed-output empty"

def main (args : List String) : IO UInt32 := do
  match args with
  | ["model"] => mapLines runModel; return 0
  | ["spec"] =>
    mapLines (fun l => match l.splitOn "\t" with
      | [c, i] => spec c i
      | _ => "BAD_LINE")
    return 0
  | _ => IO.eprintln "usage: gsdmodel C18 (model|spec)"; return 2

end Gsd.Driver.C18
