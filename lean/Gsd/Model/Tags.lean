import Gsd.Model.MetricMap
/-!
C10 — model of the tag stage: `StringMatch` / `NewStringMatch` (matcher.go), `Filter`
(pkg/statsd/filtering.go) and `TagHandler` (pkg/statsd/handler_tags.go): `uniqueTagsWithSeen`,
`uniqueTags`, `uniqueFilterAndAddTags`, `DispatchMetricMap`, `DispatchEvent`.

Go strings are byte strings.  A Go string is represented here by the Lean `String` whose characters
are its bytes (code points 0..255, the driver decodes the protocol's hex tokens that way), so that
`s.toList` is the byte sequence, `List.take/drop` are Go's slice expressions and `String`'s `<` is
Go's byte-wise string order.

`regexp` is a parameter: `re pattern candidate` is the answer of `regexp.MustCompile(pattern).MatchString(candidate)`;
at run time the harness supplies it as an oracle table computed with the real library.
-/
namespace Gsd.Tags

/-! ### matcher.go -/

/-- `strings.HasPrefix(s, p)` = `len(s) >= len(p) && s[:len(p)] == p` -/
def hasPrefix (s p : List Char) : Bool := decide (p.length ≤ s.length) && (s.take p.length == p)

/-- `strings.HasSuffix(s, p)` = `len(s) >= len(p) && s[len(s)-len(p):] == p` -/
def hasSuffix (s p : List Char) : Bool := decide (p.length ≤ s.length) && (s.drop (s.length - p.length) == p)

/-- `gostatsd.StringMatch`; `regex` holds the pattern text that was handed to `regexp.MustCompile` -/
structure StringMatch where
  test : List Char
  invert : Bool
  pfx : Bool
  regex : Option String
deriving DecidableEq, Repr

/-- the literal `"regex:"` -/
def regexLit : List Char := ['r', 'e', 'g', 'e', 'x', ':']

/-- the part of `NewStringMatch` after the `!` test: `s[6:]` after `regex:`, `s[0:len(s)-1]` for a trailing `*` -/
def parseBody (invert : Bool) (s : List Char) : StringMatch :=
  if hasPrefix s regexLit then
    let s := s.drop 6
    { test := s, invert := invert, pfx := false, regex := some (String.ofList s) }
  else if hasSuffix s ['*'] then
    { test := s.take (s.length - 1), invert := invert, pfx := true, regex := none }
  else
    { test := s, invert := invert, pfx := false, regex := none }

/-- `NewStringMatch(s)`, with the code's slice expressions (`s[1:]` after a leading `!`) -/
def newStringMatch (p : String) : StringMatch :=
  let s := p.toList
  let invert := hasPrefix s ['!']
  parseBody invert (if invert then s.drop 1 else s)

/-- `(sm StringMatch) Match(s)` -/
def StringMatch.matches (re : String → String → Bool) (sm : StringMatch) (s : String) : Bool :=
  match sm.regex with
  | some r => re r s != sm.invert
  | none =>
    if sm.pfx then hasPrefix s.toList sm.test != sm.invert
    else (s.toList == sm.test) != sm.invert

/-- `(sml StringMatchList) MatchAny(s)` -/
def matchAny (re : String → String → Bool) (sml : List StringMatch) (s : String) : Bool :=
  sml.any (fun sm => sm.matches re s)

/-- `(sml StringMatchList) MatchAnyMultiple(tests)` -/
def matchAnyMultiple (re : String → String → Bool) (sml : List StringMatch) (tests : List String) : Bool :=
  tests.any (fun s => matchAny re sml s)

/-! ### filtering.go -/

structure Filter where
  matchMetrics : List StringMatch := []
  excludeMetrics : List StringMatch := []
  matchTags : List StringMatch := []
  dropTags : List StringMatch := []
  dropMetric : Bool := false
  dropHost : Bool := false
deriving DecidableEq, Repr

/-- a filter as written in the configuration: pattern texts -/
structure FilterText where
  matchMetrics : List String := []
  excludeMetrics : List String := []
  matchTags : List String := []
  dropTags : List String := []
  dropMetric : Bool := false
  dropHost : Bool := false

/-- `NewFilterFromViper` / `toStringMatch` -/
def newFilter (t : FilterText) : Filter :=
  { matchMetrics := t.matchMetrics.map newStringMatch, excludeMetrics := t.excludeMetrics.map newStringMatch,
    matchTags := t.matchTags.map newStringMatch, dropTags := t.dropTags.map newStringMatch,
    dropMetric := t.dropMetric, dropHost := t.dropHost }

/-! ### handler_tags.go: uniqueTagsWithSeen -/

/-- the first loop of `uniqueTagsWithSeen`: `done` = `t1[:idx]`, `rest` = `t1[idx:last]`.
A tag already seen is overwritten by the last element (`t1[idx] = t1[last]`, swap-remove), a new tag is
recorded in `seen` and kept.  `fuel` = `len(rest)` (one element leaves `rest` per iteration).
Returns the kept tags and the final `seen` set. -/
def uniqLoop : Nat → List String → List String → List String → List String × List String
  | 0, seen, done, _ => (done, seen)
  | _ + 1, seen, done, [] => (done, seen)
  | n + 1, seen, done, x :: r =>
    if x ∈ seen then
      match r.getLast? with
      | none => (done, seen)
      | some l => uniqLoop n seen done (l :: r.dropLast)
    else uniqLoop n (x :: seen) (done ++ [x]) r

/-- `uniqueTagsWithSeen(seen, t1, t2)`: the second loop appends the tags of `t2` that are not in `seen`
(without recording them) -/
def uniqueTagsWithSeen (seen t1 t2 : List String) : List String :=
  let r := uniqLoop t1.length seen [] t1
  r.1 ++ t2.filter (fun t => !(r.2.contains t))

/-- `uniqueTags(t1, t2)` -/
def uniqueTags (t1 t2 : List String) : List String := uniqueTagsWithSeen [] t1 t2

/-! ### handler_tags.go: TagHandler -/

structure TagHandler where
  tags : List String
  filters : List Filter
  estimatedTags : Nat

/-- `NewTagHandler(handler, tags, filters)`; `downstream` = `handler.EstimatedTags()` -/
def newTagHandler (downstream : Nat) (tags : List String) (filters : List Filter) : TagHandler :=
  let tags := uniqueTags tags []
  { tags := tags, filters := filters, estimatedTags := tags.length + downstream }

/-- the three `continue` tests of the filter loop, in the code's order: `true` = the filter applies -/
def filterApplies (re : String → String → Bool) (f : Filter) (name : String) (tags : List String) : Bool :=
  if decide (f.matchMetrics.length > 0) && !(matchAny re f.matchMetrics name) then false
  else if matchAny re f.excludeMetrics name then false
  else if decide (f.matchTags.length > 0) && !(matchAnyMultiple re f.matchTags tags) then false
  else true

/-- `for _, dropFilter := range filter.DropTags { for _, tag := range *mTags { if dropFilter.Match(tag) { dropTags[tag] = present } } }` -/
def addDrops (re : String → String → Bool) (pats : List StringMatch) (tags : List String) (drop : List String) : List String :=
  pats.foldl (fun d p => tags.foldl (fun d t => if p.matches re t then t :: d else d) d) drop

/-- the filter loop of `uniqueFilterAndAddTags`: `none` = `return false` (drop the metric), otherwise the
accumulated `dropTags` set and the (possibly cleared) host.  `tags` are the metric's ORIGINAL tags
throughout (they are only replaced after the loop). -/
def runFilters (re : String → String → Bool) (name : String) (tags : List String) :
    List Filter → List String → String → Option (List String × String)
  | [], drop, src => some (drop, src)
  | f :: fs, drop, src =>
    if filterApplies re f name tags then
      if f.dropMetric then none
      else runFilters re name tags fs (addDrops re f.dropTags tags drop) (if f.dropHost then "" else src)
    else runFilters re name tags fs drop src

/-- `uniqueFilterAndAddTags(mName, &mHostname, &mTags)`: `none` = drop, else the new (host, tags) -/
def TagHandler.apply (re : String → String → Bool) (th : TagHandler) (name src : String) (tags : List String) :
    Option (String × List String) :=
  if th.filters.length = 0 then some (src, uniqueTags tags th.tags)
  else match runFilters re name tags th.filters [] src with
    | none => none
    | some (drop, src') => some (src', uniqueTagsWithSeen drop tags th.tags)

/-- `DispatchEvent`: static tags and de-duplication only; no filter is consulted, the source is kept -/
def TagHandler.event (th : TagHandler) (src : String) (tags : List String) : String × List String :=
  (src, uniqueTags tags th.tags)

/-! ### re-keying (`FormatTagsKey` sorts the tag slice in place, so the stored tags are sorted) -/

def insertSorted (x : String) : List String → List String
  | [] => [x]
  | y :: t => if x < y then x :: y :: t else y :: insertSorted x t

/-- `sort.Strings` -/
def sortTags : List String → List String
  | [] => []
  | x :: t => insertSorted x (sortTags t)

/-- `FormatTagsKey(source, tags)` on the already sorted tags -/
def formatTagsKey (src : String) (sorted : List String) : String :=
  let t := ",".intercalate sorted
  if src = "" then t else t ++ "," ++ Facts.statsdSourceID ++ ":" ++ src

/-- what happens to one series: `none` = dropped, else (new tagsKey, new source, new tags) -/
def TagHandler.retag (re : String → String → Bool) (th : TagHandler) (name src : String) (tags : List String) :
    Option (String × String × List String) :=
  match th.apply re name src tags with
  | none => none
  | some (s, t) => let st := sortTags t; some (formatTagsKey s st, s, st)

def nanoMax (a b : Int) : Int := if a > b then a else b

/-- collision branch for counters: `cNew.Value += cOriginal.Value; cNew.Timestamp = NanoMax(..)` -/
def joinCounter (into frm : Counter) : Counter :=
  { into with value := into.value + frm.value, ts := nanoMax into.ts frm.ts }

/-- gauges: `if gOriginal.Timestamp > gNew.Timestamp { value, timestamp := gOriginal… }` -/
def joinGauge {α} (into frm : Gauge α) : Gauge α :=
  if frm.ts > into.ts then { into with value := frm.value, ts := frm.ts } else into

/-- timers: values appended, sampled counts added, newest timestamp -/
def joinTimer {α} [Add α] (into frm : Timer α) : Timer α :=
  { into with values := into.values ++ frm.values, ts := nanoMax into.ts frm.ts, sampled := into.sampled + frm.sampled }

/-- sets: `for key := range sOriginal.Values { sNew.Values[key] = struct{}{} }`, newest timestamp -/
def joinSet (into frm : SetV) : SetV :=
  { into with members := setUnion into.members frm.members, ts := nanoMax into.ts frm.ts }

variable {α : Type}

def rekeyCounter (re : String → String → Bool) (th : TagHandler) (e : Key × Counter) : Option (Key × Counter) :=
  match th.retag re e.1.1 e.2.src e.2.tags with
  | none => none
  | some (k, s, t) => some ((e.1.1, k), { e.2 with src := s, tags := t })

def rekeyGauge (re : String → String → Bool) (th : TagHandler) (e : Key × Gauge α) : Option (Key × Gauge α) :=
  match th.retag re e.1.1 e.2.src e.2.tags with
  | none => none
  | some (k, s, t) => some ((e.1.1, k), { e.2 with src := s, tags := t })

def rekeyTimer (re : String → String → Bool) (th : TagHandler) (e : Key × Timer α) : Option (Key × Timer α) :=
  match th.retag re e.1.1 e.2.src e.2.tags with
  | none => none
  | some (k, s, t) => some ((e.1.1, k), { e.2 with src := s, tags := t })

def rekeySet (re : String → String → Bool) (th : TagHandler) (e : Key × SetV) : Option (Key × SetV) :=
  match th.retag re e.1.1 e.2.src e.2.tags with
  | none => none
  | some (k, s, t) => some ((e.1.1, k), { e.2 with src := s, tags := t })

/-- the new map of `DispatchMetricMap`: every surviving series is inserted under its new key; when the key
is already present the two entries are combined (the entry inserted first keeps its source and tags).
`mergeWith f [] es` = `for e in es { if old, ok := new[e.key]; ok { new[e.key] = f(old, e) } else { new[e.key] = e } }` -/
def TagHandler.rekeyMap [Add α] (re : String → String → Bool) (th : TagHandler) (m : MM α) : MM α :=
  { counters := mergeWith joinCounter [] (m.counters.filterMap (rekeyCounter re th)),
    gauges   := mergeWith joinGauge   [] (m.gauges.filterMap (rekeyGauge re th)),
    timers   := mergeWith joinTimer   [] (m.timers.filterMap (rekeyTimer re th)),
    sets     := mergeWith joinSet     [] (m.sets.filterMap (rekeySet re th)) }

/-- `DispatchMetricMap`: `none` = nothing is handed on (`if !mmNew.IsEmpty()`) -/
def TagHandler.dispatchMetricMap [Add α] (re : String → String → Bool) (th : TagHandler) (m : MM α) : Option (MM α) :=
  let n := th.rekeyMap re m
  if n.isEmpty then none else some n

end Gsd.Tags
