import Gsd.Model.MetricMap
/-!
C01 — the standalone pipeline as a transition system:
`DatagramParser.Run` (batch → `MetricMap` by `Receive`) → `BackendHandler.DispatchMetricMap`
(`Split`, one queue send per non-empty piece) → `worker.work` (`ReceiveMap` = `Merge` into the shard's
aggregate; or one flush command = `Flush`, `Process` (the view handed to the backends), `Reset`).

Every channel operation is one atomic action; "every interleaving" = every action list.
The queue capacity only *disables* `enqueue`, so the unbounded queues below over-approximate every
capacity ≥ 0.  `pending` holds the pieces of split batches not yet sent (a flush may fall between two
pieces of one batch); any pending piece may be sent next (a superset of what several parsers can do).
The routing function `h` is a parameter (see C06).
-/
namespace Gsd
namespace Pipeline
variable {α : Type} [Add α] [OfNat α 0]

/-- `MetricAggregator.Reset`: expired series are deleted, the others zeroed; gauges keep their value.
Which series are expired is C09's business — here it is an arbitrary predicate per flush. -/
def reset (expired : Key → Bool) (m : MM α) : MM α :=
  { counters := AList.filterMapVals (fun k c => if expired k then none else some { c with value := 0 }) m.counters,
    timers   := AList.filterMapVals (fun k t => if expired k then none else some { t with values := [], sampled := 0 }) m.timers,
    sets     := AList.filterMapVals (fun k s => if expired k then none else some { s with members := [] }) m.sets,
    gauges   := AList.filterMapVals (fun k g => if expired k then none else some g) m.gauges }

structure State (α : Type) where
  pending : List (Nat × MM α) := []        -- (shard, piece) of batches being dispatched
  queues  : List (List (MM α))             -- per shard FIFO (`metricMapQueue`)
  aggs    : List (MM α)                    -- per shard aggregate
  flushed : List (Nat × MM α) := []        -- history of (shard, view handed to the backends)
  arrived : List (MM α) := []              -- ghost: every parsed batch

inductive Action (α : Type) where
  | arrive (ds : List (Dp α))              -- a parser finished a batch and starts dispatching it
  | enqueue (j : Nat)                      -- the j-th pending piece is sent to its worker's queue
  | deliver (i : Nat)                      -- worker i takes the head of its queue and merges it
  | flushShard (i : Nat) (expired : Key → Bool)   -- worker i executes one flush command

def init (n : Nat) : State α :=
  { queues := List.replicate n [], aggs := List.replicate n MM.empty }

/-- one step; `none` = the action is not enabled in this state -/
def step (ops : NumOps α) (h : Key → Nat) (n : Nat) (s : State α) : Action α → Option (State α)
  | .arrive ds =>
    let mm := MM.receiveAll ops MM.empty ds
    some { s with pending := s.pending ++ MMap.dispatch h n mm, arrived := s.arrived ++ [mm] }
  | .enqueue j =>
    match s.pending[j]? with
    | none => none
    | some (i, p) =>
      if i < s.queues.length then
        some { s with pending := s.pending.eraseIdx j, queues := s.queues.modify i (· ++ [p]) }
      else none
  | .deliver i =>
    match s.queues[i]? with
    | some (p :: rest) =>
      if i < s.aggs.length then
        some { s with queues := s.queues.set i rest, aggs := s.aggs.modify i (fun a => MM.merge a p) }
      else none
    | _ => none
  | .flushShard i expired =>
    match s.aggs[i]? with
    | none => none
    | some a => some { s with flushed := s.flushed ++ [(i, a)], aggs := s.aggs.set i (reset expired a) }

/-- run a schedule, skipping disabled actions (so every action list is a schedule) -/
def run (ops : NumOps α) (h : Key → Nat) (n : Nat) (s : State α) (as : List (Action α)) : State α :=
  as.foldl (fun s a => (step ops h n s a).getD s) s

end Pipeline
end Gsd
