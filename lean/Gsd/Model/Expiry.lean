import Gsd.Model.AList
import Gsd.Generated.Facts
/-!
C09 — model of series persistence and expiry in `MetricAggregator`
(pkg/statsd/aggregator.go `ReceiveMap` → `MetricMap.Merge*`, `Flush`, `Process`, `Reset`, `isExpired`).

One aggregate per metric type (`Counters`, `Timers`, `Gauges`, `Sets`), each a Go
`map[name]map[tagsKey]V`, modelled as `AList Key Entry`.  Two operations:

* `dp ty k t d` — a datapoint for series `(ty, k)` stamped `t` is merged (`ReceiveMap` of a map that
  holds it): the series is created, or its timestamp is raised to the maximum and its value combined.
* `flush t` — what the flusher does with the aggregator's clock reading `t`:
  `Flush(interval)`; `Process(view)`; `Reset()` **in this order** (pkg/statsd/flusher.go `flushData`),
  so the *view* a backend is handed is taken **before** expired series are deleted.
  `Reset`: `isExpired i now ts` ⇒ delete, otherwise zero the value (gauges are left untouched).

Times and intervals are `Int` nanoseconds; each type has its own interval, of any sign.
The two comparison operators of `isExpired` are not restated here: they are read from
`Gsd.Facts.ops_isExpired`, which `factgen` regenerates from the source on every run, so a changed
operator changes the model (and breaks `Expiry.isExpired_iff`, on which every C09 theorem rests).
-/
namespace Gsd.Expiry
open Gsd

inductive MType where
  | counter | timer | gauge | set
  deriving DecidableEq, Repr

/-- a series identity inside one type: `name` + `tagsKey`, kept as one opaque token -/
abbrev Key := String

/-- What the model keeps of a stored `Counter` / `Timer` / `Gauge` / `Set`. -/
structure Entry where
  /-- `Timestamp`: time of the newest datapoint -/
  ts  : Int
  /-- counter: `Value`; timer: `len(Values)` (= `Count` after `Flush`); gauge: `Value` -/
  num : Int
  /-- set: the members (`Values`), in first-insertion order, no duplicates -/
  mem : List Nat
  deriving DecidableEq, Repr

/-- payload of a datapoint: counter increment / number of timer values / gauge value, and set members -/
structure Dp where
  num : Int := 0
  mem : List Nat := []
  deriving DecidableEq, Repr

/-- set union as `MergeSet` performs it (`for v := range from.Values { into.Values[v] = struct{}{} }`) -/
def unionMem (a b : List Nat) : List Nat :=
  b.foldl (fun acc x => if acc.contains x then acc else acc ++ [x]) a

def imax (a b : Int) : Int := if a < b then b else a

/-- `MergeCounter` / `MergeTimer` / `MergeGauge` / `MergeSet` on one series (`old = none`: the series
is not in the map and the incoming value is stored as it is). -/
def mergeE (ty : MType) (old : Option Entry) (t : Int) (d : Dp) : Entry :=
  match old with
  | none => { ts := t, num := d.num, mem := unionMem [] d.mem }
  | some e =>
    match ty with
    | .counter => { e with ts := imax e.ts t, num := e.num + d.num }
    | .timer   => { e with ts := imax e.ts t, num := e.num + d.num }
    | .gauge   => if e.ts < t then { e with ts := t, num := d.num } else e   -- strictly newer wins
    | .set     => { e with ts := imax e.ts t, mem := unionMem e.mem d.mem }

/-- what `Reset` stores for a series that has not expired -/
def zeroE (ty : MType) (e : Entry) : Entry :=
  match ty with
  | .counter => { e with num := 0 }
  | .timer   => { e with num := 0 }
  | .gauge   => e                       -- "No reset for gauges, they keep the last value until expiration"
  | .set     => { e with mem := [] }

/-- a Go comparison operator, by its source text -/
def cmpOp (s : String) (a b : Int) : Bool :=
  if s = "!=" then a != b
  else if s = "==" then a == b
  else if s = ">" then decide (a > b)
  else if s = ">=" then decide (a ≥ b)
  else if s = "<" then decide (a < b)
  else if s = "<=" then decide (a ≤ b)
  else false

/-- a comparison whose direction `factgen` read from the source as a canonical token ("?": keep `dflt`) -/
def relCmp (tok dflt : String) (a b : Int) : Bool := cmpOp (if tok = "?" then dflt else tok) a b

/-- `isExpired(interval, now, ts)`: `interval OP₀ 0 && now - ts OP₁ interval` with the operators found
in the source, read as the canonical token `Facts.rel_isExpired` = "interval REL age" ("<" on the pinned
tree, however the comparison is written; "?" keeps the built-in reading). -/
def isExpired (i now ts : Int) : Bool :=
  decide (i ≠ 0) && relCmp Facts.rel_isExpired "<" i (now - ts)

/-- `Reset` on one typed map -/
def resetMap (ty : MType) (i now : Int) (m : AList Key Entry) : AList Key Entry :=
  AList.filterMapVals (fun _ e => if isExpired i now e.ts then none else some (zeroE ty e)) m

/-- the aggregator's `metricMap`: one association list per type -/
abbrev Aggr := MType → AList Key Entry
/-- the four `expiry-interval-<type>` settings -/
abbrev Config := MType → Int

/-- Start-up resolution of a type's interval (README: `expiry-interval-<type>` > `expiry-interval` >
default): `cmd/gostatsd/main.go` sets the per-type default from the main setting. -/
def resolveInterval (dflt : Int) (main perType : Option Int) : Int := perType.getD (main.getD dflt)

def init : Aggr := fun _ => []

/-- what a backend sees of one series in a flush -/
structure ViewVal where
  /-- counter: value (rate is `value / seconds`); timer: `Count`; gauge: value -/
  num : Int
  /-- set: members -/
  mem : List Nat
  /-- timer: percentiles are present -/
  pct : Bool
  deriving DecidableEq, Repr

/-- `Flush` computes the reported fields from the stored ones: a timer has percentiles exactly when it
has values (`if count := len(timer.Values); count > 0`). -/
def viewVal (ty : MType) (e : Entry) : ViewVal :=
  match ty with
  | .counter => { num := e.num, mem := [], pct := false }
  | .timer   => { num := e.num, mem := [], pct := decide (0 < e.num) }
  | .gauge   => { num := e.num, mem := [], pct := false }
  | .set     => { num := 0, mem := e.mem, pct := false }

abbrev View := MType → AList Key ViewVal

/-- the map handed to `Process` -/
def viewOf (a : Aggr) : View := fun ty => AList.mapVals (fun _ e => viewVal ty e) (a ty)

inductive Op where
  | dp (ty : MType) (k : Key) (t : Int) (d : Dp)
  | flush (t : Int)
  deriving DecidableEq, Repr

def Op.time : Op → Int
  | .dp _ _ t _ => t
  | .flush t => t

/-- is this op a datapoint of series `(ty, k)` -/
def Op.isDpFor (ty : MType) (k : Key) : Op → Bool
  | .dp ty' k' _ _ => decide (ty' = ty) && decide (k' = k)
  | .flush _ => false

/-- One operation.  A flush emits the view and then resets with `now = t`. -/
def step (cfg : Config) (a : Aggr) : Op → Aggr × Option View
  | .dp ty k t d =>
    (fun ty' => if ty' = ty then AList.upsert k (fun old => mergeE ty old t d) (a ty) else a ty', none)
  | .flush t =>
    (fun ty => resetMap ty (cfg ty) t (a ty), some (viewOf a))

/-- the aggregate after a history (oldest operation first) -/
def run (cfg : Config) (h : List Op) : Aggr := h.foldl (fun a op => (step cfg a op).1) init

/-- the view a flush issued right after history `h` hands to the backends -/
def viewAt (cfg : Config) (h : List Op) : View := viewOf (run cfg h)

/-- all views of a history, one per flush, in order (what the driver prints) -/
def viewsFrom (cfg : Config) (a : Aggr) : List Op → List View
  | [] => []
  | op :: rest =>
    match step cfg a op with
    | (a', some v) => v :: viewsFrom cfg a' rest
    | (a', none) => viewsFrom cfg a' rest

def views (cfg : Config) (h : List Op) : List View := viewsFrom cfg init h

/-- is series `(ty, k)` in the view of a flush issued right after `h` -/
def reported (cfg : Config) (h : List Op) (ty : MType) (k : Key) : Bool :=
  (AList.lookup k (viewAt cfg h ty)).isSome

/-- no datapoint of series `(ty, k)` among the operations `b` -/
def NoDp (ty : MType) (k : Key) (b : List Op) : Prop := ∀ op ∈ b, op.isDpFor ty k = false

instance (ty : MType) (k : Key) (b : List Op) : Decidable (NoDp ty k b) :=
  inferInstanceAs (Decidable (∀ op ∈ b, op.isDpFor ty k = false))

/-- operation times never go backwards -/
def Nondecreasing (h : List Op) : Prop := List.Pairwise (fun a b => a.time ≤ b.time) h

instance (h : List Op) : Decidable (Nondecreasing h) :=
  inferInstanceAs (Decidable (List.Pairwise (fun a b => a.time ≤ b.time) h))

/-! ### the specification, computed from the history alone -/

/-- newest datapoint of series `(ty, k)` in `h`: its time, its payload and the operations after it -/
def lastDp (ty : MType) (k : Key) : List Op → Option (Int × Dp × List Op)
  | [] => none
  | op :: rest =>
    match lastDp ty k rest with
    | some r => some r
    | none =>
      match op with
      | .dp ty' k' t d => if ty' = ty ∧ k' = k then some (t, d, rest) else none
      | .flush _ => none

def flushTimes : List Op → List Int
  | [] => []
  | .flush t :: rest => t :: flushTimes rest
  | .dp .. :: rest => flushTimes rest

/-- **The property's reading of "reported"**, written with the literal comparison of the README /
property text (independent of `isExpired` above and of the state machine): the series has a datapoint,
and no flush after its newest datapoint `T` came more than `i ≠ 0` after `T`. -/
def specReported (i : Int) (ty : MType) (k : Key) (h : List Op) : Bool :=
  match lastDp ty k h with
  | none => false
  | some (T, _, after) => (flushTimes after).all (fun g => !(decide (i ≠ 0) && decide (g - T > i)))

/-- "persisted": the series is being reported without data since the last flush -/
def specPersisted (ty : MType) (k : Key) (h : List Op) : Bool :=
  match lastDp ty k h with
  | none => false
  | some (_, _, after) => !(flushTimes after).isEmpty

end Gsd.Expiry
