import Gsd.Model.AList
/-!
C06 — model of `MetricMap.Split` (metric_map.go) and of the routing in
`BackendHandler.DispatchMetricMap` (pkg/statsd/handler_backend.go).

The routing function `h` is a *parameter*: the property does not care which hash is used, only
that routing is a function of the series identity and of the shard count.  At run time the
harness supplies the real `gostatsd.Bucket(name, tagsKey, n)` as an oracle column.
-/
namespace Gsd

/-- One typed sub-map of a `MetricMap` (`Counters`, `Timers`, `Gauges`, `Sets`), split the way the
code does: iterate over the entries, put each into piece `h k % n` (`maps[Bucket(..)]`), creating /
overwriting the entry there. -/
def splitInto {κ ν : Type} [DecidableEq κ] (h : κ → Nat) (n : Nat) (m : AList κ ν) : List (AList κ ν) :=
  m.foldl (fun ps e => ps.modify (h e.1 % n) (AList.upsert e.1 (fun _ => e.2))) (List.replicate n [])

/-- The four typed sub-maps.  Value types are left abstract where a property does not look at them. -/
structure MMap (κ C T G S : Type) where
  counters : AList κ C := []
  timers   : AList κ T := []
  gauges   : AList κ G := []
  sets     : AList κ S := []

namespace MMap
variable {κ C T G S : Type} [DecidableEq κ]

def WF (m : MMap κ C T G S) : Prop :=
  AList.NodupKeys m.counters ∧ AList.NodupKeys m.timers ∧ AList.NodupKeys m.gauges ∧ AList.NodupKeys m.sets

def isEmpty (m : MMap κ C T G S) : Bool :=
  m.counters.isEmpty && m.timers.isEmpty && m.gauges.isEmpty && m.sets.isEmpty

/-- `MetricMap.Split(count)` -/
def split (h : κ → Nat) (n : Nat) (m : MMap κ C T G S) : List (MMap κ C T G S) :=
  let cs := splitInto h n m.counters
  let ts := splitInto h n m.timers
  let gs := splitInto h n m.gauges
  let ss := splitInto h n m.sets
  (List.range n).map (fun i =>
    { counters := cs[i]?.getD [], timers := ts[i]?.getD [], gauges := gs[i]?.getD [], sets := ss[i]?.getD [] })

/-- `DispatchMetricMap`: piece `i` goes to worker `i`, empty pieces are skipped. -/
def dispatch (h : κ → Nat) (n : Nat) (m : MMap κ C T G S) : List (Nat × MMap κ C T G S) :=
  ((List.range n).zip (split h n m)).filter (fun p => !p.2.isEmpty)

end MMap
end Gsd
