/-!
C19 — model of the event pipeline.

Part A (field fidelity): what each stage does to ONE event.
  * `lexedOf`      – the documented event grammar `_e{n,m}:title|text|d:…|h:…|k:…|p:…|s:…|t:…|#…` read as a
                     structure (internal/lexer/lexer.go, `lexEventBody`, `lexEventAttribute`); C02 owns the
                     byte-level lexer, here the line is already a structure and the harness renders it.
  * `parseEvent`   – `DatagramParser.handleDatagram` (pkg/statsd/parser.go): source := sender address (always),
                     DateHappened := receive time when it is 0.
  * `fromPBEvent`  – `rawHttpHandlerV2.EventHandler` (pkg/web/http_receiver_v2.go): HTTP-borne events.
  * `cloudEvent`   – `CloudHandler` (pkg/statsd/handler_cloud.go): `updateInplace` after a lookup.
  * `tagEvent`     – `TagHandler.DispatchEvent` (pkg/statsd/handler_tags.go): `uniqueTags(e.Tags, static)`.
  * `toPBEvent`    – `HttpForwarderHandlerV2.dispatchEvent` (forwarder mode).

Part B (fan-out): `BackendHandler.DispatchEvent` / `internalDispatchEvent` / `WaitForEvents`
(pkg/statsd/handler_backend.go) and the cloud stage's wait group for parked events, as a transition
system with one atomic action per channel operation / wait-group operation / backend call.
-/
namespace Gsd.Events

abbrev Bytes := List UInt8

/-! ## Part A — stage functions -/

/-- `gostatsd.Event` (events.go).  `prio`: 0 normal, 1 low.  `alert`: 0 info, 1 warning, 2 error, 3 success. -/
structure Event where
  title : Bytes := []
  text : Bytes := []
  date : Int := 0
  key : Bytes := []
  srcType : Bytes := []
  tags : List Bytes := []
  source : Bytes := []
  prio : Nat := 0
  alert : Nat := 0
deriving DecidableEq, Repr, Inhabited

/-- one `|field` of an event line -/
inductive Attr
  | date (n : Nat)            -- `d:<n>`
  | host (s : Bytes)          -- `h:<s>`  (stored by the lexer, overwritten by the parser)
  | key (s : Bytes)           -- `k:<s>`
  | prio (p : Nat)            -- `p:normal` = 0, `p:low` = 1
  | srcType (s : Bytes)       -- `s:<s>`
  | alert (a : Nat)           -- `t:info|warning|error|success` = 0..3
  | tags (ts : List Bytes)    -- `#a,b,c` (empty items are skipped by `appendTag`)
  | other                     -- any other field: ignored
deriving DecidableEq, Repr

structure EventLine where
  title : Bytes
  text : Bytes                 -- with real newlines; on the wire they are the two characters `\n`
  attrs : List Attr
deriving Repr

/-- one step of `lexEventAttribute`.  Quirks kept: `p:normal` and `t:info` do not reset an earlier
`p:low` / `t:error` ("Normal is default", "Info is default"), `d:` and `k:`/`s:`/`h:` overwrite. -/
def applyAttr (e : Event) : Attr → Event
  | .date n => { e with date := n }
  | .host s => { e with source := s }
  | .key s => { e with key := s }
  | .prio p => if p = 1 then { e with prio := 1 } else e
  | .srcType s => { e with srcType := s }
  | .alert a => if a = 0 then e else { e with alert := a }
  | .tags ts => { e with tags := e.tags ++ ts.filter (· ≠ []) }
  | .other => e

def lexedOf (l : EventLine) : Event :=
  l.attrs.foldl applyAttr { title := l.title, text := l.text }

/-! specification vocabulary: what a line *declares*, read from the right (independent of the lexer's
left-to-right fold) -/

/-- the last field of a kind, searched from the right -/
def lastOf {α : Type} (f : Attr → Option α) : List Attr → Option α
  | [] => none
  | a :: t => match lastOf f t with
    | some v => some v
    | none => f a

def dateOf : Attr → Option Int
  | .date n => some (n : Int)
  | _ => none
def keyOf : Attr → Option Bytes
  | .key s => some s
  | _ => none
def srcTypeOf : Attr → Option Bytes
  | .srcType s => some s
  | _ => none
/-- only a non-info alert type is stored -/
def alertOf : Attr → Option Nat
  | .alert a => if a = 0 then none else some a
  | _ => none
def tagsOf : Attr → List Bytes
  | .tags ts => ts.filter (· ≠ [])
  | _ => []
/-- all non-empty tags of all `#` fields, in order -/
def lineTags (as : List Attr) : List Bytes := as.flatMap tagsOf

/-- `handleDatagram`: `event.Source = ip`; `if event.DateHappened == 0 { = time.Now().Unix() }` -/
def parseEvent (now : Int) (ip : Bytes) (e : Event) : Event :=
  { e with source := ip, date := if e.date = 0 then now else e.date }

/-- `pb.EventV2` as far as it is used -/
structure PBEvent where
  title : Bytes := []
  text : Bytes := []
  date : Int := 0
  hostname : Bytes := []
  key : Bytes := []
  srcType : Bytes := []
  tags : List Bytes := []
  sourceIP : Bytes := []
  prio : Nat := 0
  typ : Nat := 0
deriving DecidableEq, Repr

/-- `EventHandler`: unknown enum values fall back to normal / info; no receive-time default. -/
def fromPBEvent (m : PBEvent) : Event :=
  { title := m.title, text := m.text, date := m.date, source := m.hostname, key := m.key,
    srcType := m.srcType, tags := m.tags,
    prio := if m.prio = 1 then 1 else 0,
    alert := if m.typ = 1 then 1 else if m.typ = 2 then 2 else if m.typ = 3 then 3 else 0 }

/-- `HttpForwarderHandlerV2.dispatchEvent` -/
def toPBEvent (e : Event) : PBEvent :=
  { title := e.title, text := e.text, date := e.date, hostname := e.source, key := e.key,
    srcType := e.srcType, tags := e.tags, sourceIP := e.source,
    prio := if e.prio = 1 then 1 else 0,
    typ := if e.alert = 1 then 1 else if e.alert = 2 then 2 else if e.alert = 3 then 3 else 0 }

/-- `gostatsd.Instance` -/
structure Instance where
  id : Bytes
  tags : List Bytes
deriving DecidableEq, Repr

/-- tags contributed by the lookup -/
def lookTags : Option Instance → List Bytes
  | some i => i.tags
  | none => []

/-- `updateInplace`: a positive lookup appends the instance tags and replaces the source; a negative
answer (nil instance), an unknown source or a server without cloud provider leave the event alone. -/
def cloudEvent (look : Option Instance) (e : Event) : Event :=
  match look with
  | some i => { e with tags := e.tags ++ i.tags, source := i.id }
  | none => e

/-- keep the first occurrence of every tag -/
def dedup : List Bytes → List Bytes
  | [] => []
  | x :: xs => x :: (dedup xs).filter (· ≠ x)

/-- `uniqueTags(t1, t2)`: `t1` without repetitions, then the tags of `t2` not in `t1`.  (The code removes a
repeated tag by swapping the last element in, so the ORDER differs; tag order is not observed.) -/
def uniqueTags (t1 t2 : List Bytes) : List Bytes :=
  let a := dedup t1
  a ++ t2.filter (fun t => !a.contains t)

/-- `NewTagHandler` de-duplicates the static tags once; `DispatchEvent` then `uniqueTags(e.Tags, th.tags)` -/
def tagEvent (static : List Bytes) (e : Event) : Event :=
  { e with tags := uniqueTags e.tags (uniqueTags static []) }

/-- network-borne event: lexer → parser → cloud stage → tag stage -/
def pipelineUDP (now : Int) (ip : Bytes) (static : List Bytes) (look : Option Instance) (l : EventLine) : Event :=
  tagEvent static (cloudEvent look (parseEvent now ip (lexedOf l)))

/-- HTTP-borne event: `/v2/event` → cloud stage → tag stage -/
def pipelineHTTP (static : List Bytes) (look : Option Instance) (m : PBEvent) : Event :=
  tagEvent static (cloudEvent look (fromPBEvent m))

/-- what the upstream server decodes in forwarder mode -/
def forwarded (e : Event) : Event := fromPBEvent (toPBEvent e)

/-! ## Part B — fan-out transition system -/

/-- life of one (event, backend) pair -/
inductive BSt
  | idle        -- no goroutine yet
  | acquired    -- token sent into `concurrentEvents`, goroutine spawned
  | sending     -- inside `backend.SendEvent`
  | sent        -- `SendEvent` returned
  | released    -- token taken back (`<-bh.concurrentEvents`, first deferred call)
  | done        -- `eventWg.Done()` (second deferred call)
  | dropped     -- the goroutine ended without calling the backend: its context was already cancelled
                -- (only possible when the delivery context is NOT detached from the caller's: defect D10)
deriving DecidableEq, Repr

inductive Stage
  | parked        -- cache miss: `ch.wg.Add(1)`, waiting in `incomingEvents` / `awaitingEvents`
  | dispatching   -- inside `BackendHandler.DispatchEvent`, `cursor` backends handled so far
  | returned      -- `DispatchEvent` returned after the last backend
  | cancelled     -- `ctx.Done()` was selected: the remaining backends never get the event
deriving DecidableEq, Repr

structure Ev where
  stage : Stage
  cursor : Nat := 0
  viaCloud : Bool := false    -- went through the parked path
  counted : Bool := false     -- the cloud stage's `wg.Add(-dispatched)` has happened for it
  bs : List BSt
deriving DecidableEq, Repr

/-- actions on one event -/
inductive EvAct
  | lookup            -- answer arrived: `updateAndDispatchEvents` calls downstream `DispatchEvent`: `eventWg.Add(nb)`
  | abandon           -- cloud stage, `ctx.Done()` while parking: `ch.wg.Done()`, event dropped
  | acquire           -- `bh.concurrentEvents <- struct{}{}` for backend `cursor`, `go …`, `eventsDispatched++`
  | cancel            -- `<-ctx.Done()`: `eventWg.Add(eventsDispatched - len(backends))`, return
  | ret               -- the loop is over, `DispatchEvent` returns
  | cloudDone         -- `ch.wg.Add(-dispatched)` (modelled per event, after its dispatch returned)
  | start (b : Nat)   -- `backend.SendEvent(ctx, e)` is called
  | finish (b : Nat)  -- … returns
  | release (b : Nat) -- `<-bh.concurrentEvents`
  | done (b : Nat)    -- `bh.eventWg.Done()`
  | abort (b : Nat)   -- the post is abandoned on `ctx.Done()`, token back, `Done()` (one step; un-detached context only)
deriving DecidableEq, Repr

/-- effect of an event-local action on the shared counters -/
structure Delta where
  dwg : Int := 0       -- eventWg
  dsem : Int := 0      -- len(concurrentEvents)
  dcwg : Int := 0      -- cloud handler wg
  deliver : Option Nat := none   -- a `SendEvent` call on backend b
deriving DecidableEq, Repr

def setB (ev : Ev) (b : Nat) (s : BSt) : Ev := { ev with bs := ev.bs.set b s }

def evStep (nb : Nat) (det : Bool) (ev : Ev) : EvAct → Option (Ev × Delta)
  | .lookup =>
    if ev.stage = .parked then some ({ ev with stage := .dispatching, cursor := 0 }, { dwg := nb }) else none
  | .abandon =>
    if ev.stage = .parked then some ({ ev with stage := .cancelled, cursor := 0, counted := true }, { dcwg := -1 }) else none
  | .acquire =>
    if ev.stage = .dispatching ∧ ev.cursor < nb then
      some ({ setB ev ev.cursor .acquired with cursor := ev.cursor + 1 }, { dsem := 1 })
    else none
  | .cancel =>
    if ev.stage = .dispatching ∧ ev.cursor < nb then
      some ({ ev with stage := .cancelled }, { dwg := (ev.cursor : Int) - nb })
    else none
  | .ret =>
    if ev.stage = .dispatching ∧ ev.cursor = nb then some ({ ev with stage := .returned }, {}) else none
  | .cloudDone =>
    if ev.viaCloud ∧ ev.counted = false ∧ (ev.stage = .returned ∨ ev.stage = .cancelled) then
      some ({ ev with counted := true }, { dcwg := -1 })
    else none
  | .start b =>
    if ev.bs[b]? = some .acquired then some (setB ev b .sending, { deliver := some b }) else none
  | .finish b =>
    if ev.bs[b]? = some .sending then some (setB ev b .sent, {}) else none
  | .release b =>
    if ev.bs[b]? = some .sent then some (setB ev b .released, { dsem := -1 }) else none
  | .done b =>
    if ev.bs[b]? = some .released then some (setB ev b .done, { dwg := -1 }) else none
  | .abort b =>
    if det = false ∧ ev.bs[b]? = some .acquired then some (setB ev b .dropped, { dwg := -1, dsem := -1 }) else none

inductive Waiter
  | idle
  | cloudOk     -- `ch.wg.Wait()` returned
  | returned    -- `bh.eventWg.Wait()` returned: `WaitForEvents` returns
deriving DecidableEq, Repr

structure St where
  nb : Nat                      -- number of backends
  cap : Nat                     -- `maxConcurrentEvents`
  det : Bool := true            -- the delivery goroutine's context is detached from the caller's
  sem : Int := 0                -- len(concurrentEvents)
  wg : Int := 0                 -- eventWg
  cwg : Int := 0                -- CloudHandler.wg
  evs : List Ev := []           -- accepted events in order of acceptance
  dl : List (Nat × Nat) := []   -- history: every `SendEvent(event, backend)` call made so far
  waiter : Waiter := .idle
  waitFrom : Nat := 0           -- history: number of events accepted when `WaitForEvents` was entered
deriving DecidableEq, Repr

inductive Act
  | arriveHit                   -- cache hit / no cloud stage: straight into `BackendHandler.DispatchEvent`
  | arriveMiss                  -- cache miss: `ch.wg.Add(1)`, parked
  | ev (e : Nat) (a : EvAct)
  | waitCloud                   -- `WaitForEvents`: `ch.wg.Wait()` returns (counter is 0)
  | waitBackend                 -- … then `bh.eventWg.Wait()` returns (counter is 0)
deriving DecidableEq, Repr

def init (nb cap : Nat) (det : Bool := true) : St := { nb := nb, cap := cap, det := det }

/-- `BackendHandler.DispatchEvent` builds `context.WithTimeout(context.Background(), 20s)` for the goroutine. -/
def backendHandlerDetached : Bool := true

/-- `HttpForwarderHandlerV2.DispatchEvent` hands the caller's context to `go hfh.dispatchEvent(ctx, e)`; for an
event received on `/v2/event` that is the request context, cancelled as soon as the handler has answered.
**Defect D10** of the pinned tree.  After `handoff/C19-fix-1.patch` this line becomes `true`. -/
def forwarderDetached : Bool := true

def freshHit (nb : Nat) : Ev := { stage := .dispatching, bs := List.replicate nb .idle }
def freshMiss (nb : Nat) : Ev := { stage := .parked, viaCloud := true, bs := List.replicate nb .idle }

def step (s : St) : Act → Option St
  | .arriveHit => some { s with evs := s.evs ++ [freshHit s.nb], wg := s.wg + s.nb }
  | .arriveMiss => some { s with evs := s.evs ++ [freshMiss s.nb], cwg := s.cwg + 1 }
  | .ev e a =>
    match s.evs[e]? with
    | none => none
    | some ev =>
      match evStep s.nb s.det ev a with
      | none => none
      | some (ev', d) =>
        if s.sem + d.dsem ≤ s.cap then
          some { s with evs := s.evs.set e ev', wg := s.wg + d.dwg, sem := s.sem + d.dsem, cwg := s.cwg + d.dcwg,
                        dl := match d.deliver with | some b => s.dl ++ [(e, b)] | none => s.dl }
        else none
  | .waitCloud =>
    if s.waiter = .idle ∧ s.cwg = 0 then some { s with waiter := .cloudOk, waitFrom := s.evs.length } else none
  | .waitBackend =>
    if s.waiter = .cloudOk ∧ s.wg = 0 then some { s with waiter := .returned } else none

def run (s : St) : List Act → Option St
  | [] => some s
  | a :: as => match step s a with
    | none => none
    | some s' => run s' as

/-! ### what the counters are supposed to count -/

def BSt.active : BSt → Bool
  | .acquired | .sending | .sent | .released => true
  | _ => false

def BSt.holds : BSt → Bool
  | .acquired | .sending | .sent => true
  | _ => false

def BSt.delivered : BSt → Bool
  | .sending | .sent | .released | .done => true
  | _ => false

/-- the event's share of `eventWg`, "as the code counts": the not-yet-visited backends of an event that is
inside `DispatchEvent`, plus every spawned goroutine that has not called `Done` -/
def cnt (p : BSt → Bool) (bs : List BSt) : Nat := (bs.map (fun s => if p s then 1 else 0)).sum

def pending (nb : Nat) (ev : Ev) : Nat :=
  (match ev.stage with
   | .dispatching => nb - ev.cursor
   | _ => 0) + cnt BSt.active ev.bs

def held (ev : Ev) : Nat := cnt BSt.holds ev.bs

/-- 1 when `SendEvent(event, backend b)` has been called -/
def dflag (ev : Ev) (b : Nat) : Nat :=
  match ev.bs[b]? with
  | some st => if st.delivered then 1 else 0
  | none => 0

/-- the event's share of the cloud stage's wait group -/
def parkedShare (ev : Ev) : Nat := if ev.viaCloud ∧ ev.counted = false then 1 else 0

def total (f : Ev → Nat) (evs : List Ev) : Nat := (evs.map f).sum

def countPair (p : Nat × Nat) (dl : List (Nat × Nat)) : Nat := dl.count p

end Gsd.Events
