/-!
C18 — model of `AlignedTicker` (internal/util/aligned_ticker.go), of the flusher's `flushDelta`
(pkg/statsd/flusher.go `Run`) and of the mock clock (`github.com/tilinna/clock` `Mock.set`) on which
the correspondence harness runs them.

All times are `Int` nanoseconds since Go's zero time (January 1, year 1 UTC); durations are `Int`
nanoseconds.  `time.Time.Truncate(d)` "rounds t down to a multiple of d since the zero time"; for every
representable time (also before year 1) that is `t − t emod d`, with `0 ≤ t emod d < d`.

* `start`:  `initialWait = roundup(now − offset, interval) + offset − now`, a one-shot timer for it,
  then a plain ticker of period `interval` created when the timer has fired.
* `sendTick(t)`: the value put on the channel is **not** `t` but
  `rounded = (t − offset).Truncate(interval) + offset`; the send is a `select` with `default` on a channel of
  capacity 1: when the previous value has not been taken the new one is dropped.
* flusher: `flushDelta = thisFlush − lastFlush; …; lastFlush = thisFlush` (the very first `lastFlush` is
  `time.Now()`, outside the model).
-/
namespace Gsd.Ticker

/-- `t.Truncate(d)` (`d ≤ 0`: returned unchanged, as Go does) -/
def trunc (t d : Int) : Int := if d ≤ 0 then t else t - t % d

/-- `roundup(t, i) = t.Truncate(i).Add(i)` -/
def roundup (t i : Int) : Int := trunc t i + i

/-- `roundup(now.Add(-offset), interval).Add(offset).Sub(now)` -/
def initialWait (now off i : Int) : Int := roundup (now - off) i + off - now

/-- `sendTick`: `t.Add(-offset).Truncate(interval).Add(offset)` -/
def tickValue (τ off i : Int) : Int := trunc (τ - off) i + off

/-! ### the channel `C` (capacity 1) between the ticker goroutine and its consumer -/

structure Chan where
  /-- content of the buffered channel -/
  chan : Option Int := none
  /-- values the consumer has received, oldest first -/
  recvd : List Int := []
  deriving DecidableEq, Repr

inductive Act where
  /-- the underlying timer / ticker delivered time `τ` and `sendTick τ` ran -/
  | tick (τ : Int)
  /-- the consumer executed `<-C` (nothing happens while the channel is empty) -/
  | recv
  deriving DecidableEq, Repr

def act (off i : Int) (s : Chan) : Act → Chan
  | .tick τ =>
    match s.chan with
    | none => { s with chan := some (tickValue τ off i) }
    | some _ => s                                   -- `default:` — dropped
  | .recv =>
    match s.chan with
    | some v => { chan := none, recvd := s.recvd ++ [v] }
    | none => s

def runActs (off i : Int) (acts : List Act) : Chan := acts.foldl (act off i) {}

def ticksOf : List Act → List Int
  | [] => []
  | .tick τ :: rest => τ :: ticksOf rest
  | .recv :: rest => ticksOf rest

/-- the flusher's `flushDelta` for the second, third, … received value -/
def deltas : List Int → List Int
  | a :: b :: rest => (b - a) :: deltas (b :: rest)
  | _ => []

/-! ### the scripted system: mock clock + `start` + a consumer -/

inductive SOp where
  /-- `mock.Add(d)` -/
  | add (d : Int)
  /-- `mock.AddNext()` -/
  | next
  /-- ticker mode: the consumer tries `<-C`; flusher mode: the blocked `Process` call returns -/
  | recv
  deriving DecidableEq, Repr

inductive Ev where
  /-- `AddNext` advanced the clock by `d` -/
  | adv (d : Int)
  /-- ticker mode: the consumer received `v` -/
  | got (v : Int)
  /-- ticker mode: the channel was empty -/
  | empty
  /-- flusher mode: the flusher took `v` while the clock read `clock` and called the aggregators -/
  | flush (clock v : Int)
  deriving DecidableEq, Repr

structure Sim where
  now : Int
  /-- deadline of the phase-1 timer while it is armed -/
  timer : Option Int
  /-- next deadline of the phase-2 ticker -/
  ticker : Option Int := none
  ch : Chan := {}
  /-- flusher mode: the flusher is inside `Process` -/
  busy : Bool := false
  /-- ghost: every action on the channel so far -/
  log : List Act := []
  /-- clock reading at each receipt (parallel to `ch.recvd`) -/
  clocks : List Int := []
  evs : List Ev := []
  deriving Repr

/-- `start` has read the clock and armed its timer -/
def Sim.init (now off i : Int) : Sim := { now := now, timer := some (now + initialWait now off i) }

def Sim.doAct (off i : Int) (s : Sim) (a : Act) : Sim :=
  { s with ch := act off i s.ch a, log := s.log ++ [a] }

/-- flusher mode: an idle flusher takes a waiting value at once and stays busy until released -/
def Sim.settle (off i : Int) (flusher : Bool) (s : Sim) : Sim :=
  if flusher && !s.busy then
    match s.ch.chan with
    | some v => { s.doAct off i .recv with busy := true, clocks := s.clocks ++ [s.now], evs := s.evs ++ [.flush s.now v] }
    | none => s
  else s

/-- `Mock.set(t)` for `t ≥ now`: fire what is due (a ticker at most once per call; its next deadline is
the first multiple of the period after `t`, counted from the deadline that fired), then the goroutine
runs: after the timer it creates the ticker (the clock already reads `t`) and sends the tick. -/
def Sim.advanceTo (off i : Int) (flusher : Bool) (s : Sim) (t : Int) : Sim :=
  match s.timer with
  | some D =>
    if D ≤ t then
      Sim.settle off i flusher (Sim.doAct off i { s with now := t, timer := none, ticker := some (t + i) } (.tick D))
    else { s with now := t }
  | none =>
    match s.ticker with
    | some D =>
      if D ≤ t then
        Sim.settle off i flusher
          (Sim.doAct off i { s with now := t, ticker := some (D + ((t - D) / i + 1) * i) } (.tick D))
      else { s with now := t }
    | none => { s with now := t }

def Sim.step (off i : Int) (flusher : Bool) (s : Sim) : SOp → Sim
  | .add d => Sim.advanceTo off i flusher s (s.now + d)
  | .next =>
    match (match s.timer with | some D => some D | none => s.ticker) with
    | some D =>
      let s' := Sim.advanceTo off i flusher s D
      { s' with evs := s'.evs ++ [.adv (D - s.now)] }     -- (the flush events of this step come first)
    | none => { s with evs := s.evs ++ [.adv 0] }
  | .recv =>
    if flusher then
      if s.busy then Sim.settle off i flusher { s with busy := false } else s
    else
      match s.ch.chan with
      | some v => { s.doAct off i .recv with clocks := s.clocks ++ [s.now], evs := s.evs ++ [.got v] }
      | none => { s with evs := s.evs ++ [.empty] }

def Sim.run (now off i : Int) (flusher : Bool) (script : List SOp) : Sim :=
  script.foldl (Sim.step off i flusher) (Sim.init now off i)

/-- scripts only move the clock forward -/
def SOp.ok : SOp → Bool
  | .add d => decide (0 ≤ d)
  | _ => true

def ScriptOk (script : List SOp) : Prop := ∀ op ∈ script, op.ok = true

instance (script : List SOp) : Decidable (ScriptOk script) :=
  inferInstanceAs (Decidable (∀ op ∈ script, op.ok = true))

/-- "differ by a positive multiple of the interval" -/
def PosMultiple (i a b : Int) : Prop := ∃ n : Int, 0 < n ∧ b - a = n * i

/-- the interval slot a delivered time falls into (slot `q` = `[q·i + off, (q+1)·i + off)`) -/
def slot (τ off i : Int) : Int := (τ - off) / i

/-- **The hypothesis on the underlying timer/ticker**: each delivered time falls into a later slot
than the one before.  Implied by "delivered times are at least one interval apart" (`GapsOk`, what the
mock clock and an ideal ticker do) and by "start-up lag plus lateness stays below one interval"
(`C18_slots_of_lateness`, a real ticker). -/
def SlotsIncreasing (off i : Int) (τs : List Int) : Prop :=
  List.Pairwise (fun a b => slot a off i < slot b off i) τs

/-- delivered times are at least one interval apart -/
def GapsOk (i : Int) (τs : List Int) : Prop := List.Pairwise (fun a b => a + i ≤ b) τs

instance (off i : Int) (τs : List Int) : Decidable (SlotsIncreasing off i τs) :=
  inferInstanceAs (Decidable (List.Pairwise _ τs))
instance (i : Int) (τs : List Int) : Decidable (GapsOk i τs) :=
  inferInstanceAs (Decidable (List.Pairwise _ τs))

end Gsd.Ticker
