import Gsd.Model.MetricMap
import Gsd.Model.Bytes
/-!
Model of the forwarder / ingestion pair (C14) and of the forwarder's delivery machinery (C15).

C14 part — `pkg/statsd/handler_http_forwarder_v2.go` (`translateToProtobufV2`, `dispatchEvent`,
`constructPost`) and `pkg/web/http_receiver_v2.go` (`readBody`, `MetricHandler`, `EventHandler`,
`translateFromProtobufV2`), over a structural message type mirroring `pb/gostatsd.proto`.

* the **tagsKey is carried** as the key of the inner protobuf map (`TagMap`), it is never recomputed;
* **timestamps are not carried**: the receiver stamps every series with its own `time.Now()` (`now`);
* the protobuf wire codec, zlib and lz4 are *parameters* (`Lib`), `Option`-returning.
-/
namespace Gsd



/-! ## UTF-8 validity (what `proto.Marshal` demands of every proto3 `string`, map keys included) -/

/-- decoder state: number of continuation bytes still expected and the allowed range of the next one -/
structure Utf8St where
  need : Nat
  lo : UInt8
  hi : UInt8

/-- one byte of Go's `utf8.Valid` automaton (RFC 3629: no overlongs, no surrogates, ≤ U+10FFFF) -/
def utf8Step (st : Option Utf8St) (b : UInt8) : Option Utf8St :=
  match st with
  | none => none
  | some s =>
    if s.need = 0 then
      if b < 0x80 then some ⟨0, 0x80, 0xBF⟩
      else if 0xC2 ≤ b ∧ b ≤ 0xDF then some ⟨1, 0x80, 0xBF⟩
      else if b = 0xE0 then some ⟨2, 0xA0, 0xBF⟩
      else if b = 0xED then some ⟨2, 0x80, 0x9F⟩
      else if 0xE1 ≤ b ∧ b ≤ 0xEF then some ⟨2, 0x80, 0xBF⟩
      else if b = 0xF0 then some ⟨3, 0x90, 0xBF⟩
      else if b = 0xF4 then some ⟨3, 0x80, 0x8F⟩
      else if 0xF1 ≤ b ∧ b ≤ 0xF3 then some ⟨3, 0x80, 0xBF⟩
      else none
    else if s.lo ≤ b ∧ b ≤ s.hi then some ⟨s.need - 1, 0x80, 0xBF⟩ else none

def utf8Valid (bs : Bytes) : Bool :=
  match bs.foldl utf8Step (some ⟨0, 0x80, 0xBF⟩) with
  | some s => s.need = 0
  | none => false

/-! ## the messages of pb/gostatsd.proto -/

structure RawCounter where
  tags : List String
  hostname : String
  value : Int
deriving DecidableEq, Repr

structure RawGauge (α : Type) where
  tags : List String
  hostname : String
  value : α
deriving Repr

structure RawSet where
  tags : List String
  hostname : String
  values : List String
deriving DecidableEq, Repr

structure RawTimer (α : Type) where
  tags : List String
  hostname : String
  sampleCount : α
  values : List α
deriving Repr

/-- `map<string, XTagV2>` with `XTagV2 = { map<string, RawXV2> TagMap }`: name → tagsKey → record -/
abbrev Nested (ν : Type) := AList String (AList String ν)

/-- `RawMessageV2` -/
structure PBMap (α : Type) where
  counters : Nested RawCounter := []
  gauges   : Nested (RawGauge α) := []
  sets     : Nested RawSet := []
  timers   : Nested (RawTimer α) := []

namespace Nested
variable {ν μ : Type}

/-- `msg.X[name].TagMap[tagsKey]` -/
def lookup2 (n tk : String) (p : Nested ν) : Option ν := (AList.lookup n p).bind (AList.lookup tk)

/-- every outer key once (what a Go map / a decoded protobuf map is) -/
def WF (p : Nested ν) : Prop := AList.NodupKeys p ∧ ∀ e ∈ p, AList.NodupKeys e.2

end Nested

/-- `for name, m := range mm.X { pb.X[name] = &{TagMap: {}}; for tagsKey, v := range m { pb.X[name].TagMap[tagsKey] = f v } }`
(the flat model map is re-nested by name; the tagsKey becomes the inner map key verbatim) -/
def nest {ν μ : Type} (f : ν → μ) (m : AList Key ν) : Nested μ :=
  m.foldl (fun acc e => AList.upsert e.1.1 (fun o => AList.upsert e.1.2 (fun _ => f e.2) (o.getD [])) acc) []

/-- `for name, tagMap := range pb.X { mm.X[name] = {}; for tagsKey, r := range tagMap.TagMap { mm.X[name][tagsKey] = g r } }` -/
def unnest {μ ν : Type} (g : μ → ν) (p : Nested μ) : AList Key ν :=
  p.flatMap (fun e => e.2.map (fun r => ((e.1, r.1), g r.2)))

/-! ## translateToProtobufV2 -/

def counterToPB (c : Counter) : RawCounter := { tags := c.tags, hostname := c.src, value := c.value }
def gaugeToPB {α} (g : Gauge α) : RawGauge α := { tags := g.tags, hostname := g.src, value := g.value }
/-- `for key := range metric.Values { values = append(values, key) }` (Go map order; the model keeps the stored order) -/
def setToPB (s : SetV) : RawSet := { tags := s.tags, hostname := s.src, values := s.members }
def timerToPB {α} (t : Timer α) : RawTimer α :=
  { tags := t.tags, hostname := t.src, sampleCount := t.sampled, values := t.values }

def toPB {α} (m : MM α) : PBMap α :=
  { counters := nest counterToPB m.counters, gauges := nest gaugeToPB m.gauges,
    sets := nest setToPB m.sets, timers := nest timerToPB m.timers }

/-! ## translateFromProtobufV2 (`now` = the receiver's `time.Now()`) -/

def counterFromPB (now : Int) (r : RawCounter) : Counter :=
  { value := r.value, ts := now, src := r.hostname, tags := r.tags }
def gaugeFromPB {α} (now : Int) (r : RawGauge α) : Gauge α :=
  { value := r.value, ts := now, src := r.hostname, tags := r.tags }
def timerFromPB {α} (now : Int) (r : RawTimer α) : Timer α :=
  { values := r.values, sampled := r.sampleCount, ts := now, src := r.hostname, tags := r.tags }
/-- `Values: map[string]struct{}{}` then `for _, value := range set.Values { …Values[value] = struct{}{} }` -/
def setFromPB (now : Int) (r : RawSet) : SetV :=
  { members := setUnion [] r.values, ts := now, src := r.hostname, tags := r.tags }

def fromPB {α} (now : Int) (p : PBMap α) : MM α :=
  { counters := unnest (counterFromPB now) p.counters, gauges := unnest (gaugeFromPB now) p.gauges,
    sets := unnest (setFromPB now) p.sets, timers := unnest (timerFromPB now) p.timers }

/-- what a series looks like after the trip: everything but the timestamp -/
def Counter.restamp (now : Int) (c : Counter) : Counter := { c with ts := now }
def Gauge.restamp {α} (now : Int) (g : Gauge α) : Gauge α := { g with ts := now }
def Timer.restamp {α} (now : Int) (t : Timer α) : Timer α := { t with ts := now }
/-- members pass through a Go map once more (`setUnion []` = de-duplication, identity on a set) -/
def SetV.restamp (now : Int) (s : SetV) : SetV := { s with ts := now, members := setUnion [] s.members }

/-! ## events (`dispatchEvent` / `EventHandler`) -/

/-- `gostatsd.Event`; `priority` / `alert` are the `byte` enums (`PriNormal = 0`, `PriLow = 1`;
`AlertInfo … AlertSuccess = 0 … 3`), modelled as `Nat` so that out-of-range values are covered -/
structure Event where
  title : String
  text : String
  date : Int
  aggKey : String
  srcType : String
  tags : List String
  source : String
  priority : Nat
  alert : Nat
deriving DecidableEq, Repr

/-- `pb.EventV2`; proto3 enums are open: any `int32` can arrive on the wire -/
structure PBEvent where
  title : String
  text : String
  date : Int
  hostname : String
  aggKey : String
  srcType : String
  tags : List String
  sourceIP : String
  priority : Int
  type : Int
deriving DecidableEq, Repr

/-- `switch e.Priority { case PriNormal: Normal; case PriLow: Low }` — anything else leaves the zero value -/
def priToPB (p : Nat) : Int := if p = 1 then 1 else 0
/-- `switch e.AlertType { Info, Warning, Error, Success }` — anything else leaves the zero value -/
def alertToPB (a : Nat) : Int := if a = 1 then 1 else if a = 2 then 2 else if a = 3 then 3 else 0

def eventToPB (e : Event) : PBEvent :=
  { title := e.title, text := e.text, date := e.date, hostname := e.source, aggKey := e.aggKey,
    srcType := e.srcType, tags := e.tags, sourceIP := e.source,
    priority := priToPB e.priority, type := alertToPB e.alert }

/-- `switch msg.Priority { Normal → PriNormal; Low → PriLow; default → PriNormal }` -/
def priFromPB (p : Int) : Nat := if p = 1 then 1 else 0
/-- `switch msg.Type { Info, Warning, Error, Success; default → AlertInfo }` -/
def alertFromPB (a : Int) : Nat := if a = 1 then 1 else if a = 2 then 2 else if a = 3 then 3 else 0

/-- the receiver reads `Hostname`; `SourceIP` is ignored -/
def eventFromPB (p : PBEvent) : Event :=
  { title := p.title, text := p.text, date := p.date, aggKey := p.aggKey, srcType := p.srcType,
    tags := p.tags, source := p.hostname, priority := priFromPB p.priority, alert := alertFromPB p.type }

/-! ## the two ends of the HTTP hop -/

inductive CType | none | zlib | lz4
deriving DecidableEq, Repr

/-- forwarder options `compress`, `compression-type`, `compression-level` -/
structure FwdCfg where
  compress : Bool
  ctype : CType
  level : Nat
deriving Repr

/-- the third-party calls, all `Option`-returning (`none` = the call returned an error) -/
structure Lib (Msg : Type) where
  marshal   : Msg → Option Bytes
  unmarshal : Bytes → Option Msg
  deflate   : Nat → Bytes → Option Bytes
  inflate   : Bytes → Option Bytes
  lz4c      : Nat → Bytes → Option Bytes
  lz4d      : Bytes → Option Bytes

def zlibEncoding : String := "deflate"
def lz4Encoding : String := "lz4"

/-- the `Content-Encoding` header `constructPost` sets -/
def contentEncoding (cfg : FwdCfg) : String :=
  if cfg.compress && cfg.ctype != .none then (if cfg.ctype = .lz4 then lz4Encoding else zlibEncoding) else "identity"

/-- `constructPost`: `none` = the message is counted `invalid` and nothing is sent -/
def constructPost {Msg} (lib : Lib Msg) (cfg : FwdCfg) (msg : Msg) : Option (String × Bytes) :=
  match lib.marshal msg with
  | none => none
  | some raw =>
    if cfg.compress && cfg.ctype != .none then
      if cfg.ctype = .lz4 then (lib.lz4c cfg.level raw).map (fun b => (lz4Encoding, b))
      else (lib.deflate cfg.level raw).map (fun b => (zlibEncoding, b))
    else some ("identity", raw)

/-- an arriving request: `body = none` when `ioutil.ReadAll` fails -/
structure Request where
  body : Option Bytes
  encoding : String

/-- `readBody`: the decompressed body or the status code to answer with -/
def readBody {Msg} (lib : Lib Msg) (rq : Request) : Except Nat Bytes :=
  match rq.body with
  | none => .error 500
  | some b =>
    if rq.encoding = zlibEncoding then (match lib.inflate b with | some x => .ok x | none => .error 400)
    else if rq.encoding = lz4Encoding then (match lib.lz4d b with | some x => .ok x | none => .error 400)
    else if rq.encoding = "identity" ∨ rq.encoding = "" then .ok b
    else .error 400

/-- `MetricHandler` / `EventHandler`: status code and what is handed to the pipeline (the list has
one element per `Dispatch…` call) -/
def ingest {Msg Out} (lib : Lib Msg) (tr : Msg → Out) (rq : Request) : Nat × List Out :=
  match readBody lib rq with
  | .error c => (c, [])
  | .ok b => match lib.unmarshal b with
    | none => (400, [])
    | some msg => (202, [tr msg])

/-- does the request decode? (read ok, known encoding, decompression ok, unmarshal ok) -/
def decodes {Msg} (lib : Lib Msg) (rq : Request) : Option Msg :=
  match readBody lib rq with
  | .error _ => none
  | .ok b => lib.unmarshal b

/-- the forwarder's side for one split map: an empty map is skipped (`if mm.IsEmpty() { notifyFlush; continue }`) -/
def forwardMap {α} (lib : Lib (PBMap α)) (cfg : FwdCfg) (m : MM α) : Option (String × Bytes) :=
  if m.isEmpty then none else constructPost lib cfg (toPB m)


/-! # C15 — delivery: consolidator slots under concurrent drain, SplitByTags, retry loop, isolation -/

/-! ## (a) consolidator slots as a transition system (metric_consolidator.go)

`k` maps circulate through the channel `maps`.  A dispatcher (`ReceiveMetricMap`) *takes* a map out of
the channel, merges into it and *puts* it back; `Flush` = `Drain` (receive `k` maps, one at a time,
**not atomically**: a dispatcher may still take, merge into and return a slot the drain has not reached
yet), then the `sink` send, then `Fill`.  Content is abstracted to ghost ids: a slot is the list of
dispatch ids merged into it (C07_slots: its content is the aggregate of exactly those dispatches). -/

structure CS where
  k : Nat
  chan : List (List Nat)          -- maps in the channel
  held : List (Nat × List Nat)    -- (dispatch id, map taken) — dispatchers between take and put
  got : List (List Nat)           -- maps the flusher has received in the current Drain
  needFill : Bool                 -- between the sink send and Fill
  flushes : List (List Nat)       -- what each completed Drain handed to the sink (ids), oldest first
  next : Nat                      -- next dispatch id
  log : List Nat                  -- log[d] = number of completed drains when dispatch d obtained its slot

inductive CA where
  | take (i : Nat)        -- a dispatcher receives chan[i] (`mmTo := <-mc.maps`); it gets the id `next`
  | put (j : Nat)         -- dispatcher held[j] has merged and sends the map back (`mc.maps <- mmTo`)
  | drainOne (i : Nat)    -- the flusher receives chan[i] (`mm := <-mc.maps` inside Drain)
  | send                  -- `mc.sink <- mms` (all k maps collected)
  | fill                  -- `mc.Fill()`
deriving Repr

/-- remove the `i`-th element -/
def removeNth {β : Type} : List β → Nat → Option (β × List β)
  | [], _ => none
  | x :: t, 0 => some (x, t)
  | x :: t, i + 1 => match removeNth t i with
    | some (y, r) => some (y, x :: r)
    | none => none

def cinit (k : Nat) : CS :=
  { k := k, chan := List.replicate k [], held := [], got := [], needFill := false, flushes := [], next := 0, log := [] }

/-- `none` = the action is not enabled (the goroutine blocks) -/
def cstep (s : CS) : CA → Option CS
  | .take i => match removeNth s.chan i with
    | none => none
    | some (slot, rest) =>
      some { s with chan := rest, held := s.held ++ [(s.next, slot)], next := s.next + 1, log := s.log ++ [s.flushes.length] }
  | .put j => match removeNth s.held j with
    | none => none
    | some ((d, slot), rest) => some { s with held := rest, chan := s.chan ++ [slot ++ [d]] }
  | .drainOne i =>
    if s.needFill || s.k ≤ s.got.length then none else
    match removeNth s.chan i with
    | none => none
    | some (slot, rest) => some { s with chan := rest, got := s.got ++ [slot] }
  | .send =>
    if !s.needFill && s.got.length == s.k then
      some { s with flushes := s.flushes ++ [s.got.flatten], got := [], needFill := true }
    else none
  | .fill =>
    if s.needFill then some { s with chan := s.chan ++ List.replicate s.k [], needFill := false } else none

/-- run a schedule; `none` when some action was not enabled -/
def crun (s : CS) : List CA → Option CS
  | [] => some s
  | a :: t => match cstep s a with
    | none => none
    | some s' => crun s' t

/-- occurrences of id `d` in a list of slots -/
def occLL (d : Nat) : List (List Nat) → Nat
  | [] => 0
  | l :: t => l.count d + occLL d t

/-- occurrences of `d` anywhere: delivered, collected, in the channel, in a held map, or pending in a dispatcher's hand -/
def CS.occ (s : CS) (d : Nat) : Nat :=
  occLL d s.flushes + occLL d s.got + occLL d s.chan + occLL d (s.held.map Prod.snd) + (s.held.map Prod.fst).count d

/-- `d` has not been handed to the sink yet -/
def CS.pending (s : CS) (d : Nat) : Prop :=
  d ∈ s.got.flatten ∨ d ∈ s.chan.flatten ∨ d ∈ (s.held.map Prod.snd).flatten ∨ d ∈ s.held.map Prod.fst

/-! ## (b) SplitByTags and the dynamic headers (metric_map.go, handler_http_forwarder_v2.go) -/

/-- `strings.Split(s, ",")` -/
def splitOnChar (sep : Char) (cs : List Char) : List (List Char) := go cs []
where go : List Char → List Char → List (List Char)
  | [], cur => [cur.reverse]
  | c :: t, cur => if c = sep then cur.reverse :: go t [] else go t (c :: cur)

/-- inner loop of `tagsMatch`: first name that is a prefix wins; an **empty name stops the search** -/
def matchAny : List (List Char) → List Char → Bool
  | [], _ => false
  | n :: ns, tv => if n = [] then false else if n.isPrefixOf tv then true else matchAny ns tv

/-- `tagsMatch(tagNames, tagsKey)`: the `,`-joined pieces of the tagsKey that start with one of the names -/
def tagsMatch (names : List String) (tagsKey : String) : String :=
  String.intercalate "," (((splitOnChar ',' tagsKey.toList).filter (matchAny (names.map String.toList))).map String.ofList)

/-- group the entries of one typed sub-map by a key function:
`key := kf …; if _, ok := maps[key]; !ok { maps[key] = New }; maps[key].X[name][tagsKey] = v` -/
def splitByKey {ν : Type} (kf : Key → String) (m : AList Key ν) : AList String (AList Key ν) :=
  m.foldl (fun acc e => AList.upsert (kf e.1) (fun o => AList.upsert e.1 (fun _ => e.2) (o.getD [])) acc) []

def dedupStr (l : List String) : List String := l.foldl (fun acc x => if x ∈ acc then acc else acc ++ [x]) []

/-- `SplitByTags` with an arbitrary key function (the real one is `fun k => tagsMatch names k.2`) -/
def splitMM {α} (kf : Key → String) (m : MM α) : AList String (MM α) :=
  let cs := splitByKey kf m.counters
  let gs := splitByKey kf m.gauges
  let ts := splitByKey kf m.timers
  let ss := splitByKey kf m.sets
  (dedupStr (AList.keys cs ++ AList.keys gs ++ AList.keys ts ++ AList.keys ss)).map (fun K =>
    (K, { counters := (AList.lookup K cs).getD [], gauges := (AList.lookup K gs).getD [],
          timers := (AList.lookup K ts).getD [], sets := (AList.lookup K ss).getD [] }))

/-- `(mm *MetricMap) SplitByTags(tagNames)`: without names the map itself under the key `""` -/
def splitByTags {α} (names : List String) (m : MM α) : AList String (MM α) :=
  if names = [] then [("", m)] else splitMM (fun k => tagsMatch names k.2) m

/-- constructor: `dynHeaderNames` → names with a colon; empty names and names that are also static
(custom) headers are skipped (`xheaders[name]`, exact match on the configured spelling) -/
def dynNamesWithColon (static : List String) (names : List String) : List String :=
  (names.filter (fun n => n ≠ "" && !(static.contains n))).map (· ++ ":")

/-- `strings.SplitN(tv, ":", 2)` when it yields two parts -/
def splitFirstColon : List Char → Option (List Char × List Char)
  | [] => none
  | c :: t => if c = ':' then some ([], t) else (splitFirstColon t).map (fun p => (c :: p.1, p.2))

/-- the `req.Header.Set(strings.ReplaceAll(vs[0], "_", "-"), vs[1])` calls of `constructPost`, in order -/
def dynHeaders (dynHeaderTags : String) : List (String × String) :=
  (splitOnChar ',' dynHeaderTags.toList).filterMap (fun tv =>
    (splitFirstColon tv).map (fun p => (String.ofList (p.1.map (fun c => if c = '_' then '-' else c)), String.ofList p.2)))

/-! ## (c) the retry loop of `post` -/

inductive Outcome | ok | fail        -- `post()` returned nil / an error (non-2xx status or transport error)
deriving DecidableEq, Repr

/-- what happens after a failed attempt: `b.NextBackOff()` says `Stop`, or gives a duration and the timer
fires (`next`), or the context is cancelled while waiting (`cancel`; metrics are posted with
`context.Background()`, so only events can see it) -/
inductive Backoff | next | stop | cancel
deriving DecidableEq, Repr

structure Counters where
  created : Nat := 0
  sent : Nat := 0
  retried : Nat := 0
  dropped : Nat := 0
  invalid : Nat := 0
deriving DecidableEq, Repr

inductive End | success | stopped | cancelled | waiting     -- `waiting`: the script has no further outcome yet
deriving DecidableEq, Repr

structure RetrySt where
  attempts : List Outcome := []
  c : Counters := {}
  fin : End := .waiting
deriving DecidableEq, Repr

/-- the `for { … }` loop; an exhausted back-off oracle counts as `Stop` (the window is finite) -/
def retryLoop : List Outcome → List Backoff → RetrySt → RetrySt
  | [], _, st => st
  | .ok :: _, _, st => { st with attempts := st.attempts ++ [Outcome.ok], c := { st.c with sent := st.c.sent + 1 }, fin := .success }
  | .fail :: rest, bo, st =>
    let st1 := { st with attempts := st.attempts ++ [Outcome.fail] }
    match bo with
    | [] => { st1 with c := { st1.c with dropped := st1.c.dropped + 1 }, fin := .stopped }
    | .stop :: _ => { st1 with c := { st1.c with dropped := st1.c.dropped + 1 }, fin := .stopped }
    | .cancel :: _ => { st1 with c := { st1.c with retried := st1.c.retried + 1 }, fin := .cancelled }
    | .next :: bo' => retryLoop rest bo' { st1 with c := { st1.c with retried := st1.c.retried + 1 } }

/-- `post`: `serializable = false` ⇒ `constructPost` failed: counted invalid, no attempt at all -/
def post (serializable : Bool) (script : List Outcome) (bo : List Backoff) : RetrySt :=
  if serializable then retryLoop script bo { c := { created := 1 } }
  else { c := { invalid := 1 }, fin := .stopped }

/-- `max-request-elapsed-time = -1` (the only non-positive value the constructor accepts): `elapsed > -1`
holds at once, the first `NextBackOff` is `Stop` — retries are disabled -/
def retriesDisabledOracle : List Backoff := [.stop]

/-! ## (d) one flush: merge, split, one body per split map -/

/-- the repair of D8 (drop only the series `proto.Marshal` would refuse).  **`false` = the pinned tree.**
Switching the model to the repaired behaviour is this one line. -/
def d8Fixed : Bool := false

def strsOK (valid : String → Bool) (k : Key) (src : String) (tags : List String) : Bool :=
  valid k.1 && valid k.2 && valid src && tags.all valid

/-- all strings of a split map are acceptable to `proto.Marshal` -/
def mmMarshalable {α} (valid : String → Bool) (m : MM α) : Bool :=
  m.counters.all (fun e => strsOK valid e.1 e.2.src e.2.tags) &&
  m.gauges.all (fun e => strsOK valid e.1 e.2.src e.2.tags) &&
  m.timers.all (fun e => strsOK valid e.1 e.2.src e.2.tags) &&
  m.sets.all (fun e => strsOK valid e.1 e.2.src e.2.tags && e.2.members.all valid)

/-- the repaired `translateToProtobufV2` leaves out exactly the offending series -/
def dropInvalid {α} (valid : String → Bool) (m : MM α) : MM α :=
  { counters := m.counters.filter (fun e => strsOK valid e.1 e.2.src e.2.tags),
    gauges := m.gauges.filter (fun e => strsOK valid e.1 e.2.src e.2.tags),
    timers := m.timers.filter (fun e => strsOK valid e.1 e.2.src e.2.tags),
    sets := m.sets.filter (fun e => strsOK valid e.1 e.2.src e.2.tags && e.2.members.all valid) }

/-- what `Run` does with one drained, merged map: per split map either skip (empty), or a body
(`some`: the map that is serialised) or `none` (counted invalid, nothing sent) -/
def flushBodies {α} (fixed : Bool) (valid : String → Bool) (names : List String) (merged : MM α) :
    List (String × Option (MM α)) :=
  ((splitByTags names merged).filter (fun p => !p.2.isEmpty)).map (fun p =>
    if fixed then
      -- repaired: the offending series are left out; if nothing is left the message is counted invalid
      (p.1, if (dropInvalid valid p.2).isEmpty then none else some (dropInvalid valid p.2))
    else (p.1, if mmMarshalable valid p.2 then some p.2 else none))

/-- is the counter series `k` of the merged map in some body that is sent? -/
def counterDelivered {α} (bodies : List (String × Option (MM α))) (k : Key) : Bool :=
  bodies.any (fun p => match p.2 with | some b => (AList.lookup k b.counters).isSome | none => false)

end Gsd
