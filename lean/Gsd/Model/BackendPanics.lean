import Gsd.Model.Aggregator
/-!
C04 — the payload builders of the bundled backends reduced to their *partial operations* (slice
expressions, index expressions, `make` with a computed length), with checked semantics: a failing
operation is the outcome `Res.panic site`.  What is modelled per backend, on one flushed timer of the
view handed to `SendMetricsAsync` (counters, gauges and sets go through `fmt`/append only and have no
partial operation in any backend):

* influxdb  `addBaseTimer`: `buf[:len(buf)-1]` guarded by `sb.Len() == 0`;
            `addHistogramTimer`: `buf[:len(buf)-1]` **unguarded** (D5: empty non-nil histogram);
* otlp      conversion AsHistogram: `WithHistogramDataPointStatistics`: `&values[0]`, `&values[len-1]`
            **unguarded** (D6: persisted timer without values); `WithHistogramDataPointCumulativeBucketValues`
            (`make([]float64, len-1)`, `ExplicitBounds[i]` for every bound that is not `+Inf`), called only when
            `len(t.Histogram) != 0`; conversion AsGauge: loops and appends only;
* newrelic  flush type `metrics`: `pct.Str[:strings.LastIndex(pct.Str, "_")]`;
* graphite, datadog, statsdaemon, stdout, cloudwatch: no partial operation (kept so that a future one has
  a place to be modelled; `cloudwatch`'s `metricData[start:end]` is in range by its own loop arithmetic).

A string buffer is represented by the number of pieces written to it, every piece being non-empty
(`"name=value,"`): the buffer is empty iff no piece was written.  Core-only.
-/
namespace Gsd

namespace Switch
/-- D5: `false` = pinned tree (`influxdb.addHistogramTimer` slices the buffer unguarded);
`true` = repaired (a timer with an empty histogram is skipped).  **Flip after the fix.** -/
def d5Fixed : Bool := true
/-- D6: `false` = pinned tree (`otlp` `WithHistogramDataPointStatistics` indexes `values[0]` unguarded);
`true` = repaired (no min/max for an empty value list).  **Flip after the fix.** -/
def d6Fixed : Bool := true
end Switch

inductive Backend where
  | graphite | datadog | influxdb | statsdaemon | stdout | cloudwatch
  | newrelic (metricsApi : Bool)
  | otlp (asGauge : Bool)
  deriving DecidableEq, Repr

section
variable {α : Type} [Num α]

/-- `buf[:len(buf)-1]` on a buffer of `pieces` non-empty pieces -/
def dropLastByte (s : Site) (pieces : Nat) : Res Unit := if pieces = 0 then .panic s else .ok ()

def boolCount (bs : List Bool) : Nat := (bs.filter (fun b => !b)).length

/-- `influxdb.addBaseTimer` / `addHistogramTimer` -/
def influxTimer (fx : Bool) (m : Mask) (t : ATimer α) : Res Unit :=
  match t.histogram with
  | none =>
    let pieces := boolCount [m.lower, m.upper, m.count, m.countPerSecond, m.mean, m.median, m.stdDev, m.sum, m.sumSquares]
      + t.percentiles.length
    if pieces = 0 then .ok () else dropLastByte .influxBaseBuf pieces
  | some h =>
    if fx && h.isEmpty then .ok () else dropLastByte .influxHistBuf h.length

/-- `WithHistogramDataPointStatistics(values)` -/
def otlpStatistics (fx : Bool) (values : List α) : Res Unit :=
  if fx && values.isEmpty then .ok () else do
    let _ ← idx .otlpValuesFirst values 0
    let _ ← idx .otlpValuesLast values ((values.length : Int) - 1)
    pure ()

def Bound.isInf : Bound α → Bool
  | .inf => true
  | .fin _ => false

/-- the loop of `WithHistogramDataPointCumulativeBucketValues` over the sorted bounds:
`ExplicitBounds` has length `L-1`; position `i` is written for every bound that is not `+Inf` -/
def otlpBoundsLoop (L : Nat) : Nat → List (Bound α) → Res Unit
  | _, [] => .ok ()
  | i, b :: bs =>
    if b.isInf then otlpBoundsLoop L (i + 1) bs
    else if i + 1 < L then otlpBoundsLoop L (i + 1) bs
    else .panic .otlpBoundsIdx

/-- `WithHistogramDataPointCumulativeBucketValues(buckets)`; `slices.Sort` puts every bound that is not
`+Inf` before `+Inf` (the order among the others does not matter for the checked operations) -/
def otlpBuckets (h : Hist α) : Res Unit :=
  let L := h.length
  if L = 0 then .panic .otlpMakeBounds   -- make([]float64, -1)
  else
    let keys := h.map Prod.fst
    otlpBoundsLoop L 0 (keys.filter (fun b => !b.isInf) ++ keys.filter (fun b => b.isInf))

/-- the timer branch of `otlp.Backend.SendMetricsAsync` -/
def otlpTimer (fx : Bool) (asGauge : Bool) (t : ATimer α) : Res Unit :=
  if asGauge then .ok ()
  else do
    otlpStatistics fx t.values
    match t.histogram with
    | none => pure ()
    | some h => if h.isEmpty then pure () else otlpBuckets h

/-- `strings.LastIndex(s, "_")` -/
def lastIdx (c : Char) : List Char → Option Nat
  | [] => none
  | x :: xs =>
    match lastIdx c xs with
    | some i => some (i + 1)
    | none => if x = c then some 0 else none

/-- `pct.Str[:lastUnderscore]` (and `pct.Str[lastUnderscore+1:]`, always in range) -/
def newrelicPct (name : List Char) : Res Unit :=
  match lastIdx '_' name with
  | none => .panic .newrelicPctName
  | some _ => .ok ()

def forAll {β : Type} (f : β → Res Unit) : List β → Res Unit
  | [] => .ok ()
  | x :: xs => do f x; forAll f xs

/-- `newrelic.flush.addTimerMetric` (histogram timers go through `addMetric`: total) -/
def newrelicTimer (metricsApi : Bool) (t : ATimer α) : Res Unit :=
  match t.histogram with
  | some _ => .ok ()
  | none => if metricsApi then forAll (fun e => newrelicPct e.1) t.percentiles else .ok ()

/-- the payload builder of backend `b` on one flushed timer (`fx5`, `fx6`: repaired code for D5, D6) -/
def backendTimerWith (fx5 fx6 : Bool) (b : Backend) (m : Mask) (t : ATimer α) : Res Unit :=
  match b with
  | .influxdb => influxTimer fx5 m t
  | .otlp asGauge => otlpTimer fx6 asGauge t
  | .newrelic metricsApi => newrelicTimer metricsApi t
  | .graphite => .ok ()
  | .datadog => .ok ()
  | .statsdaemon => .ok ()
  | .stdout => .ok ()
  | .cloudwatch => .ok ()

/-- the payload-building phase of `SendMetricsAsync` on a flush view -/
def backendFlushWith (fx5 fx6 : Bool) (b : Backend) (m : Mask) (view : AggSt α) : Res Unit :=
  forAll (fun e => backendTimerWith fx5 fx6 b m e.2) view

/-- the model of the tree as it is -/
def backendFlush (b : Backend) (m : Mask) (view : AggSt α) : Res Unit :=
  backendFlushWith Switch.d5Fixed Switch.d6Fixed b m view

/-- the whole flush path of one server with one backend: every `Flush` is followed by the backend's
payload building on the view, then `Reset`.  Result: the views of all flushes, or the first panic.
The backend is given the same `disabled-sub-metrics` mask as the aggregator. -/
def pipelineWith (fx4 fx5 fx6 : Bool) (parse : Bytes → Option α) (cfg : AggCfg) (b : Backend) :
    AggSt α → List (Op α) → Res (List (AggSt α))
  | _, [] => .ok []
  | s, op :: ops => do
    let r ← AggSt.stepWith fx4 parse cfg s op
    match r.2 with
    | none => pipelineWith fx4 fx5 fx6 parse cfg b r.1 ops
    | some v => do
      backendFlushWith fx5 fx6 b cfg.mask v
      let rest ← pipelineWith fx4 fx5 fx6 parse cfg b r.1 ops
      pure (v :: rest)

/-- the model of the tree as it is -/
def pipeline (parse : Bytes → Option α) (cfg : AggCfg) (b : Backend) (ops : List (Op α)) : Res (List (AggSt α)) :=
  pipelineWith Switch.d4Fixed Switch.d5Fixed Switch.d6Fixed parse cfg b [] ops

end
end Gsd
