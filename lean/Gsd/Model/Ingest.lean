/-!
C03 — decision logic of the HTTP ingestion handlers (`pkg/web/http_receiver_v2.go`:
`readBody`, `MetricHandler`, `EventHandler`).  The libraries are parameters: what `ioutil.ReadAll`,
`DecompressWithZlib`, `DecompressWithLz4` and `proto.Unmarshal` answer (`none` = error).
-/
namespace Gsd.Ingest

/-- the `Content-Encoding` header as `readBody`'s switch sees it -/
inductive Enc
  | deflate      -- "deflate"
  | lz4          -- "lz4"
  | identity     -- "identity" or "" (absent)
  | other        -- anything else
  deriving DecidableEq, Repr

def encOfHeader (h : String) : Enc :=
  if h = "deflate" then .deflate else if h = "lz4" then .lz4 else if h = "identity" ∨ h = "" then .identity else .other

structure Libs (Body Msg : Type) where
  readAll : Option Body
  zlib : Body → Option Body
  lz4 : Body → Option Body
  unmarshal : Body → Option Msg

/-- `readBody`: the body, or the status to answer -/
def readBody {Body Msg : Type} (l : Libs Body Msg) (e : Enc) : Except Nat Body :=
  match l.readAll with
  | none => .error 500
  | some b =>
    match e with
    | .deflate => match l.zlib b with | some b' => .ok b' | none => .error 400
    | .lz4 => match l.lz4 b with | some b' => .ok b' | none => .error 400
    | .identity => .ok b
    | .other => .error 400

/-- `MetricHandler` / `EventHandler`: status written and what is dispatched to the pipeline -/
def handler {Body Msg : Type} (l : Libs Body Msg) (e : Enc) : Nat × Option Msg :=
  match readBody l e with
  | .error s => (s, none)
  | .ok b =>
    match l.unmarshal b with
    | none => (400, none)
    | some m => (202, some m)

end Gsd.Ingest
