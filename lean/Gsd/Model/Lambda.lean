import Gsd.Generated.Facts
/-!
C20 — model of gostatsd running as a Lambda extension with per-invocation ("manual") flushing.

Processes (one atomic action per request / channel operation / callback):

* **manager / heartbeat** (`internal/awslambda/extension/manager.go`, `Run` and `heartbeat`):
  `register` → start server and telemetry server, `subscribe` → start-up window (100 ms): a server exit
  inside it ⇒ `POST /init/error` and return; otherwise the heartbeat goroutine: `fc.Flush()` once, then
  `loop { fc.WaitForFlush(); GET /event/next }` until SHUTDOWN.
* **telemetry server** (`telemetry/server.go`, `eventHandler`): every `platform.runtimeDone` record of a
  batch ⇒ `coordinator.Flush()` (= `MetricConsolidator.Flush`: drain, send to the forwarder, refill).
* **forwarder** (`pkg/statsd/handler_http_forwarder_v2.go`, `Run`): a drained batch is merged; an empty one
  ⇒ `NotifyFlush`; otherwise `postMetrics` (all retries, success or give-up) ⇒ `NotifyFlush`.
  (Without `dynamic-headers` `SplitByTags` yields exactly one map per flush; that is the configuration
  modelled.  With dynamic headers a flush yields one notification per header value — or none for an empty
  flush —, see the handoff notes.)
* **flush coordinator** (`internal/flush/flush_coordinator.go`): `flushChan`, capacity
  `Gsd.Facts.flushChanCap`; `NotifyFlush` = send (blocks when full), `WaitForFlush` = receive.
* **runtime** (environment): answers `/next` with an invocation, later emits that invocation's
  `runtimeDone` record amid other records; the function sends datapoints (`accept`).

Ghost fields (history only): `waits`, `notifies`, `attempts`, `empties`, `accepted`, `failed`, `initErrors`.
-/
namespace Gsd.Lambda

inductive FSt
  | created     -- drained and handed to the forwarder (`mc.sink <- mc.Drain()` received)
  | posting     -- `postMetrics` running (first attempt … last retry)
  | completed   -- delivery attempt over (2xx, or given up), or the batch was empty
  | notified    -- `NotifyFlush` done
deriving DecidableEq, Repr

structure Flush where
  st : FSt
  origin : Option Nat     -- none: the heartbeat's initial flush; some k: the k-th processed runtimeDone record
  body : List Nat         -- datapoint ids
deriving DecidableEq, Repr

def FSt.over : FSt → Bool
  | .completed | .notified => true
  | _ => false

inductive Pc
  | start        -- before `register`
  | registered
  | serving      -- servers started, telemetry subscribed; inside the start-up window
  | initFailed   -- a server exited inside the window
  | initErrSent  -- `POST /init/error` made, `Run` returns
  | hbStart      -- window over, heartbeat goroutine about to call `fc.Flush()`
  | waiting      -- in `WaitForFlush`
  | woken        -- `WaitForFlush` returned
  | inNext       -- `GET /event/next` sent
  | stopped      -- SHUTDOWN received
deriving DecidableEq, Repr

structure St where
  cap : Int
  pc : Pc := .start
  nextReq : Nat := 0         -- `/next` requests made
  nextResp : Nat := 0        -- invocations handed out by the runtime
  doneEmitted : Nat := 0     -- runtimeDone records emitted by the runtime
  doneQueued : Nat := 0      -- … delivered to the telemetry endpoint, not yet processed
  doneProcessed : Nat := 0   -- `coordinator.Flush()` calls made by the telemetry server
  initFlushed : Bool := false
  flushes : List Flush := []
  tokens : Int := 0          -- len(flushChan)
  buf : List Nat := []       -- datapoints in the consolidator
  -- ghosts
  waits : Nat := 0
  notifies : Nat := 0
  attempts : Nat := 0        -- completed delivery attempts (non-empty batches)
  empties : Nat := 0         -- empty flushes
  accepted : List (Nat × Nat) := []   -- (datapoint, number of runtimeDone records emitted when it was accepted)
  failed : Bool := false     -- a server exited inside the start-up window
  initErrors : Nat := 0
deriving DecidableEq, Repr

inductive Act
  | register | subscribe | serverFail | initError | windowElapsed
  | hbInitFlush            -- heartbeat: `m.fc.Flush()`
  | hbWait                 -- `WaitForFlush` returns (takes a token)
  | hbNext                 -- `GET /event/next`
  | rtInvoke               -- runtime answers INVOKE
  | rtShutdown             -- runtime answers SHUTDOWN
  | accept (dp : Nat)      -- a datapoint reaches the consolidator (acknowledged to the sender)
  | rtDone                 -- runtime emits a runtimeDone record (amid other records: those are no-ops)
  | otherRecord            -- any other telemetry record / batch without runtimeDone
  | teleFlush              -- telemetry server processes one runtimeDone record: `Flush()`
  | skip (j : Nat)         -- forwarder: batch `j` is empty
  | postBegin (j : Nat)    -- forwarder: `postMetrics` starts
  | postEnd (j : Nat)      -- … returns (delivered or given up)
  | notify (j : Nat)       -- `NotifyFlush`
deriving DecidableEq, Repr

def init (cap : Int) : St := { cap := cap }

def setFlush (s : St) (j : Nat) (f : Flush) (st : FSt) : St :=
  { s with flushes := s.flushes.set j { f with st := st } }

def step (s : St) : Act → Option St
  | .register => if s.pc = .start then some { s with pc := .registered } else none
  | .subscribe => if s.pc = .registered then some { s with pc := .serving } else none
  | .serverFail => if s.pc = .serving then some { s with pc := .initFailed, failed := true } else none
  | .initError => if s.pc = .initFailed then some { s with pc := .initErrSent, initErrors := s.initErrors + 1 } else none
  | .windowElapsed => if s.pc = .serving then some { s with pc := .hbStart } else none
  | .hbInitFlush =>
    if s.pc = .hbStart then
      some { s with pc := .waiting, initFlushed := true, buf := [],
                    flushes := s.flushes ++ [{ st := .created, origin := none, body := s.buf }] }
    else none
  | .hbWait =>
    if s.pc = .waiting ∧ 0 < s.tokens then some { s with pc := .woken, tokens := s.tokens - 1, waits := s.waits + 1 } else none
  | .hbNext => if s.pc = .woken then some { s with pc := .inNext, nextReq := s.nextReq + 1 } else none
  | .rtInvoke => if s.pc = .inNext then some { s with pc := .waiting, nextResp := s.nextResp + 1 } else none
  | .rtShutdown => if s.pc = .inNext then some { s with pc := .stopped, nextResp := s.nextResp + 1 } else none
  | .accept dp =>
    -- the ingestion endpoints exist once the server runs
    -- (datapoint ids are names: each is accepted once)
    if s.pc = .start ∨ s.pc = .registered ∨ s.accepted.any (fun p => p.1 == dp) then none
    else some { s with buf := s.buf ++ [dp], accepted := s.accepted ++ [(dp, s.doneEmitted)] }
  | .rtDone => some { s with doneEmitted := s.doneEmitted + 1, doneQueued := s.doneQueued + 1 }
  | .otherRecord => some s
  | .teleFlush =>
    if 0 < s.doneQueued then
      some { s with doneQueued := s.doneQueued - 1, doneProcessed := s.doneProcessed + 1, buf := [],
                    flushes := s.flushes ++ [{ st := .created, origin := some (s.doneProcessed + 1), body := s.buf }] }
    else none
  | .skip j =>
    match s.flushes[j]? with
    | some f => if f.st = .created ∧ f.body = [] then some { setFlush s j f .completed with empties := s.empties + 1 } else none
    | none => none
  | .postBegin j =>
    match s.flushes[j]? with
    | some f => if f.st = .created ∧ f.body ≠ [] then some (setFlush s j f .posting) else none
    | none => none
  | .postEnd j =>
    match s.flushes[j]? with
    | some f => if f.st = .posting then some { setFlush s j f .completed with attempts := s.attempts + 1 } else none
    | none => none
  | .notify j =>
    match s.flushes[j]? with
    | some f =>
      if f.st = .completed ∧ s.tokens < s.cap then
        some { setFlush s j f .notified with tokens := s.tokens + 1, notifies := s.notifies + 1 }
      else none
    | none => none

/-- environment hypothesis, checked after every step of a run: the runtime emits at most one runtimeDone
record per invocation, and only for invocations it has already handed to the extension's `/next`. -/
def envOK (s : St) : Bool := s.doneEmitted ≤ s.nextResp

/-- run under the environment hypothesis -/
def run (s : St) : List Act → Option St
  | [] => some s
  | a :: as => match step s a with
    | none => none
    | some s' => if envOK s' then run s' as else none

/-- run without it (for the negative witness) -/
def runFree (s : St) : List Act → Option St
  | [] => some s
  | a :: as => match step s a with
    | none => none
    | some s' => runFree s' as

def overCount (fs : List Flush) : Nat := fs.countP (fun f => f.st.over)
def notifiedCount (fs : List Flush) : Nat := fs.countP (fun f => f.st = .notified)

/-- the capacity the code has -/
def codeCap : Int := Gsd.Facts.flushChanCap

end Gsd.Lambda
