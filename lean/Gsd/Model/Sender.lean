import Gsd.Generated.Facts
/-!
C16 — models of the code that answers a backend flush request (core-only, executable).

* `Gsd.Sender`    — `sender.Sender.Run` / `innerRun` / `cleanup` (pkg/backends/sender/sender.go) as a
                    transition system with one action per channel operation of the goroutine.
* `Gsd.Collector` — the poster/collector pattern of datadog, influxdb and newrelic `SendMetricsAsync`.
* `Gsd.Direct`    — otlp (errgroup, synchronous), cloudwatch (sequential loop), stdout, null.
* `Gsd.Flusher`   — the wait group of `MetricFlusher.flushData` (pkg/statsd/flusher.go).

## Sender: reading of sender.go

`Run` keeps `stream *Stream` and `errs []error` across reconnects, plus two local channel variables
`sink` and `streamCancel` that are only *assigned* at the top of the reconnect-wait loop:

    if stream == nil { sink = s.Sink } else { streamCancel = stream.Ctx.Done() }

Neither is cleared in the other branch, so both can be **stale**: `sink` stays armed after a wait
that ended by the timer without a stream, `streamCancel` keeps the `Done` channel of a stream that
survived a wait and was completed later.  The model carries both variables (`armed`, `scancel`)
because they decide what the `select` can do:

* stale `sink` + a held stream  → a second stream is received and **overwrites** the first, whose
  callback is then never invoked (ghost list `lost`);                                    [defect D11]
* stale `streamCancel` + no held stream → `stream.Cb` on a nil `stream`: the goroutine panics
  (`pc = .panicked`).                                                                     [defect D12]

`Cfg.fixSink` / `Cfg.fixCancel` switch to the repaired behaviour (the two added assignments of
handoff/C16-fix-2.patch); the code as pinned is `codeCfg` (both `false`).  Switching the model to the
repaired tree is the one line `def codeCfg` below.

Connect errors are only logged, they are *not* appended to `errs`; write errors are.
-/
namespace Gsd.Sender

inductive Err | write | ctx | sctx
  deriving DecidableEq, Repr

/-- which call site of `Cb` -/
inductive Via
  | drained     -- innerRun: `for buf := range stream.Buf` ended, `stream.Cb(errs)`
  | cancelled   -- wait loop: `case <-streamCancel: stream.Cb(append(errs, stream.Ctx.Err()))`
  | shutdown    -- Run's deferred `if stream != nil { stream.Cb(errs) }`
  | cleanup     -- cleanup: `for stream := range s.Sink { stream.Cb([]error{ctx.Err()}) }`
  deriving DecidableEq, Repr

structure Cb where
  stream : Nat
  errs : List Err
  via : Via
  deriving DecidableEq, Repr

/-- control location of the `Run` goroutine (always a blocking point) -/
inductive Pc
  | dial                  -- in `s.ConnFactory()`
  | recvStream (c : Nat)  -- innerRun, `stream == nil`: `select { ctx.Done | s.Sink }`, streamCount = c
  | recvBuf (c : Nat)     -- innerRun, `for buf := range stream.Buf`, streamCount = c
  | wait                  -- reconnect wait: `select { ctx.Done | sink | streamCancel | timer.C }`
  | stopped               -- Run and cleanup have returned
  | panicked              -- nil dereference in the wait loop
  deriving DecidableEq, Repr

structure Cfg where
  max : Nat                 -- maxStreamsPerConnection
  fixSink : Bool := false   -- repaired: `sink = nil` in the else-branch of the wait loop
  fixCancel : Bool := false -- repaired: `streamCancel = nil` in the then-branch of the wait loop

/-- the pinned tree -/
def codeCfg : Cfg := { max := Gsd.Facts.maxStreamsPerConnection, fixSink := false, fixCancel := false }
/-- the tree with handoff/C16-fix-2.patch -/
def fixedCfg : Cfg := { max := Gsd.Facts.maxStreamsPerConnection, fixSink := true, fixCancel := true }

structure St where
  pc : Pc := .dial
  held : Option Nat := none        -- `stream`
  errs : List Err := []            -- `errs`
  armed : Bool := false            -- `sink == s.Sink` (non-nil)
  scancel : Option Nat := none     -- `streamCancel` is the Done channel of this stream
  ctxDone : Bool := false          -- Run's ctx is cancelled
  next : Nat := 0                  -- streams offered so far have ids 0 … next-1
  queue : List Nat := []           -- offered to `s.Sink`, not yet received
  closed : List Nat := []          -- streams whose `Buf` has been closed by the producer
  cancelled : List Nat := []       -- streams whose `Ctx` is cancelled
  cbs : List Cb := []              -- ghost: every invocation of a stream's `Cb`, in order
  lost : List Nat := []            -- ghost: streams overwritten while held (never called back)
  wfail : List Nat := []           -- ghost: streams that saw a write error while held
  deriving Repr

inductive Ev
  | connOk | connFail            -- result of `s.ConnFactory()`
  | timer                        -- `<-timer.C`
  | offer                        -- a producer sends the next stream into `s.Sink`
  | take                         -- the goroutine receives from `s.Sink` / `sink`
  | wrote (ok : Bool)            -- receives a buffer from `stream.Buf` and `conn.Write`s it
  | closeBuf (j : Nat)           -- the producer of stream j closes its `Buf`
  | seeClosed                    -- `range stream.Buf` ends
  | cancelStream (j : Nat)       -- stream j's `Ctx` is cancelled
  | seeStreamCancel              -- `case <-streamCancel`
  | cancelCtx                    -- Run's ctx is cancelled
  | seeCtx                       -- `case <-ctx.Done()`
  deriving DecidableEq, Repr

def init : St := {}

/-- top of one iteration of the reconnect-wait loop -/
def refresh (cfg : Cfg) (s : St) : St :=
  match s.held with
  | none => { s with armed := true, scancel := if cfg.fixCancel then none else s.scancel }
  | some j => { s with scancel := some j, armed := if cfg.fixSink then false else s.armed }

/-- head of innerRun's `for streamCount := c; streamCount < max` -/
def goInner (cfg : Cfg) (s : St) (c : Nat) : St :=
  if c < cfg.max then
    match s.held with
    | none => { s with pc := .recvStream c }
    | some _ => { s with pc := .recvBuf c }
  else { s with pc := .dial }   -- `return stream, errs, nil`, conn closed, Run dials again

def callback (s : St) (j : Nat) (es : List Err) (via : Via) : St :=
  { s with cbs := s.cbs ++ [⟨j, es, via⟩] }

/-- `Run` returns: deferred callback of the held stream, then `cleanup` closes `s.Sink` and calls
back every stream still in it with `[ctx.Err()]` -/
def exit (s : St) : St :=
  { s with
    pc := .stopped, held := none, queue := [],
    cbs := s.cbs ++ (match s.held with | some j => [⟨j, s.errs, .shutdown⟩] | none => []) ++
           s.queue.map (fun j => ⟨j, [.ctx], .cleanup⟩) }

def step (cfg : Cfg) (s : St) : Ev → Option St
  | .connOk => if s.pc = .dial then some (goInner cfg s 0) else none
  | .connFail => if s.pc = .dial then some (refresh cfg { s with pc := .wait }) else none
  | .timer => if s.pc = .wait then some { s with pc := .dial } else none
  | .offer =>
    if s.pc = .stopped ∨ s.pc = .panicked then none   -- "Sender must not be used after ctx is done"
    else some { s with queue := s.queue ++ [s.next], next := s.next + 1 }
  | .take =>
    match s.queue with
    | [] => none
    | j :: q =>
      match s.pc with
      | .recvStream c => some { s with queue := q, held := some j, pc := .recvBuf c }
      | .wait =>
        if s.armed then
          some (refresh cfg
            { s with queue := q, armed := false, held := some j, lost := s.lost ++ s.held.toList })
        else none
      | _ => none
  | .wrote ok =>
    match s.pc, s.held with
    | .recvBuf _, some j =>
      if j ∈ s.closed then none
      else if ok then some s
      else some { s with errs := s.errs ++ [.write], pc := .dial, wfail := s.wfail ++ [j] }
    | _, _ => none
  | .closeBuf j =>
    if j < s.next ∧ j ∉ s.closed then some { s with closed := j :: s.closed } else none
  | .seeClosed =>
    match s.pc, s.held with
    | .recvBuf c, some j =>
      if j ∈ s.closed then
        some (goInner cfg { (callback s j s.errs .drained) with held := none, errs := [] } (c + 1))
      else none
    | _, _ => none
  | .cancelStream j =>
    if j < s.next ∧ j ∉ s.cancelled then some { s with cancelled := j :: s.cancelled } else none
  | .seeStreamCancel =>
    if s.pc = .wait then
      match s.scancel with
      | some j =>
        if j ∈ s.cancelled then
          match s.held with
          | none => some { s with pc := .panicked }
          | some h =>
            some (refresh cfg
              { (callback s h (s.errs ++ [.sctx]) .cancelled) with held := none, scancel := none, errs := [] })
        else none
      | none => none
    else none
  | .cancelCtx => if s.ctxDone then none else some { s with ctxDone := true }
  | .seeCtx =>
    if s.ctxDone then
      match s.pc with
      | .recvStream _ => some (exit { s with errs := s.errs ++ [.ctx] })
      | .wait => some (exit { s with errs := s.errs ++ [.ctx] })
      | _ => none
    else none

/-- run a script; `none` when some action is not enabled -/
def exec (cfg : Cfg) : St → List Ev → Option St
  | s, [] => some s
  | s, e :: es => match step cfg s e with
    | some s' => exec cfg s' es
    | none => none

def cbCountL (cbs : List Cb) (j : Nat) : Nat := (cbs.filter (fun cb => cb.stream == j)).length

/-- number of times stream j's callback has been invoked -/
def cbCount (s : St) (j : Nat) : Nat := cbCountL s.cbs j

/-- where is stream `j`: each offered stream is in exactly one place -/
def places (s : St) (j : Nat) : Nat :=
  (if s.held = some j then 1 else 0) + s.queue.count j + s.lost.count j + cbCountL s.cbs j

/-! a script that shuts the sender down from any state that has not panicked -/
def finZ (s : St) : List Ev := if s.ctxDone then [] else [.cancelCtx]
/-- after `goInner c` with no held stream -/
def finAfter (cfg : Cfg) (c : Nat) : List Ev := if c < cfg.max then [.seeCtx] else [.connOk, .seeCtx]
/-- at `recvBuf c` -/
def finBuf (cfg : Cfg) (s : St) (c : Nat) : List Ev :=
  (match s.held with
   | some j => if j ∈ s.closed then [] else [Ev.closeBuf j]
   | none => []) ++ [.seeClosed] ++ finAfter cfg (c + 1)

def finScript (cfg : Cfg) (s : St) : List Ev :=
  match s.pc with
  | .stopped => []
  | .panicked => []
  | .wait => finZ s ++ [.seeCtx]
  | .recvStream _ => finZ s ++ [.seeCtx]
  | .recvBuf c => finZ s ++ finBuf cfg s c
  | .dial =>
    finZ s ++ [.connOk] ++ (match s.held with
      | none => [.seeCtx]
      | some _ => finBuf cfg s 0)

/-! ### coarse events of the correspondence run

The harness injects *environment* events one at a time and waits until the goroutine blocks again;
`settle` performs the goroutine's own reactions (`seeCtx`, `seeStreamCancel`, `seeClosed`, `take`)
eagerly.  A script is *racy* when at some point two different reactions are enabled whose order the
Go runtime chooses at random; the generator avoids those and the driver reports them. -/

inductive Inj
  | connOk | connFail | timer | offer | wrote (ok : Bool) | closeBuf (j : Nat) | cancelStream (j : Nat) | cancelCtx
  deriving DecidableEq, Repr

def Inj.toEv : Inj → Ev
  | .connOk => .connOk | .connFail => .connFail | .timer => .timer | .offer => .offer
  | .wrote b => .wrote b | .closeBuf j => .closeBuf j | .cancelStream j => .cancelStream j | .cancelCtx => .cancelCtx

def reactions : List Ev := [.seeCtx, .seeStreamCancel, .seeClosed, .take]

def enabledReactions (cfg : Cfg) (s : St) : List Ev := reactions.filter (fun e => (step cfg s e).isSome)

/-- eager reactions; returns the state and whether a race was met -/
def settle (cfg : Cfg) : Nat → St → Bool → St × Bool
  | 0, s, r => (s, r)
  | fuel + 1, s, r =>
    match enabledReactions cfg s with
    | [] => (s, r)
    | e :: rest =>
      match step cfg s e with
      | some s' => settle cfg fuel s' (r || !rest.isEmpty)
      | none => (s, r)

/-- one letter per control location, as the harness reads it off the goroutine's stack -/
def Pc.letter : Pc → Char
  | .dial => 'd' | .recvStream _ => 's' | .recvBuf _ => 'b' | .wait => 'w' | .stopped => 'x' | .panicked => 'p'

structure Run where
  st : St := {}
  trace : List Char := []    -- control location after every injected event, '-' = not enabled
  racy : Bool := false

def Run.dead (r : Run) : Bool := r.st.pc == .stopped || r.st.pc == .panicked

def inject (cfg : Cfg) (r : Run) (i : Inj) : Run :=
  if r.dead then { r with trace := r.trace ++ ['-'] } else
  match step cfg r.st i.toEv with
  | none => { r with trace := r.trace ++ ['-'] }
  | some s' =>
    let (s'', racy) := settle cfg (4 * s'.next + 16) s' r.racy
    { r with st := s'', racy := racy, trace := r.trace ++ [s''.pc.letter] }

def runInj (cfg : Cfg) (r : Run) (is : List Inj) : Run := is.foldl (inject cfg) r

/-- streams offered and not called back -/
def outstanding (s : St) : List Nat := (List.range s.next).filter (fun j => cbCount s j == 0)

def dialLoop (cfg : Cfg) : Nat → Run → Run
  | 0, r => r
  | fuel + 1, r =>
    if r.st.pc == .dial && !(outstanding r.st).isEmpty then dialLoop cfg fuel (inject cfg r .connOk) else r

/-- what the harness does after the script: producers close every open `Buf`; pending dials succeed
while streams are outstanding; ctx is cancelled; a last pending dial succeeds.  (Chosen so that the
goroutine never meets a `select` with two ready arms.) -/
def finalize (cfg : Cfg) (r : Run) : Run :=
  let opens := (List.range r.st.next).filter (fun j => j ∉ r.st.closed)
  let r1 := runInj cfg r (opens.map Inj.closeBuf)
  let r2 := dialLoop cfg (r1.st.next + 2) r1
  let r3 := inject cfg r2 .cancelCtx
  if r3.st.pc == .dial then inject cfg r3 .connOk else r3

end Gsd.Sender

/-! ## Collector pattern (datadog.go, influxdb.go, newrelic.go `SendMetricsAsync`)

`counter` posters are spawned, each ends by `select { ctx.Done | results <- err }` (datadog and
newrelic posters also leave at the buffer semaphore when ctx is done); one collector loops
`for c := 0; c < counter; c++ { select { ctx.Done → append ctx.Err, break | err := <-results → append } }`
and then calls `cb(errs)`. -/
namespace Gsd.Collector

inductive Res | ok | fail | ctx
  deriving DecidableEq, Repr

/-- The posters are interchangeable for this property, so the state counts them. -/
structure St where
  counter : Nat            -- the collector's loop bound
  pending : Nat            -- posters that have neither delivered nor left
  quitN : Nat := 0         -- ghost: posters that left through `<-ctx.Done()`
  c : Nat := 0             -- loop variable = results received
  errs : List Res := []
  ctxDone : Bool := false
  done : Bool := false     -- the collector goroutine has called back and returned
  cbs : List (List Res) := []
  deriving Repr

inductive Ev
  | deliver (r : Res)   -- some poster sends its result, the collector receives it
  | quit                -- some poster leaves through `<-ctx.Done()`
  | cancel
  | seeCancel           -- the collector's select picks `<-ctx.Done()`
  deriving DecidableEq, Repr

/-- the collector reaches the end of its loop: `cb(errs)` -/
def finish (s : St) : St := { s with done := true, cbs := s.cbs ++ [s.errs] }

/-- state right after `SendMetricsAsync` returned: `spawned` posters, loop bound `counter`
(the code increments `counter` once per poster: `start n n`) -/
def start (counter spawned : Nat) : St :=
  let s : St := { counter := counter, pending := spawned }
  if counter = 0 then finish s else s

def step (s : St) : Ev → Option St
  | .deliver r =>
    if s.done = false ∧ 0 < s.pending ∧ s.c < s.counter then
      let s' := { s with pending := s.pending - 1, errs := s.errs ++ [r], c := s.c + 1 }
      some (if s.c + 1 < s.counter then s' else finish s')
    else none
  | .quit =>
    if s.ctxDone = true ∧ 0 < s.pending then some { s with pending := s.pending - 1, quitN := s.quitN + 1 } else none
  | .cancel => if s.ctxDone then none else some { s with ctxDone := true }
  | .seeCancel =>
    if s.ctxDone = true ∧ s.done = false then some (finish { s with errs := s.errs ++ [.ctx] }) else none

def exec : St → List Ev → Option St
  | s, [] => some s
  | s, e :: es => match step s e with
    | some s' => exec s' es
    | none => none

/-- decreases with every action: bounds the length of every schedule -/
def measure (s : St) : Nat := s.pending + (if s.done then 0 else 1) + (if s.ctxDone then 0 else 1)

/-- the schedule the correspondence run compares with: results arrive in the given order; when
`cancelAfter = some k` the context is cancelled after k results and the collector sees it -/
def eager (results : List Res) (cancelAfter : Option Nat) : Option St :=
  let n := results.length
  let evs : List Ev := match cancelAfter with
    | none => results.map Ev.deliver
    | some k => (results.take k).map Ev.deliver ++ (if k < n then [Ev.cancel, Ev.seeCancel] else [Ev.cancel])
  exec (start n n) evs

end Gsd.Collector

/-! ## Straight-line backends -/
namespace Gsd.Direct

/-- otlp: `cb(multierr.Errors(eg.Wait()))` — synchronous, one call; the list is the first error
(if any batch failed).  `true` = the batch was posted. -/
def otlp (batches : List Bool) : List (List Bool) :=
  [if batches.all id then [] else [false]]

/-- cloudwatch's loop `for start < length { end := min(start+batch, length); …; errors = append(errors, err) }`,
with `fuel` = an upper bound on the number of iterations -/
def cwLoop (batch length : Nat) (outcome : Nat → Bool) : Nat → Nat → Nat → List Bool → List Bool
  | 0, _, _, acc => acc
  | fuel + 1, start, k, acc =>
    if start < length then
      let e := if start + batch > length then length else start + batch
      if start ≥ e then acc else cwLoop batch length outcome fuel e (k + 1) (acc ++ [outcome k])
    else acc

/-- cloudwatch `SendMetricsAsync`: `length < 1 → cb([])` directly, else one goroutine runs the loop
and calls back once.  Result: the list of callback arguments (one entry per `PutMetricData`,
`true` = nil error). -/
def cloudwatch (batch length : Nat) (outcome : Nat → Bool) : List (List Bool) :=
  if length < 1 then [[]] else [cwLoop batch length outcome length 0 0 []]

/-- stdout: `go func() { cb([]error{writePayload(buf)}) }()`; null: `cb(nil)` -/
def stdout (writeOk : Bool) : List (List Bool) := [[writeOk]]
def null : List (List Bool) := [[]]

end Gsd.Direct

/-! ## influxdb `processMetrics` and the buffer semaphore (influxdb.go, flush.go)

`getBuffer` is `select { ctx.Done → nil | buf := <-reqBufferSem }`; once ctx is cancelled either arm
can be taken.  `gets k` is the outcome of the k-th call (`true` = a buffer).  A nil buffer makes the
series callbacks return early; at the end `releaseBuffer(fl.buffer)` runs unconditionally and
dereferences the buffer (`buf.Reset()`).  `guard` = the nil guard of handoff/C16-fix-1.patch.   [D9] -/
namespace Gsd.Influx

inductive Out | batches (n : Nat) | panic
  deriving DecidableEq, Repr

/-- the loop over the series: (metricCount, batches so far, getBuffer calls so far, buffer non-nil) -/
def addSeries (perBatch : Nat) (gets : Nat → Bool) : Nat → (Nat × Nat × Nat × Bool) → (Nat × Nat × Nat × Bool)
  | 0, st => st
  | n + 1, (cnt, b, g, have_) =>
    if !have_ then addSeries perBatch gets n (cnt, b, g, have_)          -- `if fl.buffer == nil { return }`
    else if cnt + 1 ≥ perBatch then addSeries perBatch gets n (0, b + 1, g + 1, gets g)   -- maybeFlush → flush
    else addSeries perBatch gets n (cnt + 1, b, g, have_)

def processMetrics (guard : Bool) (perBatch series : Nat) (gets : Nat → Bool) : Out :=
  let (cnt, b, g, have_) := addSeries perBatch gets series (0, 0, 1, gets 0)
  if cnt = 0 then
    if have_ || guard then .batches b else .panic          -- `idb.releaseBuffer(fl.buffer); return`
  else
    -- finish: flush (cb, then getBuffer again), then releaseBuffer
    if gets g || guard then .batches (b + 1) else .panic

end Gsd.Influx

/-! ## The flusher's wait group (pkg/statsd/flusher.go)

`flushData`: for every aggregator `sendMetricsAsync` does `wg.Add(len(backends))` and hands every
backend a callback that does `wg.Done()`; after `processWait()` (all aggregators processed)
`sendWg.Wait()` returns when the counter is 0.  A `Done` below zero panics. -/
namespace Gsd.Flusher

structure St where
  wg : Int := 0
  panicked : Bool := false
  processed : List Nat := []        -- aggregators for which `sendMetricsAsync` ran
  calls : List (Nat × Nat) := []    -- (aggregator, backend) callback invocations
  deriving Repr

inductive Ev
  | process (a : Nat)
  | callback (a b : Nat)
  deriving DecidableEq, Repr

def step (backends : Nat) (s : St) : Ev → Option St
  | .process a =>
    if a ∈ s.processed ∨ s.panicked then none
    else some { s with wg := s.wg + backends, processed := a :: s.processed }
  | .callback a b =>
    if a ∈ s.processed ∧ b < backends ∧ ¬ s.panicked then
      some { s with wg := s.wg - 1, panicked := decide (s.wg - 1 < 0), calls := (a, b) :: s.calls }
    else none

def exec (backends : Nat) : St → List Ev → Option St
  | s, [] => some s
  | s, e :: es => match step backends s e with
    | some s' => exec backends s' es
    | none => none

/-- `flushData` returns: every aggregator has been processed and the wait group is at zero -/
def returns (aggregators : Nat) (s : St) : Bool :=
  s.processed.length == aggregators && s.wg == 0 && !s.panicked

end Gsd.Flusher
