import Gsd.Model.Lexer
/-!
C02 — the *documented grammar* side: the statsd / dogstatsd line forms of README.md ("The format of
each metric is …") and of the DogStatsD event datagram, as data (`MetricLine`, `EventLine`), their
rendering to bytes, their well-formedness, and the fields they specify (`spec`).
The theorems of `Proofs/C02.lean` relate these to `Lexer.run`.
-/
namespace Gsd.Lexer

/-- the five type spellings -/
inductive TypeSp | c | g | ms | h | s
  deriving DecidableEq, Repr

def TypeSp.bytes : TypeSp → Bytes
  | .c => [99] | .g => [103] | .ms => [109, 115] | .h => [104] | .s => [115]

def TypeSp.type : TypeSp → MType
  | .c => .counter | .g => .gauge | .ms => .timer | .h => .timer | .s => .set

/-- optional fields after the type: `@rate`, `#tag,tag,…`, anything else (ignored) -/
inductive Field
  | rate (txt : Bytes)
  | tags (ts : List Bytes)
  | other (txt : Bytes)
  deriving Repr

/-- `,t₁,t₂…` -/
def joinTail (ts : List Bytes) : Bytes := ts.flatMap (fun t => 44 :: t)

def joinComma : List Bytes → Bytes
  | [] => []
  | t :: ts => t ++ joinTail ts

def Field.render : Field → Bytes
  | .rate t => 64 :: t
  | .tags ts => 35 :: joinComma ts
  | .other t => t

def renderFields (fs : List Field) : Bytes := fs.flatMap (fun f => 124 :: f.render)

structure MetricLine where
  name : Bytes
  value : Bytes
  ty : TypeSp
  fields : List Field

/-- `name:value|type|field|field…` -/
def MetricLine.render (ml : MetricLine) : Bytes :=
  ml.name ++ 58 :: (ml.value ++ 124 :: (ml.ty.bytes ++ renderFields ml.fields))

def Field.WF {F : Type} [FloatLike F] (cfg : Cfg) (pf : Bytes → Option F) : Field → Prop
  | .rate t => (124 : UInt8) ∉ t ∧ ∃ v, pf t = some v ∧ (cfg.checkRate = true → FloatLike.rateOk v = true)
  | .tags ts => ∀ t ∈ ts, (44 : UInt8) ∉ t ∧ (124 : UInt8) ∉ t ∧ (0 : UInt8) ∉ t
  | .other t => (124 : UInt8) ∉ t ∧ ∃ b r, t = b :: r ∧ b ≠ 64 ∧ b ≠ 35

/-- A line of the documented form: the name has no `:` (it ends at the first one) and no NUL, does not
begin with `_` (that byte introduces the Datadog special forms) and keeps at least one character;
the value has no `|`; it is a number for `ParseFloat` unless the type is a set; every field is well
formed. -/
def MetricLine.WF {F : Type} [FloatLike F] (cfg : Cfg) (pf : Bytes → Option F) (ml : MetricLine) : Prop :=
  (0 : UInt8) ∉ ml.name ∧ (58 : UInt8) ∉ ml.name ∧ ml.name.head? ≠ some 95 ∧ norm ml.name ≠ [] ∧
  (0 : UInt8) ∉ ml.value ∧ (124 : UInt8) ∉ ml.value ∧
  (ml.ty ≠ .s → ∃ v, pf ml.value = some v ∧ FloatLike.isNaN v = false) ∧
  ∀ f ∈ ml.fields, f.WF cfg pf

/-- the sample rate after the fields, starting from `r`: each `@` field replaces it (the last wins) -/
def specRate {F : Type} (pf : Bytes → Option F) (fs : List Field) (r : F) : F :=
  fs.foldl (fun r f => match f with
    | .rate t => (pf t).getD r
    | _ => r) r

/-- the tags of the fields, in order, empty ones dropped -/
def specTags (fs : List Field) : List Bytes :=
  fs.flatMap (fun f => match f with
    | .tags ts => ts.filter (· ≠ [])
    | _ => [])

/-- the fields the line specifies -/
def MetricLine.spec {F : Type} [FloatLike F] (pf : Bytes → Option F) (ns : Bytes) (ml : MetricLine) : Metric F :=
  { name := withNs ns (norm ml.name)
    type := ml.ty.type
    value := if ml.ty = .s then none else pf ml.value
    svalue := if ml.ty = .s then ml.value else []
    rate := specRate pf ml.fields FloatLike.one
    tags := specTags ml.fields }

/-! ## events: `_e{n,m}:title|text|d:…|h:…|k:…|p:…|s:…|t:…|#tags|other` -/

def alertBytes : Alert → Bytes
  | .info => bInfo | .warning => bWarning | .error => bError | .success => bSuccess

inductive EField
  | date (digits : Bytes)
  | host (t : Bytes)
  | aggKey (t : Bytes)
  | prio (p : Prio)
  | srcType (t : Bytes)
  | alert (a : Alert)
  | tags (ts : List Bytes)
  | other (txt : Bytes)
  deriving Repr

def EField.render : EField → Bytes
  | .date ds => 100 :: 58 :: ds
  | .host t => 104 :: 58 :: t
  | .aggKey t => 107 :: 58 :: t
  | .prio p => 112 :: 58 :: (match p with | .low => bLow | .normal => bNormal)
  | .srcType t => 115 :: 58 :: t
  | .alert a => 116 :: 58 :: alertBytes a
  | .tags ts => 35 :: joinComma ts
  | .other t => t

def renderEFields (fs : List EField) : Bytes := fs.flatMap (fun f => 124 :: f.render)

/-- value of a decimal digit string (leading zeros allowed) -/
def digitsVal (ds : Bytes) : Nat := ds.foldl (fun v b => v * 10 + (b.toNat - 48)) 0

def AllDigits (ds : Bytes) : Prop := ds ≠ [] ∧ ∀ b ∈ ds, isDigit b = true

instance (ds : Bytes) : Decidable (AllDigits ds) := inferInstanceAs (Decidable (ds ≠ [] ∧ ∀ b ∈ ds, isDigit b = true))

structure EventLine where
  titleDigits : Bytes
  textDigits : Bytes
  title : Bytes
  text : Bytes
  fields : List EField

def EventLine.render (el : EventLine) : Bytes :=
  [95, 101, 123] ++ (el.titleDigits ++ 44 :: (el.textDigits ++ 125 :: 58 :: (el.title ++ 124 :: (el.text ++ renderEFields el.fields))))

def EField.WF : EField → Prop
  | .date ds => AllDigits ds ∧ digitsVal ds ≤ 9223372036854775807
  | .host t => (124 : UInt8) ∉ t
  | .aggKey t => (124 : UInt8) ∉ t
  | .prio _ => True
  | .srcType t => (124 : UInt8) ∉ t
  | .alert _ => True
  | .tags ts => ∀ t ∈ ts, (44 : UInt8) ∉ t ∧ (124 : UInt8) ∉ t ∧ (0 : UInt8) ∉ t
  | .other t => (124 : UInt8) ∉ t ∧ ∃ b r, t = b :: r ∧ b ≠ 100 ∧ b ≠ 104 ∧ b ≠ 107 ∧ b ≠ 112 ∧ b ≠ 115 ∧ b ≠ 116 ∧ b ≠ 35

/-- the declared lengths are the real lengths of title and text (any bytes, `|` and NUL included) -/
def EventLine.WF (el : EventLine) : Prop :=
  AllDigits el.titleDigits ∧ AllDigits el.textDigits ∧
  digitsVal el.titleDigits = el.title.length ∧ digitsVal el.textDigits = el.text.length ∧
  ∀ f ∈ el.fields, f.WF

/-- effect of one field on the event under construction (`tags` reversed, as in the model) -/
def EField.apply (e : Event) : EField → Event
  | .date ds => { e with date := UInt64.ofNat (digitsVal ds) }
  | .host t => { e with host := t }
  | .aggKey t => { e with aggKey := t }
  | .prio p => (match p with | .low => { e with prio := .low } | .normal => e)
  | .srcType t => { e with srcType := t }
  | .alert a => (match a with | .info => e | a => { e with alert := a })
  | .tags ts => { e with tags := (ts.filter (· ≠ [])).reverse ++ e.tags }
  | .other _ => e

/-- the event the line specifies: fields applied left to right (a later field of the same kind
replaces an earlier one, except that `p:normal` / `t:info` never reset an earlier `p:low` / `t:error`…),
text with `\n` escapes turned into newlines -/
def EventLine.spec (el : EventLine) : Event :=
  let e := el.fields.foldl EField.apply { title := el.title, text := unescape el.text }
  { e with tags := e.tags.reverse }

end Gsd.Lexer
