import Gsd.Model.AList
/-!
C12 — model of `CachedCloudProvider` (pkg/cachedinstances/cloudprovider/cached_cloud_provider.go)
and of its lookup dispatcher (cached_cloud_provider_lookup.go).

The component is an owner goroutine (`Run`) plus a helper goroutine (`cloudProviderLookupDispatcher.run`)
that talk over unbuffered channels.  It is cut into atomic actions at the channel operations:

* `submit s`       – a client's `IpSink() <- s` (the source is now waiting for the dispatcher);
* `batch ss o e`   – the dispatcher takes a group `ss` of waiting sources (any sub-multiset of what is
                     waiting, `1 ≤ |ss| ≤ MaxInstancesBatch`: the 10 ms window and the rate limiter only
                     decide *which* grouping happens, so the grouping is a parameter), calls the provider
                     (`o` = the returned map read as `instances[ip]`, `e` = whether `err != nil`) and
                     `doLookup` sends one `InstanceInfo{ip, instances[ip]}` per element of `ss` — the
                     error is only logged, a missing key and a nil map both read as `nil`;
* `handleInfo now` – the owner receives the oldest such answer: `handleInstanceInfo` (`now` = `time.Now()`);
* `deliver k`      – the owner hands one handled answer to the `InfoSource()` consumer (the code keeps a
                     stack plus a one-element slot, so the order is neither FIFO nor LIFO: any element);
* `peek s now`     – `Peek(s)`: `updateAccess` stamps `now`; the result is `peekVal`;
* `tick t`         – `doRefresh(t)`: evict when `t - lastAccess > idle` (strict), otherwise re-queue when
                     `t.After(expires)` (strict).  Evicted entries are not re-queued (`else if`).

Time is `Int` (any unit); nothing is assumed about monotonicity of the stamps.
The ghost fields `requested`, `queried`, `emitted`, `delivered` only record history.
-/
namespace Gsd.Cache
open Gsd Gsd.AList

/-- `instanceHolder` -/
structure Holder (ι : Type) where
  inst : Option ι
  expires : Int
  lastAccess : Int
  deriving DecidableEq, Repr

/-- `gostatsd.InstanceInfo` -/
structure Info (σ ι : Type) where
  ip : σ
  inst : Option ι
  deriving DecidableEq, Repr

/-- `gostatsd.CacheOptions` (the refresh period only decides when `tick` happens) and the provider's
`MaxInstancesBatch()` -/
structure Config where
  ttl : Int
  negTtl : Int
  idle : Int
  maxBatch : Nat
  deriving DecidableEq, Repr

structure State (σ ι : Type) where
  cache : AList σ (Holder ι) := []
  /-- asked for (by a client or by a refresh) and not yet put in a batch: `toLookupIPs`, the
  `toLookupIP` slot, blocked client sends and the dispatcher's `ips` slice together -/
  pending : List σ := []
  /-- sent by `doLookup`, not yet handled by the owner (FIFO: one sender, unbuffered channel) -/
  answers : List (Info σ ι) := []
  /-- `toReturnInfo` + the `toReturnInfo` slot: handled, not yet given to the consumer -/
  toReturn : List (Info σ ι) := []
  /-- `statsCachePositive`, `statsCacheNegative`, `statsCacheRefreshPositive`, `statsCacheRefreshNegative`
  (uint64 in the code; `Int` here so that a wrong decrement is visible as a negative number) -/
  pos : Int := 0
  neg : Int := 0
  refPos : Int := 0
  refNeg : Int := 0
  -- ghost history
  requested : List σ := []
  queried : List σ := []
  emitted : List (Info σ ι) := []
  delivered : List (Info σ ι) := []
  deriving DecidableEq, Repr

inductive Action (σ ι : Type) where
  | submit (s : σ)
  | batch (ss : List σ) (outcome : σ → Option ι) (err : Bool)
  | handleInfo (now : Int)
  | deliver (k : Nat)
  | peek (s : σ) (now : Int)
  | tick (t : Int)

/-- the actions of the component itself (as opposed to its environment: clients, clock) -/
def Action.internal {σ ι : Type} : Action σ ι → Bool
  | .batch .. => true
  | .handleInfo _ => true
  | .deliver _ => true
  | _ => false

variable {σ ι : Type} [DecidableEq σ]

def init : State σ ι := {}

/-- remove the elements of the second list, one occurrence each, from the first (`none` when one is
not there): "the batch is a sub-multiset of what is waiting" -/
def takeOut : List σ → List σ → Option (List σ)
  | p, [] => some p
  | p, x :: xs => if x ∈ p then takeOut (p.erase x) xs else none

/-- remove the `k`-th element -/
def extract {α : Type} : Nat → List α → Option (α × List α)
  | _, [] => none
  | 0, x :: xs => some (x, xs)
  | k + 1, x :: xs => (extract k xs).map (fun r => (r.1, x :: r.2))

/-- `now - holder.lastAccess() > idleNano` -/
def idleOut (cfg : Config) (t : Int) (h : Holder ι) : Bool := decide (t - h.lastAccess > cfg.idle)

/-- `t.After(holder.expires)` -/
def expired (t : Int) (h : Holder ι) : Bool := decide (t > h.expires)

def isPos (e : σ × Holder ι) : Bool := e.2.inst.isSome
def isNeg (e : σ × Holder ι) : Bool := e.2.inst.isNone

/-- the holder `handleInstanceInfo` stores: the TTL is chosen by the *answer* (a failed refresh of a
positive entry therefore gets the negative TTL), first access is stamped only for a new entry, and a
nil answer keeps the old instance. -/
def newHolder (cfg : Config) (now : Int) (ans : Option ι) : Option (Holder ι) → Holder ι
  | none => { inst := ans, expires := now + (if ans.isNone then cfg.negTtl else cfg.ttl), lastAccess := now }
  | some cur => { inst := (match ans with | none => cur.inst | some v => some v),
                  expires := now + (if ans.isNone then cfg.negTtl else cfg.ttl),
                  lastAccess := cur.lastAccess }

/-- `handleInstanceInfo(info)` -/
def handle (cfg : Config) (now : Int) (i : Info σ ι) (st : State σ ι) : State σ ι :=
  let st' := { st with cache := upsert i.ip (newHolder cfg now i.inst) st.cache, toReturn := st.toReturn ++ [i] }
  match lookup i.ip st.cache, i.inst with
  | none, none => { st' with neg := st.neg + 1 }
  | none, some _ => { st' with pos := st.pos + 1 }
  | some _, none => { st' with refNeg := st.refNeg + 1 }
  | some cur, some _ =>
    if cur.inst.isNone then { st' with neg := st.neg - 1, pos := st.pos + 1, refPos := st.refPos + 1 }
    else { st' with refPos := st.refPos + 1 }

/-- `Peek`'s `holder.updateAccess()` -/
def touch (s : σ) (now : Int) (st : State σ ι) : State σ ι :=
  { st with cache := mapVals (fun k h => if k = s then { h with lastAccess := now } else h) st.cache }

/-- what `Peek(s)` returns: `none` = miss, `some none` = negative hit, `some (some v)` = instance -/
def peekVal (st : State σ ι) (s : σ) : Option (Option ι) := (lookup s st.cache).map (·.inst)

/-- `doRefresh(t)` -/
def tick (cfg : Config) (t : Int) (st : State σ ι) : State σ ι :=
  let gone := st.cache.filter (fun e => idleOut cfg t e.2)
  let kept := st.cache.filter (fun e => !idleOut cfg t e.2)
  let requery := (kept.filter (fun e => expired t e.2)).map (·.1)
  { st with cache := kept,
            pos := st.pos - (gone.countP isPos : Nat),
            neg := st.neg - (gone.countP isNeg : Nat),
            pending := st.pending ++ requery,
            requested := st.requested ++ requery }

/-- one atomic action; `none` = not enabled -/
def step (cfg : Config) (st : State σ ι) : Action σ ι → Option (State σ ι)
  | .submit s => some { st with pending := st.pending ++ [s], requested := st.requested ++ [s] }
  | .batch ss outcome _err =>
    if ss.isEmpty || decide (cfg.maxBatch < ss.length) then none else
    match takeOut st.pending ss with
    | none => none
    | some rest =>
      let infos := ss.map (fun s => ({ ip := s, inst := outcome s } : Info σ ι))
      some { st with pending := rest, answers := st.answers ++ infos,
                     queried := st.queried ++ ss, emitted := st.emitted ++ infos }
  | .handleInfo now =>
    match st.answers with
    | [] => none
    | i :: rest => some (handle cfg now i { st with answers := rest })
  | .deliver k =>
    match extract k st.toReturn with
    | none => none
    | some (i, rest) => some { st with toReturn := rest, delivered := st.delivered ++ [i] }
  | .peek s now => some (touch s now st)
  | .tick t => some (tick cfg t st)

/-- a schedule: every action must be enabled -/
def run (cfg : Config) : State σ ι → List (Action σ ι) → Option (State σ ι)
  | st, [] => some st
  | st, a :: as => (step cfg st a).bind (fun st' => run cfg st' as)

/-- nothing the component could do by itself is enabled -/
def Quiescent (cfg : Config) (st : State σ ι) : Prop :=
  ∀ a : Action σ ι, a.internal = true → step cfg st a = none

/-- the entry of `s` survives every step of the schedule (it is never evicted) -/
def keptAlong (cfg : Config) (s : σ) : State σ ι → List (Action σ ι) → Bool
  | _, [] => true
  | st, a :: as =>
    match step cfg st a with
    | none => true
    | some st' => (lookup s st'.cache).isSome && keptAlong cfg s st' as

/-- the provider does not resolve `s` in this action -/
def Action.failsFor (s : σ) : Action σ ι → Prop
  | .batch _ outcome _ => outcome s = none
  | _ => True

end Gsd.Cache
