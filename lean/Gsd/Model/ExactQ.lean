import Gsd.Model.Aggregator
/-!
A kernel-evaluable exact instance of `Num`: unnormalised fractions `num/den` (`den > 0`).  Used only for
`decide` witnesses (defect witnesses are kernel-checked facts about the model, not test outputs).
`sqrt` is the identity (nothing depends on it).  Core-only.
-/
namespace Gsd

structure Q where
  num : Int
  den : Nat := 1
  deriving Repr

namespace Q
def mk' (n : Int) (d : Nat) : Q := { num := n, den := if d = 0 then 1 else d }
def add (a b : Q) : Q := mk' (a.num * b.den + b.num * a.den) (a.den * b.den)
def neg (a : Q) : Q := { a with num := -a.num }
def sub (a b : Q) : Q := add a (neg b)
def mul (a b : Q) : Q := mk' (a.num * b.num) (a.den * b.den)
def div (a b : Q) : Q :=
  if b.num = 0 then mk' 0 1
  else if b.num > 0 then mk' (a.num * b.den) (a.den * b.num.natAbs)
  else mk' (-(a.num * b.den)) (a.den * b.num.natAbs)
def le (a b : Q) : Bool := decide (a.num * b.den ≤ b.num * a.den)
def lt (a b : Q) : Bool := decide (a.num * b.den < b.num * a.den)
def beq (a b : Q) : Bool := decide (a.num * b.den = b.num * a.den)
/-- `⌊a⌋` (Euclidean division by a positive denominator is the floor) -/
def floorInt (a : Q) : Int := a.num / (a.den : Int)
def ofInt (i : Int) : Q := { num := i, den := 1 }
end Q

instance : Num Q where
  add := Q.add
  sub := Q.sub
  mul := Q.mul
  div := Q.div
  ofNat n := Q.ofInt n
  ofInt := Q.ofInt
  lt := Q.lt
  le := Q.le
  beq := Q.beq
  floor a := Q.ofInt a.floorInt
  toInt a := Int.tdiv a.num a.den
  sqrt a := a
  abs a := { a with num := a.num.natAbs }
  isNaN _ := false
  isPosInf _ := false

instance : OfNat Q n := ⟨Q.ofInt n⟩

end Gsd
