/-!
C02 / C03 / C05 — model of the statsd line lexer `internal/lexer/lexer.go`.

List-level and structurally recursive: each state function of the Go lexer is a function on the
*remaining* bytes.  Three kinds of machine detail are kept because the properties are about them:

* end of input and a literal NUL byte are different: at the real end `next()` does not advance,
  at a NUL it returns the same `eof` value but *does* advance;
* `lexUint`/`lexUint32`/`lexEventBody` compute in `UInt64`/`UInt32` exactly as the code
  (`lexEventBody`'s length check wraps in 32 bits — defect D1);
* the Go cursor is carried as ghost `UInt32` values (`len`, decremented by every in-place deletion of
  `lexKeySep`; `pos = len − |remaining|`; `start = len − |remaining when start was set|`) and every
  slice / index expression of lexer.go is evaluated through `sliceOk` / `indexOk`, giving `panic`
  exactly when Go would (`s[lo:hi]` needs `lo ≤ hi ≤ cap(s)`, `s[i]` needs `i < len(s)`).
  (`l.input[l.pos]` inside `next()` is guarded in line by `l.pos >= l.len` and `l.len = len(l.input)`.)

`strconv.ParseFloat` is a parameter `pf : Bytes → Option F` over an abstract float type.

Switches for the repaired code (defects D1, D2): `Cfg.current` below — one line.
-/
namespace Gsd.Lexer

abbrev Bytes := List UInt8

/-- the lexer's errors (`errMissingKeySep` …; `num` = the error returned by `strconv.ParseFloat`;
`rate` = the error of the D2 repair) -/
inductive Err
  | keysep | emptyKey | valuesep | type | format | attributes | overflow | notEnough | nan | num | rate
  deriving DecidableEq, Repr

inductive Res (α : Type)
  | ok (a : α)
  | err (e : Err)
  | panic
  deriving Repr

namespace Res
def bind {α β : Type} (x : Res α) (f : α → Res β) : Res β :=
  match x with
  | .ok a => f a
  | .err e => .err e
  | .panic => .panic
end Res

/-- Which code is modelled.  `checkRate`: `lexMetricAttribute` rejects a sample rate that is NaN, ±Inf
or ≤ 0 (repair of D2).  `wideLenCheck`: `lexEventBody` compares lengths in 64 bits (repair of D1). -/
structure Cfg where
  checkRate : Bool
  wideLenCheck : Bool
  deriving DecidableEq, Repr

/-- **THE SWITCH.**  The pinned tree has neither repair.  After applying `handoff/C02-fix-1.patch`
set `checkRate := true`; after `handoff/C03-fix-1.patch` set `wideLenCheck := true`. -/
def Cfg.current : Cfg := { checkRate := true, wideLenCheck := true }   -- repaired tree (fix commits 2116dca, e08cab3)

def Cfg.repaired : Cfg := { checkRate := true, wideLenCheck := true }

/-- what the model needs to know about `float64` -/
class FloatLike (F : Type) where
  isNaN : F → Bool
  /-- finite and strictly positive -/
  rateOk : F → Bool
  /-- `float64(1)` -/
  one : F
  rateOk_one : rateOk one = true

/-- IEEE-754 binary64 by its bits (executable, and evaluable by `decide`) -/
instance : FloatLike UInt64 where
  isNaN b := (b >>> 52) &&& 0x7ff == 0x7ff && (b &&& 0xfffffffffffff) != 0
  rateOk b := (b >>> 63) == 0 && (b >>> 52) &&& 0x7ff != 0x7ff && b != 0
  one := 0x3ff0000000000000
  rateOk_one := by decide

/-! ## ghost cursor -/

/-- Go: `s[lo:hi]` on a slice with capacity `cap` -/
def sliceOk (lo hi : UInt32) (cap : Nat) : Bool := decide (lo.toNat ≤ hi.toNat) && decide (hi.toNat ≤ cap)
/-- Go: `s[i]` on a slice of length `len` -/
def indexOk (i len : UInt32) : Bool := decide (i.toNat < len.toNat)

def guard {α : Type} (c : Bool) (k : Res α) : Res α := if c then k else .panic

/-- `len` = `l.len` (= `len(l.input)`), `cap` = `cap(l.input)` -/
structure Ghost where
  len : UInt32
  cap : Nat
  deriving Repr

/-- the cursor when `n` bytes remain -/
def Ghost.at (g : Ghost) (n : Nat) : UInt32 := g.len - UInt32.ofNat n

/-! ## metric name -/

def isAlnum (b : UInt8) : Bool :=
  (decide (97 ≤ b) && decide (b ≤ 122)) || (decide (65 ≤ b) && decide (b ≤ 90)) || (decide (48 ≤ b) && decide (b ≤ 57))

/-- what `lexKeySep` leaves of one byte of the name: `/`→`-`, blank/tab→`_`, `[A-Za-z0-9._-]` kept,
the rest deleted -/
def normByte (b : UInt8) : Option UInt8 :=
  if b = 47 then some 45
  else if b = 32 ∨ b = 9 then some 95
  else if b = 46 ∨ b = 45 ∨ b = 95 then some b
  else if isAlnum b then some b
  else none

def norm (name : Bytes) : Bytes := name.filterMap normByte

/-- `lexKeySep`.  `acc` = the name so far, reversed.  Result: reversed name, `l.len` after the
deletions, bytes after the `:`.  The `switch` of the code is `normByte` (after the `:` and eof cases):
a byte that is rewritten (`/`, blank, tab) is stored through `l.input[l.pos-1]`, a byte that is kept is
not touched, any other byte is deleted by `append(l.input[0:l.pos-1], l.input[l.pos:]...)`. -/
def keySep (cap : Nat) : UInt32 → Bytes → Bytes → Res (Bytes × UInt32 × Bytes)
  | _, _, [] => .err .keysep
  | len, acc, b :: t =>
    let pos := len - UInt32.ofNat t.length            -- after `next()`
    if b = 58 then .ok (acc, len, t)
    else if b = 0 then .err .keysep
    else match normByte b with
      | some c =>
        if c = b then keySep cap len (c :: acc) t
        else guard (indexOk (pos - 1) len) (keySep cap len (c :: acc) t)      -- `l.input[l.pos-1] = c`
      | none => -- `l.input = append(l.input[0:l.pos-1], l.input[l.pos:]...); l.len--; l.pos--`
        guard (sliceOk 0 (pos - 1) cap && sliceOk pos len cap) (keySep cap (len - 1) acc t)

/-- `lexValueSep`: value text (reversed accumulator) and the bytes after the `|` -/
def valueSep : Bytes → Bytes → Res (Bytes × Bytes)
  | _, [] => .err .valuesep
  | acc, b :: t =>
    if b = 124 then .ok (acc.reverse, t)
    else if b = 0 then .err .valuesep
    else valueSep (b :: acc) t

inductive MType | counter | timer | gauge | set
  deriving DecidableEq, Repr

/-- `lexType` -/
def lexType : Bytes → Res (MType × Bytes)
  | [] => .err .type
  | b :: t =>
    if b = 99 then .ok (.counter, t)
    else if b = 103 then .ok (.gauge, t)
    else if b = 109 then
      match t with
      | [] => .err .type
      | b2 :: t2 => if b2 = 115 then .ok (.timer, t2) else .err .type
    else if b = 104 then .ok (.timer, t)
    else if b = 115 then .ok (.set, t)
    else .err .type

/-- `appendTag` on a reversed token and a reversed tag list -/
def pushTag (curRev : Bytes) (tagsRev : List Bytes) : List Bytes :=
  if curRev = [] then tagsRev else curRev.reverse :: tagsRev

/-! ## metric attributes (`lexMetricAttributes` / `lexMetricAttribute` as one byte-level machine) -/

/-- where the machine is; `sl` = number of bytes that remained when `l.start` was set -/
inductive MMode
  | sep                               -- `lexMetricAttributes`: expects `|`, end or NUL
  | start                             -- `lexMetricAttribute`: first byte of the field
  | rate (sl : Nat) (cur : Bytes)     -- inside `seekUntil('|')` of an `@` field (`cur` reversed)
  | tag (sl : Nat) (cur : Bytes)      -- inside `seekDelimited('|', ',')` of a `#` field
  | skip (sl : Nat)                   -- inside `seekUntil('|')` of an ignored field

/-- the `@` field: `ParseFloat`, and with the D2 repair the range check -/
def applyRate {F : Type} [FloatLike F] (cfg : Cfg) (pf : Bytes → Option F) (cur : Bytes) : Res F :=
  match pf cur.reverse with
  | none => .err .num
  | some v => if cfg.checkRate && !FloatLike.rateOk v then .err .rate else .ok v

/-- result: sampling rate and reversed tags -/
def mattrs {F : Type} [FloatLike F] (cfg : Cfg) (pf : Bytes → Option F) (g : Ghost) :
    MMode → F → List Bytes → Bytes → Res (F × List Bytes)
  | .sep, r, tags, [] => .ok (r, tags)
  | .start, r, tags, [] =>
    -- `next()` = eof without advancing, default branch: `seekUntil` from the end, then eof
    guard (sliceOk (g.at 0) g.len g.cap && sliceOk (g.at 0) g.len g.cap) (.ok (r, tags))
  | .rate sl cur, _, tags, [] =>
    guard (sliceOk (g.at sl) g.len g.cap)
      ((applyRate cfg pf cur).bind fun v => .ok (v, tags))
  | .tag sl cur, r, tags, [] =>
    guard (sliceOk (g.at sl) (g.at 0) g.cap) (.ok (r, pushTag cur tags))
  | .skip sl, r, tags, [] =>
    guard (sliceOk (g.at sl) g.len g.cap) (.ok (r, tags))
  | .sep, r, tags, b :: t =>
    if b = 124 then mattrs cfg pf g .start r tags t
    else if b = 0 then .ok (r, tags)
    else .err .type
  | .start, r, tags, b :: t =>
    -- `seekUntil` / `seekDelimited` set `l.start = l.pos` (after the byte just read)
    if b = 64 then guard (sliceOk (g.at t.length) g.len g.cap) (mattrs cfg pf g (.rate t.length []) r tags t)
    else if b = 35 then mattrs cfg pf g (.tag t.length []) r tags t
    else guard (sliceOk (g.at t.length) g.len g.cap) (mattrs cfg pf g (.skip t.length) r tags t)
  | .rate sl cur, r, tags, b :: t =>
    if b = 124 then
      guard (sliceOk (g.at sl) (g.at (t.length + 1)) g.cap)
        ((applyRate cfg pf cur).bind fun v => mattrs cfg pf g .start v tags t)
    else mattrs cfg pf g (.rate sl (b :: cur)) r tags t
  | .tag sl cur, r, tags, b :: t =>
    if b = 44 then
      guard (sliceOk (g.at sl) (g.at t.length - 1) g.cap) (mattrs cfg pf g (.tag t.length []) r (pushTag cur tags) t)
    else if b = 124 then
      guard (sliceOk (g.at sl) (g.at (t.length + 1)) g.cap) (mattrs cfg pf g .start r (pushTag cur tags) t)
    else if b = 0 then
      -- `next()` advanced over the NUL: the tag includes it
      guard (sliceOk (g.at sl) (g.at t.length) g.cap) (mattrs cfg pf g .sep r (pushTag (0 :: cur) tags) t)
    else mattrs cfg pf g (.tag sl (b :: cur)) r tags t
  | .skip sl, r, tags, b :: t =>
    if b = 124 then guard (sliceOk (g.at sl) (g.at (t.length + 1)) g.cap) (mattrs cfg pf g .start r tags t)
    else mattrs cfg pf g (.skip sl) r tags t

structure Metric (F : Type) where
  name : Bytes
  type : MType
  /-- `none` for sets -/
  value : Option F
  /-- `StringValue`, kept for sets only -/
  svalue : Bytes
  rate : F
  tags : List Bytes
  deriving DecidableEq, Repr

inductive Prio | normal | low
  deriving DecidableEq, Repr
inductive Alert | info | warning | error | success
  deriving DecidableEq, Repr

structure Event where
  title : Bytes := []
  text : Bytes := []
  date : UInt64 := 0
  host : Bytes := []
  aggKey : Bytes := []
  srcType : Bytes := []
  prio : Prio := .normal
  alert : Alert := .info
  tags : List Bytes := []
  deriving DecidableEq, Repr

inductive Outcome (F : Type)
  | metric (m : Metric F)
  | event (e : Event)
  | reject (e : Err)
  | panic
  deriving DecidableEq, Repr

def withNs (ns name : Bytes) : Bytes := if ns = [] then name else ns ++ 46 :: name

/-- `Run` after the state machine: `Rate`, `ParseFloat` of the value unless the type is a set, NaN check -/
def finishMetric {F : Type} [FloatLike F] (pf : Bytes → Option F) (name : Bytes) (ty : MType) (value : Bytes)
    (rate : F) (tags : List Bytes) : Outcome F :=
  if ty = .set then .metric { name := name, type := ty, value := none, svalue := value, rate := rate, tags := tags }
  else match pf value with
    | none => .reject .num
    | some v =>
      if FloatLike.isNaN v then .reject .nan
      else .metric { name := name, type := ty, value := some v, svalue := [], rate := rate, tags := tags }

/-- the metric chain `lexKeySep → lexKey → lexValueSep → lexValue → lexType → lexMetricAttributes` -/
def metricLine {F : Type} [FloatLike F] (cfg : Cfg) (pf : Bytes → Option F) (ns : Bytes) (cap : Nat) (len : UInt32)
    (input : Bytes) : Res (Bytes × MType × Bytes × F × List Bytes) :=
  (keySep cap len [] input).bind fun (nameRev, len', r1) =>
    if nameRev = [] then .err .emptyKey else                -- `l.start == l.pos-1`
    let pos1 := len' - UInt32.ofNat r1.length
    guard (sliceOk 0 (pos1 - 1) cap) <|                     -- `l.input[l.start : l.pos-1]`
    (valueSep [] r1).bind fun (value, r2) =>
      let pos2 := len' - UInt32.ofNat r2.length
      guard (sliceOk pos1 (pos2 - 1) cap) <|                -- `l.input[l.start : l.pos-1]`
      (lexType r2).bind fun (ty, r3) =>
        (mattrs cfg pf ⟨len', cap⟩ .sep FloatLike.one [] r3).bind fun (rate, tagsRev) =>
          .ok (withNs ns nameRev.reverse, ty, value, rate, tagsRev.reverse)

/-! ## events -/

/-- `lexAssert` -/
def lexAssert (c : UInt8) : Bytes → Res Bytes
  | [] => .err .format
  | b :: t => if b = c then .ok t else .err .format

def isDigit (b : UInt8) : Bool := decide (48 ≤ b) && decide (b ≤ 57)

/-- the loop of `lexUint`; `any` = `start != l.pos` -/
def uintLoop : UInt64 → Bool → Bytes → Res (UInt64 × Bytes)
  | v, any, [] => if any then .ok (v, []) else .err .format
  | v, any, b :: t =>
    if isDigit b then
      let n := v * 10 + (b - 48).toUInt64
      if n < v then .err .overflow else uintLoop n true t
    else if b = 0 then .ok (v, t)                 -- NUL: `next()` advanced, so `start != l.pos`
    else if any then .ok (v, b :: t) else .err .format

/-- `lexUint32` -/
def lexUint32 (r : Bytes) : Res (UInt32 × Bytes) :=
  (uintLoop 0 false r).bind fun (v, r') => if v > 0xFFFFFFFF then .err .overflow else .ok (v.toUInt32, r')

/-- `bytes.Replace(text, "\\n", "\n", -1)` (accumulator reversed) -/
def unescapeAux : Bytes → Bytes → Bytes
  | acc, [] => acc.reverse
  | acc, [b] => (b :: acc).reverse
  | acc, b :: c :: t => if b = 92 ∧ c = 110 then unescapeAux (10 :: acc) t else unescapeAux (b :: acc) (c :: t)

def unescape (text : Bytes) : Bytes := unescapeAux [] text

/-- Go `input[lo:hi]` once the bounds check has passed -/
def slice (input : Bytes) (lo hi : UInt32) : Bytes := (input.drop lo.toNat).take (hi.toNat - lo.toNat)

/-- the length test of `lexEventBody`: `l.len-l.pos < l.eventTitleLen+1+l.eventTextLen`.  On the pinned
tree all of it is `uint32` arithmetic (the sum wraps: defect D1); the repair compares in 64 bits. -/
def lenShort (cfg : Cfg) (len pos tl xl : UInt32) : Bool :=
  if cfg.wideLenCheck then decide ((len - pos).toUInt64 < tl.toUInt64 + 1 + xl.toUInt64)
  else decide (len - pos < tl + 1 + xl)

/-- `lexEventBody`, literally on the cursor values.  `input` is the whole line, `rest` what remains
after the header. -/
def eventBody (cfg : Cfg) (g : Ghost) (input rest : Bytes) (tl xl : UInt32) : Res (Bytes × Bytes × Bytes) :=
  let pos := g.at rest.length
  if lenShort cfg g.len pos tl xl then .err .notEnough else
  guard (indexOk (pos + tl) g.len) <|                        -- `l.input[l.pos+l.eventTitleLen]`
  if input[(pos + tl).toNat]? ≠ some 124 then .err .format else
  guard (sliceOk pos (pos + tl) g.cap) <|                    -- `l.input[l.pos : l.pos+l.eventTitleLen]`
  let title := slice input pos (pos + tl)
  let pos2 := pos + (tl + 1)
  guard (sliceOk pos2 (pos2 + xl) g.cap) <|                  -- `l.input[l.pos : l.pos+l.eventTextLen]`
  let text := slice input pos2 (pos2 + xl)
  .ok (title, unescape text, input.drop (pos2 + xl).toNat)

inductive EMode
  | sep                                        -- `lexEventAttributes`
  | start                                      -- `lexEventAttribute`
  | colon (k : UInt8)                          -- `lexAssert(':')` after d/h/k/p/s/t
  | date (v : UInt64) (any : Bool)             -- `lexUint` of `d:`
  | data (k : UInt8) (sl : Nat) (cur : Bytes)  -- `seekUntil('|')` of h/k/p/s/t
  | tag (sl : Nat) (cur : Bytes)
  | skip (sl : Nat)

def setDate (e : Event) (v : UInt64) : Res Event :=
  if v > 0x7FFFFFFFFFFFFFFF then .err .overflow else .ok { e with date := v }

def bLow : Bytes := [108, 111, 119]
def bNormal : Bytes := [110, 111, 114, 109, 97, 108]
def bInfo : Bytes := [105, 110, 102, 111]
def bError : Bytes := [101, 114, 114, 111, 114]
def bWarning : Bytes := [119, 97, 114, 110, 105, 110, 103]
def bSuccess : Bytes := [115, 117, 99, 99, 101, 115, 115]

/-- the handlers of `h: k: p: s: t:` -/
def applyData (k : UInt8) (cur : Bytes) (e : Event) : Res Event :=
  let d := cur.reverse
  if k = 104 then .ok { e with host := d }
  else if k = 107 then .ok { e with aggKey := d }
  else if k = 112 then
    if d = bLow then .ok { e with prio := .low }
    else if d = bNormal then .ok e
    else .err .attributes
  else if k = 115 then .ok { e with srcType := d }
  else -- 't'
    if d = bError then .ok { e with alert := .error }
    else if d = bWarning then .ok { e with alert := .warning }
    else if d = bSuccess then .ok { e with alert := .success }
    else if d = bInfo then .ok e
    else .err .attributes

def isDataKey (b : UInt8) : Bool := b = 104 || b = 107 || b = 112 || b = 115 || b = 116

/-- `lexEventAttributes` / `lexEventAttribute`; `e.tags` is kept reversed -/
def eattrs (g : Ghost) : EMode → Event → Bytes → Res Event
  | .sep, e, [] => .ok e
  | .start, e, [] => guard (sliceOk (g.at 0) g.len g.cap && sliceOk (g.at 0) g.len g.cap) (.ok e)
  | .colon _, _, [] => .err .format
  | .date v any, e, [] => if any then setDate e v else .err .format
  | .data k sl cur, e, [] => guard (sliceOk (g.at sl) g.len g.cap) (applyData k cur e)
  | .tag sl cur, e, [] => guard (sliceOk (g.at sl) (g.at 0) g.cap) (.ok { e with tags := pushTag cur e.tags })
  | .skip sl, e, [] => guard (sliceOk (g.at sl) g.len g.cap) (.ok e)
  | .sep, e, b :: t =>
    if b = 124 then eattrs g .start e t
    else if b = 0 then .ok e
    else .err .attributes
  | .start, e, b :: t =>
    if b = 100 || isDataKey b then eattrs g (.colon b) e t
    else if b = 35 then eattrs g (.tag t.length []) e t
    else guard (sliceOk (g.at t.length) g.len g.cap) (eattrs g (.skip t.length) e t)
  | .colon k, e, b :: t =>
    if b = 58 then
      if k = 100 then eattrs g (.date 0 false) e t
      else guard (sliceOk (g.at t.length) g.len g.cap) (eattrs g (.data k t.length []) e t)
    else .err .format
  | .date v any, e, b :: t =>
    if isDigit b then
      let n := v * 10 + (b - 48).toUInt64
      if n < v then .err .overflow else eattrs g (.date n true) e t
    else if b = 0 then (setDate e v).bind fun e' => eattrs g .sep e' t
    else if any then
      -- `l.pos--`, handler, then `lexEventAttributes` reads `b` again
      (setDate e v).bind fun e' => if b = 124 then eattrs g .start e' t else .err .attributes
    else .err .format
  | .data k sl cur, e, b :: t =>
    if b = 124 then
      guard (sliceOk (g.at sl) (g.at (t.length + 1)) g.cap) ((applyData k cur e).bind fun e' => eattrs g .start e' t)
    else eattrs g (.data k sl (b :: cur)) e t
  | .tag sl cur, e, b :: t =>
    if b = 44 then
      guard (sliceOk (g.at sl) (g.at t.length - 1) g.cap) (eattrs g (.tag t.length []) { e with tags := pushTag cur e.tags } t)
    else if b = 124 then
      guard (sliceOk (g.at sl) (g.at (t.length + 1)) g.cap) (eattrs g .start { e with tags := pushTag cur e.tags } t)
    else if b = 0 then
      guard (sliceOk (g.at sl) (g.at t.length) g.cap) (eattrs g .sep { e with tags := pushTag (0 :: cur) e.tags } t)
    else eattrs g (.tag sl (b :: cur)) e t
  | .skip sl, e, b :: t =>
    if b = 124 then guard (sliceOk (g.at sl) (g.at (t.length + 1)) g.cap) (eattrs g .start e t)
    else eattrs g (.skip sl) e t

/-- `lexDatadogSpecial` up to `lexEventBody` (bytes after the `_`): `e{<title length>,<text length>}:` -/
def eventHeader (t : Bytes) : Res (UInt32 × UInt32 × Bytes) :=
  match t with
  | [] => .err .type
  | b :: t1 =>
    if b = 101 then
      (lexAssert 123 t1).bind fun t2 =>
      (lexUint32 t2).bind fun (tl, t3) =>
      (lexAssert 44 t3).bind fun t4 =>
      (lexUint32 t4).bind fun (xl, t5) =>
      (lexAssert 125 t5).bind fun t6 =>
      (lexAssert 58 t6).bind fun t7 => .ok (tl, xl, t7)
    else .err .type

/-- the event chain: header, `lexEventBody`, `lexEventAttributes` -/
def datadog (cfg : Cfg) (g : Ghost) (input t : Bytes) : Res Event :=
  (eventHeader t).bind fun (tl, xl, t7) =>
  (eventBody cfg g input t7 tl xl).bind fun (title, text, t8) =>
  (eattrs g .sep { title := title, text := text } t8).bind fun e =>
    .ok { e with tags := e.tags.reverse }

def ofMetricRes {F : Type} [FloatLike F] (pf : Bytes → Option F) : Res (Bytes × MType × Bytes × F × List Bytes) → Outcome F
  | .ok (name, ty, value, rate, tags) => finishMetric pf name ty value rate tags
  | .err e => .reject e
  | .panic => .panic

def ofEventRes {F : Type} : Res Event → Outcome F
  | .ok e => .event e
  | .err e => .reject e
  | .panic => .panic

/-- `Lexer.Run(input, namespace)` on a slice of capacity `cap`.  (`lexSpecial` is the first match.) -/
def run {F : Type} [FloatLike F] (cfg : Cfg) (pf : Bytes → Option F) (ns : Bytes) (cap : Nat) (input : Bytes) : Outcome F :=
  let len := UInt32.ofNat input.length
  match input with
  | [] => .reject .type
  | b :: t =>
    if b = 95 then ofEventRes (datadog cfg ⟨len, cap⟩ input t)
    else if b = 0 then .reject .type
    else ofMetricRes pf (metricLine cfg pf ns cap len input)

end Gsd.Lexer
