import Gsd.Generated.Facts
import Gsd.Model.Lexer
import Gsd.Model.AList
/-!
C03 / C05 — model of `DatagramParser.handleDatagram` and of the `Receive` fold of `DatagramParser.Run`
(pkg/statsd/parser.go, metric_map.go).

* `splitLines`: the `bytes.IndexByte(msg, '\n')` loop (a last segment without newline is a line only
  when it is not empty; empty segments *between* newlines are lines, and they are bad lines);
* `handle`: per line `Lexer.run` on the line's slice (its capacity reaches to the end of the buffer),
  then source / timestamp assignment, ignore-host handling of the first `host:` tag, event source,
  bad-line counting;
* `receiveGauge` / `gaugeFold`: what `Run` does with the gauges of one datagram (defect D3: `>`);
* `keySepArr` / `lexWindowBuf` / `handleBuf`: the *array-level* model — the datagram buffer is threaded
  through, `lexKeySep` writes into it — used by the frame and independence theorems of C05.

Switch for the repaired code (defect D3): `gaugeGe` below — one line.
-/
namespace Gsd.Datagram
open Gsd.Lexer

/-- `handleDatagram`'s line loop; `cur` is the current segment, reversed -/
def splitLinesAux : Bytes → Bytes → List Bytes
  | cur, [] => if cur = [] then [] else [cur.reverse]
  | cur, b :: t => if b = 10 then cur.reverse :: splitLinesAux [] t else splitLinesAux (b :: cur) t

def splitLines (msg : Bytes) : List Bytes := splitLinesAux [] msg

/-- each line with the capacity of its slice: `cap(msg[off:off+n]) = cap(buf) - off` -/
def withCaps (bufCap : Nat) : Nat → List Bytes → List (Bytes × Nat)
  | _, [] => []
  | off, l :: ls => (l, bufCap - off) :: withCaps bufCap (off + l.length + 1) ls

/-- a metric as `handleDatagram` returns it -/
structure DMetric (F : Type) where
  m : Metric F
  source : Bytes
  ts : Int
  deriving DecidableEq, Repr

structure Config where
  ns : Bytes
  ignoreHost : Bool
  ip : Bytes
  now : Int
  deriving Repr

def hostPrefix : Bytes := [104, 111, 115, 116, 58]   -- "host:"

/-- ignore-host: `Source` becomes the value of the first `host:` tag, which is removed; `""` when absent -/
def stripHost : List Bytes → Bytes × List Bytes
  | [] => ([], [])
  | t :: ts =>
    if hostPrefix.isPrefixOf t then (t.drop 5, ts)
    else let (s, r) := stripHost ts; (s, t :: r)

def placeMetric {F : Type} (c : Config) (m : Metric F) : DMetric F :=
  if c.ignoreHost then
    let (src, tags) := stripHost m.tags
    { m := { m with tags := tags }, source := src, ts := c.now }
  else { m := m, source := c.ip, ts := c.now }

/-- what one line contributes -/
inductive Item (F : Type)
  | metric (d : DMetric F)
  | event (e : Event)        -- `host` = the sender address (`event.Source = ip`, always)
  | bad (e : Err)
  | panic
  deriving DecidableEq, Repr

def itemOf {F : Type} (c : Config) : Outcome F → Item F
  | .metric m => .metric (placeMetric c m)
  | .event e => .event { e with host := c.ip }
  | .reject e => .bad e
  | .panic => .panic

/-- one line alone -/
def lexAlone {F : Type} [FloatLike F] (cfg : Cfg) (pf : Bytes → Option F) (c : Config) (line : Bytes) (cap : Nat) : Item F :=
  itemOf c (run cfg pf c.ns cap line)

/-- `handleDatagram` on a buffer of capacity `bufCap` holding `msg` -/
def handle {F : Type} [FloatLike F] (cfg : Cfg) (pf : Bytes → Option F) (c : Config) (bufCap : Nat) (msg : Bytes) : List (Item F) :=
  (withCaps bufCap 0 (splitLines msg)).map (fun lc => lexAlone cfg pf c lc.1 lc.2)

def metricsOf {F : Type} (items : List (Item F)) : List (DMetric F) :=
  items.filterMap (fun i => match i with | .metric d => some d | _ => none)
def eventsOf {F : Type} (items : List (Item F)) : List Event :=
  items.filterMap (fun i => match i with | .event e => some e | _ => none)
def badCount {F : Type} (items : List (Item F)) : Nat :=
  (items.filter (fun i => match i with | .bad _ => true | _ => false)).length
def panicked {F : Type} (items : List (Item F)) : Bool :=
  items.any (fun i => match i with | .panic => true | _ => false)

/-! ## the gauges of one datagram (`Run`: `mm.Receive(m)` for every metric in order) -/

/-- **THE SWITCH (D3).**  `receiveGauge` compares `m.Timestamp > g.Timestamp` on the pinned tree
(`false`); the repair `>=` is `true` (`handoff/C05-fix-1.patch`). -/
def gaugeGe : Bool := (Gsd.Facts.rel_receiveGauge != ">")   -- direction read from metric_map.go on every run (`>` was defect D3, repaired by b6cfd17; "?" keeps ≥)

/-- `receiveGauge` for one key: `ge = false` is the code's `>`, `ge = true` the repaired `>=` -/
def receiveGauge {κ V : Type} [DecidableEq κ] (ge : Bool) (mm : AList κ (Int × V)) (k : κ) (ts : Int) (v : V) : AList κ (Int × V) :=
  AList.upsert k (fun old => match old with
    | none => (ts, v)
    | some (ts0, v0) => if (if ge then decide (ts ≥ ts0) else decide (ts > ts0)) then (ts, v) else (ts0, v0)) mm

def gaugeFold {κ V : Type} [DecidableEq κ] (ge : Bool) (dps : List (κ × Int × V)) : AList κ (Int × V) :=
  dps.foldl (fun mm d => receiveGauge ge mm d.1 d.2.1 d.2.2) []

/-! ## array level: the buffer is threaded through (C05) -/

/-- `append(s[0:i], s[i+1:j]...)` inside a larger buffer: bytes `[i+1, j)` move one to the left, byte
`j-1` keeps its old value, nothing else changes -/
def delAt (buf : Bytes) (i j : Nat) : Bytes :=
  buf.take i ++ ((buf.drop (i + 1)).take (j - (i + 1)) ++ buf.drop (j - 1))

/-- `lexKeySep` on the window that starts at `lo`: `pos` bytes of it are done, `n` remain -/
def keySepArr : Nat → Bytes → Nat → Nat → Bytes
  | 0, buf, _, _ => buf
  | n + 1, buf, lo, pos =>
    let b := buf[lo + pos]?.getD 0
    if b = 58 ∨ b = 0 then buf
    else match normByte b with
      | some c => keySepArr n (buf.set (lo + pos) c) lo (pos + 1)
      | none => keySepArr n (delAt buf (lo + pos) (lo + pos + n + 1)) lo pos

/-- the buffer after lexing the window `[lo, hi)`: only the metric chain writes (`lexKeySep`) -/
def lexWindowBuf (buf : Bytes) (lo hi : Nat) : Bytes :=
  match buf[lo]? with
  | none => buf
  | some b => if hi ≤ lo ∨ b = 95 ∨ b = 0 then buf else keySepArr (hi - lo) buf lo 0

def window (buf : Bytes) (lo hi : Nat) : Bytes := (buf.drop lo).take (hi - lo)

/-- index of the first `\n` at or after `off`, when there is one before `hi` -/
def findNl (buf : Bytes) (hi : Nat) : Nat → Nat → Option Nat
  | 0, _ => none
  | fuel + 1, off => if off ≥ hi then none else if buf[off]? = some 10 then some off else findNl buf hi fuel (off + 1)

/-- `handleDatagram` with the real buffer: message `buf[0:hi)`, capacity `bufCap`; every line is lexed
from the buffer *as it is at that moment*. -/
def handleBuf {F : Type} [FloatLike F] (cfg : Cfg) (pf : Bytes → Option F) (c : Config) (bufCap hi : Nat) :
    Nat → Bytes → Nat → List (Item F) × Bytes
  | 0, buf, _ => ([], buf)
  | fuel + 1, buf, off =>
    match findNl buf hi (hi - off) off with
    | none =>
      if off ≥ hi then ([], buf)
      else ([lexAlone cfg pf c (window buf off hi) (bufCap - off)], lexWindowBuf buf off hi)
    | some idx =>
      let item := lexAlone cfg pf c (window buf off idx) (bufCap - off)
      let (rest, buf') := handleBuf cfg pf c bufCap hi fuel (lexWindowBuf buf off idx) (idx + 1)
      (item :: rest, buf')

end Gsd.Datagram
