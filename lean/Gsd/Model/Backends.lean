import Gsd.Generated.Facts
/-!
C17 — model of what the bundled backends put into their payloads for one flush.

* `emit cfg s`      — the records one flushed series yields in backend `cfg.backend` (backend-level
                      name, kind, value, tags, host), following each `flush.go` / `preparePayload` /
                      `buildMetricData` / `processMetrics` line by line (names, suffixes, gating by the
                      `TimerSubtypes` disabled mask, what "tags and host" mean per backend);
* `groups`/`expand` — the records of a whole view in the backend's iteration order over the four types;
* `countBatches`, `slackBatches`, `otlpBatches`, `cwChunks`, `packBatches` — the batching loops exactly
                      as coded (influxdb, datadog/newrelic, otlp, cloudwatch, statsdaemon relay);
* `relayLine`, `eventMessage` — the relay's text rendering; `parseLine`, `parseEvent` — a small model of
                      gostatsd's own lexer on the sub-grammar the relay emits.

Numbers travel as *tokens*: `V.e` = the 16 hex digits of the float64, `V.f` = the bits of
`ParseFloat(Sprintf("%f", v))`, `V.ft` = the text `Sprintf("%f", v)` (or `%d` for integers).  The two
latter are formatter oracles supplied by the harness from the real `fmt`/`strconv`; the model never
formats a float itself.  Core-only.
-/
namespace Gsd.Backends

/-! ## views -/

inductive Kind | counter | timer | gauge | set
  deriving DecidableEq, Repr, Inhabited

/-- a number of the flushed view with its renderings (formatter oracle) -/
structure V where
  e  : String := ""
  f  : String := ""
  ft : String := ""
  deriving DecidableEq, Repr, Inhabited

structure Pct where
  name : String
  v    : V
  deriving DecidableEq, Repr, Inhabited

/-- one entry of `Timer.Histogram`: `le` = `strconv.FormatFloat(threshold,'f',-1,64)` (oracle) -/
structure Bucket where
  le    : String
  inf   : Bool
  count : V
  deriving DecidableEq, Repr, Inhabited

/-- the Go map key of a series: type, name, tagsKey -/
abbrev Key := Kind × String × String

structure Series where
  kind    : Kind
  name    : String
  tags    : List String := []
  source  : String := ""
  tagsKey : String := ""
  value   : V := {}            -- Counter.Value / Gauge.Value / len(Set.Values)
  rate    : V := {}            -- Counter.PerSecond / Timer.PerSecond
  hist    : Option (List Bucket) := none     -- Timer.Histogram (nil = none)
  count : V := {}
  min : V := {}
  max : V := {}
  mean : V := {}
  median : V := {}
  std : V := {}
  sum : V := {}
  sumSquares : V := {}
  nvals   : V := {}            -- len(Timer.Values)
  pcts    : List Pct := []
  values  : List V := []       -- Timer.Values
  members : List String := []  -- Set.Values
  deriving Repr, Inhabited

def Series.key (s : Series) : Key := (s.kind, s.name, s.tagsKey)

/-- identity of a sub-metric of a series -/
inductive Sub
  | value | count | rate
  | lower | upper | tcount | countPs | mean | median | std | sum | sumSquares
  | pct (j : Nat) | bucket (j : Nat) | bucketPs (j : Nat)
  | summary
  | tval (j : Nat) | member (j : Nat)
  deriving DecidableEq, Repr, Inhabited

/-- `gostatsd.TimerSubtypes`, the nine non-percentile flags (true = disabled).  The `…Pct` flags are
applied by the aggregator, i.e. they are already reflected in `Series.pcts`. -/
structure Mask where
  lower : Bool := false
  upper : Bool := false
  count : Bool := false
  countPs : Bool := false
  mean : Bool := false
  median : Bool := false
  std : Bool := false
  sum : Bool := false
  sumSquares : Bool := false
  deriving DecidableEq, Repr, Inhabited

def Mask.dis (m : Mask) : Sub → Bool
  | .lower => m.lower | .upper => m.upper | .tcount => m.count | .countPs => m.countPs
  | .mean => m.mean | .median => m.median | .std => m.std | .sum => m.sum | .sumSquares => m.sumSquares
  | _ => false

/-- the nine timer aggregations in the order every backend walks them -/
def timerSubs : List Sub := [.lower, .upper, .tcount, .countPs, .mean, .median, .std, .sum, .sumSquares]

structure Record where
  key   : Key
  sub   : Sub
  name  : String
  kind  : String
  value : String
  tags  : List String
  host  : String
  deriving Repr, Inhabited

inductive Backend | datadog | influxdb | graphite | newrelic | otlp | cloudwatch | statsdaemon | stdout
  deriving DecidableEq, Repr, Inhabited

inductive GMode | legacy | basic | tags deriving DecidableEq, Repr, Inhabited
inductive NRMode | infra | insights | metrics deriving DecidableEq, Repr, Inhabited

structure Cfg where
  backend : Backend
  mask    : Mask := {}
  batch   : Nat := 1000
  -- graphite
  gmode   : GMode := .tags
  gPrefix : String := "stats"
  gCounter : String := "counters"
  gTimer : String := "timers"
  gGauge : String := "gauges"
  gSet : String := "sets"
  gSuffix : String := ""
  -- newrelic
  nrMode  : NRMode := .infra
  -- otlp
  otlpHist : Bool := false
  resourceKeys : List String := []
  -- statsdaemon
  noTags  : Bool := false
  packet  : Nat := Gsd.Facts.maxUDPPacketSize
  deriving Repr, Inhabited

/-! ## small string helpers (core-only, structurally recursive) -/

def insertStr (a : String) : List String → List String
  | [] => [a]
  | b :: t => if a ≤ b then a :: b :: t else b :: insertStr a t

/-- `sort.Strings` (insertion sort; byte order = code point order on the ASCII alphabets used) -/
def sortStr : List String → List String
  | [] => []
  | a :: t => insertStr a (sortStr t)

def hasPrefix (p s : String) : Bool := p.toList.isPrefixOf s.toList

/-- `strings.SplitN(tag, ":", 2)` on characters -/
def splitColonL : List Char → Option (List Char × List Char)
  | [] => none
  | c :: t => if c = ':' then some ([], t) else
      match splitColonL t with
      | some (k, v) => some (c :: k, v)
      | none => none

def splitColon (t : String) : Option (String × String) :=
  (splitColonL t.toList).map (fun p => (String.ofList p.1, String.ofList p.2))

def imap {α β : Type} (f : Nat → α → β) : Nat → List α → List β
  | _, [] => []
  | n, a :: t => f n a :: imap f (n + 1) t

/-- `coerceToNumeric` of datadog/flush.go on value tokens: NaN → −1, ±Inf → ±MaxFloat64 -/
def coerceTok (t : String) : String :=
  if t = "7ff0000000000000" then "7fefffffffffffff"
  else if t = "fff0000000000000" then "ffefffffffffffff"
  else if (hasPrefix "7ff" t || hasPrefix "fff" t) then "bff0000000000000"
  else t

def leTag (infText : String) (b : Bucket) : String := "le:" ++ (if b.inf then infText else b.le)

/-! ## per-backend emission -/

section emit
variable (c : Cfg) (s : Series)

/-- the nine gated aggregations followed by the percentile entries, as every `flush.go` walks them -/
def plainTimer (dis : Sub → Bool) (mk : Sub → Record) (mkP : Nat → Pct → Record) : List Record :=
  (timerSubs.filter (fun x => !dis x)).map mk ++ imap mkP 0 s.pcts

def Series.tv (s : Series) : Sub → V
  | .lower => s.min | .upper => s.max | .tcount => s.count | .countPs => s.rate | .mean => s.mean
  | .median => s.median | .std => s.std | .sum => s.sum | .sumSquares => s.sumSquares
  | _ => {}

def rec0 (sub : Sub) (name kind value : String) (tags : List String) (host : String) : Record :=
  { key := s.key, sub, name, kind, value, tags := sortStr tags, host }

/-! ### datadog (datadog.go processMetrics) -/
def ddSuffix : Sub → String
  | .lower => ".lower" | .upper => ".upper" | .tcount => ".count" | .countPs => ".count_ps" | .mean => ".mean"
  | .median => ".median" | .std => ".std" | .sum => ".sum" | .sumSquares => ".sum_squares" | _ => ""

def ddEmit : List Record :=
  match s.kind with
  | .counter => [rec0 s .rate s.name "rate" (coerceTok s.rate.e) s.tags s.source,
                 rec0 s .count (s.name ++ ".count") "gauge" (coerceTok s.value.e) s.tags s.source]
  | .timer =>
    match s.hist with
    | some bs => imap (fun j b => rec0 s (.bucket j) (s.name ++ ".histogram") "count" (coerceTok b.count.e)
                        (s.tags ++ [leTag "+Inf" b]) s.source) 0 bs
    | none => plainTimer s c.mask.dis
        (fun x => rec0 s x (s.name ++ ddSuffix x) (if x = .countPs then "rate" else "gauge") (coerceTok (s.tv x).e) s.tags s.source)
        (fun j p => rec0 s (.pct j) (s.name ++ "." ++ p.name) "gauge" (coerceTok p.v.e) s.tags s.source)
  | .gauge => [rec0 s .value s.name "gauge" (coerceTok s.value.e) s.tags s.source]
  | .set => [rec0 s .value s.name "gauge" (coerceTok s.value.e) s.tags s.source]

/-! ### cloudwatch (buildMetricData) -/
def cwDim (t : String) : String := if (splitColon t).isSome then t else t ++ ":set"
/-- `extractDimensions`: at most `MAX_DIMENSIONS` = 10 -/
def cwDims (tags : List String) : List String := (tags.map cwDim).take 10
def cwSuffix : Sub → String
  | .lower => ".lower" | .upper => ".upper" | .tcount => ".count" | .countPs => ".count_ps" | .mean => ".mean"
  | .median => ".median" | .std => ".std" | .sum => ".sum" | .sumSquares => ".sum_squares" | _ => ""
def cwUnit : Sub → String
  | .tcount => "Count" | .countPs => "Count/Second" | _ => "Milliseconds"

def cwEmit : List Record :=
  match s.kind with
  | .counter => [rec0 s .count ("stats.counter." ++ s.name ++ ".count") "Count" s.value.e (cwDims s.tags) "",
                 rec0 s .rate ("stats.counter." ++ s.name ++ ".per_second") "Count/Second" s.rate.e (cwDims s.tags) ""]
  | .timer =>
    match s.hist with
    | some bs => imap (fun j b => rec0 s (.bucket j) ("stats.timers." ++ s.name ++ ".histogram") "Count" b.count.e
                        (cwDims (s.tags ++ [leTag "+Inf" b])) "") 0 bs
    | none => plainTimer s c.mask.dis
        (fun x => rec0 s x ("stats.timers." ++ s.name ++ cwSuffix x) (cwUnit x) (s.tv x).e (cwDims s.tags) "")
        (fun j p => rec0 s (.pct j) ("stats.timers." ++ s.name ++ "." ++ p.name) "Milliseconds" p.v.e (cwDims s.tags) "")
  | .gauge => [rec0 s .value ("stats.gauge." ++ s.name) "None" s.value.e (cwDims s.tags) ""]
  | .set => [rec0 s .value ("stats.set." ++ s.name) "None" s.value.e (cwDims s.tags) ""]

/-! ### influxdb (flush.go): one record per *field*; a series is one line -/
def influxField : Sub → String
  | .lower => "lower" | .upper => "upper" | .tcount => "count" | .countPs => "rate" | .mean => "mean"
  | .median => "median" | .std => "stddev" | .sum => "sum" | .sumSquares => "sum_squares" | _ => ""

def addTagValue (k v : String) : List (String × List String) → List (String × List String)
  | [] => [(k, [v])]
  | (k', vs) :: t => if k' = k then (k', vs ++ [v]) :: t else (k', vs) :: addTagValue k v t

/-- `formatNameTags`: `tag` → `unnamed:tag`, values of one key sorted and joined by `__`, keys sorted -/
def influxTags (tags : List String) : List String :=
  let groups := tags.foldl (fun acc t => match splitColon t with
    | some (k, v) => addTagValue k v acc
    | none => addTagValue "unnamed" t acc) []
  sortStr (groups.map (fun g => g.1 ++ "=" ++ "__".intercalate (sortStr g.2)))

def influxEmit : List Record :=
  let R (sub : Sub) (field value : String) : Record :=
    { key := s.key, sub, name := s.name, kind := field, value, tags := influxTags s.tags, host := "" }
  match s.kind with
  | .counter => [R .count "count" s.value.e, R .rate "rate" s.rate.e]
  | .timer =>
    match s.hist with
    | some bs => imap (fun j b => R (.bucket j) ("le." ++ (if b.inf then "+Inf" else b.le)) b.count.e) 0 bs
    | none => plainTimer s c.mask.dis (fun x => R x (influxField x) (s.tv x).e) (fun j p => R (.pct j) p.name p.v.e)
  | .gauge => [R .value "value" s.value.e]
  | .set => [R .value "count" s.value.e]

/-! ### graphite (graphite.go preparePayload / prepareName) -/

def isNameChar (ch : Char) : Bool := ch.isAlphanum || ch = '_' || ch = '.' || ch = '-'
def isSpace (ch : Char) : Bool := ch = ' ' || ch = '\t' || ch = '\n' || ch = '\r' || ch = '\x0b' || ch = '\x0c'

/-- `normalizeMetricName`: whitespace runs → `_`, `/` → `-`, everything outside `[a-zA-Z0-9_.-]` deleted -/
def normNameL : Bool → List Char → List Char
  | _, [] => []
  | inSpace, ch :: t =>
    if isSpace ch then (if inSpace then normNameL true t else '_' :: normNameL true t)
    else if ch = '/' then '-' :: normNameL false t
    else if isNameChar ch then ch :: normNameL false t
    else normNameL false t

def normName (n : String) : String := String.ofList (normNameL false n.toList)

def combine (a b : String) : String := if a ≠ "" ∧ b ≠ "" then a ++ "." ++ b else if a ≠ "" then a else b

def gNs (k : Kind) : String :=
  match c.gmode with
  | .legacy => (match k with | .counter => "stats" | .timer => "stats.timers" | .gauge => "stats.gauges" | .set => "stats.sets")
  | _ => (match k with
    | .counter => combine c.gPrefix c.gCounter | .timer => combine c.gPrefix c.gTimer
    | .gauge => combine c.gPrefix c.gGauge | .set => combine c.gPrefix c.gSet)

/-- `asGraphiteTag` -/
def gTag (t : String) : String :=
  match splitColon t with
  | some (k, v) => k ++ "=" ++ v
  | none => "unnamed=" ++ t

def gPath (ns suffix : String) : String :=
  (if ns ≠ "" then ns ++ "." else "") ++ normName s.name ++ (if suffix ≠ "" then "." ++ suffix else "") ++
  (if c.gSuffix ≠ "" then "." ++ c.gSuffix else "")

def gTags (tags : List String) : List String :=
  if c.gmode = .tags then
    tags.map gTag ++ (if !(tags.any (hasPrefix "host:")) && s.source ≠ "" then ["host=" ++ s.source] else [])
  else []

def gSuffixOf : Sub → String
  | .lower => "lower" | .upper => "upper" | .tcount => "count" | .countPs => "count_ps" | .mean => "mean"
  | .median => "median" | .std => "std" | .sum => "sum" | .sumSquares => "sum_squares" | _ => ""

def graphiteEmit : List Record :=
  let R (sub : Sub) (ns suffix value : String) (tags : List String) : Record :=
    { key := s.key, sub, name := gPath c s ns suffix, kind := "", value, tags := sortStr (gTags c s tags), host := "" }
  match s.kind with
  | .counter =>
    if c.gmode = .legacy then [R .count "stats_counts" "" s.value.e s.tags, R .rate (gNs c .counter) "" s.rate.f s.tags]
    else [R .count (gNs c .counter) "count" s.value.e s.tags, R .rate (gNs c .counter) "rate" s.rate.f s.tags]
  | .timer =>
    match s.hist with
    | some bs => imap (fun j b => R (.bucket j) (gNs c .counter) "histogram" b.count.e (s.tags ++ [leTag "+Inf" b])) 0 bs
    | none => plainTimer s c.mask.dis (fun x => R x (gNs c .timer) (gSuffixOf x) (s.tv x).f s.tags)
                (fun j p => R (.pct j) (gNs c .timer) p.name p.v.f s.tags)
  | .gauge => [R .value (gNs c .gauge) "" s.value.f s.tags]
  | .set => [R .value (gNs c .set) "" s.value.e s.tags]

/-! ### stdout (stdout.go preparePayload) -/
def splitCommaL : List Char → List Char → List (List Char)
  | cur, [] => [cur.reverse]
  | cur, ch :: t => if ch = ',' then cur.reverse :: splitCommaL [] t else splitCommaL (ch :: cur) t

/-- `strings.Split(s, ",")` -/
def splitComma (t : String) : List String := (splitCommaL [] t.toList).map String.ofList

def colonToDot (t : String) : String := String.ofList (t.toList.map (fun ch => if ch = ':' then '.' else ch))

/-- `composeMetricName` -/
def stdoutName : String :=
  (splitComma s.tagsKey).foldl (fun k t => if t ≠ "" then k ++ "." ++ colonToDot t else k) s.name

def stdoutEmit : List Record :=
  let nk := stdoutName s
  let R (sub : Sub) (name value : String) : Record :=
    { key := s.key, sub, name, kind := "", value, tags := [], host := "" }
  match s.kind with
  | .counter => [R .count ("stats.counter." ++ nk ++ ".count") s.value.e, R .rate ("stats.counter." ++ nk ++ ".per_second") s.rate.f]
  | .timer =>
    match s.hist with
    | some bs => imap (fun j b => R (.bucket j) ("stats.timers." ++ nk ++ ".histogram." ++ leTag "+Inf" b) b.count.e) 0 bs
    | none => plainTimer s c.mask.dis (fun x => R x ("stats.timers." ++ nk ++ "." ++ gSuffixOf x) (s.tv x).f)
                (fun j p => R (.pct j) ("stats.timers." ++ nk ++ "." ++ p.name) p.v.f)
  | .gauge => [R .value ("stats.gauge." ++ nk) s.value.f]
  | .set => [R .value ("stats.set." ++ nk) s.value.e]

/-! ### newrelic (flush.go addMetric / addTimerMetric; field names as in the repository's tests) -/
/-- `maybeAddSource` -/
def nrTags (tags : List String) : List String :=
  if s.source = "" then tags
  else if tags.any (hasPrefix "statsdSource:") then tags
  else tags ++ ["statsdSource:" ++ s.source]

/-- `setTags` for tags with distinct, non-numeric, non-reserved keys (generator restriction) -/
def nrAttr (t : String) : String := if (splitColon t).isSome then t else t ++ ":true"

def nrField : Sub → String
  | .lower => "samples_min" | .upper => "samples_max" | .tcount => "samples_count" | .countPs => "metric_per_second"
  | .mean => "samples_mean" | .median => "samples_median" | .std => "samples_std_dev" | .sum => "samples_sum"
  | .sumSquares => "samples_sum_squares" | _ => ""

def nrMetricSuffix : Sub → String
  | .countPs => ".per_second" | .mean => ".mean" | .median => ".median" | .std => ".std_dev" | .sumSquares => ".sum_squares"
  | _ => ""

/-- the four statistics that live inside the `summary` metric of the Metric API: never gated -/
def nrInSummary (x : Sub) : Bool := x = .lower || x = .upper || x = .tcount || x = .sum
def nrSummaryField : Sub → String
  | .lower => "min" | .upper => "max" | .tcount => "count" | .sum => "sum" | _ => ""

/-- `pct.Str[:lastUnderscore]` and whether `pct.Str[lastUnderscore+1:]` parses as a float are supplied
by the harness: percentile names of the aggregator are `<agg>_<int>`; `dropLastUnderscore` cuts there. -/
def dropLastUnderscoreL : List Char → Option (List Char)
  | [] => none
  | ch :: t => match dropLastUnderscoreL t with
    | some r => some (ch :: r)
    | none => if ch = '_' then some [] else none

def pctBase (n : String) : String := match dropLastUnderscoreL n.toList with
  | some r => String.ofList r
  | none => n

/-- marker for "the payload carries no value for this sub-metric" -/
def noValue : String := "<none>"

/-- `false`: the pinned tree (a set of the Metric API carries neither type nor value).  Switch to `true`
when `handoff/C17-fix-1.patch` is applied — this is the one line to change. -/
def nrSetHasValue : Bool := false

def nrEmit : List Record :=
  let zero := "0000000000000000"
  let R (sub : Sub) (name kind value : String) (tags : List String) : Record :=
    { key := s.key, sub, name, kind, value, tags := sortStr ((nrTags s tags).map nrAttr), host := "" }
  match c.nrMode with
  | .metrics =>
    (match s.kind with
    | .gauge => [R .value s.name "gauge/gauge" s.value.e s.tags]
    | .counter => [R .rate (s.name ++ ".per_second") "gauge/gauge" s.rate.e s.tags, R .count s.name "count/counter" s.value.e s.tags]
    | .set =>  -- `newDimensionalMetricSet` has no case for "set": no type, no value (finding newrelic-metrics-set-without-value)
      [if nrSetHasValue then R .value s.name "gauge/set" s.value.e s.tags else R .value s.name "/set" noValue s.tags]
    | .timer =>
      match s.hist with
      | some bs => (imap (fun j b => [R (.bucketPs j) (s.name ++ ".histogram.per_second") "gauge/gauge" zero (s.tags ++ [leTag "infinity" b]),
                                      R (.bucket j) (s.name ++ ".histogram") "count/counter" b.count.e (s.tags ++ [leTag "infinity" b])]) 0 bs).flatten
      | none =>
        plainTimer s (fun x => if nrInSummary x then false else c.mask.dis x)
          (fun x => if nrInSummary x then R x (s.name ++ ".summary") ("summary/timer/" ++ nrSummaryField x) (s.tv x).e s.tags
                    else R x (s.name ++ nrMetricSuffix x) "gauge/gauge" (s.tv x).e s.tags)
          (fun j p => R (.pct j) (s.name ++ "." ++ pctBase p.name ++ ".percentiles") "gauge/gauge" p.v.e s.tags))
  | _ =>
    (match s.kind with
    | .gauge => [R .value s.name "gauge/metric_value" s.value.e s.tags]
    | .counter => [R .count s.name "counter/metric_value" s.value.e s.tags, R .rate s.name "counter/metric_per_second" s.rate.e s.tags]
    | .set => [R .value s.name "set/metric_value" s.value.e s.tags]
    | .timer =>
      match s.hist with
      | some bs => (imap (fun j b => [R (.bucket j) (s.name ++ ".histogram") "counter/metric_value" b.count.e (s.tags ++ [leTag "infinity" b]),
                                      R (.bucketPs j) (s.name ++ ".histogram") "counter/metric_per_second" zero (s.tags ++ [leTag "infinity" b])]) 0 bs).flatten
      | none =>
        R .summary s.name "timer/metric_value" s.count.e s.tags ::
        plainTimer s c.mask.dis (fun x => R x s.name ("timer/" ++ nrField x) (s.tv x).e s.tags)
          (fun j p => R (.pct j) s.name ("timer/" ++ p.name) p.v.e s.tags))

/-! ### otlp (backend.go SendMetricsAsync) -/
def otlpAttr (t : String) : String := if (splitColon t).isSome then t else t ++ ":"

def tagKeyIs (k : String) (t : String) : Bool := hasPrefix (k ++ ":") t

/-- `Tags.Exists("host")` then `Concat(host:source)` -/
def otlpTags : List String :=
  if !(s.tags.any (tagKeyIs "host")) && s.source ≠ "" then s.tags ++ ["host:" ++ s.source] else s.tags

def otlpEmit : List Record :=
  let all := otlpTags s
  let isRes (t : String) : Bool := c.resourceKeys.any (fun k => tagKeyIs k t)
  let res := ",".intercalate (sortStr ((all.filter isRes).map otlpAttr))
  let attrs := (all.filter (fun t => !isRes t)).map otlpAttr
  let R (sub : Sub) (name kind value : String) (tags : List String) : Record :=
    { key := s.key, sub, name, kind, value, tags := sortStr tags, host := res }
  match s.kind with
  | .counter => [R .rate s.name "gauge" s.rate.e attrs, R .count (s.name ++ ".count") "sum" s.value.e attrs]
  | .gauge => [R .value s.name "gauge" s.value.e attrs]
  | .set => [R .value s.name "gauge" s.value.e attrs]
  | .timer =>
    if c.otlpHist then [R .summary s.name "histogram" s.nvals.e attrs]
    else match s.hist with
      | some bs => imap (fun j b => R (.bucket j) (s.name ++ ".histogram") "gauge" b.count.e (attrs ++ [leTag "+Inf" b])) 0 bs
      | none => plainTimer s c.mask.dis (fun x => R x (s.name ++ "." ++ gSuffixOf x) "gauge" (s.tv x).e attrs)
                  (fun j p => R (.pct j) (s.name ++ "." ++ p.name) "gauge" p.v.e attrs)

/-! ### statsdaemon relay (processMetrics): one record per emitted line, as gostatsd's lexer reads it -/
/-- the lexer's tag list for `|#tagsKey`: split on `,`, empty pieces dropped (`appendTag`) -/
def relayTags : List String :=
  if s.tagsKey = "" || c.noTags then [] else (splitComma s.tagsKey).filter (· ≠ "")

def relayEmit : List Record :=
  let R (sub : Sub) (kind value : String) : Record :=
    { key := s.key, sub, name := s.name, kind, value, tags := sortStr (relayTags c s), host := "" }
  match s.kind with
  | .counter => if hasPrefix "statsd." s.name then [] else [R .count "c" s.value.e]
  | .timer => imap (fun j v => R (.tval j) "ms" v.f) 0 s.values
  | .gauge => [R .value "g" s.value.f]
  | .set => imap (fun j m => R (.member j) "s" m) 0 s.members

def emit : List Record :=
  match c.backend with
  | .datadog => ddEmit c s
  | .influxdb => influxEmit c s
  | .graphite => graphiteEmit c s
  | .newrelic => nrEmit c s
  | .otlp => otlpEmit c s
  | .cloudwatch => cwEmit c s
  | .statsdaemon => relayEmit c s
  | .stdout => stdoutEmit c s

end emit

/-- the order in which a backend walks the four typed maps -/
def order : Backend → List Kind
  | .newrelic => [.gauge, .counter, .set, .timer]
  | .otlp => [.counter, .gauge, .set, .timer]
  | _ => [.counter, .timer, .gauge, .set]

/-- the records of a view, one group per series, in the backend's iteration order
(the order *within* one typed map is Go's map order: the view's order stands for it) -/
def groups (c : Cfg) (view : List Series) : List (List Record) :=
  (order c.backend).flatMap (fun k => (view.filter (fun s => s.kind = k)).map (emit c))

def expand (c : Cfg) (view : List Series) : List Record := (groups c view).flatten

/-- how many entries one series appends to the open batch (`ts.Series`, `ts.Metrics`, lines, metrics, data):
the unit the batching loops count.  For most backends that is the number of records; influxdb counts
lines (a series is one line unless it has no field at all), newrelic counts JSON objects (an
`infra`/`insights` object carries all fields of a series; the Metric API `summary` carries four). -/
def unitsOf (c : Cfg) (s : Series) : Nat :=
  match c.backend with
  | .influxdb => if (emit c s).isEmpty then 0 else 1
  | .newrelic =>
    (match c.nrMode with
     | .metrics => (match s.kind, s.hist with
        | .timer, none => (emit c s).length - 3
        | _, _ => (emit c s).length)
     | _ => (match s.kind, s.hist with
        | .timer, some bs => bs.length
        | _, _ => 1))
  | _ => (emit c s).length

/-- the batch units of a view, one group per series, in the backend's iteration order -/
def unitGroups (c : Cfg) (view : List Series) : List (List Unit) :=
  (order c.backend).flatMap (fun k => (view.filter (fun s => s.kind = k)).map (fun s => List.replicate (unitsOf c s) ()))


/-- what the property calls "each enabled sub-metric" for the backends that share the statsd naming scheme
(datadog, influxdb fields, graphite, cloudwatch, stdout, otlp as gauges) -/
def enabledStd (m : Mask) (s : Series) (x : Sub) : Bool :=
  match s.kind with
  | .counter => x = .count || x = .rate
  | .gauge => x = .value
  | .set => x = .value
  | .timer =>
    match s.hist with
    | some bs => (match x with | .bucket j => decide (j < bs.length) | _ => false)
    | none => (timerSubs.contains x && !m.dis x) || (match x with | .pct j => decide (j < s.pcts.length) | _ => false)

/-- … and for the relay: every counter not named `statsd.*`, every gauge, every timer value, every set member -/
def enabledRelay (s : Series) (x : Sub) : Bool :=
  match s.kind with
  | .counter => x = .count && !hasPrefix "statsd." s.name
  | .gauge => x = .value
  | .timer => (match x with | .tval j => decide (j < s.values.length) | _ => false)
  | .set => (match x with | .member j => decide (j < s.members.length) | _ => false)

/-- … for New Relic (`nrEmit`), all three flush types.  Counters, gauges and sets as in the statsd family.  A
histogram timer yields, per bucket, the bucket count *and* its per-second companion.  A plain timer:
* flush type `metrics` (Metric API): the nine aggregations gated by the mask, **except** that the four
  statistics that live inside the `summary` metric (`nrInSummary`: lower, upper, count, sum) are sent whether or
  not they are masked; plus the percentiles;
* flush types `infra` / `insights` (one event per series): the event's own `metric_value` (`.summary`), the nine
  aggregations gated by the mask, and the percentiles. -/
def enabledNr (c : Cfg) (s : Series) (x : Sub) : Bool :=
  match s.kind with
  | .counter => x = .count || x = .rate
  | .gauge => x = .value
  | .set => x = .value
  | .timer =>
    match s.hist with
    | some bs => (match x with | .bucket j => decide (j < bs.length) | .bucketPs j => decide (j < bs.length) | _ => false)
    | none =>
      (match c.nrMode with
       | .metrics => timerSubs.contains x && (nrInSummary x || !c.mask.dis x)
       | _ => x = .summary || (timerSubs.contains x && !c.mask.dis x)) ||
      (match x with | .pct j => decide (j < s.pcts.length) | _ => false)

/-- … for otlp with `otlpHist = true` (timers as one OTLP histogram data point): a timer is exactly its
`.summary` record, with or without `Timer.Histogram`; the mask plays no role; the rest as in the statsd family -/
def enabledOtlpHist (s : Series) (x : Sub) : Bool :=
  match s.kind with
  | .counter => x = .count || x = .rate
  | .gauge => x = .value
  | .set => x = .value
  | .timer => x = .summary

/-- otlp, both conversions of timers -/
def enabledOtlp (c : Cfg) (s : Series) (x : Sub) : Bool :=
  if c.otlpHist then enabledOtlpHist s x else enabledStd c.mask s x

/-! ## batching, exactly as coded -/

section batching
variable {α : Type}

/-- influxdb `flush`: `metricCount++; if metricCount >= metricsPerBatch {flush()}`; `finish`: flush when
`metricCount > 0`.  `cur` is the open batch. -/
def countBatches (n : Nat) : List α → List α → List (List α)
  | [], cur => if cur.length > 0 then [cur] else []
  | x :: xs, cur =>
    if (cur ++ [x]).length ≥ n then (cur ++ [x]) :: countBatches n xs [] else countBatches n xs (cur ++ [x])

/-- datadog / newrelic: after all records of one series (`g`) are appended, `maybeFlush`:
`if len(series)+20 >= metricsPerBatch {cb; new}`; `finish`: `if len > 0 {cb}` -/
def slackBatches (slack n : Nat) : List (List α) → List α → List (List α)
  | [], cur => if cur.length > 0 then [cur] else []
  | g :: gs, cur =>
    if (cur ++ g).length + slack ≥ n then (cur ++ g) :: slackBatches slack n gs [] else slackBatches slack n gs (cur ++ g)

/-- the slack constant in `maybeFlush` of datadog/flush.go and newrelic/flush.go -/
def flushSlack : Nat := if Facts.datadogFlushSlack = 0 then 20 else Facts.datadogFlushSlack   -- read from datadog/flush.go on every run (0 = the extractor found no constant: built-in value; newrelic: `Facts.newrelicFlushSlack`)

/-- the same constant in newrelic/flush.go (read separately: the two backends need not agree) -/
def nrFlushSlack : Nat := if Facts.newrelicFlushSlack = 0 then 20 else Facts.newrelicFlushSlack

/-- otlp `groups.insert`: append to the last group, `if lenMetrics() >= batchSize {append a new group}`;
every group, including a trailing empty one, is posted -/
def otlpBatches (n : Nat) : List α → List α → List (List α)
  | [], cur => [cur]
  | x :: xs, cur =>
    if (cur ++ [x]).length ≥ n then (cur ++ [x]) :: otlpBatches n xs [] else otlpBatches n xs (cur ++ [x])

/-- the CloudWatch limit in `SendMetricsAsync` (`end := start + 20`) -/
def cwLimit : Nat := if Facts.cloudwatchChunk = 0 then 20 else Facts.cloudwatchChunk   -- read from cloudwatch.go on every run (0 = not found: built-in value)

/-- cloudwatch `for start < length { end := min(start+20, length); data := metricData[start:end]; … }`
(`fuel` only makes the recursion structural; `cwChunks` supplies enough) -/
def cwGo (k : Nat) : Nat → List α → List (List α)
  | 0, _ => []
  | fuel + 1, l => if l.length < 1 then [] else l.take k :: cwGo k fuel (l.drop k)

def cwChunks (l : List α) : List (List α) := cwGo cwLimit l.length l

def totalLen (len : α → Nat) (l : List α) : Nat := (l.map len).sum

/-- statsdaemon `writeLine`: `if buf.Len()+line.Len() > packetSize {handler(buf); buf = new}; buf.Write(line)`;
at the end `if buf.Len() > 0 {handler(buf)}` -/
def packBatches (len : α → Nat) (P : Nat) : List α → List α → List (List α)
  | [], cur => if totalLen len cur > 0 then [cur] else []
  | x :: xs, cur =>
    if totalLen len cur + len x > P then cur :: packBatches len P xs [x] else packBatches len P xs (cur ++ [x])

end batching

/-! ## relay text -/

abbrev Line := List Char

/-- `writeLine(format, name, tags, value)` with `format` = `%s:<v>|<ty>`, without the final newline -/
def relayBody (noTags : Bool) (name value ty tagsKey : Line) : Line :=
  name ++ ':' :: (value ++ '|' :: (ty ++ (if tagsKey = [] || noTags then [] else '|' :: '#' :: tagsKey)))

def relayLine (noTags : Bool) (name value ty tagsKey : Line) : Line :=
  relayBody noTags name value ty tagsKey ++ ['\n']

/-- the lines of one series, in the order `processMetrics` writes them -/
def relayLines (c : Cfg) (s : Series) : List Line :=
  let L (v : String) (ty : String) := relayLine c.noTags s.name.toList v.toList ty.toList s.tagsKey.toList
  match s.kind with
  | .counter => if hasPrefix "statsd." s.name then [] else [L s.value.ft "c"]
  | .timer => s.values.map (fun v => L v.ft "ms")
  | .gauge => [L s.value.ft "g"]
  | .set => s.members.map (fun m => L m "s")

def relayAll (c : Cfg) (view : List Series) : List Line :=
  (order .statsdaemon).flatMap (fun k => (view.filter (fun s => s.kind = k)).flatMap (relayLines c))

/-- the datagrams of one flush -/
def relayDatagrams (c : Cfg) (view : List Series) : List (List Line) :=
  packBatches List.length c.packet (relayAll c view) []

/-! ### a model of gostatsd's lexer on the sub-grammar `name:value|type[|@rate][|#tags]` -/

inductive MType | c | g | ms | s deriving DecidableEq, Repr, Inhabited

structure Parsed where
  name  : Line
  value : Line
  ty    : MType
  tags  : List Line
  rate  : Option Line := none
  deriving DecidableEq, Repr, Inhabited

/-- `lexKeySep`: up to the first `:`; `/` → `-`, blank/tab → `_`, other characters outside the name alphabet dropped -/
def lexName : Line → Option (Line × Line)
  | [] => none            -- errMissingKeySep
  | ch :: t =>
    if ch = ':' then some ([], t) else
      match lexName t with
      | none => none
      | some (n, rest) =>
        if ch = '/' then some ('-' :: n, rest)
        else if ch = ' ' || ch = '\t' then some ('_' :: n, rest)
        else if isNameChar ch then some (ch :: n, rest)
        else some (n, rest)

/-- up to the first `stop` (not consumed); `none` rest = end of input -/
def untilCh (stop : Char) : Line → Line × Option Line
  | [] => ([], none)
  | ch :: t => if ch = stop then ([], some t) else let r := untilCh stop t; (ch :: r.1, r.2)

/-- `seekDelimited(l, '|', ',')` loop with `appendTag` (empty pieces dropped): tags up to `|` or the end -/
def lexTags : Line → Line → List Line × Option Line
  | cur, [] => ((if cur = [] then [] else [cur.reverse]), none)
  | cur, ch :: t =>
    if ch = ',' then let r := lexTags [] t; ((if cur = [] then r.1 else cur.reverse :: r.1), r.2)
    else if ch = '|' then ((if cur = [] then [] else [cur.reverse]), some t)
    else lexTags (ch :: cur) t

/-- `lexMetricAttributes` / `lexMetricAttribute`: sections after the type, each introduced by `|`.
`fuel` bounds the number of sections (a line has at most `length` of them). -/
def lexAttrs : Nat → Line → Parsed → Option Parsed
  | 0, _, _ => none
  | fuel + 1, l, p =>
    match l with
    | [] => some p
    | '@' :: t => let r := untilCh '|' t
                  (match r.2 with
                   | none => some { p with rate := some r.1 }
                   | some rest => lexAttrs fuel rest { p with rate := some r.1 })
    | '#' :: t => let r := lexTags [] t
                  (match r.2 with
                   | none => some { p with tags := p.tags ++ r.1 }
                   | some rest => lexAttrs fuel rest { p with tags := p.tags ++ r.1 })
    | _ :: t => let r := untilCh '|' t
                (match r.2 with
                 | none => some p
                 | some rest => lexAttrs fuel rest p)

/-- `lexType` + `lexMetricAttributes` -/
def lexTypeAttrs (name value : Line) : Line → Option Parsed
  | 'c' :: rest => after name value .c rest
  | 'g' :: rest => after name value .g rest
  | 'm' :: 's' :: rest => after name value .ms rest
  | 'h' :: rest => after name value .ms rest
  | 's' :: rest => after name value .s rest
  | _ => none
where
  after (name value : Line) (ty : MType) : Line → Option Parsed
    | [] => some { name, value, ty, tags := [] }
    | '|' :: t => lexAttrs (t.length + 1) t { name, value, ty, tags := [] }
    | _ => none

/-- one line (without its `\n`), as `Lexer.Run` reads it; the numeric conversion of `value` is left to the
caller (`strconv.ParseFloat` is a parameter of the round-trip theorem) -/
def parseLine (l : Line) : Option Parsed :=
  match lexName l with
  | none => none
  | some (name, rest) =>
    if name = [] then none else
      match untilCh '|' rest with
      | (_, none) => none
      | (value, some r) => lexTypeAttrs name value r

/-- `FormatTagsKey(source, tags)` on already sorted tags: `strings.Join(tags, ",")` plus `,s:<source>` -/
def joinCommaL : List Line → Line
  | [] => []
  | [a] => a
  | a :: b :: t => a ++ ',' :: joinCommaL (b :: t)

def tagsKeyOf (tags : List Line) (source : Line) : Line :=
  if source = [] then joinCommaL tags else joinCommaL tags ++ ',' :: 's' :: ':' :: source

/-! ### events (`constructEventMessage`, `lexEventBody`, `lexEventAttribute`) -/

structure Event where
  title : Line
  text  : Line
  date  : Nat := 0
  host  : Line := []
  aggKey : Line := []
  srcType : Line := []
  pri   : Nat := 0        -- 0 normal, 1 low
  alert : Nat := 0        -- 0 info, 1 warning, 2 error, 3 success
  tags  : List Line := []
  deriving DecidableEq, Repr, Inhabited

/-- `strings.Replace(text, "\n", "\\n", -1)` -/
def escNL : Line → Line
  | [] => []
  | ch :: t => if ch = '\n' then '\\' :: 'n' :: escNL t else ch :: escNL t

/-- `bytes.Replace(text, "\\n", "\n", -1)` -/
def unescNL : Line → Line
  | [] => []
  | [ch] => [ch]
  | a :: b :: t => if a = '\\' ∧ b = 'n' then '\n' :: unescNL t else a :: unescNL (b :: t)

def priText : Nat → Line | 1 => "low".toList | _ => "normal".toList
def alertText : Nat → Line | 1 => "warning".toList | 2 => "error".toList | 3 => "success".toList | _ => "info".toList

/-- the optional sections of `constructEventMessage`, in the order it writes them (each is preceded by `|`) -/
def eventFields (dec : Nat → Line) (e : Event) : List Line :=
  (if e.date ≠ 0 then ['d' :: ':' :: dec e.date] else []) ++
  (if e.host ≠ [] then ['h' :: ':' :: e.host] else []) ++
  (if e.aggKey ≠ [] then ['k' :: ':' :: e.aggKey] else []) ++
  (if e.srcType ≠ [] then ['s' :: ':' :: e.srcType] else []) ++
  (if e.pri ≠ 0 then ['p' :: ':' :: priText e.pri] else []) ++
  (if e.alert ≠ 0 then ['t' :: ':' :: alertText e.alert] else []) ++
  (if e.tags ≠ [] then ['#' :: joinCommaL e.tags] else [])

/-- `constructEventMessage`; `dec` = `strconv.Itoa` / `FormatInt` (formatter parameter) -/
def eventMessage (dec : Nat → Line) (e : Event) : Line :=
  '_' :: 'e' :: '{' :: (dec e.title.length ++ ',' :: (dec (escNL e.text).length ++ '}' :: ':' :: (e.title ++ '|' :: (escNL e.text ++
    (eventFields dec e).flatMap (fun f => '|' :: f)))))

/-! #### the lexer's event grammar (`lexDatadogSpecial`, `lexEventBody`, `lexEventAttributes`) -/

def digitsVal : Line → Nat → Nat
  | [], acc => acc
  | ch :: t, acc => digitsVal t (acc * 10 + (ch.toNat - '0'.toNat))

/-- the maximal run of decimal digits, and the rest -/
def spanDigits : Line → Line × Line
  | [] => ([], [])
  | ch :: t => if ch.isDigit then let r := spanDigits t; (ch :: r.1, r.2) else ([], ch :: t)

/-- `lexUint` (overflow checks are C03's business and not modelled) -/
def lexNat (l : Line) : Option (Nat × Line) :=
  let r := spanDigits l
  if r.1 = [] then none else some (digitsVal r.1 0, r.2)

/-- the sections between `|`: every attribute reader stops at the next `|` -/
def splitBar : Line → Line → List Line
  | cur, [] => [cur.reverse]
  | cur, ch :: t => if ch = '|' then cur.reverse :: splitBar [] t else splitBar (ch :: cur) t

/-- `lexEventAttribute` on one section; the flag says that the previous section was empty, in which case
the lexer has taken this section's `|` for the attribute letter and skips the section -/
def evField (st : Event × Bool) (fld : Line) : Option (Event × Bool) :=
  if st.2 then some (st.1, false) else
  match fld with
  | [] => some (st.1, true)
  | 'd' :: ':' :: ds => if ds ≠ [] ∧ ds.all Char.isDigit then some ({ st.1 with date := digitsVal ds 0 }, false) else none
  | 'd' :: _ => none
  | 'h' :: ':' :: v => some ({ st.1 with host := v }, false)
  | 'h' :: _ => none
  | 'k' :: ':' :: v => some ({ st.1 with aggKey := v }, false)
  | 'k' :: _ => none
  | 's' :: ':' :: v => some ({ st.1 with srcType := v }, false)
  | 's' :: _ => none
  | 'p' :: ':' :: v =>
    if v = "low".toList then some ({ st.1 with pri := 1 }, false)
    else if v = "normal".toList then some (st.1, false) else none
  | 'p' :: _ => none
  | 't' :: ':' :: v =>
    if v = "error".toList then some ({ st.1 with alert := 2 }, false)
    else if v = "warning".toList then some ({ st.1 with alert := 1 }, false)
    else if v = "success".toList then some ({ st.1 with alert := 3 }, false)
    else if v = "info".toList then some (st.1, false) else none
  | 't' :: _ => none
  | '#' :: ts => some ({ st.1 with tags := st.1.tags ++ (lexTags [] ts).1 }, false)
  | _ :: _ => some (st.1, false)

def evFields : List Line → Event × Bool → Option (Event × Bool)
  | [], st => some st
  | f :: fs, st => match evField st f with
    | some st' => evFields fs st'
    | none => none

/-- an event line as `Lexer.Run` reads it -/
def parseEvent (l : Line) : Option Event :=
  match l with
  | '_' :: 'e' :: '{' :: r1 =>
    match lexNat r1 with
    | some (tl, ',' :: r2) =>
      match lexNat r2 with
      | some (xl, '}' :: ':' :: r3) =>
        if r3.length < tl + 1 + xl then none            -- errNotEnoughData
        else if (r3.drop tl).head? ≠ some '|' then none -- errInvalidFormat
        else
          let e0 : Event := { title := r3.take tl, text := unescNL ((r3.drop (tl + 1)).take xl) }
          match r3.drop (tl + 1 + xl) with
          | [] => some e0
          | '|' :: r => (evFields (splitBar [] r) (e0, false)).map (·.1)
          | _ => none                                   -- errInvalidAttributes
      | _ => none
    | _ => none
  | _ => none

end Gsd.Backends
