import Gsd.Generated.Facts
import Gsd.Model.AList
import Gsd.Model.Bytes
/-!
C08 / C04 — model of `MetricAggregator.Flush` / `Reset` (pkg/statsd/aggregator.go), of
`latencyHistogram` / `emptyHistogram` / `retrieveThresholds` (pkg/statsd/latency_histogram.go) and of
`MetricMap.MergeTimer` (metric_map.go), generic in the number type.

* `Num α` is the arithmetic the code uses.  The driver instantiates it with `Float` (same IEEE
  operations in the same order as the Go code ⇒ bit-exact comparison), `Proofs/` with any ordered
  field with floor (`sqrt` an arbitrary function).
* Every index expression of `Flush` is a *checked* index (`idx`) whose failure is the outcome
  `Res.panic site`; C04 is the statement that no such outcome is reachable.
* `Switch.d4Fixed` selects the code that exists (`false`: `cumulativeValues[n-numInThreshold-1]`
  with index −1 when the rank equals `n`, defect D4) or the repaired code (`true`).

Core-only (no Mathlib): the `gsdmodel` executable links this file.
-/
namespace Gsd


/-- The arithmetic used by `Flush`.  `toInt` is Go's `int(x)` (truncation towards zero). -/
class Num (α : Type) where
  add : α → α → α
  sub : α → α → α
  mul : α → α → α
  div : α → α → α
  ofNat : Nat → α
  ofInt : Int → α
  lt : α → α → Bool
  le : α → α → Bool
  beq : α → α → Bool
  floor : α → α
  toInt : α → Int
  sqrt : α → α
  abs : α → α
  isNaN : α → Bool
  /-- `math.IsInf(x, 1)` -/
  isPosInf : α → Bool

/-- where a run-time panic would be raised -/
inductive Site
  | valuesMin | valuesMax | valuesUpper | valuesLower
  | cumulUpper | cumulSqUpper | cumulTotal | cumulSqTotal | cumulLower | cumulSqLower
  | median
  | influxHistBuf | influxBaseBuf | otlpValuesFirst | otlpValuesLast | otlpMakeBounds | otlpBoundsIdx
  | newrelicPctName
  deriving DecidableEq, Repr

/-- outcome of a computation that may panic -/
inductive Res (β : Type) where
  | ok (v : β)
  | panic (s : Site)
  deriving Repr

namespace Res
def bind {β γ : Type} : Res β → (β → Res γ) → Res γ
  | ok v, f => f v
  | panic s, _ => panic s
instance : Monad Res where
  pure := ok
  bind := bind
@[simp] theorem bind_ok {β γ : Type} (v : β) (f : β → Res γ) : (ok v >>= f) = f v := rfl
@[simp] theorem bind_panic {β γ : Type} (s : Site) (f : β → Res γ) : (panic s >>= f) = panic s := rfl
@[simp] theorem pure_eq {β : Type} (v : β) : (pure v : Res β) = ok v := rfl
def isPanic {β : Type} : Res β → Bool
  | ok _ => false
  | panic _ => true
def isOk {β : Type} : Res β → Bool
  | ok _ => true
  | panic _ => false
def map {β γ : Type} (f : β → γ) : Res β → Res γ
  | ok v => ok (f v)
  | panic s => panic s
end Res

/-- `l[i]` with Go's bounds check (`i` may be negative) -/
def idx {β : Type} (s : Site) (l : List β) (i : Int) : Res β :=
  if i < 0 then .panic s else
  match l[i.toNat]? with
  | some v => .ok v
  | none => .panic s

/-! ## configuration -/

/-- `gostatsd.TimerSubtypes`: `true` = disabled.  The aggregator looks at the six `…Pct` flags only;
the others are consumed by the backends. -/
structure Mask where
  lower : Bool := false
  lowerPct : Bool := false
  upper : Bool := false
  upperPct : Bool := false
  count : Bool := false
  countPct : Bool := false
  countPerSecond : Bool := false
  mean : Bool := false
  meanPct : Bool := false
  median : Bool := false
  stdDev : Bool := false
  sum : Bool := false
  sumPct : Bool := false
  sumSquares : Bool := false
  sumSquaresPct : Bool := false
  deriving DecidableEq, Repr

/-! model switches between the code that exists and the repaired code -/
namespace Switch
/-- D4: `false` = pinned tree (`cumulativeValues[n-numInThreshold-1]` unguarded);
`true` = repaired (`0` is subtracted when `n-numInThreshold-1 < 0`).  **Flip this line after the fix.** -/
def d4Fixed : Bool := true
end Switch

/-- `NewMetricAggregator(percentThresholds, …, disabled, histogramLimit)`.
Thresholds are the integers of the property's quantifier (`float64(p)`); the Go map keyed by the
threshold collapses duplicates. -/
structure AggCfg where
  pcts : List Int
  mask : Mask := {}
  limit : Nat := 0
  deriving Repr

/-! ## timers -/

/-- a histogram bucket bound: a parsed threshold or `+Inf` (`math.Inf(1)`).  A threshold that parses
to `+Inf` *is* the `+Inf` key (same Go map key). -/
inductive Bound (α : Type) where
  | fin (b : α)
  | inf
  deriving Repr

def Bound.beq {α : Type} [Num α] : Bound α → Bound α → Bool
  | .fin a, .fin b => Num.beq a b
  | .inf, .inf => true
  | _, _ => false

def mkBound {α : Type} [Num α] (b : α) : Bound α := if Num.isPosInf b then .inf else .fin b

abbrev Hist (α : Type) := List (Bound α × Nat)

/-- `gostatsd.ATimer` (Timestamp and Source play no role here). `histogram = none` is the nil map. -/
structure ATimer (α : Type) where
  count : Int
  sampledCount : α
  perSecond : α
  mean : α
  median : α
  min : α
  max : α
  stdDev : α
  sum : α
  sumSquares : α
  values : List α
  percentiles : List (List Char × α)
  tags : List Bytes
  histogram : Option (Hist α)

section
variable {α : Type} [Num α]
open Num

def zero : α := ofNat 0

/-- `NewTimer` + the accumulated `SampledCount`: what a received batch holds for one series -/
def ATimer.fresh (tags : List Bytes) (values : List α) (sampled : α) : ATimer α :=
  { count := 0, sampledCount := sampled, perSecond := zero, mean := zero, median := zero, min := zero,
    max := zero, stdDev := zero, sum := zero, sumSquares := zero, values := values, percentiles := [],
    tags := tags, histogram := none }

/-! ## histograms (latency_histogram.go) -/

def asciiBytes (s : String) : Bytes := s.toList.map (fun c => c.toNat.toUInt8)

/-- `histogramThresholdsTagPrefix`, taken from the regenerated facts -/
def histPrefix : Bytes := asciiBytes Facts.histogramThresholdsTagPrefix
/-- `histogramThresholdsSeparator` (one byte), taken from the regenerated facts -/
def histSep : UInt8 := (asciiBytes Facts.histogramThresholdsSeparator).head?.getD 95

def hasPrefix : Bytes → Bytes → Bool
  | _, [] => true
  | [], _ :: _ => false
  | a :: as, b :: bs => a == b && hasPrefix as bs

/-- `findTag(tags, prefix)`: the first tag with the prefix -/
def findTag (pre : Bytes) : List Bytes → Option Bytes
  | [] => none
  | t :: ts => if hasPrefix t pre then some t else findTag pre ts

def hasHistogramTag (tags : List Bytes) : Bool := (findTag histPrefix tags).isSome

/-- `strings.Split(s, sep)` for a one-byte separator (the empty string gives one empty item) -/
def splitOn (sep : UInt8) : Bytes → List Bytes
  | [] => [[]]
  | c :: cs =>
    if c = sep then [] :: splitOn sep cs
    else match splitOn sep cs with
      | [] => [[c]]
      | h :: t => (c :: h) :: t

/-- `retrieveThresholds`: `none` = nil (no histogram tag).  `parse` is `strconv.ParseFloat(·, 64)`
(a parameter: oracle at run time); unparsable items are skipped, then the list is cut to `limit`. -/
def retrieveThresholds (parse : Bytes → Option α) (tags : List Bytes) (limit : Nat) : Option (List α) :=
  match findTag histPrefix tags with
  | none => none
  | some tag =>
    let items := splitOn histSep (tag.drop histPrefix.length)
    let fl := items.filterMap parse
    some (fl.take (Nat.min fl.length limit))

/-- `result[b] = 0` on a Go map keyed by float64 (an existing equal key is overwritten, key included) -/
def histInsert0 (b : Bound α) : Hist α → Hist α
  | [] => [(b, 0)]
  | (b', c) :: t => if Bound.beq b' b then (b, 0) :: t else (b', c) :: histInsert0 b t

/-- `result[b] = n` -/
def histSet (b : Bound α) (n : Nat) : Hist α → Hist α
  | [] => [(b, n)]
  | (b', c) :: t => if Bound.beq b' b then (b, n) :: t else (b', c) :: histSet b n t

/-- `result[b]` -/
def histLookup (b : Bound α) : Hist α → Option Nat
  | [] => none
  | (b', c) :: t => if Bound.beq b' b then some c else histLookup b t

/-- `emptyHistogram`: `some []` is the empty non-nil map (limit 0), `none` the nil map -/
def emptyHistogram (parse : Bytes → Option α) (tags : List Bytes) (limit : Nat) : Option (Hist α) :=
  if limit = 0 then some [] else
  match retrieveThresholds parse tags limit with
  | none => none
  | some ths => some (histInsert0 .inf (ths.foldl (fun h b => histInsert0 (mkBound b) h) []))

/-- `value <= float64(latencyBucket)` -/
def leBound (v : α) : Bound α → Bool
  | .fin b => le v b
  | .inf => !isNaN v

/-- one pass of the inner loop: `for bucket := range result { if value <= bucket { result[bucket] += 1 } }` -/
def histCountValue (v : α) (h : Hist α) : Hist α :=
  h.map (fun e => if leBound v e.1 then (e.1, e.2 + 1) else e)

/-- `latencyHistogram` -/
def latencyHistogram (parse : Bytes → Option α) (tags : List Bytes) (values : List α) (limit : Nat) :
    Option (Hist α) :=
  match emptyHistogram parse tags limit with
  | none => none
  | some [] => some []
  | some (e :: h) => some (histSet .inf values.length (values.foldl (fun h v => histCountValue v h) (e :: h)))

/-! ## `Flush` for one timer -/

/-- insertion into an ascending list -/
def insertSorted (x : α) : List α → List α
  | [] => [x]
  | y :: ys => if le x y then x :: y :: ys else y :: insertSorted x ys

/-- `sort.Float64s` as *a* sort: ascending insertion sort (equal to any ascending sort on a linear
order; on doubles without NaN up to the order of `-0`/`+0`) -/
def isort : List α → List α
  | [] => []
  | x :: xs => insertSorted x (isort xs)

/-- `c[i] = f(v[i]) + c[i-1]` -/
def cumFrom (f : α → α) (acc : α) : List α → List α
  | [] => []
  | x :: xs => let a := add (f x) acc; a :: cumFrom f a xs

/-- `cumulativeValues` (`f = id`) / `cumulSumSquaresValues` (`f x = x*x`): `c[0] = f(v[0])` -/
def cumul (f : α → α) : List α → List α
  | [] => []
  | x :: xs => f x :: cumFrom f (f x) xs

def sq (x : α) : α := mul x x

def half : α := div (ofNat 1) (ofNat 2)

/-- `round(v) = math.Floor(v + 0.5)` -/
def round (v : α) : α := floor (add v half)

/-- `int(round(math.Abs(pct) / 100 * count))` -/
def rank (α : Type) [Num α] (p : Int) (n : Nat) : Int :=
  toInt (round (mul (div (abs (ofInt p : α)) (ofNat 100)) (ofNat n)))

/-- what one threshold contributes -/
structure PctVals (α : Type) where
  k : Int
  mean : α
  sum : α
  sumSq : α
  boundary : α

/-- body of `for pct, pctStruct := range a.percentThresholds` up to the `Set` calls;
`none` = `continue`.  `fx` = repaired code for D4. -/
def pctVals (fx : Bool) (vals cum cumSq : List α) (minV maxV : α) (p : Int) : Res (Option (PctVals α)) :=
  let n := vals.length
  if n ≤ 1 then
    -- `numInThreshold := n`; sum, mean, sumSquares, boundary keep their initial values
    .ok (some { k := n, mean := minV, sum := minV, sumSq := mul minV minV, boundary := maxV })
  else
    let k := rank α p n
    if k = 0 then .ok none
    else if p > 0 then do
      let boundary ← idx .valuesUpper vals (k - 1)
      let sum ← idx .cumulUpper cum (k - 1)
      let sumSq ← idx .cumulSqUpper cumSq (k - 1)
      pure (some { k := k, mean := div sum (ofInt k), sum := sum, sumSq := sumSq, boundary := boundary })
    else do
      let boundary ← idx .valuesLower vals (n - k)
      let total ← idx .cumulTotal cum (n - 1)
      let low ← if fx && decide ((n : Int) - k - 1 < 0) then pure zero else idx .cumulLower cum (n - k - 1)
      let sum := sub total low
      let totalSq ← idx .cumulSqTotal cumSq (n - 1)
      let lowSq ← if fx && decide ((n : Int) - k - 1 < 0) then pure zero else idx .cumulSqLower cumSq (n - k - 1)
      let sumSq := sub totalSq lowSq
      pure (some { k := k, mean := div sum (ofInt k), sum := sum, sumSq := sumSq, boundary := boundary })

/-- `strings.Replace(s, ".", "_", -1)` in `Percentiles.Set` -/
def dotToUnderscore (s : List Char) : List Char := s.map (fun c => if c = '.' then '_' else c)

/-- `"count_" + strconv.Itoa(int(pct))` etc. after `Percentiles.Set`'s replacement -/
def pctName (pre : String) (p : Int) : List Char := dotToUnderscore (pre.toList ++ (toString p).toList)

/-- the six guarded `timer.Percentiles.Set(…)` calls, in source order -/
def pctEntries (m : Mask) (p : Int) (v : PctVals α) : List (List Char × α) :=
  (if !m.countPct then [(pctName "count_" p, ofInt v.k)] else []) ++
  (if !m.meanPct then [(pctName "mean_" p, v.mean)] else []) ++
  (if !m.sumPct then [(pctName "sum_" p, v.sum)] else []) ++
  (if !m.sumSquaresPct then [(pctName "sum_squares_" p, v.sumSq)] else []) ++
  (if p > 0 then (if !m.upperPct then [(pctName "upper_" p, v.boundary)] else [])
   else (if !m.lowerPct then [(pctName "lower_" p, v.boundary)] else []))

/-- the keys of the Go map `percentThresholds`: each distinct threshold once -/
def dedupInt : List Int → List Int
  | [] => []
  | p :: ps => p :: (dedupInt ps).filter (fun q => q != p)

/-- the whole percentile loop, the numbers: per distinct threshold what `pctVals` gives (in the model: in
first-occurrence order; Go iterates a map, so the order of the appended entries is arbitrary and outputs
are compared sorted by name).  A panic for any threshold is a panic of the flush. -/
def pctValsLoop (fx : Bool) (vals cum cumSq : List α) (minV maxV : α) : List Int → Res (List (Int × Option (PctVals α)))
  | [] => .ok []
  | p :: ps => do
    let v ← pctVals fx vals cum cumSq minV maxV p
    let rest ← pctValsLoop fx vals cum cumSq minV maxV ps
    pure ((p, v) :: rest)

/-- the `Set` calls of the loop (they cannot fail): the appended percentile entries -/
def pctTable (m : Mask) (l : List (Int × Option (PctVals α))) : List (List Char × α) :=
  l.flatMap (fun e => match e.2 with | none => [] | some v => pctEntries m e.1 v)

/-- `sumOfDiffs += (v - mean) * (v - mean)` -/
def sumOfDiffs (mean : α) (vals : List α) : α :=
  vals.foldl (fun acc x => add acc (mul (sub x mean) (sub x mean))) zero

/-- the non-histogram, `len(Values) > 0` branch of `Flush`, on the sorted values -/
def flushSorted (fx : Bool) (cfg : AggCfg) (secs : α) (t : ATimer α) (vals : List α) : Res (ATimer α) := do
  let n := vals.length
  let minV ← idx .valuesMin vals 0
  let maxV ← idx .valuesMax vals ((n : Int) - 1)
  let count : α := ofNat n
  let cum := cumul (fun x => x) vals
  let cumSq := cumul sq vals
  let pv ← pctValsLoop fx vals cum cumSq minV maxV (dedupInt cfg.pcts)
  let pcts := pctTable cfg.mask pv
  let sum ← idx .cumulTotal cum ((n : Int) - 1)
  let sumSq ← idx .cumulSqTotal cumSq ((n : Int) - 1)
  let mean := div sum count
  let sod := sumOfDiffs mean vals
  let mid := n / 2
  let median ← (if n % 2 = 0 then do
      let a ← idx .median vals ((mid : Int) - 1)
      let b ← idx .median vals mid
      pure (div (add a b) (ofNat 2))
    else idx .median vals mid)
  pure { t with
    values := vals, min := minV, max := maxV, percentiles := t.percentiles ++ pcts,
    median := median, mean := mean, stdDev := sqrt (div sod count), sum := sum, sumSquares := sumSq,
    count := toInt (round t.sampledCount), perSecond := div t.sampledCount secs }

/-- `Flush` for one timer (`secs` = `float64(flushInterval) / float64(time.Second)`) -/
def flushTimerWith (fx : Bool) (parse : Bytes → Option α) (cfg : AggCfg) (secs : α) (t : ATimer α) : Res (ATimer α) :=
  if hasHistogramTag t.tags then
    .ok { t with histogram := latencyHistogram parse t.tags t.values cfg.limit }
  else match t.values with
    | [] => .ok { t with count := 0, sampledCount := zero, perSecond := zero }
    | _ :: _ => flushSorted fx cfg secs t (isort t.values)

/-- the model of the tree as it is (see `Switch.d4Fixed`) -/
def flushTimer (parse : Bytes → Option α) (cfg : AggCfg) (secs : α) (t : ATimer α) : Res (ATimer α) :=
  flushTimerWith Switch.d4Fixed parse cfg secs t

/-- `Reset` for one (non-expired) timer: the persisted empty timer -/
def resetTimer (parse : Bytes → Option α) (cfg : AggCfg) (t : ATimer α) : ATimer α :=
  if hasHistogramTag t.tags then
    { ATimer.fresh t.tags [] zero with histogram := emptyHistogram parse t.tags cfg.limit }
  else ATimer.fresh t.tags [] zero

/-- `MergeTimer` into an existing entry -/
def aggMergeTimer (into frm : ATimer α) : ATimer α :=
  { into with values := into.values ++ frm.values, sampledCount := add into.sampledCount frm.sampledCount }

/-! ## the aggregator as a state machine (timers only: counters, gauges and sets have no partial
operation in `Flush`/`Reset`) -/

abbrev AKey := String
abbrev AggSt (α : Type) := AList AKey (ATimer α)

/-- `ReceiveMap`: merge a batch, series by series -/
def AggSt.merge (s : AggSt α) (batch : List (AKey × ATimer α)) : AggSt α :=
  batch.foldl (fun s e => AList.upsert e.1 (fun o => match o with
    | some into => aggMergeTimer into e.2
    | none => e.2) s) s

/-- `Flush` over all timers (a panic anywhere is a panic of the flush) -/
def AggSt.flushWith (fx : Bool) (parse : Bytes → Option α) (cfg : AggCfg) (secs : α) : AggSt α → Res (AggSt α)
  | [] => .ok []
  | (k, t) :: rest => do
    let t' ← flushTimerWith fx parse cfg secs t
    let rest' ← AggSt.flushWith fx parse cfg secs rest
    pure ((k, t') :: rest')

/-- `Reset`: expired series (`expired`: decided by the clock, a parameter) are deleted, the others persist empty -/
def AggSt.reset (parse : Bytes → Option α) (cfg : AggCfg) (expired : List AKey) (s : AggSt α) : AggSt α :=
  (s.filter (fun e => !expired.contains e.1)).map (fun e => (e.1, resetTimer parse cfg e.2))

inductive Op (α : Type) where
  /-- `ReceiveMap(batch)`: per series the tags, the values and the sampled count of the batch -/
  | merge (batch : List (AKey × List Bytes × List α × α))
  /-- `Flush(interval)`, `Process` (the view), `Reset` (with the series the clock expires) -/
  | flush (secs : α) (expired : List AKey)

/-- one step: new state and, for a flush, the view handed to the backends -/
def AggSt.stepWith (fx : Bool) (parse : Bytes → Option α) (cfg : AggCfg) (s : AggSt α) : Op α → Res (AggSt α × Option (AggSt α))
  | .merge batch => .ok (s.merge (batch.map (fun e => (e.1, ATimer.fresh e.2.1 e.2.2.1 e.2.2.2))), none)
  | .flush secs expired => do
    let view ← AggSt.flushWith fx parse cfg secs s
    pure (AggSt.reset parse cfg expired view, some view)

/-- run a history; the views of all flushes, oldest first -/
def AggSt.runWith (fx : Bool) (parse : Bytes → Option α) (cfg : AggCfg) : AggSt α → List (Op α) → Res (AggSt α × List (AggSt α))
  | s, [] => .ok (s, [])
  | s, op :: ops => do
    let r ← AggSt.stepWith fx parse cfg s op
    let r2 ← AggSt.runWith fx parse cfg r.1 ops
    pure (r2.1, (match r.2 with | some v => [v] | none => []) ++ r2.2)

end
end Gsd
